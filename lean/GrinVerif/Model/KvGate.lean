import GrinVerif.Model.TxCount
/-! # The SHAPE of the resize gate of `store/src/lmdb.rs`, and what a shape means (import-free)

Rust anchors: `Store::enter_tx` (the wait of a new transaction while `resizing` is set),
the waiter closure `thread::spawn(move || { loop { … } env.resize(..) … })` of
`Store::maybe_resize`, `Store::batch`, and the functions that open an LMDB transaction of their
own: `Store::get_ser`, `Store::exists`, `Store::iter`, `Batch::new`.

`tools/gen_kvgate.py` reads these functions on every check run and writes what it finds as VALUES
of the types below into `Gen/KvGate.lean` (data only).  This file gives such a value a meaning:

* a `WaitLoop` is a poll loop: per iteration the exits are tried in source order, the first one
  whose guard holds leaves the loop, otherwise the thread sleeps and polls again (`pollRun`);
  a loop that is not `loop { }` may also end by its own condition (`fellThrough`);
* a `Site` is a function that takes the gate and opens an LMDB transaction; its program is the
  order of those two steps (`Site.prog`).

`Props/C18.lean` states, against the GENERATED values, the obligations under which the transition
systems the other C18 theorems talk about (`GV.TxCount`, `GV.Kv.Gate`) ARE the code's gate:
no exit of the wait other than "resize done or nested", no bound on the wait, gate before
transaction at every site, the result of `enter_tx` never discarded with `?`.

What the types can express and the extractor's reading rules are described in the header of
`tools/gen_kvgate.py`; anything it does not recognise becomes `.other` and no obligation about it
can be discharged (fail closed). -/
namespace GV.KvGate

/-- return type of `enter_tx` -/
inductive RetKind
  /-- `-> TxCounter`: the call cannot report a failure -/
  | txCounter
  /-- `-> Result<…>` -/
  | result
  /-- `-> Option<…>` -/
  | option
  | other
deriving DecidableEq, Repr

inductive LoopKind
  /-- `loop { … }` -/
  | forever
  /-- `while cond { … }` / `while let … { … }` -/
  | whileCond
  /-- `for … in … { … }` -/
  | forRange
  /-- no loop found where one was expected -/
  | missing
  | other
deriving DecidableEq, Repr

/-- the conditions the extractor recognises in the guard of an exit -/
inductive Atom
  /-- `!state.resizing.load(..)` -/
  | notResizing
  /-- `THREAD_TX_COUNTS[env] > 0` of the calling thread (`nested_tx`) -/
  | threadNested
  /-- `open_txs_count.load(..) == 0` -/
  | countZero
  /-- anything else (a clock comparison, a retry counter, a parameter, …) -/
  | other
deriving DecidableEq, Repr

inductive ExitKind
  /-- `return TxCounter { .. }` / `return Ok(..)`: the caller goes on with its transaction -/
  | pass
  /-- `return Err(..)` -/
  | err
  /-- `break` out of the wait loop -/
  | breakOut
  /-- a `?` inside the wait -/
  | question
  /-- `panic!` / `unreachable!` / `assert!` … inside the wait -/
  | panic
  | other
deriving DecidableEq, Repr

/-- one way out of a wait loop: what happens and under which condition (a DISJUNCTION of atoms;
`[]` = unconditional) -/
structure Exit where
  kind : ExitKind
  guard : List Atom
deriving DecidableEq, Repr

/-- the bookkeeping statements the extractor recognises -/
inductive Effect
  /-- `open_txs_count.fetch_add(1, ..)` -/
  | incGlobal
  /-- `THREAD_TX_COUNTS[env] += 1` -/
  | incThread
  /-- `set_resizing(true)` -/
  | setResizing
  /-- `env.resize(new_size)` -/
  | resize
  /-- `resizing.store(false)` / `set_resizing(false)` -/
  | clearResizing
  /-- `resize_checking.store(false)` / `finish_resize_checking()` -/
  | clearChecking
  | other
deriving DecidableEq, Repr

/-- a poll loop as read off the source -/
structure WaitLoop where
  loop : LoopKind
  /-- the exits found inside the loop, in source order -/
  exits : List Exit
  /-- literal arguments of `thread::sleep(Duration::from_millis(N))` inside the loop -/
  sleepMs : List Nat
  /-- other blocking calls inside the loop (`wait`, `wait_timeout`, `park`, `recv…`, `yield_now`) -/
  otherWaits : Nat
  /-- identifiers that smell of a clock or a budget anywhere in the function (`Instant`, `elapsed`,
      `…timeout…`, `deadline`, `retries`, a `Duration` outside the recognised sleep, …) -/
  timeRefs : List String
  /-- statements of the function before the loop (a counter would be declared here) -/
  pre : Nat
  /-- recognised statements after the loop, in order -/
  post : List Effect
  /-- the method each `.unwrap()` / `.expect(..)` in the function is applied to -/
  unwraps : List String
  /-- the `ENV_MAP` guard is dropped before the sleep -/
  lockReleasedBeforeSleep : Bool
deriving DecidableEq, Repr

/-- `fn enter_tx` -/
structure EnterShape where
  /-- parameters besides `&self` (a mode flag would show here) -/
  params : Nat
  ret : RetKind
  wait : WaitLoop
  /-- what the passing branch does before it returns -/
  passEffects : List Effect
deriving DecidableEq, Repr

inductive DeferCond
  /-- `self.open_txs_count() != 0` -/
  | countNonZero
  | other
deriving DecidableEq, Repr

/-- `fn maybe_resize` after the decision, and `fn batch` -/
structure ResizeShape where
  /-- `set_resizing(true)` precedes the branch on open transactions -/
  setResizingFirst : Bool
  /-- the condition under which the resize is handed to the waiter thread -/
  deferCond : DeferCond
  /-- the closure of `thread::spawn` in the deferred branch -/
  waiter : WaitLoop
  /-- the immediate branch -/
  immediate : List Effect
  /-- `Store::batch`: `self.maybe_resize(); Batch::new(self)` in this order -/
  batchChecksFirst : Bool
deriving DecidableEq, Repr

inductive TxnKind
  /-- `env.read_txn()` -/
  | read
  /-- `env.static_read_txn()` -/
  | staticRead
  /-- `env.write_txn()` -/
  | write
  | none
deriving DecidableEq, Repr

/-- a function that calls `enter_tx` and / or opens an LMDB transaction of its own on the
environment -/
structure Site where
  name : String
  /-- number of calls of `enter_tx` in the function -/
  gateCalls : Nat
  /-- the call is a statement `let <name> = <recv>.enter_tx();` of the function body itself - not
      under an `if` / `match` / closure -/
  unconditional : Bool
  /-- the call is followed by `?` -/
  question : Bool
  /-- the `TxCounter` is bound to a name (`let _ = …` would drop it at once) and not dropped early -/
  held : Bool
  txn : TxnKind
  /-- the statement with `enter_tx` comes before the statement that opens the transaction -/
  gateBeforeTxn : Bool
deriving DecidableEq, Repr

/-! ### what a wait loop does -/

/-- valuation of the atoms at one poll -/
structure Env where
  resizing : Bool
  nested : Bool
  count : Nat
  /-- value of a condition the extractor could not read: anything -/
  unknown : Bool
deriving Repr

def Atom.eval (ρ : Env) : Atom → Bool
  | .notResizing => !ρ.resizing
  | .threadNested => ρ.nested
  | .countZero => ρ.count == 0
  | .other => ρ.unknown

def guardHolds (ρ : Env) : List Atom → Bool
  | [] => true
  | a :: r => (a :: r).any (·.eval ρ)

inductive PollRes
  | exit (k : ExitKind)
  | sleep
deriving DecidableEq, Repr

/-- one iteration of the loop: the first exit whose guard holds, else sleep -/
def pollIter (ρ : Env) : List Exit → PollRes
  | [] => .sleep
  | e :: r => if guardHolds ρ e.guard then .exit e.kind else pollIter ρ r

inductive Outcome
  /-- left the loop at poll `i` through an exit of kind `k` -/
  | left (i : Nat) (k : ExitKind)
  /-- still polling after all the polls looked at -/
  | waiting
  /-- a bounded loop ran out before poll `i` -/
  | fellThrough (i : Nat)
deriving DecidableEq, Repr

/-- `n` polls starting with poll number `i`.  `ρs j` = the valuation poll `j` finds (the other
threads do what they like in between); `ends j` = the loop's own condition ends it before poll `j`
(consulted only when the loop is not `loop { }`). -/
def pollRun (w : WaitLoop) (ρs : Nat → Env) (ends : Nat → Bool) : Nat → Nat → Outcome
  | 0, _ => .waiting
  | n+1, i =>
    if w.loop != .forever && ends i then .fellThrough i
    else match pollIter (ρs i) w.exits with
      | .exit k => .left i k
      | .sleep => pollRun w ρs ends n (i + 1)

/-- the exits `enter_tx` must have: one, passing, when no resize is pending or the thread is
already inside a transaction -/
def enterExits : List Exit := [{ kind := .pass, guard := [.notResizing, .threadNested] }]

/-- the exits the waiter's loop must have: one `break` when no transaction is open -/
def waiterExits : List Exit := [{ kind := .breakOut, guard := [.countZero] }]

/-- everything the obligations demand of `enter_tx` -/
def EnterShape.Ok (e : EnterShape) : Prop :=
  e.params = 0 ∧ e.ret = .txCounter ∧ e.wait.loop = .forever ∧ e.wait.exits = enterExits ∧
  e.wait.timeRefs = [] ∧ e.wait.pre = 0 ∧ e.wait.post = [] ∧ e.wait.otherWaits = 0 ∧
  e.wait.sleepMs ≠ [] ∧ e.wait.lockReleasedBeforeSleep = true ∧
  e.wait.unwraps = ["get", "get_mut"] ∧ e.passEffects = [.incGlobal, .incThread]

instance (e : EnterShape) : Decidable e.Ok := by unfold EnterShape.Ok; exact inferInstance

/-- … of `maybe_resize` / `batch` -/
def ResizeShape.Ok (r : ResizeShape) : Prop :=
  r.setResizingFirst = true ∧ r.deferCond = .countNonZero ∧ r.waiter.loop = .forever ∧
  r.waiter.exits = waiterExits ∧ r.waiter.timeRefs = [] ∧ r.waiter.pre = 0 ∧
  r.waiter.post = [.resize, .clearResizing, .clearChecking] ∧ r.waiter.otherWaits = 0 ∧
  r.waiter.sleepMs ≠ [] ∧ r.immediate = [.resize, .clearResizing, .clearChecking] ∧
  r.batchChecksFirst = true

instance (r : ResizeShape) : Decidable r.Ok := by unfold ResizeShape.Ok; exact inferInstance

/-! ### the registry of environments (`ENV_MAP`) as read from the source -/

/-- who creates, registers and writes the per-environment gate state (`tools/gen_kvgate.py`
`extract_registry`); function names are `Impl::fn` -/
structure RegistryShape where
  /-- functions holding an `EnvState { .. }` literal -/
  stateLiterals : List String
  /-- functions that `.insert(` into a map of environments -/
  inserts : List String
  /-- `let has_env = .. contains_key(&full_path) ..` in `Store::new` -/
  hasEnvIsContainsKey : Bool
  /-- literal and insert sit inside `if !has_env { .. }` and nowhere else in `Store::new` -/
  initUnderNotHasEnv : Bool
  /-- which of `open_txs_count, resizing, resize_checking, stores_count, insert, remove, EnvState,
  clear, env` the `else` branch (environment already registered) mentions -/
  elseTouches : List String
  /-- functions writing `open_txs_count` / `resizing` / `resize_checking` -/
  countWriters : List String
  resizingWriters : List String
  checkingWriters : List String
deriving DecidableEq, Repr

/-- the registry the models assume (`Model/KvResize.lean` `storeNewEnv`): an `EnvState` is created
and registered only by the first `Store::new` of a root; a further `Store::new` touches
`stores_count` only; the counter is written by `enter_tx` and `TxCounter::drop` alone, `resizing`
by `set_resizing` and the waiter in `maybe_resize`, `resize_checking` by its two accessors and the
waiter -/
def RegistryShape.Ok (r : RegistryShape) : Prop :=
  r.stateLiterals = ["Store::new"] ∧ r.inserts = ["Store::new"] ∧
  r.hasEnvIsContainsKey = true ∧ r.initUnderNotHasEnv = true ∧
  r.elseTouches = ["stores_count"] ∧
  r.countWriters = ["Store::enter_tx", "TxCounter::drop"] ∧
  r.resizingWriters = ["Store::set_resizing", "Store::maybe_resize"] ∧
  r.checkingWriters = ["Store::start_resize_checking", "Store::finish_resize_checking", "Store::maybe_resize"]

instance (r : RegistryShape) : Decidable r.Ok := by unfold RegistryShape.Ok; exact inferInstance

/-- … of a function that opens a transaction of its own -/
def Site.Ok (s : Site) : Prop :=
  s.gateCalls = 1 ∧ s.unconditional = true ∧ s.question = false ∧ s.held = true ∧
  s.txn ≠ .none ∧ s.gateBeforeTxn = true

instance (s : Site) : Decidable s.Ok := by unfold Site.Ok; exact inferInstance

/-- valuation a thread `t` polling `enter_tx` finds in state `s` of the counter protocol -/
def envOf (s : TxCount.St) (t : Nat) (unknown : Bool) : Env :=
  { resizing := s.resizing, nested := decide (TxCount.depth s t > 0), count := s.counter, unknown := unknown }

/-! ### what a site does: gate and LMDB transaction, in the order of the source

`counted` = this thread's `TxCounter`s alive, `live` = its LMDB transactions alive.  `env.resize`
is legal only when NO transaction is live in the process (`mdb_env_set_mapsize` answers `EINVAL`
while a write transaction is active and remaps the file under the feet of a live reader); the
resizer can only see the counters. -/
inductive LAct
  /-- `enter_tx` returned -/
  | gate
  /-- `env.read_txn()` / `static_read_txn()` / `write_txn()` returned -/
  | txnBegin
  /-- the transaction is committed / aborted / dropped -/
  | txnEnd
  /-- the `TxCounter` is dropped -/
  | ungate
deriving DecidableEq, Repr

structure Lt where
  counted : Nat := 0
  live : Nat := 0
deriving DecidableEq, Repr

def lstep (s : Lt) : LAct → Lt
  | .gate => { s with counted := s.counted + 1 }
  | .txnBegin => { s with live := s.live + 1 }
  | .txnEnd => { s with live := s.live - 1 }
  | .ungate => { s with counted := s.counted - 1 }

/-- the steps of one operation at a site, from its source order.  The end is the same either way
(the transaction goes before the counter: inner block in `get_ser` / `exists`, field order in
`Batch` and `DatabaseIterator`); what the order of the source decides is the BEGINNING. -/
def Site.prog (s : Site) : List LAct :=
  if s.txn = .none then (if s.gateCalls = 0 then [] else [.gate, .ungate])
  else if s.gateCalls = 0 then [.txnBegin, .txnEnd]
  else if s.gateBeforeTxn then [.gate, .txnBegin, .txnEnd, .ungate]
  else [.txnBegin, .gate, .txnEnd, .ungate]

/-- every live transaction is covered by a counter, now and at every later step of the program -/
def coveredFrom : Lt → List LAct → Bool
  | s, [] => decide (s.live ≤ s.counted)
  | s, a :: r => decide (s.live ≤ s.counted) && coveredFrom (lstep s a) r

/-- several threads, each somewhere inside a program -/
structure LThread where
  st : Lt := {}
  todo : List LAct := []
deriving DecidableEq, Repr

/-- thread `t` takes the next step of its program; a thread with nothing to do starts `next` -/
def lsched (ths : List LThread) (t : Nat) (next : List LAct) : List LThread :=
  match ths[t]? with
  | none => ths
  | some th =>
    match th.todo with
    | a :: r => ths.set t { st := lstep th.st a, todo := r }
    | [] => match next with
      | a :: r => ths.set t { st := lstep th.st a, todo := r }
      | [] => ths

def countedSum (ths : List LThread) : Nat := (ths.map (·.st.counted)).sum
def liveSum (ths : List LThread) : Nat := (ths.map (·.st.live)).sum

/-! ### the result of a store operation issued at the gate -/

inductive OpRes (α : Type)
  | ok (v : α)
  | err
  | blocked
deriving DecidableEq, Repr

/-- a plain-store operation whose sequential answer is `v`, issued by a thread whose polls find
`ρs`, looked at for `n` polls -/
def storeOp {α : Type} (e : EnterShape) (ρs : Nat → Env) (ends : Nat → Bool) (n : Nat) (v : α) : OpRes α :=
  match pollRun e.wait ρs ends n 0 with
  | .left _ .pass => .ok v
  | .left _ _ => .err
  | .fellThrough _ => .err
  | .waiting => .blocked

/-- driver token for run `slowreader`: an operation issued by a thread with (`nested`) / without a
transaction of its own, while a resize is (`pending`) / is not pending, observed until the resize is
done.  `ok` = it returns its sequential answer; second component: whether it had to wait. -/
def gateOpOutcome (exits : List Exit) (nested pending : Bool) : String × String :=
  let ρ0 : Env := { resizing := pending, nested := nested, count := 1, unknown := false }
  let ρ1 : Env := { resizing := false, nested := nested, count := 0, unknown := false }
  let w : WaitLoop := { loop := .forever, exits := exits, sleepMs := [10], otherWaits := 0, timeRefs := [],
                        pre := 0, post := [], unwraps := [], lockReleasedBeforeSleep := true }
  match pollRun w (fun j => if j = 0 then ρ0 else ρ1) (fun _ => false) 2 0 with
  | .left 0 .pass => ("ok", "direct")
  | .left _ .pass => ("ok", "blocked")
  | .left _ _ => ("err", "failed")
  | _ => ("err", "stuck")

end GV.KvGate
