import GrinVerif.Model.SerSeg
import GrinVerif.Gen.Msg
/-! # Codecs of the handshake and sync messages (`p2p/src/msg.rs`, `p2p/src/types.rs`)

`MsgHeader` / `MsgHeaderWrapper`, `Hand`, `Shake`, `Ping`, `Pong`, `GetPeerAddrs`, `PeerAddrs`,
`PeerAddr`, `PeerError`, `Locator`, `Headers` (writer only: there is no `Readable for Headers`, the
codec streams it — C19), `BanReason`, `TxHashSetRequest`, `TxHashSetArchive`, `SegmentRequest`,
`SegmentResponse<T>`, `OutputSegmentResponse`, `OutputBitmapSegmentResponse`, `Capabilities`
(`from_bits_truncate`). Plain `Parser`s over a byte slice (`BinReader`), the same layer as the other
C10 codecs; the instrumented (allocation / panic) reading of the same functions is `Model/Msg.lean`
(C11/C19) and is not used here. Discriminants, limits and magic bytes come from `Gen/Msg.lean` and
`Gen/Consts.lean`. -/
namespace GV.SerMsg
open GV GV.Ser GV.SerSeg GV.Gen.Msg

/-! ## MsgHeader -/

/-- what the thread-local `global` state contributes to `MsgHeaderWrapper::read` -/
structure NetCfg where
  /-- `magic()` -/
  magic : Nat × Nat
  /-- `global::max_block_weight()` -/
  mbw : Nat

/-- `Type::from_u8(t).is_some()` -/
def isKnownType (t : Nat) : Bool := typeTable.any fun p => p.2 == t

inductive HdrW
  /-- `Known(MsgHeader { msg_type, msg_len, .. })` -/
  | known (t len : Nat)
  /-- `Unknown(msg_len, type_byte)` -/
  | unknown (len t : Nat)
deriving DecidableEq, Repr

/-- `Writeable for MsgHeader` -/
def encMsgHeader (c : NetCfg) (t len : Nat) : Bytes :=
  writeU8 c.magic.1 ++ writeU8 c.magic.2 ++ writeU8 t ++ writeU64 len

/-- the limit `MsgHeaderWrapper::read` applies to `msg_len` for type byte `t` -/
def maxLen (c : NetCfg) (t : Nat) : Nat :=
  if isKnownType t then maxMsgSize c.mbw t * KNOWN_LEN_FACTOR
  else defaultMaxMsgSize c.mbw * UNKNOWN_LEN_FACTOR

/-- `Readable for MsgHeaderWrapper` -/
def decMsgHeader (c : NetCfg) : Parser HdrW := fun bs =>
  andThen (expectU8 c.magic.1 bs) fun _ r =>
  andThen (expectU8 c.magic.2 r) fun _ r =>
  andThen (readU8 r) fun t r =>
  andThen (readU64 r) fun len r =>
    if len > maxLen c t then .error .tooLarge
    else if isKnownType t then .ok (.known t len, r)
    else .ok (.unknown len t, r)

/-! ## PeerAddr (`p2p/src/types.rs`) -/

inductive PeerAddr
  /-- `SocketAddr::V4`: 4 octets, port -/
  | v4 (ip : Bytes) (port : Nat)
  /-- `SocketAddr::V6`: 8 segments, port, flowinfo, scope id (the last two are not written) -/
  | v6 (segs : List Nat) (port flowinfo scopeId : Nat)
deriving DecidableEq, Repr

/-- `Writeable for PeerAddr` -/
def encPeerAddr : PeerAddr → Bytes
  | .v4 ip port => writeU8 0 ++ writeFixed ip ++ writeU16 port
  | .v6 segs port _ _ => writeU8 1 ++ writeMulti writeU16 segs ++ writeU16 port

/-- `Ipv6Addr::to_ipv4_mapped()`: `Some` for `::ffff:a.b.c.d` only (IPv4-compatible addresses such
as `::1`, `::`, `::10.0.0.1` stay V6) -/
def toIpv4 (segs : List Nat) : Option Bytes :=
  match segs with
  | [0, 0, 0, 0, 0, 0xffff, ab, cd] => some [ab / 256, ab % 256, cd / 256, cd % 256]
  | _ => none

/-- what the V6 arm of `PeerAddr::read` returns -/
def v6Result (segs : List Nat) (port : Nat) : PeerAddr :=
  match toIpv4 segs with
  | some ip => .v4 ip port
  | none => .v6 segs port 0 0

/-- `Readable for PeerAddr`: tag 0 is V4, tag 1 is V6, every other tag is refused -/
def decPeerAddr : Parser PeerAddr := fun bs =>
  andThen (readU8 bs) fun tag r =>
    if tag = 0 then
      andThen (readFixed 4 r) fun ip r =>
      andThen (readU16 r) fun port r =>
      .ok (.v4 ip port, r)
    else if tag = 1 then
      andThen (readItems readU16 8 r) fun segs r =>
      andThen (readU16 r) fun port r =>
      .ok (v6Result segs port, r)
    else .error .corrupted

/-! ## strings (`write_bytes(&String)`, `read_bytes_len_prefix` + `String::from_utf8`) -/

def cont (b : Nat) : Bool := 0x80 ≤ b && b ≤ 0xBF

/-- well-formed UTF-8 (Unicode table 3-7), what `String::from_utf8` accepts -/
def validUtf8 : Bytes → Bool
  | [] => true
  | b0 :: r =>
    if b0 < 0x80 then validUtf8 r
    else if 0xC2 ≤ b0 ∧ b0 ≤ 0xDF then
      match r with
      | b1 :: r => cont b1 && validUtf8 r
      | _ => false
    else if 0xE0 ≤ b0 ∧ b0 ≤ 0xEF then
      match r with
      | b1 :: b2 :: r =>
        (if b0 = 0xE0 then 0xA0 ≤ b1 && b1 ≤ 0xBF
         else if b0 = 0xED then 0x80 ≤ b1 && b1 ≤ 0x9F
         else cont b1) && cont b2 && validUtf8 r
      | _ => false
    else if 0xF0 ≤ b0 ∧ b0 ≤ 0xF4 then
      match r with
      | b1 :: b2 :: b3 :: r =>
        (if b0 = 0xF0 then 0x90 ≤ b1 && b1 ≤ 0xBF
         else if b0 = 0xF4 then 0x80 ≤ b1 && b1 ≤ 0x8F
         else cont b1) && cont b2 && cont b3 && validUtf8 r
      | _ => false
    else false

/-- a `String` field: length-prefixed bytes, refused (`CorruptedData`) unless valid UTF-8 -/
def decString : Parser Bytes := fun bs =>
  andThen (readBytesLenPrefix bs) fun s r =>
    if validUtf8 s then .ok (s, r) else .error .corrupted

/-! ## Capabilities -/

/-- `Capabilities::from_bits_truncate`: bits outside the defined flags are dropped -/
def capsTruncate (bits : Nat) : Nat := bits &&& CAPABILITIES_ALL

/-! ## Hand / Shake -/

structure Hand where
  /-- `ProtocolVersion(u32)` -/
  version : Nat
  /-- `Capabilities::bits()` -/
  capabilities : Nat
  nonce : Nat
  genesis : Bytes
  totalDifficulty : Nat
  senderAddr : PeerAddr
  receiverAddr : PeerAddr
  /-- the UTF-8 bytes of `user_agent` -/
  userAgent : Bytes
deriving DecidableEq, Repr

def encHand (h : Hand) : Bytes :=
  writeU32 h.version ++ writeU32 h.capabilities ++ writeU64 h.nonce ++ writeU64 h.totalDifficulty
  ++ encPeerAddr h.senderAddr ++ encPeerAddr h.receiverAddr ++ writeBytes h.userAgent
  ++ writeFixed h.genesis

def decHand : Parser Hand := fun bs =>
  andThen (readU32 bs) fun version r =>
  andThen (readU32 r) fun capab r =>
  andThen (readU64 r) fun nonce r =>
  andThen (readU64 r) fun td r =>
  andThen (decPeerAddr r) fun sender r =>
  andThen (decPeerAddr r) fun receiver r =>
  andThen (decString r) fun ua r =>
  andThen (decHash r) fun genesis r =>
  .ok ({ version := version, capabilities := capsTruncate capab, nonce := nonce, genesis := genesis,
         totalDifficulty := td, senderAddr := sender, receiverAddr := receiver, userAgent := ua }, r)

structure Shake where
  version : Nat
  capabilities : Nat
  genesis : Bytes
  totalDifficulty : Nat
  userAgent : Bytes
deriving DecidableEq, Repr

def encShake (s : Shake) : Bytes :=
  writeU32 s.version ++ writeU32 s.capabilities ++ writeU64 s.totalDifficulty
  ++ writeBytes s.userAgent ++ writeFixed s.genesis

def decShake : Parser Shake := fun bs =>
  andThen (readU32 bs) fun version r =>
  andThen (readU32 r) fun capab r =>
  andThen (readU64 r) fun td r =>
  andThen (decString r) fun ua r =>
  andThen (decHash r) fun genesis r =>
  .ok ({ version := version, capabilities := capsTruncate capab, genesis := genesis,
         totalDifficulty := td, userAgent := ua }, r)

/-! ## Ping / Pong (identical layout) -/

structure PingPong where
  totalDifficulty : Nat
  height : Nat
deriving DecidableEq, Repr

def encPingPong (p : PingPong) : Bytes := writeU64 p.totalDifficulty ++ writeU64 p.height

def decPingPong : Parser PingPong := fun bs =>
  andThen (readU64 bs) fun td r =>
  andThen (readU64 r) fun h r =>
  .ok ({ totalDifficulty := td, height := h }, r)

/-! ## GetPeerAddrs / PeerAddrs -/

def encGetPeerAddrs (caps : Nat) : Bytes := writeU32 caps

def decGetPeerAddrs : Parser Nat := fun bs =>
  andThen (readU32 bs) fun capab r => .ok (capsTruncate capab, r)

/-- `Writeable for PeerAddrs` (`peers.len() as u32`) -/
def encPeerAddrs (ps : List PeerAddr) : Bytes := writeU32 ps.length ++ writeMulti encPeerAddr ps

/-- `Readable for PeerAddrs`: count over `MAX_PEER_ADDRS` refused -/
def decPeerAddrs : Parser (List PeerAddr) := fun bs =>
  andThen (readU32 bs) fun count r =>
    if count > GV.Gen.MAX_PEER_ADDRS then .error .tooLarge
    else if count = 0 then .ok ([], r)
    else readItems decPeerAddr count r

/-! ## PeerError -/

structure PeerError where
  code : Nat
  message : Bytes
deriving DecidableEq, Repr

def encPeerError (e : PeerError) : Bytes := writeU32 e.code ++ writeBytes e.message

def decPeerError : Parser PeerError := fun bs =>
  andThen (readU32 bs) fun code r =>
  andThen (decString r) fun m r =>
  .ok ({ code := code, message := m }, r)

/-! ## Locator / Headers -/

/-- `Writeable for Locator` (`hashes.len() as u8`: the count is truncated to 8 bits) -/
def encLocator (hs : List Bytes) : Bytes := writeU8 (hs.length % 256) ++ writeMulti writeFixed hs

/-- `Readable for Locator`: `len > MAX_LOCATORS as u8` refused -/
def decLocator : Parser (List Bytes) := fun bs =>
  andThen (readU8 bs) fun len r =>
    if len > GV.Gen.MAX_LOCATORS % 256 then .error .tooLarge
    else readItems decHash len r

/-- `Writeable for Headers` (`headers.len() as u16`), `hw` = `BlockHeader::write` -/
def encHeaders {α : Type} (hw : α → Bytes) (hs : List α) : Bytes :=
  writeU16 (hs.length % 65536) ++ writeMulti hw hs

/-! ## BanReason -/

/-- `read_i32`'s reinterpretation of the four bytes -/
def toI32 (u : Nat) : Int := if u < 2^31 then (u : Int) else (u : Int) - 2^32

/-- `ReasonForBan::from_i32` (discriminants from `Gen/Msg.lean`) -/
def reasonOfI32 (v : Int) : Option Nat :=
  if 0 ≤ v ∧ banReasons.contains v.toNat then some v.toNat else none

/-- `Writeable for BanReason`: the discriminant as `i32` -/
def encBanReason (r : Nat) : Bytes := writeU32 r

/-- `Readable for BanReason`: **a failed `read_i32` is replaced by 0** (`ReasonForBan::None`);
`read_exact` on a byte slice that is too short consumes what is left of it. -/
def decBanReason : Parser Nat := fun bs =>
  match readU32 bs with
  | .ok (u, r) =>
    (match reasonOfI32 (toI32 u) with
     | some x => .ok (x, r)
     | none => .error .corrupted)
  | .error _ =>
    (match reasonOfI32 0 with
     | some x => .ok (x, [])
     | none => .error .corrupted)

/-! ## TxHashSetRequest / TxHashSetArchive -/

structure TxHashSetRequest where
  hash : Bytes
  height : Nat
deriving DecidableEq, Repr

def encTxHashSetRequest (t : TxHashSetRequest) : Bytes := writeFixed t.hash ++ writeU64 t.height

def decTxHashSetRequest : Parser TxHashSetRequest := fun bs =>
  andThen (decHash bs) fun h r =>
  andThen (readU64 r) fun height r =>
  .ok ({ hash := h, height := height }, r)

structure TxHashSetArchive where
  hash : Bytes
  height : Nat
  bytes : Nat
deriving DecidableEq, Repr

def encTxHashSetArchive (t : TxHashSetArchive) : Bytes :=
  writeFixed t.hash ++ writeU64 t.height ++ writeU64 t.bytes

def decTxHashSetArchive : Parser TxHashSetArchive := fun bs =>
  andThen (decHash bs) fun h r =>
  andThen (readU64 r) fun height r =>
  andThen (readU64 r) fun bytes r =>
  .ok ({ hash := h, height := height, bytes := bytes }, r)

/-! ## segment requests and responses -/

structure SegmentRequest where
  blockHash : Bytes
  id : SegId
deriving DecidableEq, Repr

def encSegmentRequest (s : SegmentRequest) : Bytes := writeFixed s.blockHash ++ encSegId s.id

def decSegmentRequest : Parser SegmentRequest := fun bs =>
  andThen (decHash bs) fun h r =>
  andThen (decSegId r) fun id r =>
  .ok ({ blockHash := h, id := id }, r)

structure SegmentResponse (α : Type) where
  blockHash : Bytes
  segment : Segment α
deriving DecidableEq, Repr

def encSegmentResponse {α : Type} (w : α → Bytes) (s : SegmentResponse α) : Bytes :=
  writeFixed s.blockHash ++ encSegment w s.segment

def decSegmentResponse {α : Type} (p : Parser α) : Parser (SegmentResponse α) := fun bs =>
  andThen (decHash bs) fun h r =>
  andThen (decSegment p r) fun s r =>
  .ok ({ blockHash := h, segment := s }, r)

structure OutputSegmentResponse where
  response : SegmentResponse OutputId
  outputBitmapRoot : Bytes
deriving DecidableEq, Repr

def encOutputSegmentResponse (s : OutputSegmentResponse) : Bytes :=
  encSegmentResponse encOutputId s.response ++ writeFixed s.outputBitmapRoot

def decOutputSegmentResponse : Parser OutputSegmentResponse := fun bs =>
  andThen (decSegmentResponse decOutputId bs) fun resp r =>
  andThen (decHash r) fun root r =>
  .ok ({ response := resp, outputBitmapRoot := root }, r)

structure OutputBitmapSegmentResponse where
  blockHash : Bytes
  segment : BitmapSegment
  outputRoot : Bytes
deriving DecidableEq, Repr

def encOutputBitmapSegmentResponse (s : OutputBitmapSegmentResponse) : Bytes :=
  writeFixed s.blockHash ++ encBitmapSegment s.segment ++ writeFixed s.outputRoot

def decOutputBitmapSegmentResponse : Parser OutputBitmapSegmentResponse := fun bs =>
  andThen (decHash bs) fun h r =>
  andThen (decBitmapSegment r) fun s r =>
  andThen (decHash r) fun root r =>
  .ok ({ blockHash := h, segment := s, outputRoot := root }, r)

end GV.SerMsg
