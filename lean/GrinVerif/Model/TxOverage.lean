import GrinVerif.Model.Basic
/-! # `verify_kernel_sums` with a signed overage (C12 / C01 glue: `core/src/core/committed.rs`)

```text
TransactionBody::overage():  self.fee() as i64                       // u64 -> i64 cast: wraps from 2^63 on
sum_commitments(overage):    if overage != 0 {
                                 let abs = overage.checked_abs().ok_or(Error::InvalidValue)? as u64;
                                 if overage < 0 { inputs.push(abs·H) } else { outputs.push(abs·H) } }
                             sum_commits(outputs, inputs)
verify_kernel_sums:          utxo_sum == kernel_sum + offset·G   else KernelSumMismatch
```

On openings (DESIGN §2.3) the comparison splits into the blinding part (`Model/Keys.lean`,
`txBalances`) and the VALUE part modelled here: Σ outputs (+ |overage| if positive) = Σ inputs
(+ |overage| if negative), as natural numbers — the value sums stay far below the group order
(u64 values; stated assumption of C12 / C20).  Import-free. -/
namespace GV.Tx

/-- `x as i64` for a `u64` -/
def asI64 (x : Nat) : Int := if x % 2^64 < 2^63 then ((x % 2^64 : Nat) : Int) else ((x % 2^64 : Nat) : Int) - 2^64

/-- outcome of the value part of `verify_kernel_sums` -/
inductive KSum
  | ok
  /-- `Error::InvalidValue`: `checked_abs` of `i64::MIN` -/
  | invalidValue
  /-- `Error::KernelSumMismatch` -/
  | mismatch
  deriving DecidableEq, Repr

/-- the value part of `verify_kernel_sums(overage, _)` for a body whose inputs / outputs carry the
value sums `sumIn` / `sumOut` -/
def kernelSumsValues (sumIn sumOut : Nat) (overage : Int) : KSum :=
  if overage = 0 then (if sumOut = sumIn then .ok else .mismatch)
  else if overage = -(2^63 : Int) then .invalidValue
  else if overage < 0 then (if sumOut = sumIn + overage.natAbs then .ok else .mismatch)
  else (if sumOut + overage.natAbs = sumIn then .ok else .mismatch)

/-- `Transaction::verify_kernel_sums(self.overage(), ..)`: the overage is the fee cast to `i64` -/
def txKernelSumsValues (sumIn sumOut fee : Nat) : KSum := kernelSumsValues sumIn sumOut (asI64 fee)

def KSum.show : KSum → String
  | .ok => "ok"
  | .invalidValue => "err:InvalidValue"
  | .mismatch => "err:KernelSumMismatch"

end GV.Tx
