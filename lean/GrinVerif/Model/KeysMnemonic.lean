import GrinVerif.Model.KeysSha256
/-! # BIP39 bit packing of `keychain/src/mnemonic.rs` (C20: where a wallet's seed really comes from)

`from_entropy(entropy)` / `to_entropy(mnemonic)`: entropy of 16 / 20 / 24 / 28 / 32 bytes, followed
by the first `len/4` bits of `sha256(entropy)[0]`, cut into 11-bit word indexes (first bit = most
significant); back: 12 / 15 / 18 / 21 / 24 words, the last `words/3` bits are the checksum.

The Rust code fills the `u16` / `u8` vectors bit by bit with `|=` at computed positions
(`indexes[loc / 11] |= bit << (10 - loc % 11)`, and on the way back from the LAST word towards the
first: `entropy[datalen - loc / 8] |= bit << (loc % 8)`); the model states the same packing on bit
lists, most significant bit first.  That the loops compute this is what the `mnemonic` run compares
(every index of every mnemonic, every entropy byte, every refusal).  Words are their indexes into
the word list (`Gen/Wordlist.lean`, regenerated from `wordlists/en.txt`; `search` is a binary
search, which needs the list sorted — an obligation on the generated list); an unknown word is an
index ≥ 2048.  The hash is a parameter (`h0`: first byte of SHA-256 of the entropy); the driver
instantiates it with `Model/KeysSha256.lean`.  Import-free apart from `Model/*`. -/
namespace GV.Mnemonic

/-- the `w` low bits of `n`, most significant first -/
def bitsOf : Nat → Nat → List Bool
  | 0, _ => []
  | w + 1, n => n.testBit w :: bitsOf w n

/-- value of a bit list, most significant first -/
def ofBits (l : List Bool) : Nat := l.foldl (fun acc b => 2 * acc + (if b then 1 else 0)) 0

/-- `n` consecutive chunks of `k` elements -/
def chunksN {α : Type} (k : Nat) : Nat → List α → List (List α)
  | 0, _ => []
  | n + 1, l => l.take k :: chunksN k n (l.drop k)

inductive MErr
  /-- `Error::InvalidLength(n)` -/
  | invalidLength (n : Nat)
  /-- `Error::BadWord` (the first word `search` does not find) -/
  | badWord
  /-- `Error::BadChecksum(in the mnemonic, computed)` -/
  | badChecksum (given actual : Nat)
  deriving DecidableEq, Repr

def entropySizes : List Nat := [16, 20, 24, 28, 32]
def wordCounts : List Nat := [12, 15, 18, 21, 24]

/-- `from_entropy`: the word indexes -/
def fromEntropy (h0 : Bytes → Nat) (e : Bytes) : Except MErr (List Nat) :=
  let len := e.length
  if ¬ entropySizes.contains len then .error (.invalidLength len)
  else
    let cs := len / 4
    let bits := e.flatMap (bitsOf 8) ++ (bitsOf 8 (h0 e)).take cs
    .ok ((chunksN 11 ((len * 8 + cs) / 11) bits).map ofBits)

/-- `to_entropy` on the indexes `search` found (≥ 2048: not in the list) -/
def toEntropy (h0 : Bytes → Nat) (idx : List Nat) : Except MErr Bytes :=
  let n := idx.length
  if ¬ wordCounts.contains n then .error (.invalidLength n)
  else if idx.any (fun i => decide (2048 ≤ i)) then .error .badWord
  else
    let cs := n / 3
    let bits := idx.flatMap (bitsOf 11)
    let dlen := 11 * n - cs
    let entropy := (chunksN 8 (dlen / 8) (bits.take dlen)).map ofBits
    let given := ofBits (bits.drop dlen)
    let actual := ofBits ((bitsOf 8 (h0 entropy)).take cs)
    if actual ≠ given then .error (.badChecksum given actual) else .ok entropy

/-- the driver's hash: first byte of SHA-256 -/
def sha0 (e : Bytes) : Nat := (Sha256.hash e).headD 0

def MErr.show : MErr → String
  | .invalidLength n => s!"InvalidLength({n})"
  | .badWord => "BadWord"
  | .badChecksum g a => s!"BadChecksum({g},{a})"

end GV.Mnemonic
