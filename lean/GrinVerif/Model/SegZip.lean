/-! Model of the state-archive ("txhashset zip") path of state sync:

* `util/src/zip.rs`: `path_to_string`, `create_zip(dst, src_dir, files)`, `extract_files(archive, dest, files)`
  (with what the `zip` crate 0.5 does underneath: `ZipArchive::by_name` looks a name up in a map built
  from the central directory in order — the LAST entry of a name wins —, `ZipFile::mangled_name` keeps
  the `Component::Normal` components of the entry name after turning `\` into `/`, the CRC of an
  entry is checked when it has been read to its end);
* `chain/src/txhashset/txhashset.rs`: `file_list(header)` — the explicit list both sides use;
* `chain/src/chain.rs`: the decision logic of `Chain::txhashset_write`.

Paths.  A name in a file list or in an archive is a `String`; the two ways the Rust turns one into
path components are parameters of the model (`Names`): the driver instantiates them with `splitOn "/"`
(what `Path::components` does on unix, see `normal`) — the theorems hold for every instantiation.
A directory tree is a finite map from component lists to contents; contents are opaque. -/
namespace GV.SegZip

/-- `Component::Normal`: not empty (`a//b`, trailing `/`), not `.` (`CurDir`), not `..` (`ParentDir`);
a leading `/` (`RootDir`) shows up as an empty first component -/
def normal (c : String) : Bool := c != "" && c != "." && c != ".."

/-- how strings become paths -/
structure Names where
  /-- `Path::new(x).components()` of a name of the file list (raw components) -/
  comps : String → List String
  /-- raw components of an archive entry name as `mangled_name` sees it (`\` replaced by `/` first) -/
  entryComps : String → List String
  /-- `path_str.push('/'); path_str.push_str(..)` -/
  join : List String → String

/-- the `Component::Normal` components of a listed name: where `src_dir.join(x)` points for a
relative name without `..` (names with `..` or absolute names are outside the model: `file_list`
has none) -/
def Names.sanitize (nm : Names) (x : String) : List String := (nm.comps x).filter normal

/-- `path_to_string(x)`: the entry name `create_zip` gives the file -/
def Names.pathToString (nm : Names) (x : String) : String := nm.join (nm.sanitize x)

/-- `ZipFile::mangled_name()` -/
def Names.mangle (nm : Names) (entryName : String) : List String := (nm.entryComps entryName).filter normal

/-- a directory tree: path (normal components) ↦ content; the first binding of a path counts -/
abbrev Dir := List (List String × String)

def Dir.get (d : Dir) (p : List String) : Option String :=
  match d with
  | [] => none
  | (q, c) :: rest => if q = p then some c else Dir.get rest p

/-- `File::create(path)` + `io::copy`: replaces the content -/
def Dir.put (d : Dir) (p : List String) (c : String) : Dir :=
  match d with
  | [] => [(p, c)]
  | (q, c') :: rest => if q = p then (q, c) :: rest else (q, c') :: Dir.put rest p c

/-- an entry of an archive as its central directory lists it -/
structure Entry where
  name : String
  content : String
  /-- the stored CRC-32 matches the data -/
  crcOk : Bool := true
deriving DecidableEq, Repr

/-- `create_zip`: `for x in &files { if let Ok(file) = File::open(src_dir.join(x)) { start_file(path_to_string(x)); copy } }`
— files that do not exist are skipped silently; order of the list -/
def createZip (nm : Names) (src : Dir) : List String → List Entry
  | [] => []
  | x :: xs =>
    match src.get (nm.sanitize x) with
    | some c => ⟨nm.pathToString x, c, true⟩ :: createZip nm src xs
    | none => createZip nm src xs

/-- `ZipArchive::by_name`: `names_map.insert(name, index)` in central-directory order, so the last
entry with the name is the one found -/
def byName : List Entry → String → Option Entry
  | [], _ => none
  | e :: rest, n =>
    match byName rest n with
    | some e' => some e'
    | none => if e.name = n then some e else none

/-- outcome of `extract_files` -/
inductive XRes
  /-- `Ok(())` with the directory as it is afterwards -/
  | ok (d : Dir)
  /-- the extraction thread panicked (`expect`): `Err("failed to extract files from zip")` -/
  | err
deriving DecidableEq, Repr

/-- `extract_files(archive, dest, files)`: `for x in files { if let Ok(file) = archive.by_name(x) { … } }`:
ONLY the listed names are looked up; an entry that is not there is skipped; the file is written at
`dest.join(file.mangled_name())`; a path with no normal component is `dest` itself
(`File::create` on a directory fails: `expect("file created")`), a CRC mismatch fails the copy
(`expect("write to file")`) -/
def extractFiles (nm : Names) (a : List Entry) : List String → Dir → XRes
  | [], d => .ok d
  | x :: xs, d =>
    match byName a x with
    | none => extractFiles nm a xs d
    | some e =>
      if nm.mangle e.name = [] then .err
      else if !e.crcOk then .err
      else extractFiles nm a xs (d.put (nm.mangle e.name) e.content)

/-- `file_list(header)` of `txhashset.rs`: "We include *only* these files when building the txhashset
zip. We extract *only* these files when receiving a txhashset zip." `h` = `header.hash()` in hex -/
def fileList (h : String) : List String :=
  [ "kernel/pmmr_data.bin", "kernel/pmmr_hash.bin",
    "output/pmmr_data.bin", "output/pmmr_hash.bin", "output/pmmr_prun.bin",
    "rangeproof/pmmr_data.bin", "rangeproof/pmmr_hash.bin", "rangeproof/pmmr_prun.bin",
    "output/pmmr_leaf.bin." ++ h, "rangeproof/pmmr_leaf.bin." ++ h ]

/-! ## `Chain::txhashset_write` -/

/-- what `txhashset_write` returns / does -/
inductive WriteRes
  /-- `Err(InvalidTxHashSet("not needed"))`: `check_txhashset_needed(fork_point)` is false -/
  | notNeeded
  /-- `Ok(true)`: the header is unknown ("this is a bannable reason") -/
  | ban
  /-- an `Err` from unzipping, opening, the kernel history, the rewind or the full validation:
  nothing was committed, the sandbox is left behind, the node's txhashset is untouched -/
  | failed
  /-- `Ok(false)`: body head / tail set to the header, indices rebuilt, batch committed, the
  sandbox moved over the node's txhashset -/
  | replaced
deriving DecidableEq, Repr

/-- the (output ⊕ bitmap, rangeproof, kernel) roots and MMR sizes a header commits to -/
structure Commit (H : Type) where
  outputRoot : H
  rangeproofRoot : H
  kernelRoot : H
  outputSize : Nat
  kernelSize : Nat
deriving DecidableEq, Repr

/-- `Extension::validate` begins with `validate_mmrs`, `validate_roots(header)`, `validate_sizes(header)` -/
def commitValidate {H : Type} [DecidableEq H] (state hdr : Commit H) : Bool :=
  decide (state = hdr)

/-- `Chain::txhashset_write(h, data, status)`, in the order of the code:
`needed` = `check_txhashset_needed(fork_point)`; `known` = `get_block_header(&h)` succeeds;
`opens` = `zip_write` + `TxHashSet::open(sandbox, header)` succeed; `kernelHistory` =
`validate_kernel_history` + `verify_kernel_pos_index`; `state` = what the extracted files commit
to after `extension.rewind(&header)`; `rest` = everything `Extension::validate` checks after the
roots and sizes (kernel sums, range proofs, kernel signatures) -/
def txhashsetWrite {H : Type} [DecidableEq H] (needed known opens kernelHistory : Bool)
    (state hdr : Commit H) (rest : Bool) : WriteRes :=
  if !needed then .notNeeded
  else if !known then .ban
  else if !opens then .failed
  else if !kernelHistory then .failed
  else if !commitValidate state hdr then .failed
  else if !rest then .failed
  else .replaced

end GV.SegZip
