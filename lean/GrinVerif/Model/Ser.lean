import GrinVerif.Model.Basic
/-! # `Ser` — primitive binary reader / writer layer (model of `core/src/ser.rs`)

* writer  = a function to `Bytes` (big-endian integers, raw byte strings), parameterised where the
  Rust consults `writer.protocol_version()` / `writer.serialization_mode()` by `(ver, Mode)`;
* reader  = total parser `Bytes → Except SerErr (α × Bytes)` (the `BinReader` over a byte slice);
  every primitive mirrors one `Reader` method incl. its caps (`read_fixed_bytes` 100 000,
  `read_multi` 1 000 000) and its error kind.

Round-trip lemmas for this layer are in `Lemmas/SerPrim.lean` in the composable form
`read (write x ++ rest) = .ok (x, rest)`. Import-free (core only) so the driver links. -/
namespace GV.Ser

/-- `ser::Error` mapped to a small enum (payload strings dropped). -/
inductive SerErr
  /-- `IOErr(_, UnexpectedEof)`: source exhausted -/
  | ioEof
  /-- `UnexpectedData` (`expect_u8`) -/
  | unexpectedData
  | corrupted
  | count
  | tooLarge
  | sort
  | dup
  | invalidBlockVersion
  | unsupportedVersion
deriving DecidableEq, Repr

def SerErr.name : SerErr → String
  | .ioEof => "IOErr"
  | .unexpectedData => "UnexpectedData"
  | .corrupted => "CorruptedData"
  | .count => "CountError"
  | .tooLarge => "TooLargeReadErr"
  | .sort => "SortError"
  | .dup => "DuplicateError"
  | .invalidBlockVersion => "InvalidBlockVersion"
  | .unsupportedVersion => "UnsupportedProtocolVersion"

/-- `SerializationMode` -/
inductive Mode | full | hash
deriving DecidableEq, Repr

/-- a parser over a byte slice: value and the unread rest, or the error -/
abbrev Parser (α : Type) := Bytes → Except SerErr (α × Bytes)

/-- the `?` operator of the Rust readers: run a read, hand its value and the unread rest to the
continuation, propagate the error. (A plain function rather than a `match` so that proofs rewrite
the first read with its round-trip lemma before anything is evaluated.) -/
def andThen {α β : Type} (p : Except SerErr (α × Bytes)) (f : α → Bytes → Except SerErr (β × Bytes)) :
    Except SerErr (β × Bytes) :=
  match p with
  | .ok (a, r) => f a r
  | .error e => .error e

@[simp] theorem andThen_ok {α β : Type} (a : α) (r : Bytes) (f : α → Bytes → Except SerErr (β × Bytes)) :
    andThen (.ok (a, r)) f = f a r := rfl
@[simp] theorem andThen_error {α β : Type} (e : SerErr) (f : α → Bytes → Except SerErr (β × Bytes)) :
    andThen (.error e : Except SerErr (α × Bytes)) f = .error e := rfl

/-- `ProtocolVersion::local()` = `global::PROTOCOL_VERSION`; the version a `HashWriter` reports -/
def LOCAL_VERSION : Nat := 1000
/-- `ProtocolVersion::local_db()` -/
def DB_VERSION : Nat := 1

/-! ## writers (`Writer::write_u8 … write_bytes`, `BigEndian`) -/

def writeU8 (n : Nat) : Bytes := [n]
def writeU16 (n : Nat) : Bytes := [n / 2^8 % 256, n % 256]
def writeU32 (n : Nat) : Bytes := [n / 2^24 % 256, n / 2^16 % 256, n / 2^8 % 256, n % 256]
def writeU64 (n : Nat) : Bytes :=
  [n / 2^56 % 256, n / 2^48 % 256, n / 2^40 % 256, n / 2^32 % 256,
   n / 2^24 % 256, n / 2^16 % 256, n / 2^8 % 256, n % 256]
/-- two's complement, `BigEndian::write_i64` -/
def writeI64 (z : Int) : Bytes := writeU64 (z % 2^64).toNat
/-- `write_fixed_bytes` -/
def writeFixed (b : Bytes) : Bytes := b
/-- `write_bytes`: u64 length prefix then the bytes -/
def writeBytes (b : Bytes) : Bytes := writeU64 b.length ++ b
/-- `write_empty_bytes` -/
def writeEmpty (n : Nat) : Bytes := List.replicate n 0

/-! ## readers (`BinReader`) -/

def readU8 : Parser Nat
  | [] => .error .ioEof
  | b :: r => .ok (b, r)

def readU16 : Parser Nat
  | b0 :: b1 :: r => .ok (b0 * 2^8 + b1, r)
  | _ => .error .ioEof

def readU32 : Parser Nat
  | b0 :: b1 :: b2 :: b3 :: r => .ok (b0 * 2^24 + b1 * 2^16 + b2 * 2^8 + b3, r)
  | _ => .error .ioEof

def readU64 : Parser Nat
  | b0 :: b1 :: b2 :: b3 :: b4 :: b5 :: b6 :: b7 :: r =>
      .ok (b0 * 2^56 + b1 * 2^48 + b2 * 2^40 + b3 * 2^32 + b4 * 2^24 + b5 * 2^16 + b6 * 2^8 + b7, r)
  | _ => .error .ioEof

/-- reinterpret a u64 as i64 -/
def toI64 (u : Nat) : Int := if u < 2^63 then (u : Int) else (u : Int) - 2^64

def readI64 : Parser Int := fun bs =>
  match readU64 bs with
  | .ok (u, r) => .ok (toI64 u, r)
  | .error e => .error e

/-- the cap in `BinReader::read_fixed_bytes` -/
def MAX_FIXED_READ : Nat := 100000

/-- `read_exact`: the first `n` bytes and the rest, `none` if fewer than `n` are left
(walks only `n` cells, so the driver stays linear on long inputs) -/
def splitExact : Nat → Bytes → Option (Bytes × Bytes)
  | 0, bs => some ([], bs)
  | _+1, [] => none
  | n+1, b :: r =>
    match splitExact n r with
    | some (x, y) => some (b :: x, y)
    | none => none

/-- `read_fixed_bytes(len)` -/
def readFixed (len : Nat) : Parser Bytes := fun bs =>
  if len > MAX_FIXED_READ then .error .tooLarge
  else match splitExact len bs with
    | some (x, r) => .ok (x, r)
    | none => .error .ioEof

/-- `read_bytes_len_prefix` -/
def readBytesLenPrefix : Parser Bytes := fun bs =>
  match readU64 bs with
  | .ok (len, r) => readFixed len r
  | .error e => .error e

/-- `expect_u8(val)` -/
def expectU8 (val : Nat) : Parser Nat := fun bs =>
  match readU8 bs with
  | .ok (b, r) => if b = val then .ok (b, r) else .error .unexpectedData
  | .error e => .error e

/-- `read_empty_bytes(length)`: every byte must be zero -/
def readEmpty : Nat → Parser Unit
  | 0, bs => .ok ((), bs)
  | n+1, bs =>
    match readU8 bs with
    | .ok (b, r) => if b ≠ 0 then .error .corrupted else readEmpty n r
    | .error e => .error e

/-- the cap in `read_multi` -/
def MAX_MULTI_COUNT : Nat := 1000000

/-- `IteratingReader … .collect()`: read up to `count` items, stopping silently at the first item
that fails (`T::read(reader).ok()`); returns the items read (in order) and the rest. -/
def readMultiLoop {α : Type} (p : Parser α) : Nat → Bytes → List α × Bytes
  | 0, bs => ([], bs)
  | n+1, bs =>
    match p bs with
    | .ok (x, r) => let (xs, r') := readMultiLoop p n r; (x :: xs, r')
    | .error _ => ([], bs)

/-- `read_multi(reader, count)` -/
def readMulti {α : Type} (p : Parser α) (count : Nat) : Parser (List α) := fun bs =>
  if count > MAX_MULTI_COUNT then .error .tooLarge
  else
    let res := readMultiLoop p count bs
    if res.1.length ≠ count then .error .count else .ok res

/-- `Writeable for Vec<T>`: items back to back -/
def writeMulti {α : Type} (w : α → Bytes) (l : List α) : Bytes := (l.map w).flatten

/-! ## sortedness (`VerifySortedAndUnique for Vec<T: Ord>`, items ordered by hash = `key`) -/

/-- `verify_sorted_and_unique` on the list of sort keys (the items' hashes as big-endian numbers) -/
def verifySortedUnique : List Nat → Except SerErr Unit
  | a :: b :: r =>
    if a > b then .error .sort
    else if a = b then .error .dup
    else verifySortedUnique (b :: r)
  | _ => .ok ()

/-- insertion into a list sorted by `key` (after all entries with key ≤) — stable -/
def insertByKey {α : Type} (key : α → Nat) (x : α) : List α → List α
  | [] => [x]
  | y :: r => if key x < key y then x :: y :: r else y :: insertByKey key x r

/-- `sort_unstable()` on items ordered by hash. Modelled by a stable insertion sort: the results
agree whenever no two *different* items share a key (different items with equal hash = a collision). -/
def sortByKey {α : Type} (key : α → Nat) : List α → List α
  | [] => []
  | x :: r => insertByKey key x (sortByKey key r)

end GV.Ser
