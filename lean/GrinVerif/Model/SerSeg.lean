import GrinVerif.Model.SerBlock
/-! # Codecs of the PIBD segment types

* `core/src/core/pmmr/segment.rs`: `SegmentIdentifier`, `Segment<T>` (`read_segment_item_count`,
  `read_segment_positions`, `read_segment_items`), `SegmentProof`;
* `chain/src/txhashset/bitmap_accumulator.rs`: `BitmapBlock` (three serialisation modes and the
  threshold rule that picks one), `BitmapBlockSerialization`, `BitmapSegment` (`max_chunks`,
  `leaf_offset`, `n_chunks`, `validate_blocks`).

Same style as `Model/SerTx.lean`: encoders are functions to `Bytes`, decoders total `Parser`s built
with `andThen`. Import-free apart from `Model.*` / `Gen.*`. -/
namespace GV.SerSeg
open GV GV.Ser

/-! ## the three helpers at the top of `segment.rs` -/

/-- `MAX_SEGMENT_READ_ITEMS` -/
def MAX_SEGMENT_READ_ITEMS : Nat := GV.Gen.MAX_SEGMENT_READ_ITEMS

/-- `read_segment_item_count`: a `u64`, refused above `MAX_SEGMENT_READ_ITEMS` -/
def readItemCount : Parser Nat := fun bs =>
  andThen (readU64 bs) fun count r =>
    if count > MAX_SEGMENT_READ_ITEMS then .error .tooLarge else .ok (count, r)

/-- the loop of `read_segment_positions`; `last` = `last_pos`. The wire carries 1-based positions,
each must be strictly above the previous one (the first strictly above 0); the value keeps `pos - 1`.
(`Vec::with_capacity(min(count, SEGMENT_READ_PREALLOC_ITEMS))` is an allocation hint only: C11.) -/
def readPositionsLoop : Nat → Nat → Parser (List Nat)
  | 0, _, bs => .ok ([], bs)
  | n+1, last, bs =>
    andThen (readU64 bs) fun pos r =>
      if pos ≤ last then .error .sort
      else andThen (readPositionsLoop n pos r) fun ps r => .ok ((pos - 1) :: ps, r)

/-- `read_segment_positions(reader, count)` -/
def readPositions (count : Nat) : Parser (List Nat) := readPositionsLoop count 0

/-- `read_segment_items::<T>(reader, count)`: exactly `count` items, the first failing item's error
is the result (unlike `read_multi`, which turns it into `CountError`) -/
def readItems {α : Type} (p : Parser α) : Nat → Parser (List α)
  | 0, bs => .ok ([], bs)
  | n+1, bs =>
    andThen (p bs) fun x r =>
    andThen (readItems p n r) fun xs r => .ok (x :: xs, r)

/-! ## SegmentIdentifier -/

structure SegId where
  /-- `u8` -/
  height : Nat
  /-- `u64` -/
  idx : Nat
deriving DecidableEq, Repr

def encSegId (s : SegId) : Bytes := writeU8 s.height ++ writeU64 s.idx

def decSegId : Parser SegId := fun bs =>
  andThen (readU8 bs) fun h r =>
  andThen (readU64 r) fun idx r =>
  .ok ({ height := h, idx := idx }, r)

/-! ## SegmentProof -/

/-- `Writeable for SegmentProof`: count then the hashes -/
def encSegProof (hs : List Bytes) : Bytes := writeU64 hs.length ++ writeMulti writeFixed hs

/-- `Readable for SegmentProof` -/
def decSegProof : Parser (List Bytes) := fun bs =>
  andThen (readItemCount bs) fun n r => readItems decHash n r

/-! ## Segment<T> -/

structure Segment (α : Type) where
  id : SegId
  /-- 0-based MMR positions of the pruned-subtree hashes -/
  hashPos : List Nat
  hashes : List Bytes
  /-- 0-based MMR positions of the leaves -/
  leafPos : List Nat
  leafData : List α
  /-- `SegmentProof.hashes` -/
  proof : List Bytes
deriving DecidableEq, Repr

/-- a position on the wire: `write_u64(1 + pos)` (release arithmetic; `writeU64` keeps the low 64 bits) -/
def encPos (p : Nat) : Bytes := writeU64 (1 + p)

/-- `Writeable for Segment<T>`; `w` = `T::write`. NB the counts written are `hashes.len()` and
`leaf_data.len()`, the positions written are all of `hash_pos` / `leaf_pos`. -/
def encSegment {α : Type} (w : α → Bytes) (s : Segment α) : Bytes :=
  encSegId s.id
  ++ writeU64 s.hashes.length ++ writeMulti encPos s.hashPos ++ writeMulti writeFixed s.hashes
  ++ writeU64 s.leafData.length ++ writeMulti encPos s.leafPos ++ writeMulti w s.leafData
  ++ encSegProof s.proof

/-- `Readable for Segment<T>`; `p` = `T::read` -/
def decSegment {α : Type} (p : Parser α) : Parser (Segment α) := fun bs =>
  andThen (decSegId bs) fun id r =>
  andThen (readItemCount r) fun nHashes r =>
  andThen (readPositions nHashes r) fun hashPos r =>
  andThen (readItems decHash nHashes r) fun hashes r =>
  andThen (readItemCount r) fun nLeaves r =>
  andThen (readPositions nLeaves r) fun leafPos r =>
  andThen (readItems p nLeaves r) fun leafData r =>
  andThen (decSegProof r) fun proof r =>
  .ok ({ id := id, hashPos := hashPos, hashes := hashes, leafPos := leafPos, leafData := leafData,
         proof := proof }, r)

/-! ## BitmapBlock -/

/-- `BitmapChunk::LEN_BITS` -/
def CHUNK_BITS : Nat := 1024
/-- `BitmapBlock::NBITS` -/
def BLOCK_NBITS : Nat := 65536
/-- `BitmapBlock::NCHUNKS` = `NBITS / LEN_BITS` -/
def BLOCK_NCHUNKS : Nat := 64
/-- `let threshold = Self::NBITS / 16` -/
def BLOCK_THRESHOLD : Nat := 4096

/-- `BitmapBlockSerialization` discriminants -/
def MODE_RAW : Nat := 0
def MODE_POSITIVE : Nat := 1
def MODE_NEGATIVE : Nat := 2

/-- `BitmapBlock { inner: BitVec }` with `inner.len() = nChunks * 1024`. The bit vector is kept as the
number whose binary digits, most significant first, are the bits in `BitVec` order: bit `i` of the
`BitVec` is binary digit `nbits - 1 - i` of `v`, so that `BitVec::to_bytes()` is the big-endian byte
string of `v` and `BitVec::from_bytes` is `ofBE`. -/
structure BitmapBlock where
  nChunks : Nat
  v : Nat
deriving DecidableEq, Repr

def BitmapBlock.nbits (b : BitmapBlock) : Nat := b.nChunks * CHUNK_BITS

/-- `inner[i]` -/
def bitAt (nbits v i : Nat) : Bool := v.testBit (nbits - 1 - i)

/-- `inner.iter().enumerate().filter(|&(_, v)| v)`: the indices of the set bits, ascending -/
def setPositions (nbits v : Nat) : List Nat := (List.range nbits).filter fun i => bitAt nbits v i
/-- `… .filter(|&(_, v)| !v)`: the indices of the clear bits, ascending -/
def clearPositions (nbits v : Nat) : List Nat := (List.range nbits).filter fun i => !bitAt nbits v i

/-- big-endian bytes of `v`, `k` of them (`BitVec::to_bytes` for `8k` bits) -/
def toBE (k v : Nat) : Bytes := (leBytes k v).reverse

/-- `Writeable for BitmapBlock`: chunk count, then positive indices if fewer than 4096 bits are set,
else negative indices if fewer than 4096 are clear, else the raw bytes -/
def encBitmapBlock (b : BitmapBlock) : Bytes :=
  let nbits := b.nbits
  let pos := setPositions nbits b.v
  let countPos := pos.length
  let countNeg := nbits - countPos
  writeU8 b.nChunks ++
  (if countPos < BLOCK_THRESHOLD then
     writeU8 MODE_POSITIVE ++ writeU16 countPos ++ writeMulti writeU16 pos
   else if countNeg < BLOCK_THRESHOLD then
     writeU8 MODE_NEGATIVE ++ writeU16 countNeg ++ writeMulti writeU16 (clearPositions nbits b.v)
   else
     writeU8 MODE_RAW ++ writeFixed (toBE (nbits / 8) b.v))

/-- the index loop of the Positive / Negative arms: `n` times `read_u16`, each `< n_bits` -/
def readBitPositions (nbits : Nat) : Nat → Parser (List Nat)
  | 0, bs => .ok ([], bs)
  | n+1, bs =>
    andThen (readU16 bs) fun pos r =>
      if pos ≥ nbits then .error .corrupted
      else andThen (readBitPositions nbits n r) fun ps r => .ok (pos :: ps, r)

/-- the bit vector with exactly the listed bits set (`inner.set(pos, true)` for each; order and
repetitions do not matter) -/
def orBits (nbits : Nat) (ps : List Nat) : Nat := ps.foldl (fun acc p => acc ||| 2^(nbits - 1 - p)) 0

/-- `Readable for BitmapBlock`. In the Negative arm the Rust starts from all ones and clears the
listed bits one by one; that is all-ones minus the OR of the listed bits. -/
def decBitmapBlock : Parser BitmapBlock := fun bs =>
  andThen (readU8 bs) fun nChunks r =>
    if nChunks > BLOCK_NCHUNKS then .error .tooLarge else
    andThen (readU8 r) fun mode r =>
      if mode = MODE_RAW then
        andThen (readFixed (nChunks * CHUNK_BITS / 8) r) fun bytes r =>
        .ok ({ nChunks := nChunks, v := ofBE bytes }, r)
      else if mode = MODE_POSITIVE then
        andThen (readU16 r) fun n r =>
        andThen (readBitPositions (nChunks * CHUNK_BITS) n r) fun ps r =>
        .ok ({ nChunks := nChunks, v := orBits (nChunks * CHUNK_BITS) ps }, r)
      else if mode = MODE_NEGATIVE then
        andThen (readU16 r) fun n r =>
        andThen (readBitPositions (nChunks * CHUNK_BITS) n r) fun ps r =>
        .ok ({ nChunks := nChunks,
               v := (2^(nChunks * CHUNK_BITS) - 1) - orBits (nChunks * CHUNK_BITS) ps }, r)
      else .error .corrupted

/-! ## BitmapSegment -/

structure BitmapSegment where
  id : SegId
  blocks : List BitmapBlock
  proof : List Bytes
deriving DecidableEq, Repr

/-- `BitmapSegment::MAX_SEGMENT_HEIGHT` -/
def MAX_BITMAP_SEGMENT_HEIGHT : Nat := 13

/-- `BitmapSegment::max_chunks` (`1usize.checked_shl(h)` cannot fail for `h ≤ 13`) -/
def maxChunks (id : SegId) : Except SerErr Nat :=
  if id.height > MAX_BITMAP_SEGMENT_HEIGHT then .error .tooLarge else .ok (2^id.height)

/-- `BitmapSegment::leaf_offset`: `1u64.checked_shl(h)` is `None` for `h ≥ 64`; `checked_mul` -/
def leafOffset (id : SegId) : Except SerErr Nat :=
  if id.height ≥ 64 then .error .tooLarge
  else if 2^id.height * id.idx ≥ 2^64 then .error .tooLarge
  else .ok (2^id.height * id.idx)

/-- `BitmapSegment::n_chunks`: every block but the last is full, the last is not empty -/
def nChunksOf : List BitmapBlock → Except SerErr Nat
  | [] => .error .corrupted
  | [last] => if last.nChunks = 0 then .error .corrupted else .ok last.nChunks
  | b :: r =>
    if b.nChunks ≠ BLOCK_NCHUNKS then .error .corrupted
    else match nChunksOf r with
      | .ok n => .ok (BLOCK_NCHUNKS + n)
      | .error e => .error e

/-- `BitmapSegment::validate_blocks` (the index of the last leaf must stay below 2^63: no MMR
position exists from there on) -/
def validateBlocks (id : SegId) (blocks : List BitmapBlock) : Except SerErr Nat :=
  match leafOffset id with
  | .error e => .error e
  | .ok offset =>
    match nChunksOf blocks with
    | .error e => .error e
    | .ok n =>
      match maxChunks id with
      | .error e => .error e
      | .ok mx =>
        if n > mx then .error .tooLarge
        -- `checked_add` (≥ 2^64) and `last_idx >= 1 << 63` give the same error: one test
        else if offset + (n - 1) ≥ 2^63 then .error .tooLarge
        else .ok n

/-- `Writeable for BitmapSegment` (`blocks.len() as u16`) -/
def encBitmapSegment (s : BitmapSegment) : Bytes :=
  encSegId s.id ++ writeU16 s.blocks.length ++ writeMulti encBitmapBlock s.blocks ++ encSegProof s.proof

/-- `Readable for BitmapSegment` -/
def decBitmapSegment : Parser BitmapSegment := fun bs =>
  andThen (decSegId bs) fun id r =>
  andThen (readU16 r) fun nBlocks r =>
    if nBlocks = 0 then .error .corrupted else
    match maxChunks id with
    | .error e => .error e
    | .ok mx =>
      if nBlocks > (mx + BLOCK_NCHUNKS - 1) / BLOCK_NCHUNKS then .error .tooLarge else
      match leafOffset id with
      | .error e => .error e
      | .ok _ =>
        andThen (readItems decBitmapBlock nBlocks r) fun blocks r =>
          match validateBlocks id blocks with
          | .error e => .error e
          | .ok _ =>
            andThen (decSegProof r) fun proof r =>
            .ok ({ id := id, blocks := blocks, proof := proof }, r)

end GV.SerSeg
