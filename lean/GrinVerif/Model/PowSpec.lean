import GrinVerif.Model.Pow
/-! # C05 specification: "the selected edges form one simple cycle through all of them"

`es : List (Nat × Nat)` are the endpoint pairs `(u, v)` of the proof's edges in proof order
(for Cuckarood each entry also carries the direction bit `nonce & 1`).
Edge `e` has two *slots* `2e` (its `u` end) and `2e+1` (its `v` end).

A cycle is given by the list `c` of the slots through which it *enters* each vertex:
at step `t` the cycle sits on the vertex of slot `c[t]`, leaves it through another slot of the
same vertex, which is `c[t+1] ^ 1` — the other end of the edge entered next.
* every edge is used exactly once (`c.map (· / 2)` is a permutation of `0 … L-1`),
* consecutive edges meet in a vertex (`adj`), cyclically,
* the `L` vertices are pairwise different (`sameV`): the cycle is simple.

The five graphs differ only in what a vertex is:
* Cuckaroo: bipartite, vertex = (side, node value);
* Cuckarooz: one node space, vertex = node value;
* Cuckatoo: bipartite, vertex = (side, node >> 1); an edge end `x` continues at an end `x ^ 1`;
* Cuckarood: as Cuckaroo, and the two edges meeting in a vertex have different direction bits;
* Cuckaroom: directed, edge `(from, to)`; `to` of each edge is `from` of the next.

This file also has the *executable oracle* used by the driver (`oracle*`): degree counting plus a
connectivity closure, written independently of the verifier transliterations in `Pow.lean`. -/
namespace GV.Pow

/-- node value at a slot -/
def slotNode (es : List (Nat × Nat)) (s : Nat) : Nat :=
  if s % 2 = 0 then (es.getD (s / 2) (0, 0)).1 else (es.getD (s / 2) (0, 0)).2

/-- generic "one simple cycle through all `L` edges", entry slots `c` -/
structure IsCycle (L : Nat) (adj sameV : Nat → Nat → Prop) (c : List Nat) : Prop where
  len : c.length = L
  perm : (c.map (· / 2)).Perm (List.range L)
  link : ∀ t, t < L → adj (c.getD t 0) ((c.getD ((t + 1) % L) 0) ^^^ 1)
  simple : ∀ a b, a < L → b < L → a ≠ b → ¬ sameV (c.getD a 0) (c.getD b 0)

def sameSide (a b : Nat) : Prop := a % 2 = b % 2

/-- Cuckaroo -/
def IsProofCycleCuckaroo (es : List (Nat × Nat)) : Prop :=
  ∃ c, IsCycle es.length
    (fun a b => sameSide a b ∧ slotNode es a = slotNode es b)
    (fun a b => sameSide a b ∧ slotNode es a = slotNode es b) c

/-- Cuckarooz -/
def IsProofCycleCuckarooz (es : List (Nat × Nat)) : Prop :=
  ∃ c, IsCycle es.length
    (fun a b => slotNode es a = slotNode es b)
    (fun a b => slotNode es a = slotNode es b) c

/-- Cuckatoo -/
def IsProofCycleCuckatoo (es : List (Nat × Nat)) : Prop :=
  ∃ c, IsCycle es.length
    (fun a b => sameSide a b ∧ slotNode es a = slotNode es b ^^^ 1)
    (fun a b => sameSide a b ∧ slotNode es a >>> 1 = slotNode es b >>> 1) c

/-- Cuckarood: `des` = (direction bit, (u, v)) -/
def IsProofCycleCuckarood (des : List (Nat × (Nat × Nat))) : Prop :=
  let es := des.map (·.2)
  let dir := fun s => (des.getD (s / 2) (0, (0, 0))).1
  (des.filter (fun d => d.1 = 0)).length = (des.filter (fun d => d.1 ≠ 0)).length ∧
  ∃ c, IsCycle des.length
    (fun a b => sameSide a b ∧ slotNode es a = slotNode es b ∧ dir a ≠ dir b)
    (fun a b => sameSide a b ∧ slotNode es a = slotNode es b) c

/-- Cuckaroom: `c` lists the edges in cycle order -/
structure IsDirCycle (es : List (Nat × Nat)) (c : List Nat) : Prop where
  perm : c.Perm (List.range es.length)
  link : ∀ t, t < es.length →
    (es.getD (c.getD t 0) (0,0)).2 = (es.getD (c.getD ((t + 1) % es.length) 0) (0,0)).1
  simple : ∀ a b, a < es.length → b < es.length → a ≠ b →
    (es.getD (c.getD a 0) (0,0)).1 ≠ (es.getD (c.getD b 0) (0,0)).1

def IsProofCycleCuckaroom (es : List (Nat × Nat)) : Prop := ∃ c, IsDirCycle es c

/-- strictly ascending -/
def Ascending (l : List Nat) : Prop := l.Pairwise (· < ·)

/-! ## executable oracle (degree counting + connectivity), independent of `Pow.lean` -/

inductive Variant | cuckatoo | cuckaroo | cuckarood | cuckaroom | cuckarooz
  deriving DecidableEq, Repr

def Variant.ofString? : String → Option Variant
  | "cuckatoo" => some .cuckatoo | "cuckaroo" => some .cuckaroo | "cuckarood" => some .cuckarood
  | "cuckaroom" => some .cuckaroom | "cuckarooz" => some .cuckarooz | _ => none

/-- slots as an array `#[u0, v0, u1, v1, …]` -/
def slotArray (es : List (Nat × Nat)) : Array Nat :=
  es.foldl (fun a e => (a.push e.1).push e.2) #[]

/-- same vertex? (slots `a ≠ b` assumed by callers) -/
def sameVb (v : Variant) (ns : Array Nat) (a b : Nat) : Bool :=
  match v with
  | .cuckaroo | .cuckarood => a % 2 == b % 2 && ns[a]! == ns[b]!
  | .cuckarooz => ns[a]! == ns[b]!
  | .cuckatoo => a % 2 == b % 2 && ns[a]! / 2 == ns[b]! / 2
  | .cuckaroom => ns[a]! == ns[b]!

/-- the variant's condition on the two edge ends `a`, `b` meeting in a vertex -/
def contb (v : Variant) (ns : Array Nat) (dirs : Array Nat) (a b : Nat) : Bool :=
  match v with
  | .cuckatoo => ns[a]! != ns[b]!              -- the two ends differ in the low bit
  | .cuckarood => dirs[a / 2]! != dirs[b / 2]!  -- opposite directions
  | .cuckaroom => a % 2 != b % 2                -- one incoming (`to`), one outgoing (`from`)
  | _ => true

/-- every one of the `n` slots shares its vertex (`sv`) with exactly one other slot, and the two
continue into each other (`cont`) -/
def degreeOkG (n : Nat) (sv cont : Nat → Nat → Bool) : Bool :=
  (List.range n).all fun a =>
    match (List.range n).filter (fun b => b != a && sv a b) with
    | [b] => cont a b
    | _ => false

/-- every vertex has exactly two edge ends, and they continue into each other -/
def degreeOk (v : Variant) (ns : Array Nat) (dirs : Array Nat) : Bool :=
  degreeOkG ns.size (sameVb v ns) (contb v ns dirs)

/-- does edge `e` share a vertex with edge `e'`? -/
def adjEdge (sv : Nat → Nat → Bool) (e e' : Nat) : Bool :=
  sv (2*e) (2*e') || sv (2*e) (2*e'+1) || sv (2*e+1) (2*e') || sv (2*e+1) (2*e'+1)

/-- one closure round: the edges in `comp` or sharing a vertex with one of them -/
def grow (sv : Nat → Nat → Bool) (L : Nat) (comp : List Nat) : List Nat :=
  (List.range L).filter fun e => comp.contains e || comp.any fun e' => adjEdge sv e e'

/-- edges reachable from `comp` through shared vertices, at most `rounds` closure rounds -/
def closureG (sv : Nat → Nat → Bool) (L : Nat) : Nat → List Nat → List Nat
  | 0, comp => comp
  | r+1, comp =>
    let comp' := grow sv L comp
    if comp'.length = comp.length then comp else closureG sv L r comp'

/-- edges reachable from edge 0 through shared vertices, `rounds` closure rounds -/
def closure (v : Variant) (ns : Array Nat) (L : Nat) : Nat → List Nat → List Nat :=
  closureG (sameVb v ns) L

/-- the edges form one simple cycle through all of them (graph part only) -/
def oracleCycle (v : Variant) (es : List (Nat × Nat)) (dirs : List Nat) : Bool :=
  let L := es.length
  let ns := slotArray es
  L > 0 && degreeOk v ns dirs.toArray &&
  (match v with
   | .cuckarood => (dirs.filter (· == 0)).length == (dirs.filter (· != 0)).length
   | _ => true) &&
  (closure v ns L L [0]).length == L

def ascendingb : List Nat → Bool
  | [] => true
  | [_] => true
  | a :: b :: r => a < b && ascendingb (b :: r)

/-- the whole acceptance condition of the property text -/
def oracleAccept (v : Variant) (proofsize edgeMask : Nat) (ep : Nat → Nat × Nat) (nonces : List Nat) : Bool :=
  nonces.length == proofsize && nonces.all (· ≤ edgeMask) && ascendingb nonces &&
  oracleCycle v (nonces.map ep) (nonces.map (· % 2))

end GV.Pow
