/-! Basic helpers shared by all models. Import-free (core only) so the driver links. -/

namespace GV

abbrev Bytes := List Nat   -- each element < 256 (well-formedness carried separately)

def U64MAX : Nat := 2^64 - 1

/-- wrapping u64 ops (release-build semantics of `+`, `-`, `*`, `<<`) -/
def u64 (n : Nat) : Nat := n % 2^64
def addW (a b : Nat) : Nat := (a + b) % 2^64
def subW (a b : Nat) : Nat := (a + 2^64 - b % 2^64) % 2^64
def mulW (a b : Nat) : Nat := (a * b) % 2^64
/-- `a << s` on u64 in release: shift amount masked to 6 bits -/
def shlW (a s : Nat) : Nat := (a * 2^(s % 64)) % 2^64
def shrW (a s : Nat) : Nat := a / 2^(s % 64)
def satSub (a b : Nat) : Nat := a - b

/-- number of one bits -/
def popcount : Nat → Nat
  | 0 => 0
  | n+1 => (n+1) % 2 + popcount ((n+1) / 2)
decreasing_by omega

/-- bit length: least k with n < 2^k -/
def bitLen : Nat → Nat
  | 0 => 0
  | n+1 => 1 + bitLen ((n+1) / 2)
decreasing_by omega

def leadingZeros64 (n : Nat) : Nat := 64 - bitLen (n % 2^64)

/-- number of trailing one bits -/
def trailingOnes : Nat → Nat
  | 0 => 0
  | n+1 => if (n+1) % 2 = 1 then 1 + trailingOnes ((n+1) / 2) else 0
decreasing_by omega

def hexDigit (c : Char) : Option Nat :=
  if '0' ≤ c ∧ c ≤ '9' then some (c.toNat - '0'.toNat)
  else if 'a' ≤ c ∧ c ≤ 'f' then some (c.toNat - 'a'.toNat + 10)
  else if 'A' ≤ c ∧ c ≤ 'F' then some (c.toNat - 'A'.toNat + 10)
  else none

def parseHexChars : List Char → Option Bytes
  | [] => some []
  | [_] => none
  | a :: b :: r => do
    let x ← hexDigit a
    let y ← hexDigit b
    let rest ← parseHexChars r
    pure ((x * 16 + y) :: rest)

def parseHex (s : String) : Option Bytes :=
  if s = "-" then some [] else parseHexChars s.toList

def hexChar (n : Nat) : Char :=
  if n < 10 then Char.ofNat (n + 48) else Char.ofNat (n - 10 + 97)

def toHex (bs : Bytes) : String :=
  if bs.isEmpty then "-" else
  String.ofList (bs.flatMap fun b => [hexChar (b / 16 % 16), hexChar (b % 16)])

def beBytes (width n : Nat) : Bytes :=
  (List.range width).map fun i => n / 256^(width - 1 - i) % 256

def ofBE (bs : Bytes) : Nat := bs.foldl (fun acc b => acc * 256 + b) 0

def leBytes (width n : Nat) : Bytes :=
  (List.range width).map fun i => n / 256^i % 256

def ofLE (bs : Bytes) : Nat := bs.foldr (fun b acc => acc * 256 + b) 0

/-- parse a list literal `[a,b,c]` of naturals -/
def parseNatList (s : String) : Option (List Nat) :=
  let inner := (s.drop 1).dropEnd 1 |>.toString
  if inner.isEmpty then some []
  else (inner.splitOn ",").mapM (fun t => t.trimAscii.toString.toNat?)

def showNatList (l : List Nat) : String :=
  "[" ++ ",".intercalate (l.map toString) ++ "]"

def showOptNat : Option Nat → String
  | none => "none"
  | some n => toString n

def showBool (b : Bool) : String := if b then "true" else "false"

end GV
