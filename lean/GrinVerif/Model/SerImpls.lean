import GrinVerif.Gen.SerImpls
/-! # Inventory of the `Readable` / `Writeable` impls of the source tree and what covers each

HAND-MAINTAINED (a fresh copy is printed by `python3 tools/gen_serimpls.py --model`, to be reviewed).
`Gen/SerImpls.lean` is what tools/gen_serimpls.py FINDS in the current source on every check run;
this table is what was READ AGAINST THE MODEL: the pinned fingerprint of each impl (FNV-1a 64 of its
text without comments and white space) and what covers it - which codec of the driver compares it byte
for byte (`codec`), which codec reads it as one of its fields (`inside`), which plain codec a read-time
validation wrapper sits on (`wrapper`, the wrapper itself is a C11 model), which other driver op (`op`),
or why it is left out (`excluded`).  `Props/C10Impls.lean` decides that the two agree
(`inventory_matches_source`): a new, removed or changed impl breaks that obligation until somebody has
re-read it and updated the pin. -/
namespace GV.SerImpls

inductive Cover
  | codec (n : String)
  | inside (n : String)
  | wrapper (n : String)
  | op (n : String)
  | excluded (why : String)
deriving DecidableEq, Repr

structure Impl where
  /-- "R" = Readable, "W" = Writeable -/
  kind : String
  file : String
  /-- the type after `for`, white space removed -/
  ty : String
  fp : Nat
  cover : Cover
deriving DecidableEq, Repr

def table : List Impl := [
  { kind := "W", file := "chain/src/linked_list.rs", ty := "ListWrapperVariant", fp := 1194452463202695706, cover := .inside "NrdList" },
  { kind := "R", file := "chain/src/linked_list.rs", ty := "ListWrapperVariant", fp := 9652261409034233062, cover := .inside "NrdList" },
  { kind := "W", file := "chain/src/linked_list.rs", ty := "ListEntryVariant", fp := 2951883721613307759, cover := .inside "NrdEntry" },
  { kind := "R", file := "chain/src/linked_list.rs", ty := "ListEntryVariant", fp := 14024113976121728717, cover := .inside "NrdEntry" },
  { kind := "W", file := "chain/src/linked_list.rs", ty := "ListWrapper<T>", fp := 599418080556100305, cover := .codec "NrdList" },
  { kind := "R", file := "chain/src/linked_list.rs", ty := "ListWrapper<T>", fp := 8240521444885256851, cover := .codec "NrdList" },
  { kind := "W", file := "chain/src/linked_list.rs", ty := "ListEntry<T>", fp := 14622311150670642393, cover := .codec "NrdEntry" },
  { kind := "R", file := "chain/src/linked_list.rs", ty := "ListEntry<T>", fp := 1253075557626679656, cover := .codec "NrdEntry" },
  { kind := "R", file := "chain/src/store.rs", ty := "BoolFlag", fp := 7992103352621372265, cover := .excluded "private to chain/src/store.rs and never constructed; modelled (decBoolFlag), theorems only" },
  { kind := "W", file := "chain/src/store.rs", ty := "BoolFlag", fp := 8882925415736171010, cover := .excluded "private to chain/src/store.rs and never constructed; modelled (decBoolFlag), theorems only" },
  { kind := "R", file := "chain/src/types.rs", ty := "CommitPos", fp := 4267695760669220921, cover := .codec "CommitPos" },
  { kind := "W", file := "chain/src/types.rs", ty := "CommitPos", fp := 2518588250591430628, cover := .codec "CommitPos" },
  { kind := "W", file := "chain/src/types.rs", ty := "Tip", fp := 1561020854240055515, cover := .codec "Tip" },
  { kind := "R", file := "chain/src/types.rs", ty := "Tip", fp := 5982791415062929752, cover := .codec "Tip" },
  { kind := "W", file := "chain/src/txhashset/bitmap_accumulator.rs", ty := "BitmapChunk", fp := 5303563164198709721, cover := .excluded "read() returns an empty chunk without reading anything; only elmt_size() is compared" },
  { kind := "R", file := "chain/src/txhashset/bitmap_accumulator.rs", ty := "BitmapChunk", fp := 8649215477518312998, cover := .excluded "read() returns an empty chunk without reading anything; only elmt_size() is compared" },
  { kind := "W", file := "chain/src/txhashset/bitmap_accumulator.rs", ty := "BitmapSegment", fp := 2875939427393187373, cover := .codec "BitmapSegment" },
  { kind := "R", file := "chain/src/txhashset/bitmap_accumulator.rs", ty := "BitmapSegment", fp := 11021311911446069678, cover := .codec "BitmapSegment" },
  { kind := "W", file := "chain/src/txhashset/bitmap_accumulator.rs", ty := "BitmapBlock", fp := 16934713243063111507, cover := .inside "BitmapSegment" },
  { kind := "R", file := "chain/src/txhashset/bitmap_accumulator.rs", ty := "BitmapBlock", fp := 6750500208918571017, cover := .inside "BitmapSegment" },
  { kind := "W", file := "chain/src/txhashset/bitmap_accumulator.rs", ty := "BitmapBlockSerialization", fp := 3467635176838667750, cover := .inside "BitmapSegment" },
  { kind := "R", file := "chain/src/txhashset/bitmap_accumulator.rs", ty := "BitmapBlockSerialization", fp := 1629149026705705266, cover := .inside "BitmapSegment" },
  { kind := "W", file := "core/src/ser.rs", ty := "ProtocolVersion", fp := 10705240120713049226, cover := .codec "ProtocolVersion" },
  { kind := "R", file := "core/src/ser.rs", ty := "ProtocolVersion", fp := 1082119781786247314, cover := .codec "ProtocolVersion" },
  { kind := "R", file := "core/src/ser.rs", ty := "Commitment", fp := 10594668708737513949, cover := .codec "Commitment" },
  { kind := "W", file := "core/src/ser.rs", ty := "Commitment", fp := 2830028106815421101, cover := .codec "Commitment" },
  { kind := "W", file := "core/src/ser.rs", ty := "BlindingFactor", fp := 104496304059148004, cover := .codec "BlindingFactor" },
  { kind := "R", file := "core/src/ser.rs", ty := "BlindingFactor", fp := 16049176218625595313, cover := .codec "BlindingFactor" },
  { kind := "W", file := "core/src/ser.rs", ty := "Identifier", fp := 8492554086595512863, cover := .codec "Identifier" },
  { kind := "R", file := "core/src/ser.rs", ty := "Identifier", fp := 4942170439586592970, cover := .codec "Identifier" },
  { kind := "W", file := "core/src/ser.rs", ty := "RangeProof", fp := 16595017726385690416, cover := .codec "RangeProof" },
  { kind := "R", file := "core/src/ser.rs", ty := "RangeProof", fp := 8721950850079491468, cover := .codec "RangeProof" },
  { kind := "R", file := "core/src/ser.rs", ty := "Signature", fp := 7487931390302334600, cover := .codec "Signature" },
  { kind := "W", file := "core/src/ser.rs", ty := "Signature", fp := 1340999516974731966, cover := .codec "Signature" },
  { kind := "W", file := "core/src/ser.rs", ty := "PublicKey", fp := 16719126399090063257, cover := .codec "PublicKey" },
  { kind := "R", file := "core/src/ser.rs", ty := "PublicKey", fp := 16685949521236425873, cover := .codec "PublicKey" },
  { kind := "W", file := "core/src/ser.rs", ty := "$int", fp := 10545460757063822127, cover := .codec "I32" },
  { kind := "R", file := "core/src/ser.rs", ty := "$int", fp := 10008978739733783062, cover := .codec "I32" },
  { kind := "R", file := "core/src/ser.rs", ty := "Vec<T>", fp := 15272977195626473128, cover := .codec "SpentIndex" },
  { kind := "W", file := "core/src/ser.rs", ty := "Vec<T>", fp := 10781676810259220659, cover := .codec "SpentIndex" },
  { kind := "W", file := "core/src/ser.rs", ty := "&'aA", fp := 9025948738110762531, cover := .excluded "forwarding impl: writes what A writes" },
  { kind := "W", file := "core/src/ser.rs", ty := "(A,B)", fp := 5417990779953323524, cover := .codec "TupleU64U32" },
  { kind := "R", file := "core/src/ser.rs", ty := "(A,B)", fp := 4756498629178145482, cover := .codec "TupleU64U32" },
  { kind := "W", file := "core/src/ser.rs", ty := "(A,B,C)", fp := 13976207016617349483, cover := .codec "TupleU64U32U16" },
  { kind := "W", file := "core/src/ser.rs", ty := "(A,B,C,D)", fp := 12077076575869550697, cover := .codec "TupleU64U32U16U8" },
  { kind := "R", file := "core/src/ser.rs", ty := "(A,B,C)", fp := 16201464470499349084, cover := .codec "TupleU64U32U16" },
  { kind := "R", file := "core/src/ser.rs", ty := "(A,B,C,D)", fp := 12917764557867418933, cover := .codec "TupleU64U32U16U8" },
  { kind := "R", file := "core/src/core/block.rs", ty := "HeaderEntry", fp := 16737291068720728857, cover := .codec "HeaderEntry" },
  { kind := "W", file := "core/src/core/block.rs", ty := "HeaderEntry", fp := 1217701135067885638, cover := .codec "HeaderEntry" },
  { kind := "W", file := "core/src/core/block.rs", ty := "HeaderVersion", fp := 5028581958960092399, cover := .inside "BlockHeader" },
  { kind := "R", file := "core/src/core/block.rs", ty := "HeaderVersion", fp := 959448273804940639, cover := .inside "BlockHeader" },
  { kind := "W", file := "core/src/core/block.rs", ty := "BlockHeader", fp := 15664148342584641733, cover := .codec "BlockHeader" },
  { kind := "R", file := "core/src/core/block.rs", ty := "BlockHeader", fp := 4137684409274746927, cover := .codec "BlockHeader" },
  { kind := "R", file := "core/src/core/block.rs", ty := "UntrustedBlockHeader", fp := 10647930884851483129, cover := .wrapper "BlockHeader" },
  { kind := "W", file := "core/src/core/block.rs", ty := "Block", fp := 943965860143290480, cover := .codec "Block" },
  { kind := "R", file := "core/src/core/block.rs", ty := "Block", fp := 16231659000947403341, cover := .codec "Block" },
  { kind := "R", file := "core/src/core/block.rs", ty := "UntrustedBlock", fp := 7749285828070582900, cover := .wrapper "Block" },
  { kind := "W", file := "core/src/core/block_sums.rs", ty := "BlockSums", fp := 12298247856613963112, cover := .codec "BlockSums" },
  { kind := "R", file := "core/src/core/block_sums.rs", ty := "BlockSums", fp := 10695976682704742528, cover := .codec "BlockSums" },
  { kind := "R", file := "core/src/core/compact_block.rs", ty := "CompactBlockBody", fp := 17979999177181604132, cover := .inside "CompactBlock" },
  { kind := "W", file := "core/src/core/compact_block.rs", ty := "CompactBlockBody", fp := 95652237703713746, cover := .inside "CompactBlock" },
  { kind := "W", file := "core/src/core/compact_block.rs", ty := "CompactBlock", fp := 15812745975744560839, cover := .codec "CompactBlock" },
  { kind := "R", file := "core/src/core/compact_block.rs", ty := "CompactBlock", fp := 12830994331310565096, cover := .codec "CompactBlock" },
  { kind := "R", file := "core/src/core/compact_block.rs", ty := "UntrustedCompactBlock", fp := 5151033886974412351, cover := .wrapper "CompactBlock" },
  { kind := "R", file := "core/src/core/hash.rs", ty := "Hash", fp := 11627468342407622040, cover := .codec "Hash" },
  { kind := "W", file := "core/src/core/hash.rs", ty := "Hash", fp := 13521579811745524968, cover := .codec "Hash" },
  { kind := "R", file := "core/src/core/id.rs", ty := "ShortId", fp := 8505078503105001035, cover := .codec "ShortId" },
  { kind := "W", file := "core/src/core/id.rs", ty := "ShortId", fp := 392076427147519451, cover := .codec "ShortId" },
  { kind := "W", file := "core/src/core/merkle_proof.rs", ty := "MerkleProof", fp := 17974608847545958878, cover := .codec "MerkleProof" },
  { kind := "R", file := "core/src/core/merkle_proof.rs", ty := "MerkleProof", fp := 13847870145093195282, cover := .codec "MerkleProof" },
  { kind := "W", file := "core/src/core/transaction.rs", ty := "FeeFields", fp := 14789684241461620416, cover := .inside "KernelFeatures" },
  { kind := "R", file := "core/src/core/transaction.rs", ty := "FeeFields", fp := 17302961453335967290, cover := .inside "KernelFeatures" },
  { kind := "W", file := "core/src/core/transaction.rs", ty := "NRDRelativeHeight", fp := 18030364605207477579, cover := .codec "NRDRelativeHeight" },
  { kind := "R", file := "core/src/core/transaction.rs", ty := "NRDRelativeHeight", fp := 17628123021919472793, cover := .codec "NRDRelativeHeight" },
  { kind := "W", file := "core/src/core/transaction.rs", ty := "KernelFeatures", fp := 15426875703777861159, cover := .codec "KernelFeatures" },
  { kind := "R", file := "core/src/core/transaction.rs", ty := "KernelFeatures", fp := 7987342587378150143, cover := .codec "KernelFeatures" },
  { kind := "W", file := "core/src/core/transaction.rs", ty := "TxKernel", fp := 12997356846628306323, cover := .codec "TxKernel" },
  { kind := "R", file := "core/src/core/transaction.rs", ty := "TxKernel", fp := 11276017759871804281, cover := .codec "TxKernel" },
  { kind := "W", file := "core/src/core/transaction.rs", ty := "TransactionBody", fp := 8129728334138387896, cover := .codec "TransactionBody" },
  { kind := "R", file := "core/src/core/transaction.rs", ty := "TransactionBody", fp := 14085582125708284657, cover := .codec "TransactionBody" },
  { kind := "W", file := "core/src/core/transaction.rs", ty := "Transaction", fp := 17541354398174163473, cover := .codec "Transaction" },
  { kind := "R", file := "core/src/core/transaction.rs", ty := "Transaction", fp := 10719003822142822861, cover := .codec "Transaction" },
  { kind := "W", file := "core/src/core/transaction.rs", ty := "Input", fp := 16612303032158788976, cover := .codec "Input" },
  { kind := "R", file := "core/src/core/transaction.rs", ty := "Input", fp := 133769846287844486, cover := .codec "Input" },
  { kind := "R", file := "core/src/core/transaction.rs", ty := "CommitWrapper", fp := 3176691936693125105, cover := .codec "CommitWrapper" },
  { kind := "W", file := "core/src/core/transaction.rs", ty := "CommitWrapper", fp := 3411581397768903792, cover := .codec "CommitWrapper" },
  { kind := "W", file := "core/src/core/transaction.rs", ty := "Inputs", fp := 17418718059150064246, cover := .inside "TransactionBody" },
  { kind := "W", file := "core/src/core/transaction.rs", ty := "OutputFeatures", fp := 12502038373567022374, cover := .codec "OutputFeatures" },
  { kind := "R", file := "core/src/core/transaction.rs", ty := "OutputFeatures", fp := 9704509646169683421, cover := .codec "OutputFeatures" },
  { kind := "W", file := "core/src/core/transaction.rs", ty := "Output", fp := 9943244628170642258, cover := .codec "Output" },
  { kind := "R", file := "core/src/core/transaction.rs", ty := "Output", fp := 11441112267370428393, cover := .codec "Output" },
  { kind := "W", file := "core/src/core/transaction.rs", ty := "OutputIdentifier", fp := 1030607092183019372, cover := .codec "OutputIdentifier" },
  { kind := "R", file := "core/src/core/transaction.rs", ty := "OutputIdentifier", fp := 5040240600994518503, cover := .codec "OutputIdentifier" },
  { kind := "R", file := "core/src/core/pmmr/segment.rs", ty := "SegmentIdentifier", fp := 9801041526371888072, cover := .codec "SegmentIdentifier" },
  { kind := "W", file := "core/src/core/pmmr/segment.rs", ty := "SegmentIdentifier", fp := 16461452423547564364, cover := .codec "SegmentIdentifier" },
  { kind := "R", file := "core/src/core/pmmr/segment.rs", ty := "Segment<T>", fp := 403322782260545057, cover := .codec "KernelSegment" },
  { kind := "W", file := "core/src/core/pmmr/segment.rs", ty := "Segment<T>", fp := 11636983310009263287, cover := .codec "KernelSegment" },
  { kind := "R", file := "core/src/core/pmmr/segment.rs", ty := "SegmentProof", fp := 12004981906853538518, cover := .codec "SegmentProof" },
  { kind := "W", file := "core/src/core/pmmr/segment.rs", ty := "SegmentProof", fp := 4388081014812089761, cover := .codec "SegmentProof" },
  { kind := "W", file := "core/src/pow/types.rs", ty := "Difficulty", fp := 9212097842194304534, cover := .inside "ProofOfWork" },
  { kind := "R", file := "core/src/pow/types.rs", ty := "Difficulty", fp := 5155460539337894719, cover := .inside "ProofOfWork" },
  { kind := "W", file := "core/src/pow/types.rs", ty := "ProofOfWork", fp := 17787278622699452295, cover := .codec "ProofOfWork" },
  { kind := "R", file := "core/src/pow/types.rs", ty := "ProofOfWork", fp := 13155764587419208812, cover := .codec "ProofOfWork" },
  { kind := "R", file := "core/src/pow/types.rs", ty := "Proof", fp := 18420086654868361372, cover := .codec "Proof" },
  { kind := "W", file := "core/src/pow/types.rs", ty := "Proof", fp := 8402100999507608436, cover := .codec "Proof" },
  { kind := "W", file := "p2p/src/msg.rs", ty := "MsgHeader", fp := 7640719642571426640, cover := .codec "MsgHeaderA" },
  { kind := "R", file := "p2p/src/msg.rs", ty := "MsgHeaderWrapper", fp := 14275306092853327786, cover := .op "hdr" },
  { kind := "W", file := "p2p/src/msg.rs", ty := "Hand", fp := 15670633885952656270, cover := .codec "Hand" },
  { kind := "R", file := "p2p/src/msg.rs", ty := "Hand", fp := 9700804865571238123, cover := .codec "Hand" },
  { kind := "W", file := "p2p/src/msg.rs", ty := "Shake", fp := 409674931223803716, cover := .codec "Shake" },
  { kind := "R", file := "p2p/src/msg.rs", ty := "Shake", fp := 17754689714115855991, cover := .codec "Shake" },
  { kind := "W", file := "p2p/src/msg.rs", ty := "GetPeerAddrs", fp := 954649581449121269, cover := .codec "GetPeerAddrs" },
  { kind := "R", file := "p2p/src/msg.rs", ty := "GetPeerAddrs", fp := 2122849267777213051, cover := .codec "GetPeerAddrs" },
  { kind := "W", file := "p2p/src/msg.rs", ty := "PeerAddrs", fp := 5964960491376350253, cover := .codec "PeerAddrs" },
  { kind := "R", file := "p2p/src/msg.rs", ty := "PeerAddrs", fp := 896134604718599006, cover := .codec "PeerAddrs" },
  { kind := "W", file := "p2p/src/msg.rs", ty := "PeerError", fp := 17274906006325226650, cover := .codec "PeerError" },
  { kind := "R", file := "p2p/src/msg.rs", ty := "PeerError", fp := 14670218095129544328, cover := .codec "PeerError" },
  { kind := "W", file := "p2p/src/msg.rs", ty := "Locator", fp := 4020818139644490022, cover := .codec "Locator" },
  { kind := "R", file := "p2p/src/msg.rs", ty := "Locator", fp := 9209425234151557703, cover := .codec "Locator" },
  { kind := "W", file := "p2p/src/msg.rs", ty := "Headers", fp := 12578766553448140220, cover := .codec "Headers" },
  { kind := "W", file := "p2p/src/msg.rs", ty := "Ping", fp := 5230589206943177983, cover := .codec "Ping" },
  { kind := "R", file := "p2p/src/msg.rs", ty := "Ping", fp := 10205898614366926511, cover := .codec "Ping" },
  { kind := "W", file := "p2p/src/msg.rs", ty := "Pong", fp := 1595586341722706113, cover := .codec "Pong" },
  { kind := "R", file := "p2p/src/msg.rs", ty := "Pong", fp := 10140857908573485777, cover := .codec "Pong" },
  { kind := "W", file := "p2p/src/msg.rs", ty := "BanReason", fp := 3959116138522728405, cover := .codec "BanReason" },
  { kind := "R", file := "p2p/src/msg.rs", ty := "BanReason", fp := 12444333154208492341, cover := .codec "BanReason" },
  { kind := "W", file := "p2p/src/msg.rs", ty := "TxHashSetRequest", fp := 14063135007681535522, cover := .codec "TxHashSetRequest" },
  { kind := "R", file := "p2p/src/msg.rs", ty := "TxHashSetRequest", fp := 4318301190167331946, cover := .codec "TxHashSetRequest" },
  { kind := "W", file := "p2p/src/msg.rs", ty := "TxHashSetArchive", fp := 8295793036701996926, cover := .codec "TxHashSetArchive" },
  { kind := "R", file := "p2p/src/msg.rs", ty := "TxHashSetArchive", fp := 1492832470066336513, cover := .codec "TxHashSetArchive" },
  { kind := "R", file := "p2p/src/msg.rs", ty := "SegmentRequest", fp := 14308144411232745666, cover := .codec "SegmentRequest" },
  { kind := "W", file := "p2p/src/msg.rs", ty := "SegmentRequest", fp := 10028998751502580421, cover := .codec "SegmentRequest" },
  { kind := "R", file := "p2p/src/msg.rs", ty := "SegmentResponse<T>", fp := 1308956902268318374, cover := .codec "KernelSegmentResponse" },
  { kind := "W", file := "p2p/src/msg.rs", ty := "SegmentResponse<T>", fp := 1293240536502310012, cover := .codec "KernelSegmentResponse" },
  { kind := "R", file := "p2p/src/msg.rs", ty := "OutputSegmentResponse", fp := 7725816949184656701, cover := .codec "OutputSegmentResponse" },
  { kind := "W", file := "p2p/src/msg.rs", ty := "OutputSegmentResponse", fp := 2520639164827861030, cover := .codec "OutputSegmentResponse" },
  { kind := "R", file := "p2p/src/msg.rs", ty := "OutputBitmapSegmentResponse", fp := 13045296680078381832, cover := .codec "OutputBitmapSegmentResponse" },
  { kind := "W", file := "p2p/src/msg.rs", ty := "OutputBitmapSegmentResponse", fp := 10901085686007837401, cover := .codec "OutputBitmapSegmentResponse" },
  { kind := "W", file := "p2p/src/store.rs", ty := "PeerData", fp := 1301654482017437891, cover := .codec "PeerData" },
  { kind := "R", file := "p2p/src/store.rs", ty := "PeerData", fp := 15079006956837723205, cover := .codec "PeerData" },
  { kind := "W", file := "p2p/src/types.rs", ty := "PeerAddr", fp := 17061644547988753577, cover := .codec "PeerAddr" },
  { kind := "R", file := "p2p/src/types.rs", ty := "PeerAddr", fp := 15014389280625507052, cover := .codec "PeerAddr" },
  { kind := "R", file := "store/src/types.rs", ty := "SizeEntry", fp := 12640116360703881286, cover := .codec "SizeEntry" },
  { kind := "W", file := "store/src/types.rs", ty := "SizeEntry", fp := 6193756894538491228, cover := .codec "SizeEntry" }]

/-- every codec name the table refers to (the driver answers the `ser implcodecs` line with `ok` only if its
dispatch knows each of them) -/
def codecNames : List String := ["BanReason", "BitmapSegment", "BlindingFactor", "Block", "BlockHeader", "BlockSums", "CommitPos", "CommitWrapper", "Commitment", "CompactBlock", "GetPeerAddrs", "Hand", "Hash", "HeaderEntry", "Headers", "I32", "Identifier", "Input", "KernelFeatures", "KernelSegment", "KernelSegmentResponse", "Locator", "MerkleProof", "MsgHeaderA", "NRDRelativeHeight", "NrdEntry", "NrdList", "Output", "OutputBitmapSegmentResponse", "OutputFeatures", "OutputIdentifier", "OutputSegmentResponse", "PeerAddr", "PeerAddrs", "PeerData", "PeerError", "Ping", "Pong", "Proof", "ProofOfWork", "ProtocolVersion", "PublicKey", "RangeProof", "SegmentIdentifier", "SegmentProof", "SegmentRequest", "Shake", "ShortId", "Signature", "SizeEntry", "SpentIndex", "Tip", "Transaction", "TransactionBody", "TupleU64U32", "TupleU64U32U16", "TupleU64U32U16U8", "TxHashSetArchive", "TxHashSetRequest", "TxKernel"]

/-- the other driver ops the table refers to -/
def opNames : List String := ["hdr"]

def Impl.key (i : Impl) : String × String × String × Nat := (i.kind, i.file, i.ty, i.fp)

def Cover.ref? : Cover → Option String
  | .codec n => some n
  | .inside n => some n
  | .wrapper n => some n
  | _ => none

def count (kind : String) : Nat := (table.filter fun i => i.kind == kind).length

end GV.SerImpls
