import GrinVerif.Model.Crash
/-! The LMDB map resize as crash points (C09; hook ff7c31d82: `lmdb:before-resize` / `lmdb:after-resize`
around both `env.resize(new_size)` sites of `Store::maybe_resize`, store/src/lmdb.rs).

`Store::batch()` calls `maybe_resize()` BEFORE it opens the write transaction: `needs_resize` compares
the bytes used by the committed pages (`page_size * last_page_number`) with the map size and, past
90 %, picks the next multiple of the allocation chunk that brings usage under 65 %; `env.resize`
(`mdb_env_set_mapsize`) changes the map size OF THE RUNNING PROCESS. LMDB stores the map size in its
meta page, which is written by the commit of a transaction that has dirty pages ("persist any
increases of mapsize config", `mdb_env_write_meta`); a process that dies before such a commit leaves
the old meta page, and the next start opens the environment with the old map size and decides again.
The resize writes nothing else: no page, no file of the chain directory.

`Env` is the environment as far as the map size goes; the chain's durable state (`Durable`) is a
separate component no resize step touches — this independence IS the model (tied to the node by the
`crash resize` run: restarts that die before / after their resize, every one followed by the full
restart oracle; the driver predicts those crash points by skipping the two labels).
The `f32` comparisons of `needs_resize` are modelled by exact integer comparisons. -/
namespace GV.Crash

structure Env where
  /-- map size in the durable meta page -/
  metaMap : Nat
  /-- map size of the running process (`env.info().map_size`) -/
  memMap : Nat
  /-- `page_size * last_page_number` of the committed state -/
  used : Nat
deriving Repr, DecidableEq, Inhabited

/-- the `while` of `needs_resize`: add chunks until usage is at most 65 %; fuel = `used` -/
def growTo (chunk used : Nat) : Nat → Nat → Nat
  | 0, tot => tot
  | fuel+1, tot => if used * 100 > tot * 65 then growTo chunk used fuel (tot + chunk) else tot

/-- `needs_resize(env, alloc_chunk_size)`: `none` = no resize, `some n` = resize to `n` -/
def needsResize (chunk : Nat) (e : Env) : Option Nat :=
  if e.used * 10 > e.memMap * 9 || e.memMap < chunk then
    some (if e.memMap < chunk then chunk
          else growTo chunk e.used (e.used * 100 + 1) (e.memMap - e.memMap % chunk))
  else none

inductive EStep
  /-- `env.resize(n)` -/
  | resize (n : Nat)
  /-- `write.commit()`; `dirty` = the transaction wrote pages; `used'` = bytes used afterwards -/
  | commit (dirty : Bool) (used' : Nat)
deriving Repr, DecidableEq, Inhabited

def applyE (e : Env) : EStep → Env
  | .resize n => { e with memMap := n }
  | .commit dirty used' =>
    if dirty then { e with metaMap := max e.metaMap e.memMap, used := used' } else e

/-- process death and restart: the map size of the process is gone; the environment is opened with
the map size of the meta page (at least the committed data) -/
def restartE (e : Env) : Env := { e with memMap := max e.metaMap e.used }

/-- node = chain durable state + environment; a step is a chain step or an environment step -/
inductive NStep
  | chain (s : Step)
  | env (s : EStep)
deriving Repr, DecidableEq, Inhabited

def applyN (t : Target) (n : Durable × Env) : NStep → Durable × Env
  | .chain s => (applyStep t n.1 s, n.2)
  | .env s => (n.1, applyE n.2 s)

def crashAfterN (t : Target) (n : Durable × Env) (steps : List NStep) (k : Nat) : Durable × Env :=
  (steps.take k).foldl (applyN t) n

/-- the chain steps among the first `k` steps -/
def chainPart (steps : List NStep) (k : Nat) : List Step :=
  (steps.take k).filterMap fun | .chain s => some s | .env _ => none

/-- `batch()` = `maybe_resize()` then the batch's own steps -/
def batchWithResize (chunk : Nat) (e : Env) (steps : List Step) : List NStep :=
  (match needsResize chunk e with
   | some n => [.env (.resize n)]
   | none => []) ++ steps.map .chain

end GV.Crash
