import GrinVerif.Model.SerTx
/-! # Codecs of `core/src/pow/types.rs` (`Difficulty`, `Proof`, `ProofOfWork`),
`core/src/core/block.rs` (`HeaderVersion`, `BlockHeader`, `Block`),
`core/src/core/compact_block.rs`, `core/src/core/id.rs` (`ShortId`), `chain/src/types.rs` (`Tip`). -/
namespace GV.Ser
open GV

/-! ## Proof: nonces packed at exactly `edge_bits` bits each, little-endian bit order -/

/-- `Proof::pack_len(bit_width)` -/
def packLen (proofSize w : Nat) : Nat := (w * proofSize + 7) / 8

/-- the `for el in uncompressed` loop of `pack_bits`: `mini` = `mini_buffer`, `rem` = `remaining`,
`acc` = the 8-byte chunks already copied to `compressed`. Shifts are u64 shifts (`<<` drops the
bits above 64). Returns the final mini buffer and the chunks. -/
def packLoop (w : Nat) : List Nat → Nat → Nat → Bytes → Nat × Bytes
  | [], mini, _, acc => (mini, acc)
  | el :: r, mini, rem, acc =>
    let mini' := mini ||| (el * 2^(64 - rem)) % 2^64
    if w < rem then packLoop w r mini' (rem - w) acc
    else packLoop w r (el / 2^rem) (64 + rem - w) (acc ++ leBytes 8 mini')

/-- `pack_bits(bit_width, nonces, &mut vec![0; len])`. The Rust panics when the buffer is too
short for a chunk or when the tail does not have exactly `remainder` bytes; that happens only for
proofs whose nonce count is not `proofsize` or whose nonces exceed `edge_bits` bits (never produced
by a decoder); there the model returns the chunks that fit the arithmetic instead. -/
def packBits (w : Nat) (nonces : List Nat) (len : Nat) : Bytes :=
  let (mini, acc) := packLoop w nonces 0 64 []
  let avail := len - acc.length
  let remainder := if avail % 8 = 0 then 8 else avail % 8
  if mini > 0 then acc ++ (leBytes 8 mini).take remainder
  else acc ++ List.replicate avail 0

structure Proof where
  edgeBits : Nat
  nonces : List Nat
deriving DecidableEq, Repr

/-- `Proof::pack_nonces` -/
def Proof.packNonces (proofSize : Nat) (p : Proof) : Bytes :=
  packBits p.edgeBits p.nonces (packLen proofSize p.edgeBits)

/-- `Writeable for Proof`: `edge_bits` byte omitted in hash mode -/
def encProof (proofSize : Nat) (m : Mode) (p : Proof) : Bytes :=
  (if m = .hash then [] else writeU8 p.edgeBits) ++ p.packNonces proofSize

/-- `u64::from_le_bytes(bits[read_from .. read_from+8])` -/
def leU64At (bits : Bytes) (readFrom : Nat) : Nat := ofLE ((bits.drop readFrom).take 8)

/-- `extract_bits` -/
def extractBits (bits : Bytes) (bitStart bitCount readFrom : Nat) : Nat :=
  if bitCount = 64 then leU64At bits readFrom
  else
    let skip := bitStart - readFrom * 8
    leU64At bits readFrom / 2^skip % 2^bitCount

/-- `read_number` (caller guarantees `bits.len() ≥ 8`) -/
def readNumber (bits : Bytes) (bitStart bitCount : Nat) : Nat :=
  if bitCount = 0 then 0 else
  let rf := bitStart / 8
  let rf := if rf + 8 > bits.length then bits.length - 8 else rf
  let maxBitEnd := (rf + 8) * 8
  let maxPos := bitStart + bitCount
  if maxPos ≤ maxBitEnd then extractBits bits bitStart bitCount rf
  else
    let low := extractBits bits bitStart 8 rf
    let high := extractBits bits (bitStart + 8) (bitCount - 8) (rf + 1)
    (high * 2^8 + low) % 2^64

/-- `Readable for Proof` (`DeserializationMode::Full`) -/
def decProof (c : Cfg) : Parser Proof := fun bs =>
  andThen (readU8 bs) fun eb r =>
    if eb = 0 ∨ eb > 63 then .error .corrupted else
    if packLen c.proofSize eb < 8 then .error .corrupted else
    andThen (readFixed (packLen c.proofSize eb) r) fun bits r =>
      let nonces := (List.range c.proofSize).map fun n => readNumber bits (n * eb) eb
      let endOfData := c.proofSize * eb
      if readNumber bits endOfData (packLen c.proofSize eb * 8 - endOfData) ≠ 0 then .error .corrupted
      else .ok ({ edgeBits := eb, nonces := nonces }, r)

def Proof.hashBytes (proofSize : Nat) (p : Proof) : Bytes := encProof proofSize .hash p

/-! ## Difficulty, ProofOfWork -/

structure ProofOfWork where
  totalDifficulty : Nat
  secondaryScaling : Nat
  nonce : Nat
  proof : Proof
deriving DecidableEq, Repr

/-- `Writeable for ProofOfWork`: hash mode writes the proof only -/
def encProofOfWork (proofSize : Nat) (m : Mode) (p : ProofOfWork) : Bytes :=
  (if m = .hash then [] else writeU64 p.totalDifficulty ++ writeU32 p.secondaryScaling ++ writeU64 p.nonce)
  ++ encProof proofSize m p.proof

def decProofOfWork (c : Cfg) : Parser ProofOfWork := fun bs =>
  andThen (readU64 bs) fun td r =>
  andThen (readU32 r) fun ss r =>
  andThen (readU64 r) fun nonce r =>
  andThen (decProof c r) fun pf r =>
  .ok ({ totalDifficulty := td, secondaryScaling := ss, nonce := nonce, proof := pf }, r)

/-! ## BlockHeader -/

structure BlockHeader where
  /-- `HeaderVersion(u16)` -/
  version : Nat
  height : Nat
  prevHash : Bytes
  prevRoot : Bytes
  /-- `timestamp.timestamp()` (seconds) -/
  timestamp : Int
  outputRoot : Bytes
  rangeProofRoot : Bytes
  kernelRoot : Bytes
  totalKernelOffset : Bytes
  outputMmrSize : Nat
  kernelMmrSize : Nat
  pow : ProofOfWork
deriving DecidableEq, Repr

/-- `chrono::NaiveDate::MAX.and_hms(0,0,0).timestamp()` (chrono 0.4.45: 262142-12-31);
tied to the real value by the harness line `ser const ts_max` -/
def TS_MAX : Int := 8210266790400
/-- `chrono::NaiveDate::MIN.and_hms(0,0,0).timestamp()` (-262143-01-01) -/
def TS_MIN : Int := -8334601228800

/-- `BlockHeader::write_pre_pow` -/
def encHeaderPrePow (h : BlockHeader) : Bytes :=
  writeU16 h.version ++ writeU64 h.height ++ writeI64 h.timestamp
  ++ writeFixed h.prevHash ++ writeFixed h.prevRoot ++ writeFixed h.outputRoot
  ++ writeFixed h.rangeProofRoot ++ writeFixed h.kernelRoot ++ writeFixed h.totalKernelOffset
  ++ writeU64 h.outputMmrSize ++ writeU64 h.kernelMmrSize

/-- `Writeable for BlockHeader`: hash mode skips the pre-pow part (and `ProofOfWork` then writes
the packed nonces only) -/
def encBlockHeader (proofSize : Nat) (m : Mode) (h : BlockHeader) : Bytes :=
  (if m = .hash then [] else encHeaderPrePow h) ++ encProofOfWork proofSize m h.pow

/-- `read_block_header` -/
def decBlockHeader (c : Cfg) : Parser BlockHeader := fun bs =>
  andThen (readU16 bs) fun version r =>
  andThen (readU64 r) fun height r =>
  andThen (readI64 r) fun timestamp r =>
  andThen (decHash r) fun prevHash r =>
  andThen (decHash r) fun prevRoot r =>
  andThen (decHash r) fun outputRoot r =>
  andThen (decHash r) fun rangeProofRoot r =>
  andThen (decHash r) fun kernelRoot r =>
  andThen (decBlind r) fun tko r =>
  andThen (readU64 r) fun oms r =>
  andThen (readU64 r) fun kms r =>
  andThen (decProofOfWork c r) fun pow r =>
    if timestamp > TS_MAX ∨ timestamp < TS_MIN then .error .corrupted
    else .ok ({ version := version, height := height, prevHash := prevHash, prevRoot := prevRoot,
                timestamp := timestamp, outputRoot := outputRoot, rangeProofRoot := rangeProofRoot,
                kernelRoot := kernelRoot, totalKernelOffset := tko, outputMmrSize := oms,
                kernelMmrSize := kms, pow := pow }, r)

/-- bytes fed to the `HashWriter` by `BlockHeader::hash()` — no version parameter -/
def BlockHeader.hashBytes (proofSize : Nat) (h : BlockHeader) : Bytes := encBlockHeader proofSize .hash h

/-! ## Block -/

structure Block where
  header : BlockHeader
  body : TxBody
deriving DecidableEq, Repr

/-- `Writeable for Block` (hash mode: header only) -/
def encBlock (key : Bytes → Nat) (proofSize ver : Nat) (m : Mode) (b : Block) : Except SerErr Bytes :=
  if m = .hash then .ok (encBlockHeader proofSize m b.header)
  else match encTxBody key ver m b.body with
    | .error e => .error e
    | .ok bb => .ok (encBlockHeader proofSize m b.header ++ bb)

/-- `Readable for Block` -/
def decBlock (c : Cfg) : Parser Block := fun bs =>
  andThen (decBlockHeader c bs) fun h r =>
  andThen (decTxBody c r) fun b r =>
  .ok ({ header := h, body := b }, r)

/-- `Hashed for Block`: the header's hash -/
def Block.hashBytes (proofSize : Nat) (b : Block) : Bytes := b.header.hashBytes proofSize

/-! ## ShortId, CompactBlockBody, CompactBlock -/

def SHORT_ID_SIZE : Nat := 6
def decShortId : Parser Bytes := readFixed SHORT_ID_SIZE
def encShortId (s : Bytes) : Bytes := writeFixed s

structure CompactBlockBody where
  outFull : List Output
  kernFull : List TxKernel
  kernIds : List Bytes
deriving DecidableEq, Repr

def encCompactBody (ver : Nat) (m : Mode) (b : CompactBlockBody) : Bytes :=
  writeU64 b.outFull.length ++ writeU64 b.kernFull.length ++ writeU64 b.kernIds.length
  ++ writeMulti encOutput b.outFull ++ writeMulti (encTxKernel ver m) b.kernFull
  ++ writeMulti encShortId b.kernIds

/-- `CompactBlockBody::verify_sorted` -/
def CompactBlockBody.verifySorted (key : Bytes → Nat) (b : CompactBlockBody) : Except SerErr Unit :=
  match verifySortedUnique (b.outFull.map fun o => key o.hashBytes) with
  | .error e => .error e
  | .ok _ =>
    match verifySortedUnique (b.kernFull.map fun k => key k.hashBytes) with
    | .error e => .error e
    | .ok _ => verifySortedUnique (b.kernIds.map fun s => key (encShortId s))

/-- `Readable for CompactBlockBody` (no weight pre-check; only the `read_multi` cap) -/
def decCompactBody (c : Cfg) : Parser CompactBlockBody := fun bs =>
  andThen (readU64 bs) fun no r =>
  andThen (readU64 r) fun nk r =>
  andThen (readU64 r) fun ni r =>
  andThen (readMulti decOutput no r) fun outs r =>
  andThen (readMulti (decTxKernel c) nk r) fun kers r =>
  andThen (readMulti decShortId ni r) fun ids r =>
    let body : CompactBlockBody := { outFull := outs, kernFull := kers, kernIds := ids }
    match body.verifySorted c.key with
    | .error _ => .error .corrupted
    | .ok _ => .ok (body, r)

structure CompactBlock where
  header : BlockHeader
  nonce : Nat
  body : CompactBlockBody
deriving DecidableEq, Repr

/-- `Writeable for CompactBlock` (hash mode: header only) -/
def encCompactBlock (proofSize ver : Nat) (m : Mode) (b : CompactBlock) : Bytes :=
  encBlockHeader proofSize m b.header
  ++ (if m = .hash then [] else writeU64 b.nonce ++ encCompactBody ver m b.body)

def decCompactBlock (c : Cfg) : Parser CompactBlock := fun bs =>
  andThen (decBlockHeader c bs) fun h r =>
  andThen (readU64 r) fun nonce r =>
  andThen (decCompactBody c r) fun b r =>
  .ok ({ header := h, nonce := nonce, body := b }, r)

def CompactBlock.hashBytes (proofSize : Nat) (b : CompactBlock) : Bytes := b.header.hashBytes proofSize

/-! ## Tip (`chain/src/types.rs`) -/

structure Tip where
  height : Nat
  lastBlockH : Bytes
  prevBlockH : Bytes
  totalDifficulty : Nat
deriving DecidableEq, Repr

def encTip (t : Tip) : Bytes :=
  writeU64 t.height ++ writeFixed t.lastBlockH ++ writeFixed t.prevBlockH ++ writeU64 t.totalDifficulty

def decTip : Parser Tip := fun bs =>
  andThen (readU64 bs) fun height r =>
  andThen (decHash r) fun last r =>
  andThen (decHash r) fun prev r =>
  andThen (readU64 r) fun td r =>
  .ok ({ height := height, lastBlockH := last, prevBlockH := prev, totalDifficulty := td }, r)

end GV.Ser
