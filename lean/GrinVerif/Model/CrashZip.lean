import GrinVerif.Model.Crash
/-! Crash model of the state-sync install (C09; known finding C09-state-sync-commit-before-swap).

`Chain::txhashset_write` (chain/src/chain.rs): the zip is unpacked into the sandbox directory next to
the chain directory, opened, rewound and validated there (`txhashset::extending` → the three
`backend.sync()`s write SANDBOX files); then ONE `batch.commit()` stores body head = body tail = the
archive header (with the rebuilt indexes and the block sums); only then
`txhashset::txhashset_replace(sandbox, db_root)` = `clean_txhashset_folder(db_root)`
(`remove_dir_all(db_root/txhashset)`) followed by `fs::rename(sandbox/txhashset, db_root/txhashset)`
puts the validated files in place, and `TxHashSet::open(db_root)` re-opens them.

The node has the headers of the whole chain but the full block of NO block above genesis: the
fallback of `setup_head` (`Extension::rewind` → `batch.get_block(head)`) cannot undo the archive
block. `bodies` lists the ids whose full block is in the database. -/
namespace GV.Crash

inductive WhyZ
  | other | storeErr | txHashSetErr
deriving Repr, DecidableEq, Inhabited

def WhyZ.toString : WhyZ → String
  | .other => "Other" | .storeErr => "StoreErr" | .txHashSetErr => "TxHashSetErr"

inductive RecZ
  | openFail (why : WhyZ)
  | ok (head : Nat)
deriving Repr, DecidableEq, Inhabited

structure DurableZ where
  base : Durable
  /-- ids of the blocks whose body is stored -/
  bodies : List Nat
  /-- the chain directory's txhashset is half removed: `kernel/pmmr_data.bin` is gone while its size
  file and the hash file are there — `TxHashSet::open` cannot read the first kernel -/
  torn : Bool
deriving Repr, DecidableEq, Inhabited

inductive ZStep
  | sandbox        -- any durable step inside the sandbox: nothing the chain directory or LMDB holds
  | commit         -- head := tail := archive header
  | cleanPartial   -- remove_dir_all under way
  | clean          -- old txhashset directory gone (re-created empty on open)
  | rename         -- sandbox renamed into place
deriving Repr, DecidableEq, Inhabited

/-- the files of path `P` put into `d` (what the validated sandbox holds) -/
def withFilesOf (d : Durable) (P : List BlkInfo) : Durable :=
  { d with outHash := leavesOf P, outData := leavesOf P, leaf := unspentOf P,
           kerHash := P.map (·.id), kerData := P.map (·.id) }

def emptyFiles (d : Durable) : Durable :=
  { d with outHash := [], outData := [], leaf := [], kerHash := [], kerData := [] }

/-- `P` = path of the archive header -/
def applyZStep (P : List BlkInfo) (d : DurableZ) : ZStep → DurableZ
  | .sandbox => d
  | .commit => { d with base := { d.base with dbHead := (P.getLast?.map (·.id)).getD 0 } }
  | .cleanPartial => { d with torn := true }
  | .clean => { d with base := emptyFiles d.base, torn := false }
  | .rename => { d with base := withFilesOf d.base P, torn := false }

/-- the fallback loop of `setup_head` on a node that may lack bodies -/
def fallbackZ (bc : Nat → Bool) (tbl : List BlkInfo) (d : DurableZ) : Nat → Nat → List Leaf → RecZ
  | 0, h, _ => .ok h
  | fuel+1, h, readded =>
    match pathOf tbl (tbl.length + 1) h [] with
    | none => .openFail .storeErr
    | some path =>
      if path.length ≤ 1 then .ok h
      else if validAt bc d.base readded path then .ok h
      -- `rewind_and_apply_fork(&prev_header)` → `Extension::rewind` → `batch.get_block(&head)?`
      else if !d.bodies.contains h then .openFail .storeErr
      else
        let parentPath := path.dropLast
        let b := path.getLast!
        fallbackZ bc tbl d fuel ((parentPath.getLast?.map (·.id)).getD 0)
          (readded ++ spentLeaves (unspentOf parentPath) b)

/-- `Chain::init` on such a node -/
def recoverZ (bc : Nat → Bool) (tbl : List BlkInfo) (d : DurableZ) : RecZ :=
  -- TxHashSet::open comes first
  if d.torn then .openFail .txHashSetErr else
  if d.base.hdrHash.length ≠ d.base.hdrData.length then .openFail .other else
  match pathOf tbl (tbl.length + 1) d.base.dbHHead [] with
  | none => .openFail .storeErr
  | some hp =>
    if d.base.hdrData.take hp.length ≠ hp.map (·.id) then .openFail .other else
    fallbackZ bc tbl d (tbl.length + 1) d.base.dbHead []

/-- the node before the install: body on genesis `g`, headers of `H` (the whole header chain) -/
def zipStart (g : BlkInfo) (H : List BlkInfo) : DurableZ :=
  { base := { consistent [g] with dbHHead := (H.getLast?.map (·.id)).getD 0,
                                   hdrHash := H.map (·.id), hdrData := H.map (·.id) },
    bodies := [g.id], torn := false }

/-- interpretation of the crash-point labels of a `zip` scenario -/
def zstepOfLabel (l : String) (afterSandboxSync : Bool) : Option ZStep :=
  if l.startsWith "lmdb:after-commit(after:kernel/pmmr_prun.bin)" && afterSandboxSync then some .commit
  else if l.startsWith "emu.replace:clean-partial" then some .cleanPartial
  else if l.startsWith "txhashset_replace:after-clean" then some .clean
  else if l.startsWith "txhashset_replace:after-rename" then some .rename
  else none

end GV.Crash
