import GrinVerif.Model.Seg
/-! Model of the receiving side's state machine, `chain/src/txhashset/desegmenter.rs`
(`Desegmenter::{new, calc_bitmap_mmr_sizes, next_desired_segments, add_*_segment, cache_*_segment,
has_*_segment_with_id, next_required_*_segment_index, take_segment_batch, apply_next_segments,
apply_bitmap_segment, finalize_bitmap, is_complete, check_progress}`).

What is transliterated: every decision the desegmenter takes — the order of the checks in
`add_*_segment`, the four `next_required_*_segment_index` flavours with their release-build u64 /
usize arithmetic (`cur_segment_count -= 1`, `1 << height`, `num_segments * (1 << height)`,
`mmr_size - 1`: helpers of `Model/Basic.lean`, identifier arithmetic of `Model/Seg.lean`), the three
request loops and the three `maybe_add_to_request` steps of `next_desired_segments`, the cache
bookkeeping, `take_segment_batch`, the branches of `apply_next_segments`.

What is abstract:
* whether a segment passes `Segment::validate` / `validate_with` beyond the first test of
  `Segment::root` (`segment_unpruned_size == 0 → NonExistent`, which the model computes itself) is the
  parameter `SegIn.valid` (content dependent; `Model/Seg.lean` + `Props/C16` cover it);
* the three MMRs of the txhashset and the bitmap accumulator are their sizes.  What
  `Extension::apply_{output,rangeproof,kernel}_segment` does to the size is `applySeg`: the leaves of
  the segment are pushed where `pos0 == size` (everything already present is skipped; the genesis
  leaf of a fresh chain is skipped), and — output / rangeproof only — a completely pruned segment
  that carries the hash of its first unpruned parent *above* its own root pushes that whole subtree
  (`push_pruned_subtree`), i.e. advances by `SegIn.jump` further whole segments (content dependent,
  computed by the harness from the segment's hash positions; 0 otherwise);
* `apply_bitmap_segment` appends **every** chunk of `leaf_data`, whatever its position: a validated
  segment carries the chunks of its range (`MissingLeaf` otherwise) plus `SegIn.extra` redundant
  trailing ones that `Segment::root` never looks at (0 for a segment a node produced).

Ghost state (not in the Rust struct, used by the theorems only): `misapplied` (a segment was
handed to `apply_*_segment` although it starts beyond the local MMR — what the foreign-height defect
did) and, per tree, the log of the applications that changed the MMR. -/

namespace GV.Deseg
open GV GV.Pmmr GV.Seg

/-- `SegmentType` -/
inductive Kind
  | bitmap | output | rangeproof | kernel
deriving DecidableEq, Repr

/-- what `add_*_segment` returns -/
inductive AddRes
  /-- `Ok(())`: cached, or a segment with this identifier was cached already -/
  | ok
  /-- `Error::InvalidSegmentHeight` -/
  | invalidSegmentHeight
  /-- `Error::SegmentError(NonExistent)`: first test of `Segment::root` -/
  | nonExistent
  /-- any other `SegmentError` of `validate` / `validate_with` -/
  | invalid
deriving DecidableEq, Repr

/-- a segment handed to `add_*_segment`, as far as the state machine can tell -/
structure SegIn where
  id : Ident
  /-- verdict of `validate` / `validate_with` after the `NonExistent` test -/
  valid : Bool
  /-- output / rangeproof: further whole segments covered by the first-unpruned-parent hash -/
  jump : Nat := 0
  /-- bitmap: redundant trailing chunks in `leaf_data` -/
  extra : Nat := 0
deriving DecidableEq, Repr

/-- an entry of a `*_segment_cache` -/
structure Cached where
  id : Ident
  jump : Nat
  extra : Nat
deriving DecidableEq, Repr

/-- one local MMR (or the bitmap accumulator) with its segment cache -/
structure Tree where
  /-- `unpruned_size()` of the local MMR -/
  size : Nat
  /-- `*_segment_cache`, in insertion order -/
  cache : List Cached
  /-- ghost: the applications that changed `size`, newest first -/
  log : List Cached
deriving Repr

/-- `Desegmenter` -/
structure St where
  /-- `default_{bitmap,output,rangeproof,kernel}_segment_height` (u8) -/
  hB : Nat
  hO : Nat
  hR : Nat
  hK : Nat
  /-- `archive_header.output_mmr_size`, `.kernel_mmr_size` -/
  outSize : Nat
  kerSize : Nat
  /-- `bitmap_mmr_leaf_count`, `bitmap_mmr_size` -/
  bmLeafCount : Nat
  bmSize : Nat
  /-- `bitmap_accumulator` + `bitmap_segment_cache` -/
  bm : Tree
  out : Tree
  rp : Tree
  ker : Tree
  /-- `bitmap_cache.is_some()` -/
  bitmapCache : Bool
  /-- `all_segments_complete` -/
  allComplete : Bool
  /-- ghost -/
  misapplied : Bool
deriving Repr

/-- `pibd_params::SEGMENT_APPLY_BATCH_SIZE` -/
def batchSize : Nat := 4
/-- `pibd_params::MAX_CACHED_SEGMENTS` -/
def maxCachedSegments : Nat := 15

/-- `Desegmenter::calc_bitmap_mmr_sizes`: `(n_leaves(output_mmr_size) + 1023) / 1024` chunks
(`n_leaves ≤ 2^63`, the sum cannot wrap), `insertion_to_pmmr_index` of that -/
def calcBitmapMmrSizes (outSize : Nat) : Nat × Nat :=
  let leafCount := (nLeaves outSize + 1023) / 1024
  (leafCount, ins2pmmrW leafCount)

/-- `Desegmenter::new` for an archive header with the given MMR sizes, on a chain whose txhashset
holds MMRs of sizes `gOut` (output and rangeproof) and `gKer` (1 / 1 on a fresh chain: the genesis
output and kernel) -/
def St.new (hB hO hR hK outSize kerSize gOut gKer : Nat) : St :=
  let b := calcBitmapMmrSizes outSize
  { hB := hB, hO := hO, hR := hR, hK := hK, outSize := outSize, kerSize := kerSize
    bmLeafCount := b.1, bmSize := b.2
    bm := ⟨0, [], []⟩, out := ⟨gOut, [], []⟩, rp := ⟨gOut, [], []⟩, ker := ⟨gKer, [], []⟩
    bitmapCache := false, allComplete := false, misapplied := false }

/-- `default_*_segment_height` of a kind -/
def St.heightOf (s : St) : Kind → Nat
  | .bitmap => s.hB
  | .output => s.hO
  | .rangeproof => s.hR
  | .kernel => s.hK

/-- the MMR size a segment of this kind is validated against -/
def St.archiveOf (s : St) : Kind → Nat
  | .bitmap => s.bmSize
  | .output => s.outSize
  | .rangeproof => s.outSize
  | .kernel => s.kerSize

def St.treeOf (s : St) : Kind → Tree
  | .bitmap => s.bm
  | .output => s.out
  | .rangeproof => s.rp
  | .kernel => s.ker

def St.setTree (s : St) (k : Kind) (t : Tree) : St :=
  match k with
  | .bitmap => { s with bm := t }
  | .output => { s with out := t }
  | .rangeproof => { s with rp := t }
  | .kernel => { s with ker := t }

/-! ## caches -/

/-- `has_*_segment_with_id` -/
def hasId (cache : List Cached) (id : Ident) : Bool := cache.any fun c => decide (c.id = id)

/-- `cache_*_segment`: push unless a segment with the same identifier is cached -/
def cacheSeg (cache : List Cached) (c : Cached) : List Cached :=
  if hasId cache c.id then cache else cache ++ [c]

/-- `add_{bitmap,output,rangeproof,kernel}_segment`: height first (`InvalidSegmentHeight`,
repair 11f03601e), then `validate` / `validate_with` (whose first test is `NonExistent`), then
`cache_*_segment` -/
def St.addSegment (s : St) (k : Kind) (x : SegIn) : St × AddRes :=
  if x.id.height ≠ s.heightOf k then (s, .invalidSegmentHeight)
  else if x.id.unprunedSize (s.archiveOf k) = 0 then (s, .nonExistent)
  else if !x.valid then (s, .invalid)
  else
    let t := s.treeOf k
    (s.setTree k { t with cache := cacheSeg t.cache ⟨x.id, x.jump, x.extra⟩ }, .ok)

/-! ## `next_required_*_segment_index` -/

/-- `SegmentIdentifier::pmmr_size(num_segments, height)` -/
def pmmrSize (numSegments height : Nat) : Nat := ins2pmmrW (mulW numSegments (shlW 1 height))

/-- `if cur_segment_count == total_segment_count { None } else { Some(cur_segment_count as u64) }` -/
def optIdx (cur total : Nat) : Option Nat := if cur = total then none else some cur

/-- `let mut cur_segment_count = if local_mmr_size == 1 { 0 } else { count_segments_required(..) }`:
"if the mmr size is 1, this is a fresh chain with naught but a humble genesis block" -/
def curSegmentCount (localSize h : Nat) : Nat :=
  if localSize = 1 then 0 else Ident.countSegmentsRequired localSize h

/-- "When resuming, we need to ensure we're getting the previous segment if needed":
`if local_mmr_size < pmmr_size(cur, h) { cur_segment_count -= 1 }` (usize `-=`: wraps in release,
panics in debug; `resume_never_wraps`) -/
def resumeAdjust (localSize cur h : Nat) : Nat :=
  if localSize < pmmrSize cur h then subW cur 1 else cur

/-- `next_required_bitmap_segment_index`: no genesis special case, no resume adjustment -/
def nextRequiredBitmap (h bmSize localSize : Nat) : Option Nat :=
  optIdx (Ident.countSegmentsRequired localSize h) (Ident.countSegmentsRequired bmSize h)

/-- `next_required_output_segment_index` / `next_required_rangeproof_segment_index` (same code):
genesis special case, then the *unguarded* resume adjustment -/
def nextRequiredPrunable (h archiveSize localSize : Nat) : Option Nat :=
  optIdx (resumeAdjust localSize (curSegmentCount localSize h) h)
    (Ident.countSegmentsRequired archiveSize h)

/-- `next_required_kernel_segment_index`: the resume adjustment is guarded by
`total_segment_count != cur_segment_count` -/
def nextRequiredKernel (h archiveSize localSize : Nat) : Option Nat :=
  let cur0 := curSegmentCount localSize h
  let total := Ident.countSegmentsRequired archiveSize h
  optIdx (if total ≠ cur0 then resumeAdjust localSize cur0 h else cur0) total

def St.nextRequired (s : St) : Kind → Option Nat
  | .bitmap => nextRequiredBitmap s.hB s.bmSize s.bm.size
  | .output => nextRequiredPrunable s.hO s.outSize s.out.size
  | .rangeproof => nextRequiredPrunable s.hR s.outSize s.rp.size
  | .kernel => nextRequiredKernel s.hK s.kerSize s.ker.size

/-! ## `apply_next_segments` -/

/-- `cache.iter().position(|s| s.identifier().idx == next_idx)` + `cache.remove(pos)` -/
def removeFirstIdx : List Cached → Nat → Option (Cached × List Cached)
  | [], _ => none
  | c :: cs, n =>
    if c.id.idx = n then some (c, cs)
    else match removeFirstIdx cs n with
      | some (x, rest) => some (x, c :: rest)
      | none => none

/-- `take_segment_batch(cache, start_idx, max_segments)`: (taken, remaining cache) -/
def takeBatch : List Cached → Nat → Nat → List Cached × List Cached
  | cache, _, 0 => ([], cache)
  | cache, next, k + 1 =>
    match removeFirstIdx cache next with
    | some (s, rest) =>
      let r := takeBatch rest (next + 1) k
      (s :: r.1, r.2)
    | none => ([], cache)

/-- leaf range `[lo, hi)` of a segment in an MMR of `total` leaves (plain arithmetic: abstraction) -/
def segLo (c : Cached) : Nat := c.id.idx * 2 ^ c.id.height
def segHi (c : Cached) (total : Nat) : Nat := min ((c.id.idx + 1) * 2 ^ c.id.height) total

/-- `Extension::apply_{output,rangeproof,kernel}_segment` on the size of the local MMR (see the
header): `(new tree, misapplied)` -/
def applySeg (prunable : Bool) (archiveSize : Nat) (t : Tree) (c : Cached) : Tree × Bool :=
  let total := nLeaves archiveSize
  let leaves := nLeaves t.size
  if segLo c ≤ leaves ∧ leaves < segHi c total then
    let j := if prunable then c.jump else 0
    ({ t with size := insertionToPmmrIndex (min ((c.id.idx + 1 + j) * 2 ^ c.id.height) total)
              log := c :: t.log }, false)
  else
    -- nothing of the segment sits at `pos0 == size`; hashes / leaves beyond the local MMR would
    -- be pushed with a gap
    (t, decide (leaves < segLo c ∧ segLo c < total))

/-- the `for segment in segments` loop of `apply_*_segments` -/
def applyList (prunable : Bool) (archiveSize : Nat) : Tree → List Cached → Tree × Bool
  | t, [] => (t, false)
  | t, c :: cs =>
    let r := applySeg prunable archiveSize t c
    let r' := applyList prunable archiveSize r.1 cs
    (r'.1, r.2 || r'.2)

/-- one of the three main-tree parts of `apply_next_segments` -/
def applyTree (prunable : Bool) (archiveSize : Nat) (next : Option Nat) (t : Tree) : Tree × Bool :=
  match next with
  | some n =>
    let b := takeBatch t.cache n batchSize
    -- `if segments.is_empty() { waiting } else { apply_*_segments(segments) }`
    applyList prunable archiveSize { t with cache := b.2 } b.1
  | none =>
    if t.cache.length ≥ maxCachedSegments then ({ t with cache := [] }, false) else (t, false)

/-- `apply_bitmap_segment(idx)`: `for chunk in leaf_data { append_chunk(chunk) }` — every chunk -/
def applyBitmapSeg (bmSize : Nat) (t : Tree) (c : Cached) (rest : List Cached) : Tree :=
  { size := insertionToPmmrIndex (nLeaves t.size + c.id.unprunedSize bmSize + c.extra)
    cache := rest, log := c :: t.log }

/-- `apply_next_segments`, given what the four `next_required_*_segment_index` calls return (the
branching values are parameters so that no theorem has to evaluate wrapped u64 arithmetic inside a
`match` discriminant; `St.applyNextSegments` instantiates them) -/
def St.applyNextWith (s : St) (nextB nextO nextR nextK : Option Nat) : St :=
  match nextB with
  | some bmpIdx =>
    match removeFirstIdx s.bm.cache bmpIdx with
    | some (c, rest) => { s with bm := applyBitmapSeg s.bmSize s.bm c rest }
    | none => s
  | none =>
    -- `if self.bitmap_cache == None { self.finalize_bitmap()? }`
    let o := applyTree true s.outSize nextO s.out
    let r := applyTree true s.outSize nextR s.rp
    let k := applyTree false s.kerSize nextK s.ker
    { s with bitmapCache := true, out := o.1, rp := r.1, ker := k.1
             misapplied := s.misapplied || o.2 || r.2 || k.2 }

/-- `apply_next_segments` -/
def St.applyNextSegments (s : St) : St :=
  s.applyNextWith (s.nextRequired .bitmap) (s.nextRequired .output) (s.nextRequired .rangeproof)
    (s.nextRequired .kernel)

/-! ## `next_desired_segments` -/

/-- the bitmap branch: `while let Some(id) = identifier_iter.next()`, returning as soon as
`return_vec.len() >= max_elements` (tested after a push) -/
def wantBitmapLoop (s : St) (max : Nat) : List Nat → List (Kind × Ident) → List (Kind × Ident)
  | [], acc => acc
  | idx :: rest, acc =>
    let id : Ident := ⟨s.hB, idx⟩
    -- `>=` since the repair d6b49984d
    if (id.posRange s.bmSize).2 ≥ s.bm.size && !hasId s.bm.cache id then
      let acc' := acc ++ [(Kind.bitmap, id)]
      if acc'.length ≥ max then acc' else wantBitmapLoop s max rest acc'
    else wantBitmapLoop s max rest acc

/-- one of the three `while (next_idx as usize) < total_segments` loops: at most `quota`
identifiers from `idx` on whose range ends beyond the local MMR and that are not cached.
`fuel` = iterations left (`total - idx` suffice: `wantLoop_fuel`) -/
def wantLoop (h archiveSize localSize : Nat) (cache : List Cached) (quota total : Nat) :
    Nat → Nat → Nat → List Ident
  | _, _, 0 => []
  | idx, added, fuel + 1 =>
    if idx < total then
      if added = quota then []
      else
        let id : Ident := ⟨h, idx⟩
        if (id.posRange archiveSize).2 > localSize && !hasId cache id then
          id :: wantLoop h archiveSize localSize cache quota total (idx + 1) (added + 1) fuel
        else wantLoop h archiveSize localSize cache quota total (idx + 1) added fuel
    else []

def wantTree (h archiveSize : Nat) (t : Tree) (next : Option Nat) (quota : Nat) : List Ident :=
  let total := Ident.countSegmentsRequired archiveSize h
  match next with
  | some n => wantLoop h archiveSize t.size t.cache quota total n 0 (total - n)
  | none => []

/-- `maybe_add_to_request` -/
def maybeAdd (max : Nat) (acc : List (Kind × Ident)) (x : Kind × Ident) : List (Kind × Ident) :=
  if acc.contains x then acc
  else (if acc.length ≥ max then acc.dropLast else acc) ++ [x]

/-- "Ensure we explicitly ask for the next … segment" -/
def ensureNext (max : Nat) (acc : List (Kind × Ident)) (k : Kind) (h : Nat) (next : Option Nat)
    (cache : List Cached) : List (Kind × Ident) :=
  match next with
  | some n =>
    let id : Ident := ⟨h, n⟩
    if hasId cache id then acc else maybeAdd max acc (k, id)
  | none => acc

/-- the list `next_desired_segments(max_elements)` returns -/
def St.desired (s : St) (max : Nat) : List (Kind × Ident) :=
  if !s.bitmapCache then
    wantBitmapLoop s max (List.range (Ident.countSegmentsRequired s.bmSize s.hB)) []
  else
    let q := max / 3
    let base :=
      (wantTree s.hO s.outSize s.out (s.nextRequired .output) q).map (fun i => (Kind.output, i)) ++
      (wantTree s.hR s.outSize s.rp (s.nextRequired .rangeproof) q).map (fun i => (Kind.rangeproof, i)) ++
      (wantTree s.hK s.kerSize s.ker (s.nextRequired .kernel) q).map (fun i => (Kind.kernel, i))
    let a := ensureNext max base .output s.hO (s.nextRequired .output) s.out.cache
    let b := ensureNext max a .rangeproof s.hR (s.nextRequired .rangeproof) s.rp.cache
    ensureNext max b .kernel s.hK (s.nextRequired .kernel) s.ker.cache

/-- `next_desired_segments(max_elements)`: the list, and `all_segments_complete` is set when the
list is empty although the bitmap is finalised -/
def St.nextDesiredSegments (s : St) (max : Nat) : St × List (Kind × Ident) :=
  let l := s.desired max
  ({ s with allComplete := s.allComplete || (l.isEmpty && s.bitmapCache) }, l)

/-! ## completion -/

/-- `is_complete()`.  Never becomes true when the last output / rangeproof segment is not full
(`nextRequiredPrunable` keeps asking for it): the server uses `check_progress`. -/
def St.isComplete (s : St) : Bool := s.allComplete

/-- the decision of `check_progress` (given that `get_first_header_with` found a header, which it
does whenever the archive header is not the last header of the header chain): all three local MMR
sizes equal the archive header's and the bitmap is finalised -/
def St.checkProgress (s : St) : Bool :=
  s.ker.size == s.kerSize && s.out.size == s.outSize && s.rp.size == s.outSize && s.bitmapCache

/-- a delivery: `add_*_segment` -/
structure Delivery where
  kind : Kind
  seg : SegIn
deriving Repr

def St.deliver (s : St) (d : Delivery) : St := (s.addSegment d.kind d.seg).1

def St.deliverAll (s : St) (ds : List Delivery) : St := ds.foldl St.deliver s

/-- what is left to do, in leaves (+1 while the bitmap is not finalised): the measure of the
progress theorems -/
def St.remaining (s : St) : Nat :=
  (s.bmLeafCount - nLeaves s.bm.size) + (if s.bitmapCache then 0 else 1) +
  (nLeaves s.outSize - nLeaves s.out.size) + (nLeaves s.outSize - nLeaves s.rp.size) +
  (nLeaves s.kerSize - nLeaves s.ker.size)

end GV.Deseg
