import GrinVerif.Model.Chain
/-! Pool-facing side of the chain (serves C13): the block a transaction would be mined into, and an
**implementation-shaped** model of `Chain::verify_coinbase_maturity` (chain/src/chain.rs) →
`UTXOView::verify_coinbase_maturity` (chain/src/txhashset/utxo_view.rs), which does not compare
heights (as `txMaturity` in `Model/Chain.lean` does) but output-MMR *positions*: the largest position
of a coinbase among the spent outputs against `output_mmr_size` of the header found at height
`next_height - maturity` **in the header MMR** (`get_header_by_height`), and the header MMR follows
`header_head`, not the body head.

Positions here are 1-based leaf numbers of the output MMR (the code's positions also count the
parent nodes of the MMR; the map leaf number ↦ MMR position is strictly monotone and
`output_mmr_size` of `k` leaves is below the position of leaf `k+1` and not below that of leaf `k`,
so every comparison `pos > output_mmr_size` has the same outcome in leaf numbers; C07 is about that
numbering). Sizes are computed from the numbers of outputs of the blocks along a path (for an
accepted header the claimed `output_mmr_size` is the real one: `validate_mmr_sizes`; the genesis of
the real chains has one output, so its size is 1). -/

namespace GV.Chain

/-- the block a transaction would be mined into on top of `par`: the transaction's inputs, outputs
and kernels plus one coinbase output `cbo` and its kernel -/
def txBlock (t : TxA) (id par h work ver ts cbo : Nat) : Blk :=
  { id := id, parent := some par, h := h, work := work, ver := ver, ts := ts,
    ins := t.ins, outs := (cbo, true) :: t.outs.map (fun o => (o, false)),
    kers := .cb :: t.kers, tags := [] }

/-- what `UTXOView::validate_input` hands back for an unspent commitment: the features of the leaf
(coinbase or not) and the `output_pos` entry (position, height) -/
structure OutPos where
  id : Nat
  height : Nat
  cb : Bool
  pos : Nat
deriving Repr, DecidableEq, Inhabited

/-- the unspent outputs with their output-MMR leaf numbers, and the number of output leaves -/
structure PState where
  utxo : List OutPos := []
  size : Nat := 0
deriving Repr, Inhabited

/-- `apply_output` for the outputs of one block: consecutive leaf numbers after `start` leaves -/
def posOuts (start h : Nat) : List (Nat × Bool) → List OutPos
  | [] => []
  | o :: os => ⟨o.1, h, o.2, start + 1⟩ :: posOuts (start + 1) h os

/-- `apply_block` on the positions: spent outputs leave, new leaves are appended (`effects` of
`Model/Chain.lean` with the position carried along) -/
def applyP (S : PState) (b : Blk) : PState :=
  { utxo := S.utxo.filter (fun u => !b.ins.contains u.id) ++ posOuts S.size b.h b.outs,
    size := S.size + b.outs.length }

/-- the positions after the genesis: its outputs at height 0 (as `genesisState`) -/
def genesisP (g : Blk) : PState := { utxo := posOuts 0 0 g.outs, size := g.outs.length }

def replayP (S : PState) (bs : List Blk) : PState := bs.foldl applyP S

/-- `output_mmr_size` of the last header of a path (in leaves) -/
def outSize (path : List Blk) : Nat := (path.map (·.outs.length)).sum

/-- `UTXOView::get_header_by_height(height)` followed by `.output_mmr_size`: leaf `height` of the
header MMR, i.e. the header at that height on the header chain `hpath` (root first); `Other` when
the header MMR is shorter -/
def cutoffSize (hpath : List Blk) (height : Nat) : Except Err Nat :=
  if height < hpath.length then .ok (outSize (hpath.take (height + 1)))
  else .error "Other"

/-- `inputs.map(validate_input).collect()`: every input must be unspent -/
def lookupInputs (S : PState) : List Nat → Option (List OutPos)
  | [] => some []
  | i :: is =>
    match S.utxo.find? (·.id == i) with
    | none => none
    | some u =>
      match lookupInputs S is with
      | none => none
      | some r => some (u :: r)

/-- `.max()` of an iterator of positions -/
def maxOpt : List Nat → Option Nat
  | [] => none
  | x :: xs =>
    match maxOpt xs with
    | none => some x
    | some m => some (if x < m then m else x)

/-- `UTXOView::verify_coinbase_maturity(inputs, height, batch)` with the header MMR `hpath` -/
def txMaturityImpl (p : Params) (S : PState) (hpath : List Blk) (height : Nat) (ins : List Nat) :
    Option Err :=
  match lookupInputs S ins with
  | none => some "AlreadySpent"
  | some spent =>
    match maxOpt ((spent.filter (·.cb)).map (·.pos)) with
    | none => none
    | some pos =>
      if height < p.maturity then some "ImmatureCoinbase" else
      match cutoffSize hpath (height - p.maturity) with
      | .error e => some e
      | .ok cutoffPos => if pos > cutoffPos then some "ImmatureCoinbase" else none

/-- `Chain::verify_coinbase_maturity(inputs)`: next block height from the body head, the UTXO view
of the body head's txhashset, the header MMR of `header_head` -/
def Node.poolMaturityImpl (n : Node) (p : Params) (t : TxA) : Option Err :=
  match n.path n.head, n.path n.hhead with
  | some (g :: rest), some hpath =>
    txMaturityImpl p (replayP (genesisP g) rest) hpath (n.heightOf n.head + 1) t.ins
  | _, _ => some "NoPath"

/-- `Chain::verify_coinbase_maturity(inputs)` since 34e76938f ("pool-facing coinbase maturity check
follows the body chain"): the header MMR is used as it is only while the body head is ON the header
chain (`header_pmmr.get_header_hash_by_height(head.height) == head.last_block_h`); otherwise - the
headers of a heavier competing fork are known, its blocks are not - the header MMR is first rewound
to the body head (`rewind_and_apply_fork(&head_header, ..)` inside a read-only extension), i.e. the
cutoff header is looked up along the path of the body head. -/
def Node.poolMaturityFixed (n : Node) (p : Params) (t : TxA) : Option Err :=
  match n.path n.head, n.path n.hhead with
  | some (g :: rest), some hpath =>
    let headOnHeaderChain : Bool :=
      match hpath[n.heightOf n.head]? with
      | some b => b.id == n.head
      | none => false
    let hmmr := if headOnHeaderChain then hpath else g :: rest
    txMaturityImpl p (replayP (genesisP g) rest) hmmr (n.heightOf n.head + 1) t.ins
  | _, _ => some "NoPath"

end GV.Chain
