import GrinVerif.Model.SerBlock
/-! # Well-formedness predicates and normal forms used by the C10 theorems

`WF` = the value domain on which the property is claimed (field ranges of the Rust integer types,
payload lengths of the fixed-size crypto types, sortedness under the supplied key, weight within
the limit). Every predicate is decidable (given the key function) and has an inhabited `example`
in `Props/C10.lean`. `norm` = the value a decoder returns for an encoded value: the identity
except for `Inputs` (commit-only at protocol version ≥ 3; the empty list has one representation
per version). -/
namespace GV.Ser
open GV

/-- field ranges (`u64` fee and lock height; NRD relative height in `1 ..= WEEK_HEIGHT` as
`NRDRelativeHeight::new` enforces); an NRD kernel only decodes while the feature flag is on -/
def KernelFeatures.WF (nrd : Bool) : KernelFeatures → Prop
  | .plain fee => fee < 2^64
  | .coinbase => True
  | .heightLocked fee lock => fee < 2^64 ∧ lock < 2^64
  | .noRecentDuplicate fee rel => nrd = true ∧ fee < 2^64 ∧ 1 ≤ rel ∧ rel ≤ NRD_MAX

instance (nrd : Bool) (f : KernelFeatures) : Decidable (f.WF nrd) := by
  cases f <;> unfold KernelFeatures.WF <;> infer_instance

def TxKernel.WF (nrd : Bool) (k : TxKernel) : Prop :=
  k.features.WF nrd ∧ k.excess.length = COMMIT_SIZE ∧ k.excessSig.length = SIG_SIZE

instance (nrd : Bool) (k : TxKernel) : Decidable (k.WF nrd) := by unfold TxKernel.WF; infer_instance

def Input.WF (i : Input) : Prop := i.commit.length = COMMIT_SIZE
instance (i : Input) : Decidable i.WF := by unfold Input.WF; infer_instance

def OutputId.WF (o : OutputId) : Prop := o.commit.length = COMMIT_SIZE
instance (o : OutputId) : Decidable o.WF := by unfold OutputId.WF; infer_instance

/-- the only range proofs a decoder ever returns (and the only ones `bullet_proof` creates):
full array, `plen = MAX_PROOF_SIZE` -/
def RangeProof.WF (p : RangeProof) : Prop := p.plen = MAX_PROOF_SIZE ∧ p.proof.length = MAX_PROOF_SIZE
instance (p : RangeProof) : Decidable p.WF := by unfold RangeProof.WF; infer_instance

def Output.WF (o : Output) : Prop := o.id.WF ∧ o.proof.WF
instance (o : Output) : Decidable o.WF := by unfold Output.WF; infer_instance

/-- key of a bare commitment (hash of the `CommitWrapper`) -/
def commitKey (key : Bytes → Nat) (cm : Bytes) : Nat := key (encCommitWrapper cm)

/-- inputs a writer at version `ver` accepts and a reader at `ver` gives back:
* `ver ≤ 2`: features-and-commit, strictly sorted by input hash (or no inputs at all);
* `ver ≥ 3`: commit-only strictly sorted by commitment hash, or features-and-commit whose
  commitments have pairwise different hashes (they are re-sorted on write). -/
def Inputs.WF (key : Bytes → Nat) (ver : Nat) : Inputs → Prop
  | .commitOnly l =>
    if ver ≤ 2 then l = []
    else (∀ cm ∈ l, cm.length = COMMIT_SIZE) ∧ (l.map (commitKey key)).Pairwise (· < ·)
  | .featuresAndCommit l =>
    (∀ i ∈ l, i.WF) ∧
    (if ver ≤ 2 then (l.map fun i => key i.hashBytes).Pairwise (· < ·)
     else (l.map fun i => commitKey key i.commit).Nodup)

def Inputs.norm (key : Bytes → Nat) (ver : Nat) (ins : Inputs) : Inputs :=
  if ver ≤ 2 then
    match ins with
    | .commitOnly [] => .featuresAndCommit []
    | x => x
  else .commitOnly (ins.toCommits key)

/-- a body that `TransactionBody::read` accepts at `c.ver` -/
def TxBody.WF (c : Cfg) (b : TxBody) : Prop :=
  b.inputs.WF c.key c.ver
  ∧ (∀ o ∈ b.outputs, o.WF) ∧ (b.outputs.map fun o => c.key o.hashBytes).Pairwise (· < ·)
  ∧ (∀ k ∈ b.kernels, k.WF c.nrd) ∧ (b.kernels.map fun k => c.key k.hashBytes).Pairwise (· < ·)
  ∧ b.inputs.len ≤ MAX_MULTI_COUNT ∧ b.outputs.length ≤ MAX_MULTI_COUNT ∧ b.kernels.length ≤ MAX_MULTI_COUNT
  ∧ b.weight ≤ c.maxWeight

def TxBody.norm (c : Cfg) (b : TxBody) : TxBody := { b with inputs := b.inputs.norm c.key c.ver }

/-- a transaction that `Transaction::read` accepts: a well-formed body that also passes
`validate_read` (tx weight, no duplicate NRD excess, no input spending an output of the same
transaction, no coinbase outputs / kernels) -/
def Transaction.WF (c : Cfg) (t : Transaction) : Prop :=
  t.offset.length = BLIND_SIZE ∧ t.body.WF c
  ∧ (t.body.norm c).validateRead c (maxTxWeight c.maxWeight) = true
  ∧ t.body.verifyFeatures = true

def Transaction.norm (c : Cfg) (t : Transaction) : Transaction := { t with body := t.body.norm c }

/-- a proof the packed format can carry: `edge_bits` in 1..=63, exactly `proofsize` nonces of at
most `edge_bits` bits, at least 8 packed bytes (and no more than one `read_fixed_bytes` may read:
true for every proof size below 12 698) -/
def Proof.WF (proofSize : Nat) (p : Proof) : Prop :=
  1 ≤ p.edgeBits ∧ p.edgeBits ≤ 63 ∧ p.nonces.length = proofSize
  ∧ (∀ n ∈ p.nonces, n < 2^p.edgeBits) ∧ 8 ≤ packLen proofSize p.edgeBits
  ∧ packLen proofSize p.edgeBits ≤ MAX_FIXED_READ

def ProofOfWork.WF (proofSize : Nat) (p : ProofOfWork) : Prop :=
  p.totalDifficulty < 2^64 ∧ p.secondaryScaling < 2^32 ∧ p.nonce < 2^64 ∧ p.proof.WF proofSize

/-- all header field values: u16 version, u64 height / sizes, 32-byte hashes, a timestamp chrono
can represent as a date (`NaiveDate::MIN ..= NaiveDate::MAX`) -/
def BlockHeader.WF (proofSize : Nat) (h : BlockHeader) : Prop :=
  h.version < 2^16 ∧ h.height < 2^64 ∧ TS_MIN ≤ h.timestamp ∧ h.timestamp ≤ TS_MAX
  ∧ h.prevHash.length = HASH_SIZE ∧ h.prevRoot.length = HASH_SIZE ∧ h.outputRoot.length = HASH_SIZE
  ∧ h.rangeProofRoot.length = HASH_SIZE ∧ h.kernelRoot.length = HASH_SIZE
  ∧ h.totalKernelOffset.length = BLIND_SIZE
  ∧ h.outputMmrSize < 2^64 ∧ h.kernelMmrSize < 2^64 ∧ h.pow.WF proofSize

def Block.WF (c : Cfg) (b : Block) : Prop := b.header.WF c.proofSize ∧ b.body.WF c
def Block.norm (c : Cfg) (b : Block) : Block := { b with body := b.body.norm c }

def CompactBlockBody.WF (c : Cfg) (b : CompactBlockBody) : Prop :=
  (∀ o ∈ b.outFull, o.WF) ∧ (b.outFull.map fun o => c.key o.hashBytes).Pairwise (· < ·)
  ∧ (∀ k ∈ b.kernFull, k.WF c.nrd) ∧ (b.kernFull.map fun k => c.key k.hashBytes).Pairwise (· < ·)
  ∧ (∀ s ∈ b.kernIds, s.length = SHORT_ID_SIZE) ∧ (b.kernIds.map fun s => c.key (encShortId s)).Pairwise (· < ·)
  ∧ b.outFull.length ≤ MAX_MULTI_COUNT ∧ b.kernFull.length ≤ MAX_MULTI_COUNT ∧ b.kernIds.length ≤ MAX_MULTI_COUNT

def CompactBlock.WF (c : Cfg) (b : CompactBlock) : Prop :=
  b.header.WF c.proofSize ∧ b.nonce < 2^64 ∧ b.body.WF c

def Tip.WF (t : Tip) : Prop :=
  t.height < 2^64 ∧ t.lastBlockH.length = HASH_SIZE ∧ t.prevBlockH.length = HASH_SIZE ∧ t.totalDifficulty < 2^64

end GV.Ser
