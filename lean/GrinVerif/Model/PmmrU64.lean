import GrinVerif.Model.Pmmr
/-! The pure position functions of `core/src/core/pmmr/pmmr.rs` with the arithmetic the RELEASE build
has (`overflow-checks` off: `+ - *` wrap at 2^64, `<<` by less than 64 drops the bits shifted out),
hand-written from the Rust, for inputs up to `u64::MAX`.  `Model/Pmmr.lean` is the same on unbounded
`Nat`; the two agree wherever nothing wraps (`Props/C07U64.lean` states the ranges).

Functions that cannot wrap for any u64 input are not repeated: `peak_map_height`,
`peak_sizes_height`, `peaks` (the running sum of the peak sizes is at most `size`), `n_leaves`
(`peak_map ≤ 2^63`), `pmmr_leaf_to_insertion_index`, `bintree_postorder_height`, `is_leaf`,
`is_left_sibling` (`1 << height` with `height ≤ 63`), `bintree_rightmost` (`pos0 ≥ height`). -/
namespace GV.Pmmr.U64
open GV GV.Pmmr

/-- `insertion_to_pmmr_index(n)`: `2 * nleaf0 - nleaf0.count_ones() as u64` -/
def insertionToPmmrIndex (n : Nat) : Nat := subW (mulW 2 n) (popcount n)

/-- `round_up_to_leaf_pos(pos0)` (`insert_idx + 1 ≤ 2^63 + 1`: no wrap there) -/
def roundUpToLeafPos (pos : Nat) : Nat :=
  let r := peakMapHeight pos
  insertionToPmmrIndex (if r.2 == 0 then r.1 else r.1 + 1)

/-- `family(pos0)`: `let peak = 1 << height` (`height ≤ 63`);
`(pos0 + 1, pos0 + 1 - 2 * peak)` resp. `(pos0 + 2 * peak, pos0 + 2 * peak - 1)` -/
def family (pos : Nat) : Nat × Nat :=
  let r := peakMapHeight pos
  let peak := shlW 1 r.2
  if bitSet r.1 r.2 then (addW pos 1, subW (addW pos 1) (mulW 2 peak))
  else (addW pos (mulW 2 peak), subW (addW pos (mulW 2 peak)) 1)

/-- `(peak_map & peak) != 0` for `peak` a power of two or, once `peak <<= 1` has shifted the bit
out, zero -/
def andNZ (pm peak : Nat) : Bool := peak != 0 && pm / peak % 2 == 1

/-- the `while current + 1 < size` loop of `family_branch`; `none`: still running when the fuel is
used up (with `peak == 0` the loop body changes nothing any more: the real loop does not end) -/
def familyBranchLoop (pm size : Nat) : Nat → Nat → Nat → List (Nat × Nat) → Option (List (Nat × Nat))
  | 0, _, _, _ => none
  | fuel + 1, peak, current, acc =>
    if addW current 1 < size then
      let step : Nat × Nat :=
        if andNZ pm peak then (addW current 1, subW (addW current 1) (mulW 2 peak))
        else (addW current (mulW 2 peak), subW (addW current (mulW 2 peak)) 1)
      if step.1 ≥ size then some acc
      else familyBranchLoop pm size fuel (shlW peak 1) step.1 (acc ++ [step])
    else some acc

/-- `family_branch(pos0, size)` -/
def familyBranch (pos size : Nat) : Option (List (Nat × Nat)) :=
  let r := peakMapHeight pos
  familyBranchLoop r.1 size 200 (shlW 1 r.2) pos []

/-- `bintree_leftmost(pos0)`: `pos0 + 2 - (2 << height)` -/
def bintreeLeftmost (pos : Nat) : Nat := subW (addW pos 2) (shlW 2 (height pos))

/-- `bintree_range(pos0)`: `leftmost..(pos0 + 1)` as `(start, end)` -/
def bintreeRange (pos : Nat) : Nat × Nat := (bintreeLeftmost pos, addW pos 1)

/-- `bintree_leaf_pos_iter(pos0)`: `(leaf_start..=leaf_end).map(insertion_to_pmmr_index)`, empty when
one end is not a leaf position -/
def bintreeLeafPosIter (pos : Nat) : List Nat :=
  match pmmrLeafToInsertionIndex (bintreeLeftmost pos), pmmrLeafToInsertionIndex (bintreeRightmost pos) with
  | some a, some b => (List.range' a (b + 1 - a)).map insertionToPmmrIndex
  | _, _ => []

/-- `bintree_pos_iter(pos0)` = `leftmost..=pos0`: (first, number of positions) -/
def bintreePosIter (pos : Nat) : Nat × Nat :=
  let l := bintreeLeftmost pos
  (l, pos + 1 - l)

end GV.Pmmr.U64
