import GrinVerif.Model.Pool
/-! `TransactionPool::convert_tx_v2` (pool/src/transaction_pool.rs) and the chain-side lookup it relies
on (`UTXOView::validate_inputs`, chain/src/txhashset/utxo_view.rs) — serves C14.

A transaction may arrive with commit-only inputs, or with "features and commit" inputs whose feature
bytes are whatever the sender wrote.  The pool never reads those bytes: `locate_spends` turns the
inputs into `CommitWrapper`s, looks the commitments up (`Inputs::CommitOnly` branch of
`validate_inputs`: unspent or `Error::Other`), and `convert_tx_v2` REPLACES the input vector by the
looked-up `OutputIdentifier`s (features from the UTXO set; outputs created in the pool are plain),
sorted, then validates the result again. -/
namespace GV.Pool

/-- features of an unspent output at the head (`true` = coinbase); not unspent: plain -/
def featureOf (c : Ctx) (i : Nat) : Bool :=
  match c.head.find i with
  | some (_, _, cb) => cb
  | none => false

/-- `UTXOView::validate_inputs`, branch `Inputs::CommitOnly`: every commitment unspent -/
def validateInputsV3 (c : Ctx) (is : List Nat) : Option Err :=
  if is.all c.head.has then none else some "Other"

/-- `UTXOView::validate_inputs`, branch `Inputs::FeaturesAndCommit`: unspent AND the input equals the
full output identifier (`"input mismatch"` otherwise) -/
def validateInputsV2 (c : Ctx) (is : List (Bool × Nat)) : Option Err :=
  if is.all (fun x => c.head.has x.2 && x.1 == featureOf c x.2) then none else some "Other"

/-- `convert_tx_v2(entry, spent_pool, spent_utxo)`: the stored input vector and the re-validation -/
def convertTxV2 (c : Ctx) (t : Tx) (spentPool spentUtxo : List Nat) : Except Err (Inputs × Tx) :=
  let inputs : List (Bool × Nat) := spentUtxo.map (fun i => (featureOf c i, i)) ++ spentPool.map (fun i => (false, i))
  -- (`inputs.sort_unstable()`: the stored vector is in `Input` order whatever the submitted one was)
  let t' : Tx := { t with tags := keptTags t.tags }
  match t'.validate c .asTransaction with
  | some e => .error e
  | none => .ok (.featuresAndCommit inputs, t')

end GV.Pool
