import GrinVerif.Model.Ser
import GrinVerif.Gen.Consts
/-! # Codecs of `core/src/core/transaction.rs` (and the secp payload types of `ser.rs`)

Opaque crypto payloads are byte strings: commitment 33, signature 64, blinding factor 32,
hash 32, range proof `[u8; 675]` + `plen`. Every `enc…` takes the protocol version and the
serialisation mode where the Rust `write` consults them; every `dec…` takes a `Cfg` (protocol
version, NRD feature flag, `global::max_block_weight()`, `global::proofsize()`, and the sort key
= big-endian value of an item's hash, as a function of its hash-mode bytes). -/
namespace GV.Ser
open GV

/-- everything a `Reader` / the thread-local `global` state contributes to decoding -/
structure Cfg where
  /-- `reader.protocol_version().value()` -/
  ver : Nat
  /-- `global::is_nrd_enabled()` -/
  nrd : Bool
  /-- `global::max_block_weight()` -/
  maxWeight : Nat
  /-- `global::proofsize()` -/
  proofSize : Nat
  /-- `Hash` of the given hash-mode bytes, as a big-endian number (the `Ord` of `hashable_ord!`) -/
  key : Bytes → Nat

def COMMIT_SIZE : Nat := 33
def SIG_SIZE : Nat := 64
def HASH_SIZE : Nat := 32
def BLIND_SIZE : Nat := 32
/-- `secp::constants::MAX_PROOF_SIZE` (= `SINGLE_BULLET_PROOF_SIZE`) -/
def MAX_PROOF_SIZE : Nat := 675

/-- `Commitment::read` -/
def decCommit : Parser Bytes := readFixed COMMIT_SIZE
/-- `Signature::read` (`from_raw_data` is a plain copy and cannot fail) -/
def decSig : Parser Bytes := readFixed SIG_SIZE
/-- `Hash::read` -/
def decHash : Parser Bytes := readFixed HASH_SIZE
/-- `BlindingFactor::read` -/
def decBlind : Parser Bytes := readFixed BLIND_SIZE

/-! ## FeeFields, NRDRelativeHeight, KernelFeatures -/

/-- `NRDRelativeHeight::MAX = consensus::WEEK_HEIGHT` -/
def NRD_MAX : Nat := GV.Gen.WEEK_HEIGHT

/-- `NRDRelativeHeight::read`: u16, must be in `1 ..= WEEK_HEIGHT` -/
def decNrdHeight : Parser Nat := fun bs =>
  match readU16 bs with
  | .ok (x, r) => if x = 0 ∨ x > NRD_MAX then .error .corrupted else .ok (x, r)
  | .error e => .error e

/-- `KernelFeatures` (fee = the raw `FeeFields` u64) -/
inductive KernelFeatures
  | plain (fee : Nat)
  | coinbase
  | heightLocked (fee lockHeight : Nat)
  | noRecentDuplicate (fee relHeight : Nat)
deriving DecidableEq, Repr

def KernelFeatures.asU8 : KernelFeatures → Nat
  | .plain _ => 0
  | .coinbase => 1
  | .heightLocked _ _ => 2
  | .noRecentDuplicate _ _ => 3

/-- `KernelFeatures::write_v1`: always 17 bytes -/
def encKernelFeaturesV1 : KernelFeatures → Bytes
  | .plain fee => writeU8 0 ++ writeU64 fee ++ writeEmpty 8
  | .coinbase => writeU8 1 ++ writeEmpty 16
  | .heightLocked fee lock => writeU8 2 ++ writeU64 fee ++ writeU64 lock
  | .noRecentDuplicate fee rel => writeU8 3 ++ writeU64 fee ++ writeEmpty 6 ++ writeU16 rel

/-- `KernelFeatures::write_v2`: variable size -/
def encKernelFeaturesV2 : KernelFeatures → Bytes
  | .plain fee => writeU8 0 ++ writeU64 fee
  | .coinbase => writeU8 1
  | .heightLocked fee lock => writeU8 2 ++ writeU64 fee ++ writeU64 lock
  | .noRecentDuplicate fee rel => writeU8 3 ++ writeU64 fee ++ writeU16 rel

/-- `Writeable for KernelFeatures`: hash mode is always v1 -/
def encKernelFeatures (ver : Nat) (m : Mode) (f : KernelFeatures) : Bytes :=
  if m = .hash then encKernelFeaturesV1 f
  else if ver ≤ 1 then encKernelFeaturesV1 f else encKernelFeaturesV2 f

/-- `KernelFeatures::read_v1` -/
def decKernelFeaturesV1 (nrd : Bool) : Parser KernelFeatures := fun bs =>
  match readU8 bs with
  | .error e => .error e
  | .ok (0, r) =>
    (match readU64 r with
     | .error e => .error e
     | .ok (fee, r) =>
       match readEmpty 8 r with
       | .error e => .error e
       | .ok (_, r) => .ok (.plain fee, r))
  | .ok (1, r) =>
    (match readEmpty 16 r with
     | .error e => .error e
     | .ok (_, r) => .ok (.coinbase, r))
  | .ok (2, r) =>
    (match readU64 r with
     | .error e => .error e
     | .ok (fee, r) =>
       match readU64 r with
       | .error e => .error e
       | .ok (lock, r) => .ok (.heightLocked fee lock, r))
  | .ok (3, r) =>
    if !nrd then .error .corrupted else
    (match readU64 r with
     | .error e => .error e
     | .ok (fee, r) =>
       match readEmpty 6 r with
       | .error e => .error e
       | .ok (_, r) =>
         match decNrdHeight r with
         | .error e => .error e
         | .ok (rel, r) => .ok (.noRecentDuplicate fee rel, r))
  | .ok (_, _) => .error .corrupted

/-- `KernelFeatures::read_v2` -/
def decKernelFeaturesV2 (nrd : Bool) : Parser KernelFeatures := fun bs =>
  match readU8 bs with
  | .error e => .error e
  | .ok (0, r) =>
    (match readU64 r with
     | .error e => .error e
     | .ok (fee, r) => .ok (.plain fee, r))
  | .ok (1, r) => .ok (.coinbase, r)
  | .ok (2, r) =>
    (match readU64 r with
     | .error e => .error e
     | .ok (fee, r) =>
       match readU64 r with
       | .error e => .error e
       | .ok (lock, r) => .ok (.heightLocked fee lock, r))
  | .ok (3, r) =>
    if !nrd then .error .corrupted else
    (match readU64 r with
     | .error e => .error e
     | .ok (fee, r) =>
       match decNrdHeight r with
       | .error e => .error e
       | .ok (rel, r) => .ok (.noRecentDuplicate fee rel, r))
  | .ok (_, _) => .error .corrupted

/-- `Readable for KernelFeatures` -/
def decKernelFeatures (c : Cfg) : Parser KernelFeatures :=
  if c.ver ≤ 1 then decKernelFeaturesV1 c.nrd else decKernelFeaturesV2 c.nrd

/-! ## TxKernel -/

structure TxKernel where
  features : KernelFeatures
  excess : Bytes
  excessSig : Bytes
deriving DecidableEq, Repr

def encTxKernel (ver : Nat) (m : Mode) (k : TxKernel) : Bytes :=
  encKernelFeatures ver m k.features ++ writeFixed k.excess ++ writeFixed k.excessSig

def decTxKernel (c : Cfg) : Parser TxKernel := fun bs =>
  andThen (decKernelFeatures c bs) fun f r =>
  andThen (decCommit r) fun ex r =>
  andThen (decSig r) fun sg r =>
  .ok ({ features := f, excess := ex, excessSig := sg }, r)

/-- bytes fed to the `HashWriter` by `TxKernel::hash()` — no version parameter: hash mode is v1 -/
def TxKernel.hashBytes (k : TxKernel) : Bytes := encTxKernel LOCAL_VERSION .hash k

/-! ## OutputFeatures, Input, CommitWrapper, OutputIdentifier, RangeProof, Output -/

inductive OutputFeatures | plain | coinbase
deriving DecidableEq, Repr

def OutputFeatures.asU8 : OutputFeatures → Nat
  | .plain => 0
  | .coinbase => 1

def encOutputFeatures (f : OutputFeatures) : Bytes := writeU8 f.asU8

/-- `OutputFeatures::read`: `from_u8(..).ok_or(CorruptedData)` -/
def decOutputFeatures : Parser OutputFeatures := fun bs =>
  match readU8 bs with
  | .error e => .error e
  | .ok (0, r) => .ok (.plain, r)
  | .ok (1, r) => .ok (.coinbase, r)
  | .ok (_, _) => .error .corrupted

structure Input where
  features : OutputFeatures
  commit : Bytes
deriving DecidableEq, Repr

def encInput (i : Input) : Bytes := encOutputFeatures i.features ++ writeFixed i.commit

def decInput : Parser Input := fun bs =>
  andThen (decOutputFeatures bs) fun f r =>
  andThen (decCommit r) fun cm r =>
  .ok ({ features := f, commit := cm }, r)

def Input.hashBytes (i : Input) : Bytes := encInput i

/-- `CommitWrapper` = a bare commitment -/
def encCommitWrapper (cm : Bytes) : Bytes := writeFixed cm
def decCommitWrapper : Parser Bytes := decCommit

/-- `OutputIdentifier` -/
structure OutputId where
  features : OutputFeatures
  commit : Bytes
deriving DecidableEq, Repr

def encOutputId (o : OutputId) : Bytes := encOutputFeatures o.features ++ writeFixed o.commit

def decOutputId : Parser OutputId := fun bs =>
  andThen (decOutputFeatures bs) fun f r =>
  andThen (decCommit r) fun cm r =>
  .ok ({ features := f, commit := cm }, r)

def OutputId.hashBytes (o : OutputId) : Bytes := encOutputId o

/-- `secp::pedersen::RangeProof { proof: [u8; MAX_PROOF_SIZE], plen }` -/
structure RangeProof where
  plen : Nat
  /-- the whole array (length `MAX_PROOF_SIZE`) -/
  proof : Bytes
deriving DecidableEq, Repr

/-- `Writeable for RangeProof`: `write_bytes(self)` with `as_ref() = &proof[..plen]` -/
def encRangeProof (p : RangeProof) : Bytes := writeBytes (p.proof.take p.plen)

/-- `Readable for RangeProof`: reads `min(len, MAX_PROOF_SIZE)` bytes into a zeroed array and sets
`plen = proof.len()` (= `MAX_PROOF_SIZE`, whatever `len` was). -/
def decRangeProof : Parser RangeProof := fun bs =>
  andThen (readU64 bs) fun len r =>
  andThen (readFixed (min len MAX_PROOF_SIZE) r) fun p r =>
  .ok ({ plen := MAX_PROOF_SIZE, proof := p ++ List.replicate (MAX_PROOF_SIZE - p.length) 0 }, r)

structure Output where
  id : OutputId
  proof : RangeProof
deriving DecidableEq, Repr

def encOutput (o : Output) : Bytes := encOutputId o.id ++ encRangeProof o.proof

def decOutput : Parser Output := fun bs =>
  andThen (decOutputId bs) fun i r =>
  andThen (decRangeProof r) fun p r =>
  .ok ({ id := i, proof := p }, r)

/-- `Output` orders / compares / is identified by its identifier -/
def Output.hashBytes (o : Output) : Bytes := o.id.hashBytes

/-! ## Inputs -/

inductive Inputs
  | commitOnly (l : List Bytes)
  | featuresAndCommit (l : List Input)
deriving DecidableEq, Repr

def Inputs.len : Inputs → Nat
  | .commitOnly l => l.length
  | .featuresAndCommit l => l.length

/-- `From<&Inputs> for Vec<CommitWrapper>`: commitments, re-sorted by commit-wrapper hash -/
def Inputs.toCommits (key : Bytes → Nat) : Inputs → List Bytes
  | .commitOnly l => l
  | .featuresAndCommit l => sortByKey (fun cm => key (encCommitWrapper cm)) (l.map (·.commit))

/-- `Writeable for Inputs` -/
def encInputs (key : Bytes → Nat) (ver : Nat) (m : Mode) (ins : Inputs) : Except SerErr Bytes :=
  if ins.len = 0 then .ok []
  else if m = .hash then
    match ins with
    | .commitOnly l => .ok (writeMulti encCommitWrapper l)
    | .featuresAndCommit l => .ok (writeMulti encInput l)
  else
    match ins with
    | .commitOnly l => if ver ≤ 2 then .error .unsupportedVersion else .ok (writeMulti encCommitWrapper l)
    | .featuresAndCommit l =>
      if ver ≤ 2 then .ok (writeMulti encInput l)
      else .ok (writeMulti encCommitWrapper (ins.toCommits key))

/-- the sort keys of the entries (for `verify_sorted_and_unique`) -/
def Inputs.keys (key : Bytes → Nat) : Inputs → List Nat
  | .commitOnly l => l.map fun cm => key (encCommitWrapper cm)
  | .featuresAndCommit l => l.map fun i => key i.hashBytes

/-! ## TransactionBody -/

structure TxBody where
  inputs : Inputs
  outputs : List Output
  kernels : List TxKernel
deriving DecidableEq, Repr

/-- `saturating_mul` / `saturating_add` on u64 -/
def satMul (a b : Nat) : Nat := min (a * b) U64MAX
def satAdd (a b : Nat) : Nat := min (a + b) U64MAX

/-- `TransactionBody::weight_by_iok` -/
def weightByIok (ni no nk : Nat) : Nat :=
  satAdd (satAdd (satMul ni GV.Gen.INPUT_WEIGHT) (satMul no GV.Gen.OUTPUT_WEIGHT))
    (satMul nk GV.Gen.KERNEL_WEIGHT)

def TxBody.weight (b : TxBody) : Nat := weightByIok b.inputs.len b.outputs.length b.kernels.length

/-- `Writeable for TransactionBody` -/
def encTxBody (key : Bytes → Nat) (ver : Nat) (m : Mode) (b : TxBody) : Except SerErr Bytes :=
  match encInputs key ver m b.inputs with
  | .error e => .error e
  | .ok ib =>
    .ok (writeU64 b.inputs.len ++ writeU64 b.outputs.length ++ writeU64 b.kernels.length
          ++ ib ++ writeMulti encOutput b.outputs ++ writeMulti (encTxKernel ver m) b.kernels)

/-- `TransactionBody::verify_sorted` -/
def TxBody.verifySorted (key : Bytes → Nat) (b : TxBody) : Except SerErr Unit :=
  match verifySortedUnique (b.inputs.keys key) with
  | .error e => .error e
  | .ok _ =>
    match verifySortedUnique (b.outputs.map fun o => key o.hashBytes) with
    | .error e => .error e
    | .ok _ => verifySortedUnique (b.kernels.map fun k => key k.hashBytes)

/-- the version-specific inputs read of `TransactionBody::read` -/
def decInputs (ver : Nat) (ni : Nat) : Parser Inputs := fun bs =>
  if ver ≤ 2 then andThen (readMulti decInput ni bs) fun l r => .ok (Inputs.featuresAndCommit l, r)
  else andThen (readMulti decCommitWrapper ni bs) fun l r => .ok (Inputs.commitOnly l, r)

/-- `Readable for TransactionBody` -/
def decTxBody (c : Cfg) : Parser TxBody := fun bs =>
  andThen (readU64 bs) fun ni r =>
  andThen (readU64 r) fun no r =>
  andThen (readU64 r) fun nk r =>
  if weightByIok ni no nk > c.maxWeight then .error .tooLarge else
  andThen (decInputs c.ver ni r) fun ins r =>
  andThen (readMulti decOutput no r) fun outs r =>
  andThen (readMulti (decTxKernel c) nk r) fun kers r =>
    let body : TxBody := { inputs := ins, outputs := outs, kernels := kers }
    -- `TransactionBody::init(.., verify_sorted = true).map_err(|_| CorruptedData)`
    match body.verifySorted c.key with
    | .error _ => .error .corrupted
    | .ok _ => .ok (body, r)

/-! ## Transaction (`read` = offset, body, then `validate_read`) -/

structure Transaction where
  offset : Bytes
  body : TxBody
deriving DecidableEq, Repr

def encTransaction (key : Bytes → Nat) (ver : Nat) (m : Mode) (t : Transaction) : Except SerErr Bytes :=
  match encTxBody key ver m t.body with
  | .error e => .error e
  | .ok bb => .ok (writeFixed t.offset ++ bb)

/-- commitments of the inputs (`inputs_committed`) -/
def Inputs.commits : Inputs → List Bytes
  | .commitOnly l => l
  | .featuresAndCommit l => l.map (·.commit)

/-- no two equal entries (`sort` then compare neighbours / `dedup` and compare lengths) -/
def allDistinct : List Bytes → Bool
  | [] => true
  | x :: r => !r.contains x && allDistinct r

/-- `global::max_tx_weight()` -/
def maxTxWeight (maxBlockWeight : Nat) : Nat :=
  maxBlockWeight - (GV.Gen.OUTPUT_WEIGHT + GV.Gen.KERNEL_WEIGHT)

def KernelFeatures.isNrd : KernelFeatures → Bool
  | .noRecentDuplicate _ _ => true
  | _ => false

/-- `TransactionBody::validate_read(weighting)` with the max weight already resolved:
`verify_weight`, `verify_no_nrd_duplicates`, `verify_sorted`, `verify_cut_through` -/
def TxBody.validateRead (c : Cfg) (maxW : Nat) (b : TxBody) : Bool :=
  decide (b.weight ≤ maxW)
  && (!c.nrd || allDistinct ((b.kernels.filter (·.features.isNrd)).map (·.excess)))
  && (match b.verifySorted c.key with | .ok _ => true | .error _ => false)
  && allDistinct (b.inputs.commits ++ b.outputs.map (·.id.commit))

/-- `TransactionBody::verify_features`: no coinbase outputs, no coinbase kernels -/
def TxBody.verifyFeatures (b : TxBody) : Bool :=
  !b.outputs.any (fun o => o.id.features == .coinbase) && !b.kernels.any (fun k => k.features == .coinbase)

/-- `Readable for Transaction` -/
def decTransaction (c : Cfg) : Parser Transaction := fun bs =>
  andThen (decBlind bs) fun off r =>
  andThen (decTxBody c r) fun body r =>
    -- `tx.validate_read().map_err(|_| CorruptedData)`
    if body.validateRead c (maxTxWeight c.maxWeight) && body.verifyFeatures then
      .ok ({ offset := off, body := body }, r)
    else .error .corrupted

/-- hash-mode bytes of a body: all inputs as they are, kernels v1 (`None` never happens in hash mode
except through `Inputs`, which does not fail in hash mode) -/
def Transaction.hashBytes (key : Bytes → Nat) (t : Transaction) : Except SerErr Bytes :=
  encTransaction key LOCAL_VERSION .hash t

end GV.Ser
