import GrinVerif.Model.Crash
/-! Crash model, extended to the durable steps of the start-up recovery itself (C09: a second
process death DURING `Chain::init`, then another restart).

`Chain::init` → `setup_head` (chain/src/chain.rs) is not read-only. It runs
  1. `header_extending(.. ext.rewind(header_head))` → `handle.backend.sync()`: the header MMR files
     are truncated to the size `header_head` implies;
  2. the loop: `txhashset::extending(.. rewind_and_apply_fork(head); validate_roots(head))`; if that
     is `Ok` the three backends are synced (`trees.*.backend.sync()`: hash and data files truncated
     to the head's sizes, leaf set rewound and flushed through a temp file) and the loop ends; if it
     is `Err` everything is discarded and `extending(.. rewind_and_apply_fork(prev_header))` rewinds
     ONE block (`Extension::rewind` → `rewind_single_block`: leaf positions above the cut-off
     removed, the block's spent positions re-added from the spent index) and **syncs the files at
     once**, then `delete_block` / `save_body_head(prev)` go into the still open LMDB batch;
  3. ONE `batch.commit()` at the very end moves the body head (and deletes the undone blocks).
So between two iterations of the loop the files on disk already stand at the parent while the
database still names the old head; `recoverS` lists these durable writes in the code's order,
`fallbackS` is the loop acting on the files it has itself just rewritten (the code as it is), and
`Model/Crash.lean`'s `fallback` is its net effect (proved equal in `Lemmas/CrashRecovL.lean`). -/

namespace GV.Crash

/-- `LeafSet::rewind` + `flush` (store/src/leaf_set.rs): positions outside the path rewound to are
dropped, the re-added spent positions inside it come back -/
def leafAt (leaf readd : List Leaf) (P : List BlkInfo) : List Leaf :=
  (leaf.filter fun l => (leavesOf P).contains l) ++
    readd.filter fun l => (leavesOf P).contains l ∧ !leaf.contains l

inductive RStep
  | hdrHashTrunc | hdrDataTrunc
  | outHashTrunc | outDataTrunc | leafRename | kerHashTrunc | kerDataTrunc
  | headCommit
deriving Repr, DecidableEq, Inhabited

/-- one durable write of the recovery: the step, the path the files are rewound to, the spent
leaves the rewind re-adds, the head the final commit stores -/
structure RIns where
  step : RStep
  path : List BlkInfo
  readd : List Leaf
  head : Nat
deriving Repr, DecidableEq, Inhabited

def applyRIns (d : Durable) (i : RIns) : Durable :=
  match i.step with
  | .hdrHashTrunc => { d with hdrHash := d.hdrHash.take i.path.length }
  | .hdrDataTrunc => { d with hdrData := d.hdrData.take i.path.length }
  | .outHashTrunc => { d with outHash := d.outHash.take (leavesOf i.path).length }
  | .outDataTrunc => { d with outData := d.outData.take (leavesOf i.path).length }
  | .leafRename => { d with leaf := leafAt d.leaf i.readd i.path }
  | .kerHashTrunc => { d with kerHash := d.kerHash.take i.path.length }
  | .kerDataTrunc => { d with kerData := d.kerData.take i.path.length }
  | .headCommit => { d with dbHead := i.head }

def runIns (d : Durable) (ins : List RIns) : Durable := ins.foldl applyRIns d

/-- `trees.output_pmmr_h.backend.sync(); .. rproof ..; trees.kernel_pmmr_h.backend.sync()` of a
committed extension that rewound to `P` (the range-proof files mirror the output files) -/
def syncIns (P : List BlkInfo) (readd : List Leaf) : List RIns :=
  [{ step := .outHashTrunc, path := P, readd := readd, head := 0 },
   { step := .outDataTrunc, path := P, readd := readd, head := 0 },
   { step := .leafRename, path := P, readd := readd, head := 0 },
   { step := .kerHashTrunc, path := P, readd := readd, head := 0 },
   { step := .kerDataTrunc, path := P, readd := readd, head := 0 }]

/-- the fallback loop of `setup_head` as the code runs it: validity is judged on the files as the
previous iteration left them; returns the durable writes in order and the outcome -/
def fallbackS (bc : Nat → Bool) (tbl : List BlkInfo) : Nat → Durable → Nat → List RIns × Rec
  | 0, _, h => ([], .ok h)
  | fuel+1, d, h =>
    match pathOf tbl (tbl.length + 1) h [] with
    | none => ([], .openFail .storeErr)
    | some path =>
      if path.length ≤ 1 then (syncIns path [], .ok h)
      else if validAt bc d [] path then (syncIns path [], .ok h)
      else
        let parentPath := path.dropLast
        let b := path.getLast!
        let ins := syncIns parentPath (spentLeaves (unspentOf parentPath) b)
        let r := fallbackS bc tbl fuel (runIns d ins) ((parentPath.getLast?.map (·.id)).getD 0)
        (ins ++ r.1, r.2)

def hdrIns (hp : List BlkInfo) : List RIns :=
  [{ step := .hdrHashTrunc, path := hp, readd := [], head := 0 },
   { step := .hdrDataTrunc, path := hp, readd := [], head := 0 }]

/-- `Chain::init` with its durable writes -/
def recoverS (bc : Nat → Bool) (tbl : List BlkInfo) (d : Durable) : List RIns × Rec :=
  if d.hdrHash.length ≠ d.hdrData.length then ([], .openFail .other) else
  match pathOf tbl (tbl.length + 1) d.dbHHead [] with
  | none => ([], .openFail .storeErr)
  | some hp =>
    if d.hdrData.take hp.length ≠ hp.map (·.id) then ([], .openFail .other) else
    let r := fallbackS bc tbl (tbl.length + 1) (runIns d (hdrIns hp)) d.dbHead
    match r.2 with
    | .ok h => (hdrIns hp ++ r.1 ++ [{ step := .headCommit, path := [], readd := [], head := h }], .ok h)
    | .openFail w => (hdrIns hp ++ r.1, .openFail w)

/-- the durable state left by a process that dies after the first `k` durable writes of the
start-up recovery of `d` -/
def recCrashAfter (bc : Nat → Bool) (tbl : List BlkInfo) (d : Durable) (k : Nat) : Durable :=
  runIns d ((recoverS bc tbl d).1.take k)

/-- the durable state a completed recovery leaves -/
def recovered (bc : Nat → Bool) (tbl : List BlkInfo) (d : Durable) : Durable :=
  runIns d (recoverS bc tbl d).1

/-! ### Interpretation of the real crash-point labels of a restart (for `Drv/CrashD.lean`) -/

def rstepOfLabel (l : String) : Option RStep :=
  if l.startsWith "aof.flush:after-truncate[header_head/pmmr_hash.bin]" then some .hdrHashTrunc
  else if l.startsWith "aof.flush:after-truncate[header_head/pmmr_data.bin]" then some .hdrDataTrunc
  else if l.startsWith "aof.flush:after-truncate[output/pmmr_hash.bin]" then some .outHashTrunc
  else if l.startsWith "aof.flush:after-truncate[output/pmmr_data.bin]" then some .outDataTrunc
  else if l.startsWith "tmpfile:after-rename[output/pmmr_leaf.bin]" then some .leafRename
  else if l.startsWith "aof.flush:after-truncate[kernel/pmmr_hash.bin]" then some .kerHashTrunc
  else if l.startsWith "aof.flush:after-truncate[kernel/pmmr_data.bin]" then some .kerDataTrunc
  else none

/-- Walk the real labels of a restart along the model's list of writes: every label that names a
modelled file step must be the model's next write (else `none`: the code's order differs from the
model's). The commit that stores the head is the LAST BUT ONE LMDB commit of the restart (the last
one is the index rebuild of `Chain::init`), so it is recognised by the number of commits left. -/
def walkLabels : List String → Nat → List RIns → Durable → Option Durable
  | [], _, _, d => some d
  | l :: ls, commitsLeft, ins, d =>
    if l.startsWith "lmdb:after-commit" then
      if commitsLeft == 2 then
        match ins with
        | i :: rest =>
          if i.step == .headCommit then walkLabels ls (commitsLeft - 1) rest (applyRIns d i)
          else walkLabels ls (commitsLeft - 1) ins d
        | [] => walkLabels ls (commitsLeft - 1) [] d
      else walkLabels ls (commitsLeft - 1) ins d
    else match rstepOfLabel l with
      | none => walkLabels ls commitsLeft ins d
      | some s =>
        match ins with
        | i :: rest => if i.step == s then walkLabels ls commitsLeft rest (applyRIns d i) else none
        | [] => none

end GV.Crash
