import GrinVerif.Model.Msg
import GrinVerif.Model.SerDb
/-! # Instrumented models (C11 style) of the database decoders, and the third reader

The decoders of `Model/SerDb.lean` once more in the instrumented monad of `Model/Dec.lean`
(`Outcome` = ok / err / panic with the requested allocation): `ListWrapper<T>`, `ListEntry<T>`,
`CommitPos`, `BlockSums`, `SizeEntry`, `PeerData`. None of them has a slice, index, unwrap or
subtraction that could fail; the only allocations are the `Vec`s of `read_fixed_bytes` (33 bytes per
commitment, the 4 bytes of a V4 address, the length-prefixed user agent of `PeerData` under the
100 000 cap). `Props/C11Db.lean` proves no panic and the bounds.

`StreamingReader` (`core/src/ser.rs`), the reader of the node's own data files
(`store/src/types.rs`: `write_tmp_pruned`, `rebuild_size_file`) and of the caller-less
`p2p::msg::read_item`: every method goes through `read_fixed_bytes(len)` = `vec![0u8; len]` and THEN
`read_exact` - WITHOUT the 100 000 cap of the other two readers. -/
namespace GV.DecDb
open GV GV.Ser GV.Dec GV.SerDb

def rI64 : Dec Int := fun bs => lift (readI64 bs)

def commitPosI : Dec CommitPos := fun bs =>
  bind (rU64 bs) fun p r =>
  bind (rU64 r) fun h r => .ok { pos := p, height := h } r 0

def listWrapperI {α : Type} (p : Dec α) : Dec (ListWrapper α) := fun bs =>
  bind (lift (decWrapperVariant bs)) fun v r =>
    match v with
    | .single => bind (p r) fun pos r => .ok (.single pos) r 0
    | .multi => bind (rU64 r) fun h r => bind (rU64 r) fun t r => .ok (.multi h t) r 0

def listEntryI {α : Type} (p : Dec α) : Dec (ListEntry α) := fun bs =>
  bind (lift (decEntryVariant bs)) fun v r =>
    match v with
    | .head => bind (p r) fun pos r => bind (rU64 r) fun n r => .ok (.head pos n) r 0
    | .tail => bind (p r) fun pos r => bind (rU64 r) fun n r => .ok (.tail pos n) r 0
    | .middle => bind (p r) fun pos r => bind (rU64 r) fun n r => bind (rU64 r) fun q r => .ok (.middle pos n q) r 0

def blockSumsI (rd : Rdr) : Dec BlockSums := fun bs =>
  bind (rFixed rd COMMIT_SIZE bs) fun u r =>
  bind (rFixed rd COMMIT_SIZE r) fun k r => .ok { utxoSum := u, kernelSum := k } r 0

def sizeEntryI : Dec SizeEntry := fun bs =>
  bind (rU64 bs) fun o r =>
  bind (rU16 r) fun s r => .ok { offset := o, size := s } r 0

/-- the checks `PeerData::read` makes after all reads (pure: `String::from_utf8` takes the vector
over, `from_bits_truncate`, `from_i32`, `from_u8`) -/
def peerDataChecks (ua : Bytes) (fl br : Nat) : Bool :=
  GV.SerMsg.validUtf8 ua && (GV.SerMsg.reasonOfI32 (GV.SerMsg.toI32 br)).isSome && decide (fl ≤ PEER_STATE_MAX)

/-- `Readable for PeerData` (value: address, capability word, user agent, state, last_banned, reason
word, last_connected, last_attempt) -/
def peerDataI (now : Int) (rd : Rdr) : Dec (GV.Msg.PeerAddr × Nat × Bytes × Nat × Int × Nat × Int × Int) := fun bs =>
  bind (GV.Msg.decPeerAddr rd bs) fun addr r =>
  bind (rU32 r) fun capab r =>
  bind (rBytesLenPrefix rd r) fun ua r =>
  bind (rU8 r) fun fl r =>
  bind (rI64 r) fun lb r =>
  bind (rU32 r) fun br r =>
    let t := readTrailing now r
    if peerDataChecks ua fl br then .ok (addr, capab, ua, fl, lb, br, t.1, t.2.1) t.2.2 0
    else .err .corrupted 0

/-! ## StreamingReader -/

/-- `StreamingReader::read_fixed_bytes(len)`: `vec![0u8; len]` (capacity overflow above
`isize::MAX`), then `read_exact`; the request is made whatever the stream holds -/
def sFixed (len : Nat) : Dec Bytes := fun bs =>
  if len > ISIZE_MAX then .panic .capacityOverflow 0
  else match splitExact len bs with
    | some (x, r) => .ok x r len
    | none => .err .ioEof len

/-- `StreamingReader::read_bytes_len_prefix`: the u64 from the stream goes straight to `read_fixed_bytes` -/
def sBytesLenPrefix : Dec Bytes := fun bs =>
  bind (sFixed 8 bs) fun l r => sFixed (ofBE l) r

end GV.DecDb
