import GrinVerif.Model.Crash
/-! Crash model, extended to compaction (C09; known findings C09-compaction-interrupted and
C09-compact-block-window).

`Chain::compact` (chain/src/chain.rs) → `TxHashSet::compact` (chain/src/txhashset/txhashset.rs) →
`PMMRBackend::check_compact` (store/src/pmmr.rs) for the output MMR and then for the range-proof
MMR, each in this order:
  `hash_file.replace_with_tmp()`  = remove the hash file, rename the compacted copy over it,
  `data_file.replace_with_tmp()`  = remove the data file, rename the compacted copy over it,
  `prune_list.flush()`            = temp file + rename,
  `leaf_set.flush()`              = temp file + rename (same content, re-optimised),
then `remove_historical_blocks` + index rebuilds inside the LMDB batch, then ONE `batch.commit()`
that moves the body tail and deletes the full blocks (and spent indices) below it.

Durable state added to `Durable`: for each of the two prunable MMRs which pruned-leaf set its hash
file and its data file are compacted with respect to (or that the file is momentarily absent), and
the prune list on disk; and the body tail height. Reading is **coherent** iff both files are
compacted w.r.t. exactly the prune list on disk: positions are translated to file offsets through
the prune list's shift, so a compacted file read with a stale prune list (or an absent file)
returns wrong / no hashes and the roots match at no candidate head. (Abstraction: the position
geometry of the MMR is not modelled; "compacted w.r.t. a different leaf set" is treated as "reads
wrong hashes everywhere above genesis", which is what the real node shows on the enumerated
chain. A compaction that removes nothing — same prune set — is coherent throughout, except while a
file is absent.)

`recoverC` = `recover` with (1) validity of a candidate additionally requiring coherent output and
range-proof files, (2) the fallback step failing with a store error when the block to undo has been
deleted (height below the tail): `Extension::rewind` does `batch.get_block(&current.hash())?`. -/

namespace GV.Crash

/-- the compaction-relevant files of one prunable MMR backend -/
structure PFiles where
  /-- `some p`: the hash file is compacted w.r.t. the pruned leaves `p`; `none`: removed, the
  compacted copy not yet renamed into place -/
  hash : Option (List Leaf)
  data : Option (List Leaf)
  /-- the prune list on disk -/
  prun : List Leaf
deriving Repr, DecidableEq, Inhabited

def PFiles.coherent (f : PFiles) : Bool := f.hash == some f.prun && f.data == some f.prun

def PFiles.clean (p : List Leaf) : PFiles := { hash := some p, data := some p, prun := p }

structure DurableC where
  base : Durable
  out : PFiles
  rp : PFiles
  /-- body tail height: the full blocks (and spent indices) below it have been deleted -/
  tail : Nat
deriving Repr, DecidableEq, Inhabited

/-- consistent durable state of a node on `path` whose last compaction pruned `prun` and moved the
tail to `tail` (`[]`, `0`: never compacted) -/
def consistentC (path : List BlkInfo) (prun : List Leaf) (tail : Nat) : DurableC :=
  { base := consistent path, out := PFiles.clean prun, rp := PFiles.clean prun, tail := tail }

/-- what `check_compact` removes for a horizon at height `hz`: the leaves created up to the horizon
block that are spent as of the horizon block (`LeafSet::removed_pre_cutoff` with the inputs of the
blocks above the horizon added back). Cumulative: it contains what earlier compactions pruned. -/
def prunedAt (path : List BlkInfo) (hz : Nat) : List Leaf :=
  let P := path.take (hz + 1)
  (leavesOf P).filter fun l => !(unspentOf P).contains l

inductive CStep
  | outHashRemove | outHashRename | outDataRemove | outDataRename | outPrunRename | outLeafRename
  | rpHashRemove | rpHashRename | rpDataRemove | rpDataRename | rpPrunRename | rpLeafRename
  | compactCommit
deriving Repr, DecidableEq, Inhabited

/-- what a compaction is heading for -/
structure CTarget where
  newPrun : List Leaf
  newTail : Nat
deriving Repr, DecidableEq, Inhabited

def applyCStep (t : CTarget) (d : DurableC) : CStep → DurableC
  | .outHashRemove => { d with out := { d.out with hash := none } }
  | .outHashRename => { d with out := { d.out with hash := some t.newPrun } }
  | .outDataRemove => { d with out := { d.out with data := none } }
  | .outDataRename => { d with out := { d.out with data := some t.newPrun } }
  | .outPrunRename => { d with out := { d.out with prun := t.newPrun } }
  | .outLeafRename => d          -- same leaf set, rewritten
  | .rpHashRemove => { d with rp := { d.rp with hash := none } }
  | .rpHashRename => { d with rp := { d.rp with hash := some t.newPrun } }
  | .rpDataRemove => { d with rp := { d.rp with data := none } }
  | .rpDataRename => { d with rp := { d.rp with data := some t.newPrun } }
  | .rpPrunRename => { d with rp := { d.rp with prun := t.newPrun } }
  | .rpLeafRename => d
  | .compactCommit => { d with tail := t.newTail }

/-- the durable steps of `Chain::compact`, in the code's order -/
def compactSteps : List CStep :=
  [.outHashRemove, .outHashRename, .outDataRemove, .outDataRename, .outPrunRename, .outLeafRename,
   .rpHashRemove, .rpHashRename, .rpDataRemove, .rpDataRename, .rpPrunRename, .rpLeafRename,
   .compactCommit]

def crashAfterC (t : CTarget) (d : DurableC) (k : Nat) : DurableC :=
  (compactSteps.take k).foldl (applyCStep t) d

/-- a block / header acceptance on a (possibly compacted) node: the acceptance steps act on the
base state, the compaction state is untouched -/
def crashAfterCB (t : Target) (d : DurableC) (steps : List Step) (k : Nat) : DurableC :=
  { d with base := crashAfter t d.base steps k }

def validAtC (bc : Nat → Bool) (d : DurableC) (readded : List Leaf) (path : List BlkInfo) : Bool :=
  d.out.coherent && d.rp.coherent && validAt bc d.base readded path

/-- the fallback loop of `setup_head` on a node that may have deleted old blocks -/
def fallbackC (bc : Nat → Bool) (tbl : List BlkInfo) (d : DurableC) : Nat → Nat → List Leaf → Rec
  | 0, h, _ => .ok h
  | fuel+1, h, readded =>
    match pathOf tbl (tbl.length + 1) h [] with
    | none => .openFail .storeErr
    | some path =>
      if path.length ≤ 1 then .ok h
      else if validAtC bc d readded path then .ok h
      -- `rewind_and_apply_fork(&prev_header)` → `Extension::rewind` → `batch.get_block(head)`
      else if path.length - 1 < d.tail then .openFail .storeErr
      else
        let parentPath := path.dropLast
        let b := path.getLast!
        let readded' := readded ++ spentLeaves (unspentOf parentPath) b
        fallbackC bc tbl d fuel ((parentPath.getLast?.map (·.id)).getD 0) readded'

/-- `Chain::init` on a durable state with compaction files -/
def recoverC (bc : Nat → Bool) (tbl : List BlkInfo) (d : DurableC) : Rec :=
  if d.base.hdrHash.length ≠ d.base.hdrData.length then .openFail .other else
  match pathOf tbl (tbl.length + 1) d.base.dbHHead [] with
  | none => .openFail .storeErr
  | some hp =>
    if d.base.hdrData.take hp.length ≠ hp.map (·.id) then .openFail .other else
    fallbackC bc tbl d (tbl.length + 1) d.base.dbHead []

/-! ### Interpretation of the real crash-point labels of a `compact` scenario
(for `Drv/CrashD.lean`; a label names the point the process has reached, so `before-…` labels and
`…:before-remove` complete no step) -/

def cstepOfLabel (l : String) : Option CStep :=
  if l.startsWith "aof.replace:between-remove-and-rename[output/pmmr_hash.bin]" then some .outHashRemove
  else if l.startsWith "aof.replace:after-rename[output/pmmr_hash.bin]" then some .outHashRename
  else if l.startsWith "aof.replace:between-remove-and-rename[output/pmmr_data.bin]" then some .outDataRemove
  else if l.startsWith "aof.replace:after-rename[output/pmmr_data.bin]" then some .outDataRename
  else if l.startsWith "tmpfile:after-rename[output/pmmr_prun.bin]" then some .outPrunRename
  else if l.startsWith "tmpfile:after-rename[output/pmmr_leaf.bin]" then some .outLeafRename
  else if l.startsWith "aof.replace:between-remove-and-rename[rangeproof/pmmr_hash.bin]" then some .rpHashRemove
  else if l.startsWith "aof.replace:after-rename[rangeproof/pmmr_hash.bin]" then some .rpHashRename
  else if l.startsWith "aof.replace:between-remove-and-rename[rangeproof/pmmr_data.bin]" then some .rpDataRemove
  else if l.startsWith "aof.replace:after-rename[rangeproof/pmmr_data.bin]" then some .rpDataRename
  else if l.startsWith "tmpfile:after-rename[rangeproof/pmmr_prun.bin]" then some .rpPrunRename
  else if l.startsWith "tmpfile:after-rename[rangeproof/pmmr_leaf.bin]" then some .rpLeafRename
  else if l.startsWith "lmdb:after-commit" then some .compactCommit
  else none

/-- the model steps completed by the first `n` labels of a `compact` scenario -/
def cstepsOfLabels (labels : List String) (n : Nat) : List CStep :=
  (labels.take n).filterMap cstepOfLabel

/-- body tail after `remove_historical_blocks` for a head at height `hh` (chain/src/chain.rs):
`horizon` = `global::cut_through_horizon()`, `thr` = `global::state_sync_threshold()`,
`ivl` = `global::txhashset_archive_interval()`; 0 = nothing deleted -/
def compactTail (hh horizon thr ivl : Nat) : Nat :=
  let cutoff := hh - horizon
  let a := (hh - thr) - ((hh - thr) % ivl)
  if a < cutoff then a else cutoff

/-- predicted reopen outcome after the first `n` labels of a compaction of a node on `oldPath`
(never compacted before), in the driver's output format -/
def predictCompact (bc : Nat → Bool) (tbl oldPath : List BlkInfo) (horizon thr ivl : Nat)
    (labels : List String) (n : Nat) : String :=
  let hh := oldPath.length - 1
  let t : CTarget := { newPrun := prunedAt oldPath (hh - horizon), newTail := compactTail hh horizon thr ivl }
  let d := (cstepsOfLabels labels n).foldl (applyCStep t) (consistentC oldPath [] 0)
  match recoverC bc tbl d with
  | .openFail why => s!"open=err:{why.toString}"
  | .ok h => s!"open=ok head=b{h}"

/-- the same for a node whose last compaction ran when its head stood at height `c` (its files are
compacted w.r.t. `prunedAt oldPath (c - horizon)`, its tail is `compactTail c ..`) and which has
gone on to `oldPath` since: `Chain::compact` a second time -/
def predictCompactAgain (bc : Nat → Bool) (tbl oldPath : List BlkInfo) (horizon thr ivl c : Nat)
    (labels : List String) (n : Nat) : String :=
  let hh := oldPath.length - 1
  let t : CTarget := { newPrun := prunedAt oldPath (hh - horizon), newTail := compactTail hh horizon thr ivl }
  let start := consistentC oldPath (prunedAt oldPath (c - horizon)) (compactTail c horizon thr ivl)
  let d := (cstepsOfLabels labels n).foldl (applyCStep t) start
  match recoverC bc tbl d with
  | .openFail why => s!"open=err:{why.toString}"
  | .ok h => s!"open=ok head=b{h}"

end GV.Crash
