import GrinVerif.Gen.SerImpls
import GrinVerif.Model.Ser
/-! # The `Reader` implementations of the tree and the one method they all share

HAND-MAINTAINED against `Gen/SerImpls.lean` (`readerImpls`, `readerTrait`, regenerated on every check):
`core/src/ser.rs` has three `impl Reader for …` - `BinReader` (`ser::deserialize`, db values, API),
`StreamingReader` (the node's data files) and `BufReader` (every p2p message body, `p2p/src/codec.rs`).
Each implements the eleven REQUIRED methods of the trait and NONE of them overrides the one method the
trait gives a default for, `read_empty_bytes`: the zero-padding check of the v1 kernel layout is the
same code whichever reader is reading. `Props/C10Impls.lean` decides both facts against the regenerated
lists (`reader_impls_match_source`, `reader_overrides_none`): a reader that gains its own
`read_empty_bytes` (or any other override of a future default) breaks an obligation before any input
has to hit it. The pinned fingerprints make a change INSIDE one reader's methods visible as well. -/
namespace GV.SerReaders
open GV GV.Ser

/-- the eleven required methods, in the order `BinReader` and `StreamingReader` define them -/
def required : List String :=
  ["deserialization_mode", "read_u8", "read_u16", "read_u32", "read_i32", "read_u64", "read_i64",
   "read_bytes_len_prefix", "read_fixed_bytes", "expect_u8", "protocol_version"]

/-- `BufReader` defines the same eleven with `read_u64` before `read_i32` -/
def requiredBuf : List String :=
  ["deserialization_mode", "read_u8", "read_u16", "read_u32", "read_u64", "read_i32", "read_i64",
   "read_bytes_len_prefix", "read_fixed_bytes", "expect_u8", "protocol_version"]

/-- (file, type, methods defined, pinned fingerprint of the block) -/
def readers : List (String × String × List String × Nat) := [
  ("core/src/ser.rs", "BinReader<'a,R>", required, 15994336054686210494),
  ("core/src/ser.rs", "StreamingReader<'a>", required, 17741246025073796216),
  ("core/src/ser.rs", "BufReader<'a,B>", requiredBuf, 15415617820721833280)]

/-- the methods the trait gives a default body for -/
def defaults : List String := ["read_empty_bytes"]

/-- `Reader::read_empty_bytes` - the trait's DEFAULT, written once over `read_u8` - for any reader whose
`read_u8` is `ru8`: `for _ in 0..length { if self.read_u8()? != 0 { return Err(CorruptedData) } }` -/
def readEmptyVia (ru8 : Parser Nat) : Nat → Parser Unit
  | 0, bs => .ok ((), bs)
  | n+1, bs =>
    match ru8 bs with
    | .ok (b, r) => if b ≠ 0 then .error .corrupted else readEmptyVia ru8 n r
    | .error e => .error e

end GV.SerReaders
