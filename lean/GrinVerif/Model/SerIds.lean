import GrinVerif.Model.SerBlock
/-! # Derived identifiers whose byte-exact definition every node must share

* `KernelFeatures::kernel_sig_msg` (`core/src/core/transaction.rs`): the message a kernel signature
  commits to — the hash of `(features byte, fee_fields[, lock_height | relative_height])`;
* `BlockHeader::pre_pow` (`core/src/core/block.rs`): the bytes the proof of work is computed over
  (`write_pre_pow` of the header and of its `ProofOfWork`, then the nonce), and the input layout of
  `BlockHeader::from_pre_pow_and_proof`;
* `ShortIdentifiable::short_id` (`core/src/core/id.rs`): SipHash-2-4 of an item's hash, keyed by the
  first 16 bytes of `hash((block_hash, nonce))`, truncated to 6 bytes.

None of them takes a protocol version. A node that computes one of them differently is consistent with
itself (it signs and verifies, mines and checks, builds and hydrates with the same function), so no
round-trip observation can see the difference: here the value itself is the specification, compared
byte for byte with the code on every generated case (`ser sigmsg` / `ser prepow` / `ser shortid`). -/
namespace GV.Ser
open GV

/-! ## kernel_sig_msg -/

/-- `KernelFeatures::as_u8` -/
def KernelFeatures.tag : KernelFeatures → Nat
  | .plain _ => 0
  | .coinbase => 1
  | .heightLocked _ _ => 2
  | .noRecentDuplicate _ _ => 3

/-- the bytes fed to the `HashWriter` by `(x, fee).hash()`, `x.hash()`, `(x, fee, lock_height).hash()`,
`(x, fee, relative_height).hash()`: `u8`, `FeeFields` as u64, `u64`, `NRDRelativeHeight` as u16 -/
def KernelFeatures.sigMsgBytes : KernelFeatures → Bytes
  | .plain fee => writeU8 0 ++ writeU64 fee
  | .coinbase => writeU8 1
  | .heightLocked fee lock => writeU8 2 ++ writeU64 fee ++ writeU64 lock
  | .noRecentDuplicate fee rel => writeU8 3 ++ writeU64 fee ++ writeU16 rel

/-! ## pre_pow -/

/-- `ProofOfWork::write_pre_pow` -/
def encPowPrePow (p : ProofOfWork) : Bytes := writeU64 p.totalDifficulty ++ writeU32 p.secondaryScaling

/-- what `from_pre_pow_and_proof` expects as its hex string: the header's and the proof of work's
`write_pre_pow` (the function appends the nonce and the proof itself) -/
def prePowNoNonce (h : BlockHeader) : Bytes := encHeaderPrePow h ++ encPowPrePow h.pow

/-- `BlockHeader::pre_pow()` -/
def prePow (h : BlockHeader) : Bytes := prePowNoNonce h ++ writeU64 h.pow.nonce

/-! ## SipHash-2-4 (the `siphasher` crate's `SipHasher24`) and `short_id` -/

structure SipState where
  v0 : UInt64
  v1 : UInt64
  v2 : UInt64
  v3 : UInt64

def rotl (x : UInt64) (b : UInt64) : UInt64 := (x <<< b) ||| (x >>> (64 - b))

def SipState.round (s : SipState) : SipState :=
  let v0 := s.v0 + s.v1
  let v1 := rotl s.v1 13
  let v1 := v1 ^^^ v0
  let v0 := rotl v0 32
  let v2 := s.v2 + s.v3
  let v3 := rotl s.v3 16
  let v3 := v3 ^^^ v2
  let v0 := v0 + v3
  let v3 := rotl v3 21
  let v3 := v3 ^^^ v0
  let v2 := v2 + v1
  let v1 := rotl v1 17
  let v1 := v1 ^^^ v2
  let v2 := rotl v2 32
  { v0 := v0, v1 := v1, v2 := v2, v3 := v3 }

/-- compression of one 64-bit word: two rounds -/
def SipState.absorb (s : SipState) (m : UInt64) : SipState :=
  let s := { s with v3 := s.v3 ^^^ m }
  let s := s.round.round
  { s with v0 := s.v0 ^^^ m }

/-- little-endian value of up to 8 bytes -/
def le64 (bs : Bytes) : UInt64 := UInt64.ofNat (ofLE (bs.take 8))

/-- the full 8-byte words of the message, then the last word: the remaining bytes with the message
length (mod 256) in the top byte -/
def sipWords (fuel : Nat) (msg : Bytes) (total : Nat) : List UInt64 :=
  match fuel with
  | 0 => []
  | f+1 =>
    if msg.length ≥ 8 then le64 msg :: sipWords f (msg.drop 8) total
    else [le64 msg ||| (UInt64.ofNat (total % 256) <<< 56)]

/-- `SipHasher24::new_with_keys(k0, k1)`, `write(msg)`, `finish()` -/
def sipHash24 (k0 k1 : UInt64) (msg : Bytes) : UInt64 :=
  let s : SipState := { v0 := k0 ^^^ 0x736f6d6570736575, v1 := k1 ^^^ 0x646f72616e646f6d,
                        v2 := k0 ^^^ 0x6c7967656e657261, v3 := k1 ^^^ 0x7465646279746573 }
  let s := (sipWords (msg.length / 8 + 1) msg msg.length).foldl SipState.absorb s
  let s := { s with v2 := s.v2 ^^^ 0xff }
  let s := s.round.round.round.round
  s.v0 ^^^ s.v1 ^^^ s.v2 ^^^ s.v3

/-- `ShortIdentifiable::short_id(&self, hash, nonce)`; `itemHash` = `self.hash()`, `H` = blake2b-256 -/
def shortId (H : Bytes → Bytes) (itemHash blockHash : Bytes) (nonce : Nat) : Bytes :=
  let hw := H (writeFixed blockHash ++ writeU64 nonce)
  let k0 := le64 (hw.take 8)
  let k1 := le64 ((hw.drop 8).take 8)
  (leBytes 8 (sipHash24 k0 k1 itemHash).toNat).take SHORT_ID_SIZE

end GV.Ser
