import GrinVerif.Model.Bitmap
/-! Block histories over the output MMR's leaf set and the bitmap accumulator, as
`chain/src/txhashset/txhashset.rs` drives them:

* `Extension::apply_block`: every output of the block is pushed first (`apply_output`: the leaf set
  gains the new position, the position goes into `affected_pos`), THEN the inputs are looked up
  (`utxo_view.validate_inputs`, which already sees the outputs just pushed) and removed
  (`apply_input` → `remove_from_leaf_set`, position into `affected_pos`), then
  `apply_to_bitmap_accumulator(affected_pos)`.  At this level nothing stops a block from spending
  one of its own outputs; `Block::validate` → `verify_cut_through` does (chain pipeline), and a block
  without outputs cannot carry its coinbase.  `ValidBlk` states exactly these two facts.
* `Extension::rewind(header)`: `rewind_single_block` for every block from the head back to the
  target — `LeafSet::rewind(cutoff, spent)` removes everything above the cutoff and ORs in **all**
  spent positions of the block (also those above the cutoff, if there were any), the affected
  positions are the spent positions plus `output_pmmr.size` after the truncation — and ONE
  `apply_to_bitmap_accumulator` over the aggregate.  With nothing to rewind:
  `apply_to_bitmap_accumulator(&[header.output_mmr_size])`.

The leaf set is the ascending list of leaf insertion indices (what `leaf_idx_iter` yields). -/
namespace GV.Bitmap
open GV GV.Pmmr

/-- least strict upper bound of a list -/
def supList (l : List Nat) : Nat := l.foldl (fun a x => max a (x + 1)) 0

/-- a block as the output MMR sees it: number of outputs, leaf indices its inputs spend -/
structure Blk where
  k : Nat
  spent : List Nat
deriving Repr

/-- output MMR: number of leaves and leaf set -/
structure BSt where
  n : Nat
  U : List Nat
deriving Repr

/-- what the spent index keeps per block (`save_spent_index`) plus the previous header's
`output_mmr_size` (as a leaf count) -/
structure Rec where
  nBefore : Nat
  spent : List Nat
deriving Repr

/-- the output MMR after `apply_block`: outputs appended, then inputs removed from the leaf set -/
def applyBlk (s : BSt) (b : Blk) : BSt :=
  { n := s.n + b.k
    U := (List.range (max (s.n + b.k) (supList s.U))).filter fun x =>
      (decide (x ∈ s.U) || (decide (s.n ≤ x) && decide (x < s.n + b.k))) && !decide (x ∈ b.spent) }

/-- `affected_pos` of `apply_block`: 1-based positions of the new outputs, then of the spent ones -/
def blkAffected (s : BSt) (b : Blk) : List Nat :=
  ((List.range' s.n b.k) ++ b.spent).map fun i => insertionToPmmrIndex i + 1

/-- `rewind_single_block` on the output MMR: truncate to the previous size; `LeafSet::rewind` -/
def undoBlk (s : BSt) (r : Rec) : BSt :=
  { n := r.nBefore
    U := (List.range (max r.nBefore (supList r.spent))).filter fun x =>
      (decide (x < r.nBefore) && decide (x ∈ s.U)) || decide (x ∈ r.spent) }

/-- its `affected_pos`: the spent positions, then `output_pmmr.size` -/
def recAffected (r : Rec) : List Nat :=
  (r.spent.map fun i => insertionToPmmrIndex i + 1) ++ [insertionToPmmrIndex r.nBefore]

/-- the `while header.height < current.height` loop over the first `d` records (newest first):
state and aggregate `affected_pos` -/
def undoMany (s : BSt) : List Rec → Nat → BSt × List Nat
  | _, 0 => (s, [])
  | [], _ + 1 => (s, [])
  | r :: rs, d + 1 =>
    let x := undoMany (undoBlk s r) rs d
    (x.1, recAffected r ++ x.2)

variable {H : Type}

/-- an extension: bitmap accumulator, output MMR, the blocks above the base (newest first) -/
structure CSt (H : Type) where
  acc : Acc H
  st : BSt
  stack : List Rec

inductive Op
  /-- `apply_block` -/
  | block (b : Blk)
  /-- `rewind` to the header `d` blocks below the head (`d = 0`: nothing to rewind) -/
  | rewind (d : Nat)

def outOf (s : BSt) : OutputPmmr := { size := insertionToPmmrIndex s.n, leafSet := s.U }

def stepOp (hf : HashFn Nat H) (c : CSt H) : Op → Option (CSt H)
  | .block b =>
    let s' := applyBlk c.st b
    match extApply hf c.acc (outOf s') (blkAffected c.st b) with
    | none => none
    | some a => some { acc := a, st := s', stack := ⟨c.st.n, b.spent⟩ :: c.stack }
  | .rewind 0 =>
    match extApply hf c.acc (outOf c.st) [insertionToPmmrIndex c.st.n] with
    | none => none
    | some a => some { c with acc := a }
  | .rewind (d + 1) =>
    if c.stack.length < d + 1 then none
    else
      let x := undoMany c.st c.stack (d + 1)
      match extApply hf c.acc (outOf x.1) x.2 with
      | none => none
      | some a => some { acc := a, st := x.1, stack := c.stack.drop (d + 1) }

/-- what the chain pipeline guarantees about a block on top of state `s`: at least one output (the
coinbase), every input spends an output that is unspent BEFORE the block (`verify_cut_through`: none
of its own), and the leaf count stays a u64 -/
def ValidBlk (s : BSt) (b : Blk) : Prop :=
  1 ≤ b.k ∧ (∀ x ∈ b.spent, x ∈ s.U) ∧ s.n + b.k ≤ 2 ^ 64

def ValidOp (c : CSt H) : Op → Prop
  | .block b => ValidBlk c.st b
  | .rewind d => d ≤ c.stack.length

/-- run a history; `none` = an operation failed -/
def runOps (hf : HashFn Nat H) : CSt H → List Op → Option (CSt H)
  | c, [] => some c
  | c, op :: ops => match stepOp hf c op with
    | none => none
    | some c' => runOps hf c' ops

/-- every operation of the history is valid in the state it is applied to -/
def ValidOps (hf : HashFn Nat H) : CSt H → List Op → Prop
  | _, [] => True
  | c, op :: ops => ValidOp c op ∧ ∀ c', stepOp hf c op = some c' → ValidOps hf c' ops

end GV.Bitmap
