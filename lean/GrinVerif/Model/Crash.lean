import GrinVerif.Model.Basic
/-! Crash model for block / header acceptance (C09).

Durable state = what survives a process death: the LMDB committed state (head, header head,
stored blocks with their spent index) and the MMR files (header MMR hash+data; output MMR
hash+data+leaf set; kernel MMR hash+data). An acceptance is a list of durable steps in the order
the code executes them (`txhashset::header_extending` / `extending`: child batch commit, file
flushes = truncate then append then fsync, leaf-set temp-file rename, then the outer LMDB
commit; chain/src/txhashset/txhashset.rs, store/src/{types,pmmr,lmdb}.rs); `crashAfter k` is the
durable state after the first `k` steps; `recover` models `Chain::init` → `setup_head`
(chain/src/chain.rs): header-MMR consistency check (`PMMRHandle::new` head hash, `init_head`),
then rewind the txhashset to the stored head, validate roots, and on failure fall back to the
previous block (`rewind_single_block` re-adds that block's spent positions from the spent
index), deleting the block, until a state validates or genesis is reached.
Range-proof files mirror the output files and are not modelled separately; compaction is not
modelled here (its crash windows are enumerated on the real code only). -/

namespace GV.Crash

structure BlkInfo where
  id : Nat
  parent : Option Nat
  work : Nat
  /-- created output ids, in body order -/
  outs : List Nat
  /-- spent output ids -/
  ins : List Nat
deriving Repr, DecidableEq, Inhabited

/-- an output leaf: (creating block, output id) -/
abbrev Leaf := Nat × Nat

def leavesOf (path : List BlkInfo) : List Leaf :=
  path.flatMap fun b => b.outs.map fun o => (b.id, o)

/-- remove the most recently created unspent leaf carrying output id `o` -/
def spendOne (u : List Leaf) (o : Nat) : List Leaf :=
  match u.reverse.find? (·.2 == o) with
  | some l => u.erase l
  | none => u

/-- leaves a block spends, resolved in the state `u` it is applied to -/
def spentLeaves (u : List Leaf) (b : BlkInfo) : List Leaf :=
  b.ins.filterMap fun o => u.reverse.find? (·.2 == o)

def applyU (u : List Leaf) (b : BlkInfo) : List Leaf :=
  (b.ins.foldl spendOne u) ++ b.outs.map fun o => (b.id, o)

/-- unspent leaves after replaying a path (genesis first) -/
def unspentOf (path : List BlkInfo) : List Leaf := path.foldl applyU []

structure Durable where
  dbHead : Nat
  dbHHead : Nat
  /-- header ids by height -/
  hdrHash : List Nat
  hdrData : List Nat
  outHash : List Leaf
  outData : List Leaf
  leaf : List Leaf
  /-- kernel MMR: one entry per block (the creating block id) -/
  kerHash : List Nat
  kerData : List Nat
deriving Repr, DecidableEq, Inhabited

/-- the consistent durable state of a node whose head and header head are the tip of `path` -/
def consistent (path : List BlkInfo) : Durable :=
  let tip := (path.getLast?.map (·.id)).getD 0
  { dbHead := tip, dbHHead := tip,
    hdrHash := path.map (·.id), hdrData := path.map (·.id),
    outHash := leavesOf path, outData := leavesOf path, leaf := unspentOf path,
    kerHash := path.map (·.id), kerData := path.map (·.id) }

inductive Step
  | childCommit            -- nested LMDB commit: nothing durable
  | hdrHashTrunc | hdrHashApp | hdrDataTrunc | hdrDataApp | hdrCommit
  | outHashTrunc | outHashApp | outDataTrunc | outDataApp | leafRename
  | kerHashTrunc | kerHashApp | kerDataTrunc | kerDataApp
  | finalCommit
deriving Repr, DecidableEq, Inhabited

/-- what an acceptance is heading for: the new block's path, the fork point's depth (number of
blocks shared with the old path) and whether head / header head move -/
structure Target where
  newPath : List BlkInfo
  forkLen : Nat
  movesHHead : Bool
  movesHead : Bool

def Target.tip (t : Target) : Nat := (t.newPath.getLast?.map (·.id)).getD 0
def Target.forkPath (t : Target) : List BlkInfo := t.newPath.take t.forkLen

def applyStep (t : Target) (d : Durable) : Step → Durable
  | .childCommit => d
  | .hdrHashTrunc => { d with hdrHash := d.hdrHash.take t.forkLen }
  | .hdrHashApp => { d with hdrHash := t.newPath.map (·.id) }
  | .hdrDataTrunc => { d with hdrData := d.hdrData.take t.forkLen }
  | .hdrDataApp => { d with hdrData := t.newPath.map (·.id) }
  | .hdrCommit => if t.movesHHead then { d with dbHHead := t.tip } else d
  | .outHashTrunc => { d with outHash := d.outHash.take (leavesOf t.forkPath).length }
  | .outHashApp => { d with outHash := leavesOf t.newPath }
  | .outDataTrunc => { d with outData := d.outData.take (leavesOf t.forkPath).length }
  | .outDataApp => { d with outData := leavesOf t.newPath }
  | .leafRename => { d with leaf := unspentOf t.newPath }
  | .kerHashTrunc => { d with kerHash := d.kerHash.take t.forkLen }
  | .kerHashApp => { d with kerHash := t.newPath.map (·.id) }
  | .kerDataTrunc => { d with kerData := d.kerData.take t.forkLen }
  | .kerDataApp => { d with kerData := t.newPath.map (·.id) }
  | .finalCommit => if t.movesHead then { d with dbHead := t.tip } else d

/-- the durable steps of accepting a block whose header is new and which becomes the head, in
the code's order -/
def blockSteps : List Step :=
  [.childCommit, .hdrHashTrunc, .hdrHashApp, .hdrDataTrunc, .hdrDataApp, .hdrCommit,
   .childCommit, .outHashTrunc, .outHashApp, .outDataTrunc, .outDataApp, .leafRename,
   .kerHashTrunc, .kerHashApp, .kerDataTrunc, .kerDataApp, .finalCommit]

/-- the durable steps of accepting a header only -/
def headerSteps : List Step :=
  [.childCommit, .hdrHashTrunc, .hdrHashApp, .hdrDataTrunc, .hdrDataApp, .hdrCommit]

def crashAfter (t : Target) (d : Durable) (steps : List Step) (k : Nat) : Durable :=
  (steps.take k).foldl (applyStep t) d

inductive Why
  | other      -- Error::Other ("header PMMR inconsistent" / no head hash)
  | storeErr   -- a block or header the recovery needs is not in the database
deriving Repr, DecidableEq, Inhabited

def Why.toString : Why → String
  | .other => "Other"
  | .storeErr => "StoreErr"

inductive Rec
  /-- `Chain::init` fails: the node does not open without manual repair -/
  | openFail (why : Why)
  /-- opens with this head -/
  | ok (head : Nat)
deriving Repr, DecidableEq, Inhabited

/-- the canonical path (genesis first) of a stored block, from the block table; fuel = table size -/
def pathOf (tbl : List BlkInfo) : Nat → Nat → List BlkInfo → Option (List BlkInfo)
  | 0, _, _ => none
  | fuel+1, id, acc =>
    match tbl.find? (·.id == id) with
    | none => none
    | some b => match b.parent with
      | none => some (b :: acc)
      | some p => pathOf tbl fuel p (b :: acc)

/-- does the txhashset, rewound to the candidate head with the given re-added spent leaves,
validate against that head's roots (output root + bitmap root + kernel root)? -/
def validAt (bitmapCommitted : Nat → Bool) (d : Durable) (readded : List Leaf) (path : List BlkInfo) : Bool :=
  let L := leavesOf path
  let leaf' := (d.leaf.filter fun l => L.contains l) ++ readded.filter fun l => L.contains l ∧ !d.leaf.contains l
  d.outHash.take L.length == L && d.outData.take L.length == L &&
  d.kerHash.take path.length == path.map (·.id) && d.kerData.take path.length == path.map (·.id) &&
  -- the unspent bitmap is folded into the output root only from header version 3 on
  (!bitmapCommitted (path.length - 1) ||
    ((unspentOf path).all (fun l => leaf'.contains l) && leaf'.all (fun l => (unspentOf path).contains l)))

/-- the fallback loop of `setup_head`; fuel = number of blocks; `bc h` = the header at height `h`
commits to the unspent bitmap (header version ≥ 3) -/
def fallback (bc : Nat → Bool) (tbl : List BlkInfo) (d : Durable) : Nat → Nat → List Leaf → Rec
  | 0, h, _ => .ok h
  | fuel+1, h, readded =>
    match pathOf tbl (tbl.length + 1) h [] with
    | none => .openFail .storeErr
    | some path =>
      if path.length ≤ 1 then .ok h   -- genesis: roots are not validated at height 0
      else if validAt bc d readded path then .ok h
      else
        -- undo block h: its spent leaves come back (spent index), the block is deleted
        let parentPath := path.dropLast
        let b := path.getLast!
        let readded' := readded ++ spentLeaves (unspentOf parentPath) b
        fallback bc tbl d fuel ((parentPath.getLast?.map (·.id)).getD 0) readded'

/-- `Chain::init` on a durable state -/
def recover (bc : Nat → Bool) (tbl : List BlkInfo) (d : Durable) : Rec :=
  -- PMMRHandle::new / head_hash: the data file must hold the last header the hash file counts
  if d.hdrHash.length ≠ d.hdrData.length then .openFail .other else
  -- init_head: the header MMR must hold header_head at its height
  match pathOf tbl (tbl.length + 1) d.dbHHead [] with
  | none => .openFail .storeErr
  | some hp =>
    if d.hdrData.take hp.length ≠ hp.map (·.id) then .openFail .other else
    fallback bc tbl d (tbl.length + 1) d.dbHead []

end GV.Crash
