import GrinVerif.Model.Chain
/-! The ORDER of the stateless body checks (`Block::validate`, core/src/core/block.rs, over
`TransactionBody::validate` / `validate_read`, core/src/core/transaction.rs):

  verify_weight, verify_no_nrd_duplicates, verify_sorted, verify_cut_through,
  batch_verify_proofs, batch_sig_verify, then the block-level checks.

`validateBody` (Model/Chain.lean) answers its first `body:` tag before the duplicate / cut-through
scans it computes itself - right for a block with ONE fault (all that earlier generators built),
wrong in class for a block with two (found by the translator's `chainBody_order_finding`).
`Blk.withBodyOrder` puts a block into the form in which `validateBody` answers the FIRST failing
stage of the code's order: the body-stage faults - the `body:` tags by the stage their error class
belongs to, and the two scans the model computes - are ranked, and the first one is put in front as
THE `body:` tag. Acceptance is untouched (a block has a body-stage fault before iff after), so every
theorem about accepted blocks stands; only the error class of a multi-fault block changes.
`Props/C06BodyOrder.lean`: the composition is "first failing stage of an explicit list" and that
list is the spine regenerated from the current source. -/
namespace GV.Chain

/-- the stage of `TransactionBody::validate` an error class of a `body:` tag belongs to -/
def bodyStage (e : String) : Nat :=
  if e.endsWith "TooHeavy" then 0                       -- verify_weight
  else if e.endsWith "InvalidNRDRelativeHeight" then 1   -- verify_no_nrd_duplicates
  else if e.endsWith "Serialization" then 2              -- verify_sorted (unsorted / repeated)
  else if e.endsWith "CutThrough" then 3                 -- verify_cut_through
  else if e.endsWith "Secp" then 4                       -- batch_verify_proofs
  else if e.endsWith "IncorrectSignature" then 5         -- batch_sig_verify
  else 6

/-- the error classes the `body:` tags carry -/
def bodyTagErrs (b : Blk) : List String :=
  b.tags.filterMap fun t => if t.startsWith "body:" then some (t.drop 5).toString else none

/-- every body-stage fault of the block with its stage: the tags, and the two scans the model computes -/
def bodyFaults (b : Blk) : List (Nat × String) :=
  (bodyTagErrs b).map (fun e => (bodyStage e, e)) ++
  (if dupInBody b then [(2, "Block:Transaction:Serialization")] else []) ++
  (if cutThroughViolation b then [(3, "Block:Transaction:CutThrough")] else [])

/-- the fault of the least stage (the first of them in list order) -/
def firstFault : List (Nat × String) → Option (Nat × String)
  | [] => none
  | x :: xs => match firstFault xs with
    | none => some x
    | some y => if x.1 ≤ y.1 then some x else some y

/-- the block as `validateBody` must see it to answer in the code's order -/
def Blk.withBodyOrder (b : Blk) : Blk :=
  match firstFault (bodyFaults b) with
  | none => b
  | some (_, e) => { b with tags := ("body:" ++ e) :: b.tags.filter (fun t => !t.startsWith "body:") }

end GV.Chain
