import GrinVerif.Model.Tx
import GrinVerif.Model.Cons
/-! # Model of the block-level part of C12: header of `Block::from_reward`, `Block::validate`,
the full `validate_read` gates, short ids and the compact block on the wire

Transliteration of
* `core/src/core/transaction.rs`: `TransactionBody::{verify_weight, verify_no_nrd_duplicates,
  validate_read}`, `Transaction::validate_read` (now WITH the weight and NRD-duplicate gates that
  `Model/Tx.lean: validateRead` leaves out)
* `core/src/core/block.rs`: the header fields `Block::from_reward` computes (`height`, `version`,
  `total_difficulty`), `Block::{block_kernel_offset, validate_read, validate,
  verify_kernel_lock_heights, verify_nrd_kernels_for_header_version, verify_coinbase}`
* `core/src/core/id.rs`: `ShortIdentifiable::short_id` (SipHash-2-4 of the element's hash keyed by
  the first 16 bytes of `blake2b(block hash ‖ nonce)`, low 6 bytes), `ShortId::from_bytes`
* `core/src/core/compact_block.rs`: the order of `kern_ids` (`hashable_ord!(ShortId)`: by the
  blake2b hash of the 6 bytes)
  and its wire form (`Writeable` / `Readable for CompactBlockBody`: what the reader checks)
* `pool/src/pool.rs`: `Pool::retrieve_transactions` (which pool transactions the node hydrates a
  compact block from)

Kernels are the codes `2*rank + coinbase` of `Model/Tx.lean`; what else the gates read of a kernel
(feature tag, lock height / relative height, fee, the excess commitment) is supplied per code by
the harness (`KMeta`).  Import-free apart from `Model/*` (linked into the driver). -/
namespace GV.Tx
open GV

/-! ## what the gates read of a kernel -/

/-- per kernel code: `features.as_u8()` (0 plain, 1 coinbase, 2 height locked, 3 no-recent-duplicate),
`lock_height` resp. `relative_height` (0 otherwise), `fee_fields.fee()`, id of the excess -/
structure KMeta where
  feat : Nat → Nat
  lock : Nat → Nat
  fee : Nat → Nat
  excess : Nat → Nat
  /-- `fee_fields.fee_shift()` -/
  shift : Nat → Nat := fun _ => 0

inductive BErr
  /-- `Error::TooHeavy` -/
  | tooHeavy
  /-- `Error::InvalidNRDRelativeHeight` (what `verify_no_nrd_duplicates` answers) -/
  | nrdDup
  | sort | dup | cutThrough | outputFeatures | kernelFeatures
  /-- `block::Error::KernelLockHeight(h)` -/
  | kernelLockHeight (h : Nat)
  | nrdNotEnabled | nrdPreHF3
  | coinbaseSum
  /-- `Error::KernelSumMismatch` -/
  | kernelSum
  | secp
deriving DecidableEq, Repr

def BErr.ofV : VErr → BErr
  | .sort => .sort
  | .dup => .dup
  | .cutThrough => .cutThrough
  | .outputFeatures => .outputFeatures
  | .kernelFeatures => .kernelFeatures

/-- `Weighting` -/
inductive Weighting
  | asTransaction
  | asLimitedTransaction (max : Nat)
  | asBlock
  | noLimit
deriving DecidableEq, Repr

/-- `consensus::OUTPUT_WEIGHT + consensus::KERNEL_WEIGHT` -/
def coinbaseWeight : Nat := Gen.OUTPUT_WEIGHT + Gen.KERNEL_WEIGHT

/-- `global::max_tx_weight()` -/
def maxTxWeight (ct : Cons.ChainType) : Nat := satSub (Cons.maxBlockWeight ct) coinbaseWeight

/-- `TransactionBody::verify_weight`: `none` = no limit -/
def maxWeightOf (ct : Cons.ChainType) : Weighting → Option Nat
  | .asTransaction => some (maxTxWeight ct)
  | .asLimitedTransaction m => some (satSub (min (Cons.maxBlockWeight ct) m) coinbaseWeight)
  | .asBlock => some (Cons.maxBlockWeight ct)
  | .noLimit => none

def verifyWeight (ct : Cons.ChainType) (w : Weighting) (ni no nk : Nat) : Option BErr :=
  match maxWeightOf ct w with
  | none => none
  | some m => if Cons.weightByIok ni no nk > m then some .tooHeavy else none

/-- `Vec::dedup`: drop every element equal to its predecessor -/
def dedupAdj : List Nat → List Nat
  | a :: b :: t => if a == b then dedupAdj (b :: t) else a :: dedupAdj (b :: t)
  | l => l

/-- `verify_no_nrd_duplicates`: collect the excess of the NRD kernels, `sort`, `dedup`, compare the
lengths (skipped when the feature flag is off) -/
def verifyNoNrdDuplicates (M : KMeta) (nrdEnabled : Bool) (kernels : List Nat) : Option BErr :=
  if !nrdEnabled then none
  else
    let ex := (kernels.filter (fun k => M.feat k == 3)).map M.excess
    let s := sortBy id ex
    if s.length == (dedupAdj s).length then none else some .nrdDup

/-- `TransactionBody::validate_read(weighting)` on a commit-only body:
`verify_weight`, `verify_no_nrd_duplicates`, `verify_sorted`, `verify_cut_through` -/
def bodyValidateRead (K : Keys) (M : KMeta) (ct : Cons.ChainType) (nrdEnabled : Bool) (w : Weighting)
    (inputs outputs kernels : List Nat) : Option BErr :=
  match verifyWeight ct w inputs.length outputs.length kernels.length with
  | some e => some e
  | none =>
  match verifyNoNrdDuplicates M nrdEnabled kernels with
  | some e => some e
  | none =>
  match sortedUnique K.ik inputs with
  | some e => some (.ofV e)
  | none =>
  match sortedUnique K.ok outputs with
  | some e => some (.ofV e)
  | none =>
  match sortedUnique K.kk kernels with
  | some e => some (.ofV e)
  | none =>
  match verifyCutThrough ⟨0, false, inputs, outputs, kernels⟩ with
  | some e => some (.ofV e)
  | none => none

/-- `Transaction::validate_read()`: the body gates under `Weighting::AsTransaction`, then
`verify_features` -/
def validateReadFull (K : Keys) (M : KMeta) (ct : Cons.ChainType) (nrdEnabled : Bool) (t : Tx) : Option BErr :=
  match bodyValidateRead K M ct nrdEnabled .asTransaction t.inputs t.outputs t.kernels with
  | some e => some e
  | none =>
    if t.outputs.any isCoinbase then some .outputFeatures
    else if t.kernels.any isCoinbase then some .kernelFeatures
    else none

/-- the body gates of `validate_read` under any weighting, followed by `verify_features`:
`Transaction::validate_read` generalised in the weighting (it is `validateReadFull` for
`AsTransaction`) -/
def validateReadW (K : Keys) (M : KMeta) (ct : Cons.ChainType) (nrdEnabled : Bool) (w : Weighting) (t : Tx) : Option BErr :=
  match bodyValidateRead K M ct nrdEnabled w t.inputs t.outputs t.kernels with
  | some e => some e
  | none =>
    if t.outputs.any isCoinbase then some .outputFeatures
    else if t.kernels.any isCoinbase then some .kernelFeatures
    else none

/-- `Transaction::validate(weighting)`, its gates in the order of the code:

```text
self.body.verify_features()?;          // FIRST here, LAST in validate_read
self.body.validate(weighting)?;        // = validate_read(weighting)?; range proofs; kernel signatures
self.verify_kernel_sums(self.overage(), self.offset.clone())?;
```

`later` is the outcome of what comes after the gates (range proofs, kernel signatures, kernel sums:
cryptography, `none` when all of it holds). -/
def txValidateGates (K : Keys) (M : KMeta) (ct : Cons.ChainType) (nrdEnabled : Bool) (w : Weighting) (t : Tx)
    (later : Option BErr) : Option BErr :=
  if t.outputs.any isCoinbase then some .outputFeatures
  else if t.kernels.any isCoinbase then some .kernelFeatures
  else
    match bodyValidateRead K M ct nrdEnabled w t.inputs t.outputs t.kernels with
    | some e => some e
    | none => later

/-! ## the header `Block::from_reward` builds -/

structure Hdr where
  height : Nat
  version : Nat
  totalDifficulty : Nat
deriving DecidableEq, Repr

/-- `height = prev.height + 1` (u64, release build), `version = consensus::header_version(height)`,
`total_difficulty = difficulty + prev.pow.total_difficulty` (`Difficulty: Add` is a plain `+`) -/
def fromRewardHeader (ct : Cons.ChainType) (prevHeight prevTotalDiff diff : Nat) : Hdr :=
  let h := addW prevHeight 1
  ⟨h, Cons.headerVersion ct h, addW diff prevTotalDiff⟩

/-! ## `Block::validate` -/

/-- `Block::block_kernel_offset(prev_kernel_offset)`: zero when the total did not change, otherwise
`sum_kernel_offsets([total], [prev])` — with that function's "positive side empty ⇒ zero" shortcut,
which here swallows the previous offset when the total is the zero offset. -/
def blockKernelOffset (total prev : Nat) : Except Err Nat :=
  if total = prev then .ok 0 else sumKernelOffsets [total] [prev]

/-- `verify_kernel_lock_heights`: the first height-locked kernel (in body order) whose lock height is
above the header's height -/
def verifyKernelLockHeights (M : KMeta) (height : Nat) : List Nat → Option BErr
  | [] => none
  | k :: t =>
    if M.feat k == 2 && decide (M.lock k > height) then some (.kernelLockHeight (M.lock k))
    else verifyKernelLockHeights M height t

/-- `verify_nrd_kernels_for_header_version` -/
def verifyNrdForHeaderVersion (M : KMeta) (nrdEnabled : Bool) (version : Nat) (kernels : List Nat) : Option BErr :=
  if kernels.any (fun k => M.feat k == 3) then
    if !nrdEnabled then some .nrdNotEnabled
    else if version < 4 then some .nrdPreHF3
    else none
  else none

/-- `TransactionBody::fee()`: saturating sum of the fees of the non-coinbase kernels -/
def totalFees (M : KMeta) (kernels : List Nat) : Nat :=
  (kernels.filter (fun k => M.feat k != 1)).foldl (fun acc k => min U64MAX (acc + M.fee k)) 0

/-- `TransactionBody::fee_shift()`: the maximum of the fee shifts of the non-coinbase kernels -/
def bodyFeeShift (M : KMeta) (kernels : List Nat) : Nat :=
  (kernels.filter (fun k => M.feat k != 1)).foldl (fun acc k => max acc (M.shift k)) 0

/-- `TransactionBody::shifted_fee()` = `fee() >> fee_shift()` -/
def shiftedFee (M : KMeta) (kernels : List Nat) : Nat :=
  totalFees M kernels >>> bodyFeeShift M kernels

/-- `TransactionBody::lock_height()`: the maximum lock height of the height-locked kernels, 0 if
there is none -/
def lockHeight (M : KMeta) (kernels : List Nat) : Nat :=
  ((kernels.filter (fun k => M.feat k == 2)).map M.lock).foldl max 0

/-- `Block::validate_read()` -/
def blockValidateRead (K : Keys) (M : KMeta) (ct : Cons.ChainType) (nrdEnabled : Bool) (b : Block) (hdr : Hdr) : Option BErr :=
  match bodyValidateRead K M ct nrdEnabled .asBlock b.inputs b.outputs b.kernels with
  | some e => some e
  | none => verifyKernelLockHeights M hdr.height b.kernels

/-- `Block::validate(prev_kernel_offset)` for a block whose outputs carry honest range proofs and
whose kernels carry honest signatures (batch verification is on the real code only).  The two
commitment equations are decided on openings (Pedersen binding, DESIGN §2.3):
* `verify_coinbase`: the reward output / kernel were made by `reward::output(.., fees = claimedFees)`,
  so the equation holds iff `reward(claimedFees) = reward(total_fees)`;
* `verify_kernel_sums`: the body is the cut-through union of transactions that each satisfy their
  own sum equation with offsets summing to `bodyOffset`, so the block's equation holds iff the
  offset `block_kernel_offset` hands over is `bodyOffset`. -/
def blockValidate (K : Keys) (M : KMeta) (ct : Cons.ChainType) (nrdEnabled : Bool) (b : Block) (hdr : Hdr)
    (prevOffset claimedFees bodyOffset : Nat) : Option BErr :=
  match bodyValidateRead K M ct nrdEnabled .asBlock b.inputs b.outputs b.kernels with
  | some e => some e
  | none =>
  match verifyKernelLockHeights M hdr.height b.kernels with
  | some e => some e
  | none =>
  match verifyNrdForHeaderVersion M nrdEnabled hdr.version b.kernels with
  | some e => some e
  | none =>
  if min U64MAX (Gen.REWARD + claimedFees) ≠ min U64MAX (Gen.REWARD + totalFees M b.kernels) then some .coinbaseSum
  else
    match blockKernelOffset b.totalOffset prevOffset with
    | .error _ => some .secp
    | .ok off => if off = bodyOffset then none else some .kernelSum

/-! ## short ids (`id.rs`) -/

def rotl64 (x b : Nat) : Nat := ((x <<< b) ||| (x >>> (64 - b))) % 2^64

structure Sip where
  v0 : Nat
  v1 : Nat
  v2 : Nat
  v3 : Nat
deriving DecidableEq, Repr

/-- one SipRound -/
def Sip.round (s : Sip) : Sip :=
  let v0 := addW s.v0 s.v1
  let v1 := rotl64 s.v1 13
  let v1 := v1 ^^^ v0
  let v0 := rotl64 v0 32
  let v2 := addW s.v2 s.v3
  let v3 := rotl64 s.v3 16
  let v3 := v3 ^^^ v2
  let v0 := addW v0 v3
  let v3 := rotl64 v3 21
  let v3 := v3 ^^^ v0
  let v2 := addW v2 v1
  let v1 := rotl64 v1 17
  let v1 := v1 ^^^ v2
  let v2 := rotl64 v2 32
  ⟨v0, v1, v2, v3⟩

/-- `SipHasher24::new_with_keys(k0, k1)` -/
def Sip.init (k0 k1 : Nat) : Sip :=
  ⟨k0 ^^^ 0x736f6d6570736575, k1 ^^^ 0x646f72616e646f6d, k0 ^^^ 0x6c7967656e657261, k1 ^^^ 0x7465646279746573⟩

/-- absorb one 8-byte little-endian word (2 compression rounds) -/
def Sip.absorb (s : Sip) (m : Nat) : Sip :=
  let s := ({ s with v3 := s.v3 ^^^ m } : Sip).round.round
  { s with v0 := s.v0 ^^^ m }

/-- `Hasher::write(bytes)` byte by byte: `tail` collects up to 7 pending bytes (little endian),
`ntail` how many -/
def sipWrite : Sip → Nat → Nat → List Nat → Sip × Nat × Nat
  | s, tail, ntail, [] => (s, tail, ntail)
  | s, tail, ntail, b :: bs =>
    let tail := tail ||| ((b % 256) <<< (8 * ntail))
    if ntail = 7 then sipWrite (s.absorb tail) 0 0 bs
    else sipWrite s tail (ntail + 1) bs

/-- `SipHasher24::new_with_keys(k0, k1)`, `write(msg)`, `finish()` (4 finalisation rounds) -/
def siphash24 (k0 k1 : Nat) (msg : List Nat) : Nat :=
  let (s, tail, _) := sipWrite (Sip.init (k0 % 2^64) (k1 % 2^64)) 0 0 msg
  let b := (((msg.length % 256) <<< 56) ||| tail) % 2^64
  let s := s.absorb b
  let s := ({ s with v2 := s.v2 ^^^ 0xff } : Sip).round.round.round.round
  s.v0 ^^^ s.v1 ^^^ s.v2 ^^^ s.v3

/-- `short_id` given the two keys: `LittleEndian::write_u64(&mut buf, res)`,
`ShortId::from_bytes(&buf[0..6])` — the low 48 bits, little endian -/
def shortIdOf (k0 k1 : Nat) (elemHash : List Nat) : List Nat :=
  leBytes 6 (siphash24 k0 k1 elemHash % 2^48)

/-- `ShortId::from_bytes`: at most 6 bytes, zero padded -/
def shortIdFromBytes (bs : List Nat) : List Nat :=
  (bs.take 6) ++ List.replicate (6 - (bs.take 6).length) 0

/-- lexicographic `<=` on byte strings (`Ord for Hash`, derived on `[u8; 32]`) -/
def bytesLe : List Nat → List Nat → Bool
  | [], _ => true
  | _ :: _, [] => false
  | a :: as, b :: bs => if a < b then true else if b < a then false else bytesLe as bs

/-- insertion into a list ordered by `le` (stable); `sortByLe` is `sort_unstable()` under the
`hashable_ord!` order for elements with pairwise different hashes -/
def insertByLe {α : Type} (le : α → α → Bool) (x : α) : List α → List α
  | [] => [x]
  | y :: t => if le x y then x :: y :: t else y :: insertByLe le x t

def sortByLe {α : Type} (le : α → α → Bool) : List α → List α
  | [] => []
  | x :: t => insertByLe le x (sortByLe le t)

/-- the `kern_ids` of `CompactBlock::from(block)`: short ids of the non-coinbase kernels (given by
their hashes, in body order) under the keys of (block hash, nonce), sorted by `hashOf` of the 6
bytes (`CompactBlockBody::sort`) -/
def kernIdsOf (hashOf : List Nat → List Nat) (k0 k1 : Nat) (kernelHashes : List (List Nat)) : List (List Nat) :=
  sortByLe (fun a b => bytesLe (hashOf a) (hashOf b)) (kernelHashes.map (shortIdOf k0 k1))

/-! ## the compact block on the wire (`compact_block.rs`: `Writeable` / `Readable`) -/

/-- what `From<Block>` puts on the wire after the header and the nonce: the coinbase outputs and
kernels in their hash orders and the short ids in theirs (`sk k` = rank of the hash of the short id
of kernel `k`; the three counts in front are the lengths) -/
def compactWire (K : Keys) (sk : Nat → Nat) (nonce : Nat) (b : Block) : List Nat × List Nat × List Nat :=
  let cb := compact K nonce b
  (cb.outFull, cb.kernFull, sortBy sk cb.kernIds)

/-- `CompactBlockBody::read` once the three counted vectors are decoded:
`CompactBlockBody::init(out_full, kern_full, kern_ids, verify_sorted = true)`, i.e.
`verify_sorted_and_unique` of each vector, any failure reported as `CorruptedData`.
`UntrustedCompactBlock::read` runs the same check a second time (`validate_read`).  There is NO
weight or count pre-check in this reader (unlike `TransactionBody::read`, which refuses bodies
heavier than a block): only `read_multi`'s cap on a single element count. -/
def compactRead (K : Keys) (sk : Nat → Nat) (w : List Nat × List Nat × List Nat) : Option VErr :=
  match sortedUnique K.ok w.1 with
  | some e => some e
  | none =>
  match sortedUnique K.kk w.2.1 with
  | some e => some e
  | none => sortedUnique sk w.2.2

/-- the `kern_ids` vector AS IT IS ON THE WIRE: the short-id values themselves (`sk k`), sorted —
what `compactWire` keeps as kernel codes.  With two kernels of one block colliding under the nonce
(`sk k₁ = sk k₂`) the vector carries the value twice. -/
def compactWireIds (K : Keys) (sk : Nat → Nat) (nonce : Nat) (b : Block) : List Nat :=
  (sortBy sk (compact K nonce b).kernIds).map sk

/-- the reader's `verify_sorted_and_unique` on the short-id values -/
def compactReadIds (ids : List Nat) : Option VErr := sortedUnique id ids

/-! ## selecting the transactions a compact block is hydrated from (`pool/src/pool.rs`)

`servers/src/common/adapters.rs: compact_block_received` calls
`tx_pool.retrieve_transactions(cb.hash(), cb.nonce, cb.kern_ids())` and, when the list of missing
ids is empty, hands the returned transactions to `Block::hydrate_from`. -/

/-- state of the `'outer` loop of `retrieve_transactions`: transactions pushed, ids found, and
whether `break 'outer` was taken -/
structure Retr where
  txs : List Tx
  found : List Nat
  done : Bool
deriving DecidableEq, Repr

/-- the inner `for k in x.tx.kernels()`: push the transaction once per kernel whose short id is
asked for; `break 'outer` as soon as as many ids were found as were asked for (the test sits after
the `if`, so it also fires on a kernel that did not match) -/
def retrKernels (sid : Nat → Nat) (kernIds : List Nat) (tx : Tx) : Retr → List Nat → Retr
  | r, [] => r
  | r, k :: ks =>
    let r := if kernIds.contains (sid k) then { r with txs := r.txs ++ [tx], found := r.found ++ [sid k] } else r
    if r.found.length == kernIds.length then { r with done := true }
    else retrKernels sid kernIds tx r ks

/-- `'outer: for x in &self.entries` -/
def retrLoop (sid : Nat → Nat) (kernIds : List Nat) : Retr → List Tx → Retr
  | r, [] => r
  | r, tx :: rest =>
    let r := retrKernels sid kernIds tx r tx.kernels
    if r.done then r else retrLoop sid kernIds r rest

/-- `Vec::dedup` on transactions (`Transaction: PartialEq` = body and offset) -/
def dedupAdjTx : List Tx → List Tx
  | a :: b :: t => if a == b then dedupAdjTx (b :: t) else a :: dedupAdjTx (b :: t)
  | l => l

/-- `Pool::retrieve_transactions(hash, nonce, kern_ids)`: the transactions and the ids not found;
`sid k` is `k.short_id(hash, nonce)` of kernel code `k` (any function: two kernels may collide) -/
def retrieveTransactions (sid : Nat → Nat) (pool : List Tx) (kernIds : List Nat) : List Tx × List Nat :=
  let r := retrLoop sid kernIds ⟨[], [], false⟩ pool
  (dedupAdjTx r.txs, kernIds.filter (fun i => !r.found.contains i))

end GV.Tx
