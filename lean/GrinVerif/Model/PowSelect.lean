import GrinVerif.Gen.Consts
import GrinVerif.Model.PowSpec
/-! Which verifier `global::create_pow_context` builds for (chain type, height, edge_bits)
(core/src/global.rs, core/src/consensus.rs `header_version`). Constants come from the regenerated
tables. -/
namespace GV.Pow
open GV.Gen

inductive ChainType | automated | user | testnet | mainnet
  deriving DecidableEq, Repr

def ChainType.ofString? : String → Option ChainType
  | "automatedtesting" => some .automated | "usertesting" => some .user
  | "testnet" => some .testnet | "mainnet" => some .mainnet | _ => none

/-- `consensus::header_version(height)`; the interval count is computed as
`(1 + height / INTERVAL) as u16` (truncating cast) before `min(5, ·)`: for heights beyond
`65535 · INTERVAL` the version falls back to `0 … 5` -/
def headerVersion (c : ChainType) (height : Nat) : Nat :=
  match c with
  | .mainnet => min 5 ((1 + height / HARD_FORK_INTERVAL) % 65536)
  | .automated | .user => min 5 ((1 + height / TESTING_HARD_FORK_INTERVAL) % 65536)
  | .testnet =>
    if height < TESTNET_FIRST_HARD_FORK then 1
    else if height < TESTNET_SECOND_HARD_FORK then 2
    else if height < TESTNET_THIRD_HARD_FORK then 3
    else if height < TESTNET_FOURTH_HARD_FORK then 4
    else 5

/-- `create_pow_context`: `none` = `Err("no cuckaroo past HardFork4")` -/
def selectVariant (c : ChainType) (height edgeBits : Nat) : Option Variant :=
  match c with
  | .mainnet | .testnet =>
    if edgeBits > 29 then some .cuckatoo
    else match headerVersion c height with
      | 1 => some .cuckaroo
      | 2 => some .cuckarood
      | 3 => some .cuckaroom
      | 4 => some .cuckarooz
      | _ => none
  | _ => some .cuckatoo

def Variant.name : Variant → String
  | .cuckatoo => "cuckatoo" | .cuckaroo => "cuckaroo" | .cuckarood => "cuckarood"
  | .cuckaroom => "cuckaroom" | .cuckarooz => "cuckarooz"

end GV.Pow
