import GrinVerif.Model.Basic
/-! BLAKE2b (RFC 7693), unkeyed, used only by the driver to compare the model's
structural results with the real hashes; theorems are generic in the hash function. -/

namespace GV.Blake2b

def iv : Array UInt64 := #[
  0x6a09e667f3bcc908, 0xbb67ae8584caa73b, 0x3c6ef372fe94f82b, 0xa54ff53a5f1d36f1,
  0x510e527fade682d1, 0x9b05688c2b3e6c1f, 0x1f83d9abfb41bd6b, 0x5be0cd19137e2179]

def sigma : Array (Array Nat) := #[
  #[0,1,2,3,4,5,6,7,8,9,10,11,12,13,14,15],
  #[14,10,4,8,9,15,13,6,1,12,0,2,11,7,5,3],
  #[11,8,12,0,5,2,15,13,10,14,3,6,7,1,9,4],
  #[7,9,3,1,13,12,11,14,2,6,5,10,4,0,15,8],
  #[9,0,5,7,2,4,10,15,14,1,11,12,6,8,3,13],
  #[2,12,6,10,0,11,8,3,4,13,7,5,15,14,1,9],
  #[12,5,1,15,14,13,4,10,0,7,6,3,9,2,8,11],
  #[13,11,7,14,12,1,3,9,5,0,15,4,8,6,2,10],
  #[6,15,14,9,11,3,0,8,12,2,13,7,1,4,10,5],
  #[10,2,8,4,7,6,1,5,15,11,9,14,3,12,13,0],
  #[0,1,2,3,4,5,6,7,8,9,10,11,12,13,14,15],
  #[14,10,4,8,9,15,13,6,1,12,0,2,11,7,5,3]]

@[inline] def rotr (x : UInt64) (n : UInt64) : UInt64 := (x >>> n) ||| (x <<< (64 - n))

def g (v : Array UInt64) (a b c d : Nat) (x y : UInt64) : Array UInt64 :=
  let va := v[a]! + v[b]! + x
  let vd := rotr (v[d]! ^^^ va) 32
  let vc := v[c]! + vd
  let vb := rotr (v[b]! ^^^ vc) 24
  let va := va + vb + y
  let vd := rotr (vd ^^^ va) 16
  let vc := vc + vd
  let vb := rotr (vb ^^^ vc) 63
  (((v.set! a va).set! b vb).set! c vc).set! d vd

def compress (h : Array UInt64) (m : Array UInt64) (t : Nat) (last : Bool) : Array UInt64 := Id.run do
  let mut v : Array UInt64 := h ++ iv
  v := v.set! 12 (v[12]! ^^^ UInt64.ofNat (t % 2^64))
  v := v.set! 13 (v[13]! ^^^ UInt64.ofNat (t / 2^64))
  if last then v := v.set! 14 (v[14]! ^^^ 0xFFFFFFFFFFFFFFFF)
  for i in [0:12] do
    let s := sigma[i]!
    v := g v 0 4 8 12 m[s[0]!]! m[s[1]!]!
    v := g v 1 5 9 13 m[s[2]!]! m[s[3]!]!
    v := g v 2 6 10 14 m[s[4]!]! m[s[5]!]!
    v := g v 3 7 11 15 m[s[6]!]! m[s[7]!]!
    v := g v 0 5 10 15 m[s[8]!]! m[s[9]!]!
    v := g v 1 6 11 12 m[s[10]!]! m[s[11]!]!
    v := g v 2 7 8 13 m[s[12]!]! m[s[13]!]!
    v := g v 3 4 9 14 m[s[14]!]! m[s[15]!]!
  let mut h' := h
  for i in [0:8] do
    h' := h'.set! i (h[i]! ^^^ v[i]! ^^^ v[i+8]!)
  return h'

def wordsOfBlock (b : Array Nat) : Array UInt64 := Id.run do
  let mut m : Array UInt64 := Array.replicate 16 0
  for i in [0:16] do
    let mut w : Nat := 0
    for j in [0:8] do
      w := w + (b.getD (i*8+j) 0) * 256^j
    m := m.set! i (UInt64.ofNat w)
  return m

/-- unkeyed BLAKE2b with `outlen` output bytes -/
def hash (outlen : Nat) (data : Bytes) : Bytes := Id.run do
  let d := data.toArray
  let n := d.size
  let mut h := iv
  h := h.set! 0 (h[0]! ^^^ UInt64.ofNat (0x01010000 + outlen))
  let nblocks := if n = 0 then 1 else (n + 127) / 128
  for bi in [0:nblocks] do
    let blk := d.extract (bi*128) (min n ((bi+1)*128))
    let last := bi + 1 = nblocks
    let t := if last then n else (bi+1)*128
    h := compress h (wordsOfBlock blk) t last
  let mut out : List Nat := []
  for i in [0:8] do
    out := out ++ leBytes 8 (h[i]!.toNat)
  return out.take outlen

end GV.Blake2b
