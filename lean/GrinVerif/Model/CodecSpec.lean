import GrinVerif.Model.Codec
/-! Specification side of C19: what a peer *sends* (`Sent`), its wire encoding through
`write_message`, the sequence of `Message`s the reader must produce for it (`expected`), and the
well-formedness conditions under which the framing theorem is stated. -/
namespace GV.Codec
open GV GV.Ser GV.Dec GV.Msg GV.Gen.Msg

/-- one `write_message` call of the sending peer -/
inductive Sent (B H : Type)
  /-- a known, non-`Headers` type with body value `v` serialised as `raw` -/
  | plain (t : Nat) (v : B) (raw : Bytes)
  /-- a type byte this node does not know -/
  | unknown (t : Nat) (raw : Bytes)
  /-- `Headers { headers }`: the items with their serialisations -/
  | headers (items : List (H × Bytes))
  /-- a message followed by attachment bytes (`TxHashSetArchive` + the zip stream) -/
  | archive (t : Nat) (v : B) (raw : Bytes) (att : Bytes)

variable {B H : Type}

/-- body of a `Headers` message: `u16` count, then the items back to back -/
def headersBody (items : List (H × Bytes)) : Bytes :=
  writeU16 items.length ++ (items.map (·.2)).flatten

/-- the bytes `write_message` puts on the wire -/
def encodeSent (net : NetCfg) : Sent B H → Bytes
  | .plain t _ raw => writeMessage net t raw []
  | .unknown t raw => writeMessage net t raw []
  | .headers items => writeMessage net T_Headers (headersBody items) []
  | .archive t _ raw att => writeMessage net t raw att

/-- attachment chunks of at most `ATTACHMENT_CHUNK` bytes, `left` counting down to 0
(an empty attachment is one empty chunk) -/
def attEvents : Nat → Bytes → List (Message B H)
  | 0, _ => []
  | f+1, data =>
    let n := min data.length ATTACHMENT_CHUNK
    .attachment n (data.length - n) (data.take n) ::
      (if data.length - n = 0 then [] else attEvents f (data.drop n))

/-- header batches of `HEADER_BATCH_SIZE` with the count of items still to come -/
def batches : Nat → List H → List (Message B H)
  | 0, _ => []
  | f+1, hs =>
    if hs.isEmpty then []
    else .headers (hs.take HEADER_BATCH_SIZE) (hs.length - HEADER_BATCH_SIZE) :: batches f (hs.drop HEADER_BATCH_SIZE)

/-- what the reader loop must deliver for one sent message -/
def expected : Sent B H → List (Message B H)
  | .plain t v _ => [.body t v]
  | .unknown t _ => [.unknown t]
  | .headers items =>
    -- an empty list is delivered as one empty batch (since /repo 11bd5ac16)
    if items.isEmpty then [.headers [] 0] else batches items.length (items.map (·.1))
  | .archive t v _ att => .body t v :: attEvents (att.length + 1) att

/-- the handler asks for an attachment only after a decoded body -/
def AttachOK (attach : Message B H → Option Nat) : Prop :=
  (∀ t, attach (.unknown t) = none) ∧ (∀ hs r, attach (.headers hs r) = none) ∧
  (∀ a b c, attach (.attachment a b c) = none)

/-- one header item: it decodes from any buffer that starts with its bytes, and fits the over-estimate -/
def ItemWF (env : Env B H) (it : H × Bytes) : Prop :=
  1 ≤ it.2.length ∧ it.2.length ≤ env.hdrMax ∧ ∀ x, env.decItem (it.2 ++ x) = .ok (it.1, x)

/-- well-formed sent message, relative to the receiving node's configuration -/
def SentWF (env : Env B H) (attach : Message B H → Option Nat) : Sent B H → Prop
  | .plain t v raw =>
    isDispatched t = true ∧ raw.length ≤ maxLen env.net t ∧ raw.length < 2^64 ∧
    env.decBody t raw = .ok v ∧ attach (.body t v) = none
  | .unknown t raw =>
    isKnownType t = false ∧ raw.length ≤ maxLen env.net t ∧ raw.length < 2^64
  | .headers items =>
    items.length < 2^16 ∧ (headersBody items).length ≤ maxLen env.net T_Headers ∧
    (headersBody items).length < 2^64 ∧ ∀ it ∈ items, ItemWF env it
  | .archive t v raw att =>
    isDispatched t = true ∧ raw.length ≤ maxLen env.net t ∧ raw.length < 2^64 ∧
    env.decBody t raw = .ok v ∧ attach (.body t v) = some att.length

/-! ## fragment schedules with pauses (the timing clause: "within the I/O timeouts") -/

/-- every wait of the stream is shorter than `lim` ms -/
def WaitsBelow (lim : Nat) (ts : TStream) : Prop := ∀ p ∈ ts, p.1 < lim

instance (lim : Nat) (ts : TStream) : Decidable (WaitsBelow lim ts) := by
  unfold WaitsBelow; infer_instance

/-- the bytes of a timed stream -/
def tbytes (ts : TStream) : Bytes := ts.map (·.2)

/-- **the pauses respect the per-state read timeout**, stated on the sender's side: while message `m`
is in transit no wait reaches `BODY_IO_TIMEOUT`, and while its 11 frame-header bytes are awaited (the
codec is in state `None`) no wait reaches `HEADER_IO_TIMEOUT`; then the same for the messages after
it.  (Since `HEADER_IO_TIMEOUT < BODY_IO_TIMEOUT` this says: header bytes wait < 2 s, everything
after an accepted header — body, item count, streamed block headers, attachment — waits < 60 s.) -/
def DelaysOK (net : NetCfg) : List (Sent B H) → TStream → Prop
  | [], ts => ts = []
  | m :: ms, ts =>
    WaitsBelow HEADER_IO_TIMEOUT_MS (ts.take MSG_HEADER_LEN) ∧
    WaitsBelow BODY_IO_TIMEOUT_MS (ts.take (encodeSent net m).length) ∧
    DelaysOK net ms (ts.drop (encodeSent net m).length)

/-- as `DelaysOK`, but the wait for the *first* byte of a message (the codec is idle, nothing of the
message pulled yet) may be arbitrarily long: the read times out with nothing lost and is retried -/
def DelaysOKIdle (net : NetCfg) : List (Sent B H) → TStream → Prop
  | [], ts => ts = []
  | m :: ms, ts =>
    WaitsBelow HEADER_IO_TIMEOUT_MS ((ts.take MSG_HEADER_LEN).drop 1) ∧
    WaitsBelow BODY_IO_TIMEOUT_MS ((ts.take (encodeSent net m).length).drop 1) ∧
    DelaysOKIdle net ms (ts.drop (encodeSent net m).length)

/-- how many reads time out (harmlessly, and are retried) under `DelaysOKIdle`: for every message the
wait for its first byte, in whole `HEADER_IO_TIMEOUT`s -/
def idleRetries (net : NetCfg) : List (Sent B H) → TStream → Nat
  | [], _ => 0
  | m :: ms, ts =>
    (match ts with
     | [] => 0
     | (w, _) :: _ => w / HEADER_IO_TIMEOUT_MS) + idleRetries net ms (ts.drop (encodeSent net m).length)

end GV.Codec
