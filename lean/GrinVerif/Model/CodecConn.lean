import GrinVerif.Model.CodecSpec
import GrinVerif.Gen.CodecConn
/-! # The connection level around the codec (model of `p2p/src/conn.rs`, `msg::write_message`,
the messages and results of `p2p/src/handshake.rs`)

`Model/Codec.lean` is the READING state machine.  This file adds what surrounds it:

* **the writer**: `msg::write_message` as the list of `write_all` calls it makes (frame header ++ body in
  one call, then the attachment file in pieces of at most `WRITE_ATTACHMENT_BUF` = 8000 bytes, as many
  as `file.read` returns), the `peer_write` thread of `conn::poll` (messages in channel order; a
  message whose write timed out is written AGAIN from its first byte: `retry_send`), the bounded send
  channel of `ConnHandle::send` (a message offered to a full channel is dropped), and what the writer
  tells the `Tracker`;
* **the reader thread** of `conn::poll` with the `MessageHandler` in the loop (`connLoop`): what the
  handler is handed (`Unknown` swallowed, attachment bytes written to the file and stripped), the
  responses it queues, which handler results end the connection (`try_break!` on
  `handler.consume`, `Consumed::Disconnect`, an attachment chunk without a file), and what the reader
  tells the `Tracker` (`inc_received` / `inc_quiet_received`);
* **the handshake on the wire**: the `Hand` that `Handshake::initiate` writes, the `Shake` that
  `Handshake::accept` writes, the `PeerInfo` both return, `resolve_peer_addr`, `Peer::is_denied` with
  `PeerAddr`'s equality (ip and port on loopback, ip only elsewhere), the order of the refusal checks,
  the ring of own addresses (`addrs`, `ADDRS_CAP`).

The constants, the `try_break!` table, the arms of `match consumed`, the order of the steps of
`accept` / `initiate` and the version fields of `Hand` / `Shake` are regenerated from the sources into
`Gen/CodecConn.lean` by tools/gen_codec_conn.py on every run. -/
namespace GV.Codec
open GV GV.Ser GV.Dec GV.Msg GV.Gen.Msg GV.Gen.CodecConn

/-! ## the writer: `write_message`, the `peer_write` thread, the send channel -/

/-- a `Msg` (`msg.rs`): type byte, serialised body, the bytes the attachment file holds from its
current offset on (`None`: no attachment) -/
structure OutMsg where
  t : Nat
  body : Bytes
  att : Option Bytes
deriving DecidableEq, Repr

/-- what one `file.read(&mut buf[..])` returns when the caller's script says `r`: at least one byte
(a read of 0 bytes means end of file), at most the scratch buffer, at most what is left -/
def readSize (buf r remaining : Nat) : Nat := min (max r 1) (min buf remaining)

/-- the attachment loop of `write_message`: `loop { match file.read(&mut buf) { Ok(0) => break,
Ok(n) => stream.write_all(&buf[..n]) } }`.  `rs` scripts how much each `read` returns (short reads
are allowed by `Read::read`); when the script is used up the reads fill the buffer. -/
def attWrites (buf : Nat) : Nat → List Nat → Bytes → List Bytes
  | 0, _, _ => []
  | f+1, rs, data =>
    if data.isEmpty then [] else
    data.take (readSize buf (rs.headD buf) data.length) ::
      attWrites buf f rs.tail (data.drop (readSize buf (rs.headD buf) data.length))

/-- the `write_all` calls of one `write_message(stream, msg, tracker)`:
`ser_vec(header) ++ body` in one call, then the attachment pieces -/
def writeOps (net : NetCfg) (rs : List Nat) (m : OutMsg) : List Bytes :=
  (encHeader net m.t m.body.length ++ m.body) ::
    (match m.att with
     | none => []
     | some a => attWrites WRITE_ATTACHMENT_BUF a.length rs a)

/-- what `write_message` tells the tracker: `inc_sent(buf.len())` for the frame (counted as one
message), `inc_quiet_sent(n)` per attachment piece (bytes only).  `(bytes, quiet)` -/
def sentEntries (net : NetCfg) (rs : List Nat) (m : OutMsg) : List (Nat × Bool) :=
  match writeOps net rs m with
  | [] => []
  | frame :: pieces => (frame.length, false) :: pieces.map fun p => (p.length, true)

/-- `RateCounter::bytes_per_min` (within the minute): all bytes, quiet or not -/
def trackedBytes (es : List (Nat × Bool)) : Nat := (es.map (·.1)).sum
/-- `RateCounter::count_per_min`: the entries that are not quiet -/
def trackedCount (es : List (Nat × Bool)) : Nat := (es.filter fun e => !e.2).length

/-- `RateCounter::inc` / `inc_quiet` (`util/src/rate_counter.rs`), each followed by `truncate()`, within
one minute: a quiet entry carries timestamp 0, and `truncate` drops entries from the FRONT while
`timestamp + 60000 < now` - so a quiet entry that is (or becomes) the oldest one is dropped at once,
while quiet entries behind a counted one stay as long as that one does -/
def rcPush (es : List (Nat × Bool)) (e : Nat × Bool) : List (Nat × Bool) := (es ++ [e]).dropWhile (·.2)

/-- the counter after the entries `es` were reported in this order -/
def rcOf (es : List (Nat × Bool)) : List (Nat × Bool) := es.foldl rcPush []

/-- `ConnHandle::send`: `try_send` on the `sync_channel(SEND_CHANNEL_CAP)`; `Full` ⇒ the message is
dropped and `Ok(())` returned -/
def chanSend (queue : List OutMsg) (m : OutMsg) : List OutMsg :=
  if queue.length ≥ SEND_CHANNEL_CAP then queue else queue ++ [m]

/-- the `peer_write` thread: takes the messages in channel order and writes each with
`write_message`.  `oc` scripts the outcome of each CALL of `write_message`: `none` = `Ok(())`,
`some k` = the write timed out (`TimedOut` / `WouldBlock`, tolerated by `try_break!`) after `k` bytes
of the message had been written; then `retry_send = Ok(data)` and the next iteration writes the SAME
message again from its first byte.  Returns the `write_all`s that reached the socket. -/
def writerLoop (net : NetCfg) : Nat → List OutMsg → List (Option Nat) → List Bytes
  | 0, _, _ => []
  | _+1, [], _ => []
  | f+1, m :: ms, oc =>
    match oc.headD none with
    | none => writeOps net [] m ++ writerLoop net f ms oc.tail
    | some k => (writeOps net [] m).flatten.take k :: writerLoop net f (m :: ms) oc.tail

/-- the `Msg` the sending peer builds for a `Sent` of the specification (`Msg::new` serialises the
body and announces `body.len()`; an unknown type is what a newer peer's `Msg::new` would produce) -/
def outOf {B H : Type} : Sent B H → OutMsg
  | .plain t _ raw => { t := t, body := raw, att := none }
  | .unknown t raw => { t := t, body := raw, att := none }
  | .headers items => { t := T_Headers, body := headersBody items, att := none }
  | .archive t _ raw att => { t := t, body := raw, att := some att }

/-! ## the reader thread of `conn::poll` with the handler in the loop -/

/-- `Result<Consumed, Error>` of `MessageHandler::consume` as the reader loop distinguishes it
(arms of `match consumed`: `Gen.CodecConn.consumedArms`; tolerated errors: `toleratedErrors`) -/
inductive Consumed
  /-- `Ok(Consumed::None)` -/
  | none
  /-- `Ok(Consumed::Response(msg))`: queued with `conn_handle.send` -/
  | response (m : OutMsg)
  /-- `Ok(Consumed::Attachment(meta, file))` with `meta.size` -/
  | attachment (size : Nat)
  /-- `Ok(Consumed::Disconnect)` -/
  | disconnect
  /-- `Err(e)`: `tolerated` = `e` is `Store` / `Chain` / `Internal` / `NoDandelionRelay` or a
  timeout (`try_break!` gives `None`, `unwrap_or(Consumed::None)`), otherwise the loop is left -/
  | err (tolerated : Bool)
deriving DecidableEq, Repr

/-- the error names of the `try_break!` table -/
def errTolerated (name : String) : Bool := toleratedErrors.contains name

inductive ConnEnd (B H : Type)
  /-- `try_break!(next)` left the loop: the codec's result -/
  | codec (r : Res B H)
  /-- "Received unexpected attachment chunk" -/
  | unexpectedAttachment
  /-- the handler returned an error `try_break!` does not tolerate -/
  | handlerErr
  /-- `Consumed::Disconnect` -/
  | disconnect
  /-- `assert!(self.state.is_none())` of `expect_attachment` -/
  | assertion
deriving DecidableEq, Repr

/-- what the connection did, as far as its surroundings can see -/
structure ConnView (B H : Type) where
  /-- the messages handed to `handler.consume`, in order (attachment updates without their bytes) -/
  handed : List (Message B H)
  /-- the responses queued on the send channel, in order -/
  sent : List OutMsg
  /-- the attachment files completed (`sync_all`, closed), in order -/
  files : List Bytes
  /-- why the loop was left (`none`: the message list ended first) -/
  stop : Option (ConnEnd B H)
deriving Repr

def ConnView.push {B H : Type} (m : Message B H) (sent : List OutMsg) (files : List Bytes) (v : ConnView B H) :
    ConnView B H :=
  { handed := m :: v.handed, sent := sent ++ v.sent, files := files ++ v.files, stop := v.stop }

/-- the part of the reader loop after `codec.read()` returned `Ok(m)`: a function of the message
sequence alone.  `file` = the open attachment file (`Some(content so far)`). -/
def connView {B H : Type} (handler : Message B H → Consumed) : Option Bytes → List (Message B H) → ConnView B H
  | _, [] => { handed := [], sent := [], files := [], stop := none }
  | file, .unknown _ :: ms => connView handler file ms           -- `continue`
  | file, .attachment rd left bytes :: ms =>
    match file with
    | none => { handed := [], sent := [], files := [], stop := some .unexpectedAttachment }
    | some content =>
      let file' := if left = 0 then none else some (content ++ bytes)
      let done := if left = 0 then [content ++ bytes] else []
      match handler (.attachment rd left []) with
      | .none => (connView handler file' ms).push (.attachment rd left []) [] done
      | .err true => (connView handler file' ms).push (.attachment rd left []) [] done
      | .response r => (connView handler file' ms).push (.attachment rd left []) [r] done
      | .attachment _ => (connView handler (some []) ms).push (.attachment rd left []) [] done
      | .disconnect => { handed := [.attachment rd left []], sent := [], files := done, stop := some .disconnect }
      | .err false => { handed := [.attachment rd left []], sent := [], files := done, stop := some .handlerErr }
  | file, m :: ms =>
    match handler m with
    | .none => (connView handler file ms).push m [] []
    | .err true => (connView handler file ms).push m [] []
    | .response r => (connView handler file ms).push m [r] []
    | .attachment _ => (connView handler (some []) ms).push m [] []
    | .disconnect => { handed := [m], sent := [], files := [], stop := some .disconnect }
    | .err false => { handed := [m], sent := [], files := [], stop := some .handlerErr }

/-- the entry the reader loop gives the tracker for one `codec.read()`: attachment chunks and header
batches with `remaining != 0` quietly, EVERYTHING else (other messages, unknown ones, and every error
including a read timeout) as one message -/
def recvEntry {B H : Type} (r : Res B H) (bytesRead : Nat) : Nat × Bool :=
  match r with
  | .msg (.attachment _ _ _) => (bytesRead, true)
  | .msg (.headers _ rem) => (bytesRead, decide (rem ≠ 0))
  | _ => (bytesRead, false)

structure ConnOut (B H σ : Type) where
  view : ConnView B H
  /-- `received_bytes` entries, in order -/
  tracker : List (Nat × Bool)
  codec : Codec H
  sock : σ

def ConnOut.push {B H σ : Type} (e : Nat × Bool) (m : Option (Message B H)) (sent : List OutMsg) (files : List Bytes)
    (o : ConnOut B H σ) : ConnOut B H σ :=
  { o with tracker := e :: o.tracker,
           view := match m with
             | some m => o.view.push m sent files
             | none => o.view }

/-- the reader thread of `conn::poll`, transliterated: `codec.read()`, tracker, `try_break!(next)`,
`Unknown` ⇒ `continue`, attachment chunk ⇒ file, `handler.consume`, `match consumed`.
`rd` = `Codec::read` over the socket at hand (`read env ops` or the timed `readT env`); `retry` says
whether a read timeout exists on that socket (`try_break!` ⇒ `None` ⇒ `continue`). -/
def connLoop {B H σ : Type} (rd : Codec H → σ → ReadOut B H σ) (retry : Bool) (handler : Message B H → Consumed) :
    Nat → Codec H → σ → Option Bytes → ConnOut B H σ
  | 0, c, s, _ => { view := { handed := [], sent := [], files := [], stop := some (.codec .hang) }, tracker := [], codec := c, sock := s }
  | fuel+1, c, s, file =>
    let o := rd c s
    let e := recvEntry o.res o.bytesRead
    let stopWith (h : List (Message B H)) (fs : List Bytes) (w : ConnEnd B H) : ConnOut B H σ :=
      { view := { handed := h, sent := [], files := fs, stop := some w }, tracker := [e], codec := o.codec, sock := o.sock }
    match o.res with
    | .msg (.unknown _) => (connLoop rd retry handler fuel o.codec o.sock file).push e none [] []
    | .msg (.attachment n left bytes) =>
      match file with
      | none => stopWith [] [] .unexpectedAttachment
      | some content =>
        let file' := if left = 0 then none else some (content ++ bytes)
        let done := if left = 0 then [content ++ bytes] else []
        let m : Message B H := .attachment n left []
        match handler m with
        | .none => (connLoop rd retry handler fuel o.codec o.sock file').push e (some m) [] done
        | .err true => (connLoop rd retry handler fuel o.codec o.sock file').push e (some m) [] done
        | .response r => (connLoop rd retry handler fuel o.codec o.sock file').push e (some m) [r] done
        | .attachment size =>
          match expectAttachment o.codec size with
          | none => stopWith [m] done .assertion
          | some c' => (connLoop rd retry handler fuel c' o.sock (some [])).push e (some m) [] done
        | .disconnect => stopWith [m] done .disconnect
        | .err false => stopWith [m] done .handlerErr
    | .msg m =>
      match handler m with
      | .none => (connLoop rd retry handler fuel o.codec o.sock file).push e (some m) [] []
      | .err true => (connLoop rd retry handler fuel o.codec o.sock file).push e (some m) [] []
      | .response r => (connLoop rd retry handler fuel o.codec o.sock file).push e (some m) [r] []
      | .attachment size =>
        match expectAttachment o.codec size with
        | none => stopWith [m] [] .assertion
        | some c' => (connLoop rd retry handler fuel c' o.sock (some [])).push e (some m) [] []
      | .disconnect => stopWith [m] [] .disconnect
      | .err false => stopWith [m] [] .handlerErr
    | .err er =>
      if retry ∧ er = .timedOut then (connLoop rd retry handler fuel o.codec o.sock file).push e none [] []
      else stopWith [] [] (.codec (.err er))
    | r => stopWith [] [] (.codec r)

/-- when the handler asks for an attachment (`Consumed::Attachment(meta, _)`): `meta.size` -/
def attachOf {B H : Type} (handler : Message B H → Consumed) (m : Message B H) : Option Nat :=
  match handler m with
  | .attachment size => some size
  | _ => none

/-! ## the handshake on the wire (`p2p/src/handshake.rs`) -/

/-- a socket address as `PeerAddr` compares it -/
structure SockAddr where
  ip : Bytes
  port : Nat
deriving DecidableEq, Repr

/-- `IpAddr::is_loopback`: 127.0.0.0/8, or `::1` (16 bytes) -/
def isLoopback (ip : Bytes) : Bool :=
  match ip with
  | [127, _, _, _] => true
  | [0, 0, 0, 0, 0, 0, 0, 0, 0, 0, 0, 0, 0, 0, 0, 1] => true
  | _ => false

/-- `impl PartialEq for PeerAddr` (`types.rs`): on loopback ip and port, elsewhere the ip only;
decided by the LEFT operand -/
def addrEq (a b : SockAddr) : Bool :=
  if isLoopback a.ip then a.ip == b.ip && a.port == b.port else a.ip == b.ip

/-- `Vec<PeerAddr>::contains(&x)`: `any(|e| *e == x)` -/
def addrsContain (l : List SockAddr) (x : SockAddr) : Bool := l.any fun e => addrEq e x

/-- `Peer::is_denied(config, addr)`: the deny list first, then the allow list (when there is one,
everything not on it is denied) -/
def isDenied (deny allow : Option (List SockAddr)) (addr : SockAddr) : Bool :=
  if (match deny with | some d => addrsContain d addr | none => false) then true
  else match allow with
    | some a => !addrsContain a addr
    | none => false

/-- `resolve_peer_addr(advertised, conn)`: the ip of the socket's peer, the advertised port -/
def resolvePeerAddr (advertisedPort : Nat) (peer : Option SockAddr) (advertised : SockAddr) : SockAddr :=
  match peer with
  | some p => { ip := p.ip, port := advertisedPort }
  | none => advertised

/-- a node's side of the handshake: `Handshake { genesis, config, protocol_version, .. }` plus the
arguments `Peer::accept` / `Peer::connect` pass in -/
structure Node where
  genesis : Bytes
  version : Nat
  capabilities : Nat
  totalDifficulty : Nat
  userAgent : Bytes
  deny : Option (List SockAddr)
  allow : Option (List SockAddr)

/-- the `Hand` that `Handshake::initiate` writes (`handVersionField` = `self.protocol_version`) -/
def mkHand (n : Node) (nonce : Nat) (selfAddr receiverAddr : PeerAddr) : Hand :=
  { version := n.version, capabilities := n.capabilities, nonce := nonce, genesis := n.genesis,
    totalDifficulty := n.totalDifficulty, senderAddr := selfAddr, receiverAddr := receiverAddr,
    userAgent := n.userAgent }

/-- the `Shake` that `Handshake::accept` writes (`shakeVersionField` = `self.protocol_version`: the
node's OWN version, not the negotiated one) -/
def mkShake (n : Node) : Shake :=
  { version := n.version, capabilities := n.capabilities, genesis := n.genesis,
    totalDifficulty := n.totalDifficulty, userAgent := n.userAgent }

/-- `PeerInfo` as far as the handshake fills it -/
structure Info where
  capabilities : Nat
  userAgent : Bytes
  addr : SockAddr
  version : Nat
  totalDifficulty : Nat
  inbound : Bool
deriving DecidableEq, Repr

/-- `next` of the own-address ring: `push_back`, `pop_front` when `len >= ADDRS_CAP` -/
def pushAddr (ring : List SockAddr) (a : SockAddr) : List SockAddr :=
  let r := ring ++ [a]
  if r.length ≥ ADDRS_CAP then r.drop 1 else r

structure AcceptOut where
  res : Except HsErr Info
  /-- the frame written to the peer (`none`: nothing is written when the connection is refused) -/
  wrote : Option Bytes
  /-- the ring of own addresses afterwards -/
  addrs : List SockAddr

/-- `Handshake::accept` after `read_message` returned the `Hand`; steps in the order of
`Gen.CodecConn.acceptSteps`: genesis, own nonce (records the resolved address), negotiate, deny
list, then the `Shake`.  `peer` = `conn.peer_addr()`, `advPort` = port of `hand.sender_addr`,
`advertised` = `hand.sender_addr` as a socket address. -/
def acceptFull (net : NetCfg) (n : Node) (nonces : List Nat) (addrs : List SockAddr)
    (peer : Option SockAddr) (advertised : SockAddr) (h : Hand) : AcceptOut :=
  let addr := resolvePeerAddr advertised.port peer advertised
  if h.genesis ≠ n.genesis then { res := .error .genesisMismatch, wrote := none, addrs := addrs }
  else if nonces.contains h.nonce then { res := .error .peerWithSelf, wrote := none, addrs := pushAddr addrs addr }
  else if isDenied n.deny n.allow addr then { res := .error .connectionClose, wrote := none, addrs := addrs }
  else
    { res := .ok { capabilities := h.capabilities, userAgent := h.userAgent, addr := addr,
                   version := negotiate n.version h.version, totalDifficulty := h.totalDifficulty, inbound := true },
      wrote := some (writeMessage net T_Shake (encShake (mkShake n)) []),
      addrs := addrs }

/-- `Handshake::initiate` after `read_message` returned the `Shake`: genesis, negotiate, deny list
(`peerAddr` = `conn.peer_addr()`) -/
def initiateFull (n : Node) (peerAddr : SockAddr) (s : Shake) : Except HsErr Info :=
  if s.genesis ≠ n.genesis then .error .genesisMismatch
  else if isDenied n.deny n.allow peerAddr then .error .connectionClose
  else .ok { capabilities := s.capabilities, userAgent := s.userAgent, addr := peerAddr,
             version := negotiate n.version s.version, totalDifficulty := s.totalDifficulty, inbound := false }

/-- the frame `initiate` writes before it reads anything -/
def initiateWrites (net : NetCfg) (n : Node) (nonce : Nat) (selfAddr receiverAddr : PeerAddr) : Bytes :=
  writeMessage net T_Hand (encHand (mkHand n nonce selfAddr receiverAddr)) []

end GV.Codec
