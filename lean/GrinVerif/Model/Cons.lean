import GrinVerif.Model.Basic
import GrinVerif.Model.Pmmr
import GrinVerif.Gen.Consts
/-! Model of the header consensus rules (property C04).

Transliteration of
* `core/src/consensus.rs`: `secondary_pow_ratio`, `header_version`, `valid_header_version`,
  `graph_weight`, `damp`, `clamp`, `ar_count`, `secondary_pow_scaling`, `next_difficulty`,
  `next_dma_difficulty`, `next_wtema_difficulty`;
* `core/src/global.rs`: chain-type dependent parameters, `difficulty_data_to_vector`;
* `core/src/pow/types.rs`: `Difficulty::from_num`, `Proof::scaled_difficulty`,
  `ProofOfWork::to_difficulty`, `is_primary`, `is_secondary`;
* `chain/src/store.rs`: `DifficultyIter::next`;
* `chain/src/pipe.rs`: `validate_pow_only`, `validate_header` (decision logic, in the code's order);
* `core/src/core/block.rs`: `UntrustedBlockHeader::read` (the checks after the plain decode).

`u64` arithmetic is on `Nat` with the release-build (`overflow-checks = false`) wrapping helpers
of `Model/Basic.lean` wherever the Rust expression can overflow.  Rust panics (index out of
range, `unwrap` on `None`, division by zero) are the outcome `none` of the `Option`-valued
functions.  Constants come from the regenerated `Gen/Consts.lean`. -/

namespace GV.Cons
open GV GV.Gen

/-- `global::ChainTypes` -/
inductive ChainType
  | mainnet | testnet | automatedTesting | userTesting
  deriving DecidableEq, Repr

/-- `consensus::HeaderDifficultyInfo` without the (unused) hash -/
structure HDI where
  ts : Nat
  diff : Nat
  scaling : Nat
  isSec : Bool
  deriving DecidableEq, Repr

/-! ### chain-type dependent parameters (`global.rs`) -/

/-- `global::min_edge_bits` -/
def minEdgeBits : ChainType → Nat
  | .automatedTesting => AUTOMATED_TESTING_MIN_EDGE_BITS
  | .userTesting => USER_TESTING_MIN_EDGE_BITS
  | _ => DEFAULT_MIN_EDGE_BITS

/-- `global::base_edge_bits` -/
def baseEdgeBits : ChainType → Nat
  | .automatedTesting => AUTOMATED_TESTING_MIN_EDGE_BITS
  | .userTesting => USER_TESTING_MIN_EDGE_BITS
  | _ => BASE_EDGE_BITS

/-- `global::max_block_weight` -/
def maxBlockWeight : ChainType → Nat
  | .automatedTesting => TESTING_MAX_BLOCK_WEIGHT
  | .userTesting => TESTING_MAX_BLOCK_WEIGHT
  | _ => MAX_BLOCK_WEIGHT

/-! ### `consensus.rs` -/

/-- `secondary_pow_ratio(height) = 90u64.saturating_sub(height / (2 * YEAR_HEIGHT / 90))` -/
def secondaryPowRatio (height : Nat) : Nat :=
  satSub 90 (height / (2 * YEAR_HEIGHT / 90))

/-- `(1 + height / interval) as u16` then `min(5, ·)` -/
def hfVersion (height interval : Nat) : Nat :=
  min 5 ((1 + height / interval) % 2^16)

/-- `header_version(height)`; note the `as u16` truncation of the interval count. -/
def headerVersion (ct : ChainType) (height : Nat) : Nat :=
  match ct with
  | .mainnet => hfVersion height HARD_FORK_INTERVAL
  | .automatedTesting | .userTesting => hfVersion height TESTING_HARD_FORK_INTERVAL
  | .testnet =>
    if height < TESTNET_FIRST_HARD_FORK then 1
    else if height < TESTNET_SECOND_HARD_FORK then 2
    else if height < TESTNET_THIRD_HARD_FORK then 3
    else if height < TESTNET_FOURTH_HARD_FORK then 4
    else 5

/-- `valid_header_version` -/
def validHeaderVersion (ct : ChainType) (height version : Nat) : Bool :=
  version == headerVersion ct height

/-- `graph_weight(height, edge_bits)`, `edge_bits : u8`.
`edge_bits - base_edge_bits()` is a `u8` subtraction (wraps mod 256 in release), the shift amount
of `2u64 << ·` is masked to 6 bits in release, the product wraps. -/
def graphWeight (ct : ChainType) (height edgeBits : Nat) : Nat :=
  let xpr :=
    if edgeBits = 31 ∧ height ≥ YEAR_HEIGHT then
      satSub edgeBits (1 + (height - YEAR_HEIGHT) / WEEK_HEIGHT)
    else edgeBits
  mulW (shlW 2 ((edgeBits + 256 - baseEdgeBits ct) % 256)) xpr

/-- `global::initial_graph_weight() = graph_weight(0, ·) as u32` -/
def initialGraphWeight (ct : ChainType) : Nat :=
  (match ct with
   | .automatedTesting => graphWeight ct 0 AUTOMATED_TESTING_MIN_EDGE_BITS
   | .userTesting => graphWeight ct 0 USER_TESTING_MIN_EDGE_BITS
   | _ => graphWeight ct 0 SECOND_POW_EDGE_BITS) % 2^32

/-- `global::min_wtema_graph_weight()` -/
def minWtemaGraphWeight (ct : ChainType) : Nat :=
  match ct with
  | .automatedTesting => graphWeight ct 0 AUTOMATED_TESTING_MIN_EDGE_BITS
  | .userTesting => graphWeight ct 0 USER_TESTING_MIN_EDGE_BITS
  | .testnet => graphWeight ct 0 SECOND_POW_EDGE_BITS
  | .mainnet => C32_GRAPH_WEIGHT

/-- `damp(actual, goal, damp_factor) = (actual + (damp_factor - 1) * goal) / damp_factor`
(wrapping; panics on `damp_factor = 0`: division by zero) -/
def damp (actual goal f : Nat) : Option Nat :=
  if f = 0 then none else some (addW actual (mulW (subW f 1) goal) / f)

/-- `clamp(actual, goal, clamp_factor) = max(goal / clamp_factor, min(actual, goal * clamp_factor))`
(panics on `clamp_factor = 0`) -/
def clamp (actual goal f : Nat) : Option Nat :=
  if f = 0 then none else some (max (goal / f) (min actual (mulW goal f)))

/-- `ar_count`: `100 *` number of secondary entries -/
def arCount (data : List HDI) : Nat :=
  mulW 100 (data.filter (·.isSec)).length

/-- wrapping `u64` sum (`Iterator::sum` inherits the crate's overflow checks: off in release) -/
def sumW (l : List Nat) : Nat := l.foldl addW 0

/-- `secondary_pow_scaling(height, diff_data) -> u32` -/
def secondaryPowScaling (height : Nat) (data : List HDI) : Option Nat :=
  let scaleSum := sumW (data.map (·.scaling))
  let targetPct := secondaryPowRatio height
  let targetCount := mulW DMA_WINDOW targetPct
  match damp (arCount data) targetCount AR_SCALE_DAMP_FACTOR with
  | none => none
  | some d =>
    match clamp d targetCount CLAMP_FACTOR with
    | none => none
    | some adjCount =>
      let scale := mulW scaleSum targetPct / max 1 adjCount
      some (max MIN_AR_SCALE scale % 2^32)

/-- the padding loop of `difficulty_data_to_vector`:
`for _ in n..needed { last_ts = last_ts.saturating_sub(delta); push(from_ts_diff(last_ts, diff)) }` -/
def padWindow (ct : ChainType) (delta diff : Nat) : Nat → Nat → List HDI
  | 0, _ => []
  | k+1, lastTs =>
    let t := satSub lastTs delta
    { ts := t, diff := diff, scaling := initialGraphWeight ct, isSec := true }
      :: padWindow ct delta diff k t

/-- `global::difficulty_data_to_vector(cursor)`: take `DMA_WINDOW + 1` entries (latest first), pad
with simulated pre-genesis entries, reverse.  Panics on an empty cursor (`last_n[0]`). -/
def difficultyDataToVector (ct : ChainType) (cursor : List HDI) : Option (List HDI) :=
  let needed := DMA_WINDOW + 1
  let lastN := cursor.take needed
  let n := lastN.length
  if needed > n then
    match lastN with
    | [] => none
    | h0 :: rest =>
      let delta := match rest with
        | h1 :: _ => subW h0.ts h1.ts
        | [] => BLOCK_TIME_SEC
      let lastTs := (lastN.getLast?.getD h0).ts
      some ((lastN ++ padWindow ct delta h0.diff (needed - n) lastTs).reverse)
  else some lastN.reverse

/-- `Difficulty::from_num(num) = max(num, 1)` -/
def fromNum (n : Nat) : Nat := max n 1

/-- `next_dma_difficulty(height, cursor)` -/
def nextDmaDifficulty (ct : ChainType) (height : Nat) (cursor : List HDI) : Option HDI :=
  match difficultyDataToVector ct cursor with
  | none => none
  | some data =>
    match secondaryPowScaling height (data.drop 1) with
    | none => none
    | some sec =>
      match data[DMA_WINDOW]?, data[0]? with
      | some hi, some lo =>
        let tsDelta := subW hi.ts lo.ts
        let diffSum := sumW ((data.drop 1).map (·.diff))
        match damp tsDelta BLOCK_TIME_WINDOW DMA_DAMP_FACTOR with
        | none => none
        | some d =>
          match clamp d BLOCK_TIME_WINDOW CLAMP_FACTOR with
          | none => none
          | some adjTs =>
            if adjTs = 0 then none
            else
              let difficulty := max MIN_DMA_DIFFICULTY (mulW diffSum BLOCK_TIME_SEC / adjTs)
              some { ts := 1, diff := fromNum difficulty, scaling := sec, isSec := true }
      | _, _ => none

/-- `next_wtema_difficulty(_height, cursor)`: `unwrap`s the first two entries; the divisor
`WTEMA_HALF_LIFE - BLOCK_TIME_SEC + last_block_time` wraps and can be zero. -/
def nextWtemaDifficulty (ct : ChainType) (cursor : List HDI) : Option HDI :=
  match cursor with
  | last :: prev :: _ =>
    let lastBlockTime := subW last.ts prev.ts
    let den := addW (subW WTEMA_HALF_LIFE BLOCK_TIME_SEC) lastBlockTime
    if den = 0 then none
    else
      let nextDiff := mulW last.diff WTEMA_HALF_LIFE / den
      some { ts := 1, diff := max (minWtemaGraphWeight ct) (fromNum nextDiff), scaling := 0, isSec := true }
  | _ => none

/-- `next_difficulty(height, cursor)`: era switch on the scheduled header version -/
def nextDifficulty (ct : ChainType) (height : Nat) (cursor : List HDI) : Option HDI :=
  if headerVersion ct height < 5 then nextDmaDifficulty ct height cursor
  else nextWtemaDifficulty ct cursor

/-! ### `pow/types.rs` -/

/-- `Proof::scaled_difficulty(scale)` with `h = self.hash().to_u64()`:
`min(((scale as u128) << 64) / max(1, h), u64::MAX)` -/
def scaledDifficulty (hash64 scale : Nat) : Nat :=
  min (scale * 2^64 / max 1 hash64) U64MAX

/-- `ProofOfWork::to_difficulty(height)` -/
def toDifficulty (ct : ChainType) (height edgeBits secondaryScaling hash64 : Nat) : Nat :=
  if edgeBits = SECOND_POW_EDGE_BITS then fromNum (scaledDifficulty hash64 secondaryScaling)
  else fromNum (scaledDifficulty hash64 (graphWeight ct height edgeBits))

/-- `ProofOfWork::is_secondary` -/
def isSecondary (edgeBits : Nat) : Bool := edgeBits == SECOND_POW_EDGE_BITS

/-- `ProofOfWork::is_primary` -/
def isPrimary (ct : ChainType) (edgeBits : Nat) : Bool :=
  edgeBits != SECOND_POW_EDGE_BITS && decide (edgeBits ≥ minEdgeBits ct)

/-! ### abstract header, `DifficultyIter`, `validate_header` -/

/-- The fields of `BlockHeader` the header rules read.  `hash64` stands for
`pow.proof.hash().to_u64()` (blake2b is not modelled; the harness supplies the value). -/
structure Hdr where
  height : Nat
  ts : Int
  version : Nat
  totalDiff : Nat
  secondaryScaling : Nat
  edgeBits : Nat
  hash64 : Nat
  outputMmrSize : Nat
  kernelMmrSize : Nat
  deriving DecidableEq, Repr

/-- `timestamp.timestamp() as u64` -/
def tsU64 (t : Int) : Nat := (t % (2^64 : Int)).toNat

/-- `DifficultyIter`: headers from the start header back to genesis (latest first) →
`HeaderDifficultyInfo`s; `difficulty = total_difficulty - prev.total_difficulty` (wrapping
`Sub`), zero for the missing parent of the last header. -/
def difficultyIter : List Hdr → List HDI
  | [] => []
  | h :: rest =>
    let prevTotal := match rest with
      | p :: _ => p.totalDiff
      | [] => 0
    { ts := tsU64 h.ts, diff := subW h.totalDiff prevTotal, scaling := h.secondaryScaling,
      isSec := isSecondary h.edgeBits } :: difficultyIter rest

/-- the chain `Error` variants the header pipeline can return (`chain/src/error.rs`),
plus `Panic` for a Rust panic inside `next_difficulty` (not an `Error`; shown unreachable
from `validate_header` in `Props/C04.lean`). -/
inductive Err
  | Denied | Orphan | InvalidBlockHeight | InvalidBlockVersion | InvalidBlockTime
  | InvalidMMRSize | TooHeavy | LowEdgebits | InvalidPow | DifficultyTooLow
  | WrongTotalDifficulty | InvalidScaling | InvalidRoot | Panic
  deriving DecidableEq, Repr

def Err.name : Err → String
  | .Denied => "Denied" | .Orphan => "Orphan" | .InvalidBlockHeight => "InvalidBlockHeight"
  | .InvalidBlockVersion => "InvalidBlockVersion" | .InvalidBlockTime => "InvalidBlockTime"
  | .InvalidMMRSize => "InvalidMMRSize" | .TooHeavy => "TooHeavy" | .LowEdgebits => "LowEdgebits"
  | .InvalidPow => "InvalidPow" | .DifficultyTooLow => "DifficultyTooLow"
  | .WrongTotalDifficulty => "WrongTotalDifficulty" | .InvalidScaling => "InvalidScaling"
  | .InvalidRoot => "InvalidRoot"
  | .Panic => "panic"

/-- `TransactionBody::weight_by_iok(0, outputs, kernels)` (saturating u64) -/
def weightByIok (inputs outputs kernels : Nat) : Nat :=
  min U64MAX (min U64MAX (min U64MAX (inputs * INPUT_WEIGHT) + min U64MAX (outputs * OUTPUT_WEIGHT))
    + min U64MAX (kernels * KERNEL_WEIGHT))

/-- everything `validate_header` reads besides the header itself -/
structure Ctx where
  ct : ChainType
  /-- `ctx.header_allowed(header)` failed (denylist) -/
  denied : Bool
  /-- `batch.get_previous_header(header)`; `none`: not in the store -/
  prev : Option Hdr
  /-- what `DifficultyIter::from_batch(prev.hash())` yields -/
  window : List HDI
  /-- `opts.contains(Options::SKIP_POW)` -/
  skipPow : Bool
  /-- `(ctx.pow_verifier)(header).is_ok()` -/
  powOk : Bool

/-- `validate_pow_only` (called with `SKIP_POW` off) -/
def validatePowOnly (ct : ChainType) (powOk : Bool) (h : Hdr) : Except Err Unit :=
  if !isPrimary ct h.edgeBits && !isSecondary h.edgeBits then .error .LowEdgebits
  else if !powOk then .error .InvalidPow
  else .ok ()

/-- `header.X_mmr_count().saturating_sub(prev.X_mmr_count())` -/
def numNew (size prevSize : Nat) : Nat :=
  satSub (Pmmr.nLeaves size) (Pmmr.nLeaves prevSize)

/-- the `if !ctx.opts.contains(Options::SKIP_POW) { … }` block of `pipe::validate_header` -/
def validateDifficulty (c : Ctx) (prev h : Hdr) : Except Err Unit :=
  match validatePowOnly c.ct c.powOk h with
  | .error e => .error e
  | .ok () =>
    if h.totalDiff ≤ prev.totalDiff then .error .DifficultyTooLow else
    -- `target_difficulty = header.total_difficulty() - prev.total_difficulty()`
    if toDifficulty c.ct h.height h.edgeBits h.secondaryScaling h.hash64 < h.totalDiff - prev.totalDiff then
      .error .DifficultyTooLow
    else
      match nextDifficulty c.ct h.height c.window with
      | none => .error .Panic
      | some next =>
        if h.totalDiff - prev.totalDiff ≠ next.diff then .error .WrongTotalDifficulty else
        if h.version < 5 ∧ h.secondaryScaling ≠ next.scaling then .error .InvalidScaling
        else .ok ()

/-- `pipe::validate_header`, check by check in the code's order. -/
def validateHeader (c : Ctx) (h : Hdr) : Except Err Unit :=
  if c.denied then .error .Denied else
  match c.prev with
  | none => .error .Orphan
  | some prev =>
    if h.height ≠ addW prev.height 1 then .error .InvalidBlockHeight else
    if !validHeaderVersion c.ct h.height h.version then .error .InvalidBlockVersion else
    if h.ts ≤ prev.ts then .error .InvalidBlockTime else
    if numNew h.outputMmrSize prev.outputMmrSize = 0 ∨ numNew h.kernelMmrSize prev.kernelMmrSize = 0 then
      .error .InvalidMMRSize else
    if weightByIok 0 (numNew h.outputMmrSize prev.outputMmrSize) (numNew h.kernelMmrSize prev.kernelMmrSize)
        > maxBlockWeight c.ct then .error .TooHeavy else
    if c.skipPow then .ok () else validateDifficulty c prev h

/-- `pipe::process_block_header` after its "already known" short-cuts: `validate_header`, then
`ext.validate_root(header)` inside the header extension (`rootOk`: the header's `prev_root` is
the root of the header MMR rewound to its parent — hashes are not modelled here, the value is
an input; the MMR itself is the subject of C07). -/
def processBlockHeader (c : Ctx) (rootOk : Bool) (h : Hdr) : Except Err Unit :=
  match validateHeader c h with
  | .error e => .error e
  | .ok () => if rootOk then .ok () else .error .InvalidRoot

/-- outcome classes of `UntrustedBlockHeader::read` after the plain decode succeeded -/
inductive ReadErr
  | CorruptedData | InvalidBlockVersion
  deriving DecidableEq, Repr

/-- `UntrustedBlockHeader::read`: the checks after `read_block_header`.  `now` is `Utc::now()`
in seconds, `ftl` the future time limit, `sizeOk` the result of `pow::verify_size`. -/
def untrustedHeaderCheck (ct : ChainType) (now : Int) (ftl : Nat) (sizeOk : Bool) (h : Hdr) :
    Except ReadErr Unit :=
  if h.ts > now + ftl then .error .CorruptedData else
  if !validHeaderVersion ct h.height h.version then .error .InvalidBlockVersion else
  if !isPrimary ct h.edgeBits && !isSecondary h.edgeBits then .error .CorruptedData else
  if !sizeOk then .error .CorruptedData else
  let gw := weightByIok 0 (Pmmr.nLeaves h.outputMmrSize) (Pmmr.nLeaves h.kernelMmrSize)
  if gw > mulW (maxBlockWeight ct) (addW h.height 1) then .error .CorruptedData
  else .ok ()

/-! ### the node around `validate_header`: known headers, header batches, head updates

Transliteration of `chain/src/pipe.rs` — `check_known`, `check_known_head`, `check_known_store`,
`process_block_header` (with its "already known" short-cuts), `process_block_headers` (the batch
path of header sync, ending with the comparison of the **last** header with `header_head`),
`rewind_and_apply_header_fork`, `process_block` (header stages; the body stage is an input) — of
`chain/src/chain.rs::{process_block_header, sync_block_headers, process_block_single, is_known,
check_orphan}` (batch committed on `Ok`, dropped on `Err`), and of the parts of
`txhashset::{header_extending, HeaderExtension}` they use.

A `BlockHeader`'s hash covers only the proof (`Writeable for BlockHeader` in hash mode writes
`pow.proof` alone), so two headers with the same proof and different fields have the same hash:
the header store (`save_block_header`, keyed by hash) then holds whichever was written last. -/

/-- `chain::types::Tip` -/
structure Tip where
  /-- `last_block_h` -/
  hash : Nat
  /-- `prev_block_h` -/
  prevHash : Nat
  height : Nat
  totalDiff : Nat
  deriving DecidableEq, Repr

/-- A `BlockHeader` as delivered: its hash (of the proof nonces only), `prev_hash`, the fields the
rules read, `rest` = a digest of every other field (`prev_root`, `nonce`, roots, offset: only ever
compared for equality), and the answers of the two oracles the model does not compute for THIS
content: the cycle verifier (`powOk`, C05) and `prev_root` = root of the header MMR on the path to
its parent (`rootOk`, C07). -/
structure FHdr where
  hash : Nat
  prevHash : Nat
  h : Hdr
  rest : Nat
  powOk : Bool
  rootOk : Bool
  deriving DecidableEq, Repr

/-- `Tip::from_header` -/
def Tip.ofHdr (f : FHdr) : Tip := ⟨f.hash, f.prevHash, f.h.height, f.h.totalDiff⟩

/-- the part of a `Chain` the header pipeline reads and writes -/
structure HNode where
  ct : ChainType
  /-- header store (`save_block_header`): newest binding first, lookup = first match on the hash -/
  hdrs : List FHdr
  /-- hashes with a full block in the store (`block_exists`) -/
  blocks : List Nat
  /-- body head -/
  head : Tip
  headerHead : Tip
  /-- header MMR: the header hash at each height, genesis first -/
  hmmr : List Nat
  deriving Repr

/-- `batch.get_block_header(hash)` -/
def getHdr (s : List FHdr) (k : Nat) : Option FHdr := s.find? (fun f => f.hash == k)

/-- `store::DifficultyIter::from_batch(start, batch)`, consumed lazily: `next_difficulty` reads at
most `DMA_WINDOW + 1` entries (`difficulty_data_to_vector` takes that many, WTEMA two), which is
the fuel every caller passes. -/
def windowFrom (s : List FHdr) : Nat → Nat → List HDI
  | 0, _ => []
  | fuel+1, start =>
    match getHdr s start with
    | none => []
    | some f =>
      let prevTotal := match getHdr s f.prevHash with
        | some p => p.h.totalDiff
        | none => 0
      { ts := tsU64 f.h.ts, diff := subW f.h.totalDiff prevTotal, scaling := f.h.secondaryScaling,
        isSec := isSecondary f.h.edgeBits } :: windowFrom s fuel f.prevHash

/-- what `validate_header(header, ctx)` reads when the batch's view of the header store is `s`
(the harness' chains have an empty denylist) -/
def ctxFor (ct : ChainType) (skip : Bool) (s : List FHdr) (f : FHdr) : Ctx :=
  { ct := ct, denied := false, prev := (getHdr s f.prevHash).map (·.h),
    window := windowFrom s (DMA_WINDOW + 1) f.prevHash, skipPow := skip, powOk := f.powOk }

/-- errors of the node-level entry points: a `validate_header` error, `Unfit` ("already known"),
`OldBlock`, `Other` (header MMR out of step with the store), the body stage of `process_block`,
and `Hang` for a `while` loop that would not terminate (cyclic `prev_hash` links in the store) -/
inductive NErr
  | hdr (e : Err) | Unfit | OldBlock | Other | Body | Hang
  deriving DecidableEq, Repr

def NErr.name : NErr → String
  | .hdr e => e.name | .Unfit => "Unfit" | .OldBlock => "OldBlock" | .Other => "Other"
  | .Body => "Body" | .Hang => "hang"

/-- the loop of `process_block_headers`:
`for header in headers { validate_header(header, ctx)?; add_block_header(header, &mut ctx.batch)?; }`
— no "already known" check: a header whose hash is stored is validated like any other and, if it
passes, overwrites the stored one.  Returns the batch's view of the header store. -/
def validateLoop (ct : ChainType) (skip : Bool) : List FHdr → List FHdr → Except Err (List FHdr)
  | s, [] => .ok s
  | s, f :: fs =>
    match validateHeader (ctxFor ct skip s f) f.h with
    | .error e => .error e
    | .ok () => validateLoop ct skip (f :: s) fs

/-- `HeaderExtension`: its `head` and the MMR's leaves (header hash at each height) -/
structure HExt where
  head : Tip
  mmr : List Nat
  deriving Repr

/-- `header_extending`: the extension's head is the header of the MMR's last leaf **read through
the batch** (`Tip::default()` for an empty MMR); `none`: that header is not in the store -/
def extInit (s : List FHdr) (mmr : List Nat) : Option HExt :=
  match mmr.getLast? with
  | none => some ⟨⟨0, 0, 0, MIN_DMA_DIFFICULTY⟩, mmr⟩
  | some k =>
    match getHdr s k with
    | none => none
    | some f => some ⟨Tip.ofHdr f, mmr⟩

/-- `HeaderExtension::is_on_current_chain(t, batch)`; `none`: `Err` (`Error::Other` / store) -/
def HExt.onChain (e : HExt) (s : List FHdr) (hash height : Nat) : Option Bool :=
  if height > e.head.height then some false else
  match e.mmr[height]? with
  | none => none
  | some x =>
    match getHdr s x with
    | none => none
    | some g => some (g.hash == hash)

/-- the `while current.height > 0 && !ext.is_on_current_chain(&current, batch)?` loop of
`rewind_and_apply_header_fork`: returns the fork point and the fork hashes, oldest first -/
def forkWalk (s : List FHdr) (e : HExt) : Nat → FHdr → List Nat → Except NErr (FHdr × List Nat)
  | 0, _, _ => .error .Hang
  | fuel+1, cur, acc =>
    if cur.h.height = 0 then .ok (cur, acc) else
    match e.onChain s cur.hash cur.h.height with
    | none => .error .Other
    | some true => .ok (cur, acc)
    | some false =>
      match getHdr s cur.prevHash with
      | none => .error (.hdr .Orphan)
      | some p => forkWalk s e fuel p (cur.hash :: acc)

/-- `HeaderExtension::validate_root(header)` then `apply_header(header)` -/
def HExt.validateApply (e : HExt) (f : FHdr) : Except NErr HExt :=
  if f.h.height ≠ 0 ∧ f.rootOk = false then .error (.hdr .InvalidRoot)
  else .ok { head := Tip.ofHdr f, mmr := e.mmr ++ [f.hash] }

/-- `for h in fork_hashes { header = batch.get_block_header(&h)?; denylist; validate_root; apply_header }` -/
def reapply (s : List FHdr) : HExt → List Nat → Except NErr HExt
  | e, [] => .ok e
  | e, k :: ks =>
    match getHdr s k with
    | none => .error (.hdr .Orphan)
    | some f =>
      match e.validateApply f with
      | .error err => .error err
      | .ok e' => reapply s e' ks

/-- `HeaderExtension::rewind(header)` -/
def HExt.rewind (e : HExt) (f : FHdr) : HExt :=
  { head := Tip.ofHdr f, mmr := e.mmr.take (f.h.height + 1) }

/-- `pipe::rewind_and_apply_header_fork(header, ext, batch, …)` -/
def rewindAndApplyHeaderFork (s : List FHdr) (e : HExt) (f : FHdr) : Except NErr HExt :=
  match forkWalk s e (s.length + 1) f [] with
  | .error err => .error err
  | .ok (forked, fork) => reapply s (e.rewind forked) fork

/-- `chain::types::Options` (bitflags): `NONE = 0`, `SKIP_POW = 1`, `SYNC = 2`, `MINE = 4`.
`pipe.rs` consults `ctx.opts` in exactly two places, both `contains(Options::SKIP_POW)`
(`validate_pow_only`, `validate_header`); `SYNC` and `MINE` are only passed on to the adapter. -/
structure Opts where
  bits : Nat
  deriving DecidableEq, Repr

def Opts.NONE : Opts := ⟨0⟩
def Opts.SKIP_POW : Opts := ⟨1⟩
def Opts.SYNC : Opts := ⟨2⟩
def Opts.MINE : Opts := ⟨4⟩

/-- `opts.contains(Options::SKIP_POW)`: bit 0 -/
def Opts.skipPow (o : Opts) : Bool := o.bits % 2 == 1

/-- `pipe::process_block_headers(headers, sync_head, ctx)` followed by `ctx.batch.commit()`
(`Chain::sync_block_headers`); on `Err` the batch is dropped and the MMR changes discarded, so
nothing changes.  The Boolean is "the returned sync head is `Some(last_header)`". -/
def processBlockHeaders (n : HNode) (opts : Opts) (syncHead : Tip) (batch : List FHdr) :
    Except NErr (HNode × Bool) :=
  match batch.getLast? with
  | none => .ok (n, false)
  | some last =>
    match validateLoop n.ct opts.skipPow n.hdrs batch with
    | .error e => .error (.hdr e)
    | .ok s =>
      match extInit s n.hmmr with
      | none => .error (.hdr .Orphan)
      | some e0 =>
        match rewindAndApplyHeaderFork s e0 last with
        | .error e => .error e
        | .ok e1 =>
          match e1.onChain s syncHead.hash syncHead.height with
          | none => .error .Other
          | some on =>
            let some_ := !on || decide (last.h.totalDiff > syncHead.totalDiff)
            -- `if has_more_work(last_header, &head) { update_header_head } else { ext.force_rollback() }`
            -- (the outer batch with the added headers is committed in both cases)
            if last.h.totalDiff > n.headerHead.totalDiff then
              .ok ({ n with hdrs := s, headerHead := Tip.ofHdr last, hmmr := e1.mmr }, some_)
            else .ok ({ n with hdrs := s }, some_)

/-- the node after `Chain::sync_block_headers` (unchanged on `Err`) -/
def syncStep (n : HNode) (opts : Opts) (syncHead : Tip) (batch : List FHdr) : HNode :=
  match processBlockHeaders n opts syncHead batch with
  | .ok (n', _) => n'
  | .error _ => n

/-- `pipe::check_known(header, head)` with `check_known_head` / `check_known_store` -/
def checkKnown (n : HNode) (f : FHdr) : Except NErr Unit :=
  if f.h.totalDiff ≤ n.head.totalDiff then
    if f.hash = n.head.hash ∨ f.hash = n.head.prevHash then .error .Unfit
    else if n.blocks.contains f.hash then
      (if f.h.height < satSub n.head.height 50 then .error .OldBlock else .error .Unfit)
    else .ok ()
  else .ok ()

/-- the part of `pipe::process_block_header` after the short-cuts: `validate_header`, the header
extension (`rewind_and_apply_header_fork(&prev_header, …)`, `validate_root`, `apply_header`,
rolled back unless the header has more work than `header_head`), `add_block_header`,
`update_header_head` -/
def pbhApply (n : HNode) (opts : Opts) (f prev : FHdr) : Except NErr HNode :=
  match validateHeader (ctxFor n.ct opts.skipPow n.hdrs f) f.h with
  | .error e => .error (.hdr e)
  | .ok () =>
    match extInit n.hdrs n.hmmr with
    | none => .error (.hdr .Orphan)
    | some e0 =>
      match rewindAndApplyHeaderFork n.hdrs e0 prev with
      | .error e => .error e
      | .ok e1 =>
        match e1.validateApply f with
        | .error e => .error e
        | .ok e2 =>
          if f.h.totalDiff > n.headerHead.totalDiff then
            .ok { n with hdrs := f :: n.hdrs, headerHead := Tip.ofHdr f, hmmr := e2.mmr }
          else .ok { n with hdrs := f :: n.hdrs }

/-- `pipe::process_block_header(header, ctx)` followed by the commit of
`Chain::process_block_header`.  The two short-cuts return `Ok` **without validating**: a header
"already known" to the body chain, and a header whose hash is in the header store with no more
work than `header_head` (whatever the delivered copy's other fields say). -/
def nodeProcessBlockHeader (n : HNode) (opts : Opts) (f : FHdr) : Except NErr HNode :=
  match checkKnown n f with
  | .error _ => .ok n
  | .ok () =>
    match getHdr n.hdrs f.prevHash with
    | none => .error (.hdr .Orphan)
    | some prev =>
      -- `if let Ok(existing) = get_block_header(&header.hash()) { if !has_more_work(&existing, &header_head) { return Ok(()) } }`
      match getHdr n.hdrs f.hash with
      | some existing =>
        if existing.h.totalDiff > n.headerHead.totalDiff then pbhApply n opts f prev else .ok n
      | none => pbhApply n opts f prev

/-- `Chain::process_block_single(b, opts)`: the header through `process_block_header` (its own
committed batch), `is_known`, `check_orphan`, then `pipe::process_block` in a second batch
(dropped on `Err`): `check_known`, `validate_pow_only`, the previous header,
`process_block_header` again, and the body stages (`validate_block`, the txhashset extension),
which are the input `bodyOk`.  Returns the node afterwards and the result. -/
def nodeProcessBlock (n : HNode) (opts : Opts) (f : FHdr) (bodyOk : Bool) : HNode × Except NErr Unit :=
  match nodeProcessBlockHeader n opts f with
  | .error e => (n, .error e)
  | .ok n1 =>
    -- `Chain::is_known`
    if n1.head.hash = f.hash then (n1, .error .Unfit) else
    if f.h.totalDiff ≤ n1.head.totalDiff ∧ n1.blocks.contains f.hash then (n1, .error .Unfit) else
    -- `Chain::check_orphan`
    if ¬ (f.prevHash = n1.head.hash ∨ n1.blocks.contains f.prevHash) then (n1, .error (.hdr .Orphan)) else
    -- `pipe::process_block`
    match checkKnown n1 f with
    | .error e => (n1, .error e)
    | .ok () =>
      if !opts.skipPow && (!isPrimary n1.ct f.h.edgeBits && !isSecondary f.h.edgeBits) then (n1, .error (.hdr .LowEdgebits)) else
      if !opts.skipPow && !f.powOk then (n1, .error (.hdr .InvalidPow)) else
      match getHdr n1.hdrs f.prevHash with
      | none => (n1, .error (.hdr .Orphan))
      | some _ =>
        match nodeProcessBlockHeader n1 opts f with
        | .error e => (n1, .error e)
        | .ok n2 =>
          if !bodyOk then (n1, .error .Body) else
          let n3 := { n2 with blocks := f.hash :: n2.blocks }
          if f.h.totalDiff > n1.head.totalDiff then ({ n3 with head := Tip.ofHdr f }, .ok ())
          else (n3, .ok ())

/-- a node that knows only its genesis -/
def HNode.genesis (ct : ChainType) (g : FHdr) : HNode :=
  { ct := ct, hdrs := [g], blocks := [g.hash], head := Tip.ofHdr g, headerHead := Tip.ofHdr g,
    hmmr := [g.hash] }

/-! ### `prev_root`: what a header commits to about its ancestors

`HeaderExtension::validate_root(header)`: `self.root()? != header.prev_root → InvalidRoot`, where the
extension's PMMR has one leaf per ancestor.  `PMMR::push(header)` hashes the leaf as
`header.hash_with_index(pos)`, i.e. the header **in hash mode** (`Writeable for BlockHeader`: the
packed proof nonces only) behind its position; the `HeaderEntry` (hash, timestamp, total difficulty,
scaling, secondary flag) is the leaf's stored data and does not enter the root.  In the node model above that comparison is the Boolean `rootOk` of a
delivered header.  Here it is **computed**: every stored header carries the header MMR as it is after
that header (`Pmmr.push` of its hash-mode bytes `leaf` on its parent's MMR), and a delivered header's flag is
`root(parent's MMR) = prev_root` — for every header of a chunk, the chunk's earlier headers included. -/

section roots
variable {α H : Type} [DecidableEq H]

/-- a delivered header with its MMR leaf and the `prev_root` it carries -/
structure RHdr (α H : Type) where
  f : FHdr
  /-- what `PMMR::push` hashes behind the position: the header in hash mode -/
  leaf : α
  prevRoot : H

/-- stored headers with the header MMR (backend hashes) as it is after each of them -/
abbrev RStore (α H : Type) := List (RHdr α H × List H)

def rLookup (rs : RStore α H) (k : Nat) : Option (RHdr α H × List H) := rs.find? (fun x => x.1.f.hash == k)

/-- does `prev_root` equal the root of the MMR of the header's predecessors? (`m`: that MMR) -/
def rootMatches (hf : Pmmr.HashFn α H) (m : List H) (r : RHdr α H) : Bool :=
  decide (Pmmr.root hf m = .ok r.prevRoot)

/-- a delivered header with its `rootOk` computed against the recorded MMR of its parent, and the
MMR after it -/
def flagOne (hf : Pmmr.HashFn α H) (rs : RStore α H) (r : RHdr α H) : RHdr α H × List H :=
  match rLookup rs r.f.prevHash with
  | none => ({ r with f := { r.f with rootOk := false } }, [])
  | some (_, m) =>
    ({ r with f := { r.f with rootOk := rootMatches hf m r } }, (Pmmr.push hf m r.leaf).getD m)

/-- the headers of a chunk in order, each against the store extended by the earlier ones -/
def flagChunk (hf : Pmmr.HashFn α H) : RStore α H → List (RHdr α H) → List (RHdr α H × List H)
  | _, [] => []
  | rs, r :: rest =>
    let y := flagOne hf rs r
    y :: flagChunk hf (y :: rs) rest

/-- a node whose root comparisons are computed -/
structure RNode (α H : Type) where
  n : HNode
  rs : RStore α H

def RNode.genesis (hf : Pmmr.HashFn α H) (ct : ChainType) (g : RHdr α H) : RNode α H :=
  { n := HNode.genesis ct g.f, rs := [(g, (Pmmr.push hf [] g.leaf).getD [])] }

/-- `sync_block_headers` with computed root comparisons -/
def syncR (hf : Pmmr.HashFn α H) (N : RNode α H) (opts : Opts) (sh : Tip) (chunk : List (RHdr α H)) :
    Except NErr (RNode α H × Bool) :=
  let c := flagChunk hf N.rs chunk
  match processBlockHeaders N.n opts sh (c.map (·.1.f)) with
  | .error e => .error e
  | .ok (n', b) => .ok ({ n := n', rs := c.reverse ++ N.rs }, b)

/-- `process_block_header` with the computed root comparison (the header is recorded iff stored) -/
def pbhR (hf : Pmmr.HashFn α H) (N : RNode α H) (opts : Opts) (r : RHdr α H) : Except NErr (RNode α H) :=
  let y := flagOne hf N.rs r
  match nodeProcessBlockHeader N.n opts y.1.f with
  | .error e => .error e
  | .ok n' => .ok { n := n', rs := if n'.hdrs.length > N.n.hdrs.length then y :: N.rs else N.rs }

/-- `process_block` with the computed root comparison -/
def pbR (hf : Pmmr.HashFn α H) (N : RNode α H) (opts : Opts) (r : RHdr α H) (bodyOk : Bool) :
    RNode α H × Except NErr Unit :=
  let y := flagOne hf N.rs r
  let (n', res) := nodeProcessBlock N.n opts y.1.f bodyOk
  ({ n := n', rs := if n'.hdrs.length > N.n.hdrs.length then y :: N.rs else N.rs }, res)

end roots

/-! ### `global.rs`: thread-local parameters with a global fallback

Chain type, accept-fee base, future time limit and the NRD flag live in a `thread_local!`
`Cell<Option<_>>` each, with a process-wide `OneTime` behind it.  A getter returns the local value
if set, else the global one (else a default, where there is one) and **caches** what it resolved
in the parameter's own thread-local cell.  Values are `Nat` (chain type: 0 Mainnet, 1 Testnet,
2 AutomatedTesting, 3 UserTesting; flag: 0/1). -/

inductive Param
  | chainType | feeBase | ftl | nrd
  deriving DecidableEq, Repr

/-- `loc`: the four thread-local cells of the running thread; `glob`: the four `OneTime`s -/
structure PStore where
  loc : Param → Option Nat
  glob : Param → Option Nat

def PStore.empty : PStore := ⟨fun _ => none, fun _ => none⟩

/-- `set_local_*` -/
def PStore.setLocal (s : PStore) (p : Param) (v : Nat) : PStore :=
  { s with loc := fun q => if q = p then some v else s.loc q }

/-- `set_global_*` (`OneTime::set(value, true)`) -/
def PStore.setGlobal (s : PStore) (p : Param) (v : Nat) : PStore :=
  { s with glob := fun q => if q = p then some v else s.glob q }

/-- `init_global_*` (`OneTime::init`): `assert!(inner.is_none())` -/
def PStore.initGlobal (s : PStore) (p : Param) (v : Nat) : Option PStore :=
  match s.glob p with
  | some _ => none
  | none => some (s.setGlobal p v)

/-- a fresh thread: no local value, the process-wide values stay -/
def PStore.newThread (s : PStore) : PStore := { s with loc := fun _ => none }

/-- `get_chain_type()`: panics (`none`) when neither is set -/
def getChainType (s : PStore) : Option Nat × PStore :=
  match s.loc .chainType with
  | some v => (some v, s)
  | none =>
    match s.glob .chainType with
    | none => (none, s)
    | some g => (some g, s.setLocal .chainType g)

/-- `get_accept_fee_base()` -/
def getAcceptFeeBase (s : PStore) : Option Nat × PStore :=
  match s.loc .feeBase with
  | some v => (some v, s)
  | none =>
    let base := match s.glob .feeBase with
      | some g => g
      | none => DEFAULT_ACCEPT_FEE_BASE
    (some base, s.setLocal .feeBase base)

/-- `get_future_time_limit()` -/
def getFutureTimeLimit (s : PStore) : Option Nat × PStore :=
  match s.loc .ftl with
  | some v => (some v, s)
  | none =>
    let ftl := match s.glob .ftl with
      | some g => g
      | none => DEFAULT_FUTURE_TIME_LIMIT
    (some ftl, s.setLocal .ftl ftl)

/-- `is_nrd_enabled()`: the default `false` is *not* cached -/
def isNrdEnabled (s : PStore) : Option Nat × PStore :=
  match s.loc .nrd with
  | some v => (some v, s)
  | none =>
    match s.glob .nrd with
    | some g => (some g, s.setLocal .nrd g)
    | none => (some 0, s)

/-- the getter of parameter `p` -/
def PStore.get (s : PStore) : Param → Option Nat × PStore
  | .chainType => getChainType s
  | .feeBase => getAcceptFeeBase s
  | .ftl => getFutureTimeLimit s
  | .nrd => isNrdEnabled s

/-- the default a getter falls back to (`none`: panic) -/
def pDefault : Param → Option Nat
  | .chainType => none
  | .feeBase => some DEFAULT_ACCEPT_FEE_BASE
  | .ftl => some DEFAULT_FUTURE_TIME_LIMIT
  | .nrd => some 0

/-- `local ?? global ?? default` -/
def PStore.resolve (s : PStore) (p : Param) : Option Nat :=
  match s.loc p with
  | some v => some v
  | none =>
    match s.glob p with
    | some g => some g
    | none => pDefault p

def ctOfNat : Nat → ChainType
  | 0 => .mainnet | 1 => .testnet | 2 => .automatedTesting | _ => .userTesting

/-- `global::coinbase_maturity` -/
def coinbaseMaturity : ChainType → Nat
  | .automatedTesting => AUTOMATED_TESTING_COINBASE_MATURITY
  | .userTesting => USER_TESTING_COINBASE_MATURITY
  | _ => COINBASE_MATURITY

/-- a parameter derived from the chain type (`match get_chain_type() { … }`) -/
def derived (f : ChainType → Nat) (s : PStore) : Option Nat × PStore :=
  match getChainType s with
  | (none, s') => (none, s')
  | (some c, s') => (some (f (ctOfNat c)), s')

/-- `Transaction::accept_fee() = self.weight() * global::get_accept_fee_base()` -/
def acceptFee (weight : Nat) (s : PStore) : Option Nat × PStore :=
  match getAcceptFeeBase s with
  | (none, s') => (none, s')
  | (some b, s') => (some (mulW weight b), s')

/-- outcome of decoding an `UntrustedBlockHeader` on a thread with parameter store `s`:
`Proof::read` asks `global::proofsize()` (chain type; panics when unset), then
`get_future_time_limit()`, then the checks of `untrustedHeaderCheck` under the chain type. -/
def untrustedHeaderRead (s : PStore) (now : Int) (sizeOk : Bool) (h : Hdr) :
    Option (Except ReadErr Unit) × PStore :=
  match getChainType s with
  | (none, s1) => (none, s1)
  | (some c, s1) =>
    match getFutureTimeLimit s1 with
    | (none, s2) => (none, s2)
    | (some ftl, s2) => (some (untrustedHeaderCheck (ctOfNat c) now ftl sizeOk h), s2)

/-- what a thread can do to the parameter store -/
inductive POp
  | get (p : Param) | setLocal (p : Param) (v : Nat) | setGlobal (p : Param) (v : Nat)
  | initGlobal (p : Param) (v : Nat)
  | maxBlockWeight | coinbaseMaturity | acceptFee (w : Nat)
  | readHeader (now : Int) (sizeOk : Bool) (h : Hdr)

/-- the parameter an operation may write directly (set / init), if any -/
def POp.writes : POp → Option Param
  | .setLocal p _ | .setGlobal p _ | .initGlobal p _ => some p
  | _ => none

def PStore.step (s : PStore) : POp → PStore
  | .get p => (s.get p).2
  | .setLocal p v => s.setLocal p v
  | .setGlobal p v => s.setGlobal p v
  | .initGlobal p v => (s.initGlobal p v).getD s
  | .maxBlockWeight => (derived Cons.maxBlockWeight s).2
  | .coinbaseMaturity => (derived Cons.coinbaseMaturity s).2
  | .acceptFee w => (Cons.acceptFee w s).2
  | .readHeader now ok h => (untrustedHeaderRead s now ok h).2

def PStore.run (s : PStore) (ops : List POp) : PStore := ops.foldl PStore.step s

end GV.Cons
