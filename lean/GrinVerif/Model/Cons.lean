import GrinVerif.Model.Basic
import GrinVerif.Model.Pmmr
import GrinVerif.Gen.Consts
/-! Model of the header consensus rules (property C04).

Transliteration of
* `core/src/consensus.rs`: `secondary_pow_ratio`, `header_version`, `valid_header_version`,
  `graph_weight`, `damp`, `clamp`, `ar_count`, `secondary_pow_scaling`, `next_difficulty`,
  `next_dma_difficulty`, `next_wtema_difficulty`;
* `core/src/global.rs`: chain-type dependent parameters, `difficulty_data_to_vector`;
* `core/src/pow/types.rs`: `Difficulty::from_num`, `Proof::scaled_difficulty`,
  `ProofOfWork::to_difficulty`, `is_primary`, `is_secondary`;
* `chain/src/store.rs`: `DifficultyIter::next`;
* `chain/src/pipe.rs`: `validate_pow_only`, `validate_header` (decision logic, in the code's order);
* `core/src/core/block.rs`: `UntrustedBlockHeader::read` (the checks after the plain decode).

`u64` arithmetic is on `Nat` with the release-build (`overflow-checks = false`) wrapping helpers
of `Model/Basic.lean` wherever the Rust expression can overflow.  Rust panics (index out of
range, `unwrap` on `None`, division by zero) are the outcome `none` of the `Option`-valued
functions.  Constants come from the regenerated `Gen/Consts.lean`. -/

namespace GV.Cons
open GV GV.Gen

/-- `global::ChainTypes` -/
inductive ChainType
  | mainnet | testnet | automatedTesting | userTesting
  deriving DecidableEq, Repr

/-- `consensus::HeaderDifficultyInfo` without the (unused) hash -/
structure HDI where
  ts : Nat
  diff : Nat
  scaling : Nat
  isSec : Bool
  deriving DecidableEq, Repr

/-! ### chain-type dependent parameters (`global.rs`) -/

/-- `global::min_edge_bits` -/
def minEdgeBits : ChainType → Nat
  | .automatedTesting => AUTOMATED_TESTING_MIN_EDGE_BITS
  | .userTesting => USER_TESTING_MIN_EDGE_BITS
  | _ => DEFAULT_MIN_EDGE_BITS

/-- `global::base_edge_bits` -/
def baseEdgeBits : ChainType → Nat
  | .automatedTesting => AUTOMATED_TESTING_MIN_EDGE_BITS
  | .userTesting => USER_TESTING_MIN_EDGE_BITS
  | _ => BASE_EDGE_BITS

/-- `global::max_block_weight` -/
def maxBlockWeight : ChainType → Nat
  | .automatedTesting => TESTING_MAX_BLOCK_WEIGHT
  | .userTesting => TESTING_MAX_BLOCK_WEIGHT
  | _ => MAX_BLOCK_WEIGHT

/-! ### `consensus.rs` -/

/-- `secondary_pow_ratio(height) = 90u64.saturating_sub(height / (2 * YEAR_HEIGHT / 90))` -/
def secondaryPowRatio (height : Nat) : Nat :=
  satSub 90 (height / (2 * YEAR_HEIGHT / 90))

/-- `(1 + height / interval) as u16` then `min(5, ·)` -/
def hfVersion (height interval : Nat) : Nat :=
  min 5 ((1 + height / interval) % 2^16)

/-- `header_version(height)`; note the `as u16` truncation of the interval count. -/
def headerVersion (ct : ChainType) (height : Nat) : Nat :=
  match ct with
  | .mainnet => hfVersion height HARD_FORK_INTERVAL
  | .automatedTesting | .userTesting => hfVersion height TESTING_HARD_FORK_INTERVAL
  | .testnet =>
    if height < TESTNET_FIRST_HARD_FORK then 1
    else if height < TESTNET_SECOND_HARD_FORK then 2
    else if height < TESTNET_THIRD_HARD_FORK then 3
    else if height < TESTNET_FOURTH_HARD_FORK then 4
    else 5

/-- `valid_header_version` -/
def validHeaderVersion (ct : ChainType) (height version : Nat) : Bool :=
  version == headerVersion ct height

/-- `graph_weight(height, edge_bits)`, `edge_bits : u8`.
`edge_bits - base_edge_bits()` is a `u8` subtraction (wraps mod 256 in release), the shift amount
of `2u64 << ·` is masked to 6 bits in release, the product wraps. -/
def graphWeight (ct : ChainType) (height edgeBits : Nat) : Nat :=
  let xpr :=
    if edgeBits = 31 ∧ height ≥ YEAR_HEIGHT then
      satSub edgeBits (1 + (height - YEAR_HEIGHT) / WEEK_HEIGHT)
    else edgeBits
  mulW (shlW 2 ((edgeBits + 256 - baseEdgeBits ct) % 256)) xpr

/-- `global::initial_graph_weight() = graph_weight(0, ·) as u32` -/
def initialGraphWeight (ct : ChainType) : Nat :=
  (match ct with
   | .automatedTesting => graphWeight ct 0 AUTOMATED_TESTING_MIN_EDGE_BITS
   | .userTesting => graphWeight ct 0 USER_TESTING_MIN_EDGE_BITS
   | _ => graphWeight ct 0 SECOND_POW_EDGE_BITS) % 2^32

/-- `global::min_wtema_graph_weight()` -/
def minWtemaGraphWeight (ct : ChainType) : Nat :=
  match ct with
  | .automatedTesting => graphWeight ct 0 AUTOMATED_TESTING_MIN_EDGE_BITS
  | .userTesting => graphWeight ct 0 USER_TESTING_MIN_EDGE_BITS
  | .testnet => graphWeight ct 0 SECOND_POW_EDGE_BITS
  | .mainnet => C32_GRAPH_WEIGHT

/-- `damp(actual, goal, damp_factor) = (actual + (damp_factor - 1) * goal) / damp_factor`
(wrapping; panics on `damp_factor = 0`: division by zero) -/
def damp (actual goal f : Nat) : Option Nat :=
  if f = 0 then none else some (addW actual (mulW (subW f 1) goal) / f)

/-- `clamp(actual, goal, clamp_factor) = max(goal / clamp_factor, min(actual, goal * clamp_factor))`
(panics on `clamp_factor = 0`) -/
def clamp (actual goal f : Nat) : Option Nat :=
  if f = 0 then none else some (max (goal / f) (min actual (mulW goal f)))

/-- `ar_count`: `100 *` number of secondary entries -/
def arCount (data : List HDI) : Nat :=
  mulW 100 (data.filter (·.isSec)).length

/-- wrapping `u64` sum (`Iterator::sum` inherits the crate's overflow checks: off in release) -/
def sumW (l : List Nat) : Nat := l.foldl addW 0

/-- `secondary_pow_scaling(height, diff_data) -> u32` -/
def secondaryPowScaling (height : Nat) (data : List HDI) : Option Nat :=
  let scaleSum := sumW (data.map (·.scaling))
  let targetPct := secondaryPowRatio height
  let targetCount := mulW DMA_WINDOW targetPct
  match damp (arCount data) targetCount AR_SCALE_DAMP_FACTOR with
  | none => none
  | some d =>
    match clamp d targetCount CLAMP_FACTOR with
    | none => none
    | some adjCount =>
      let scale := mulW scaleSum targetPct / max 1 adjCount
      some (max MIN_AR_SCALE scale % 2^32)

/-- the padding loop of `difficulty_data_to_vector`:
`for _ in n..needed { last_ts = last_ts.saturating_sub(delta); push(from_ts_diff(last_ts, diff)) }` -/
def padWindow (ct : ChainType) (delta diff : Nat) : Nat → Nat → List HDI
  | 0, _ => []
  | k+1, lastTs =>
    let t := satSub lastTs delta
    { ts := t, diff := diff, scaling := initialGraphWeight ct, isSec := true }
      :: padWindow ct delta diff k t

/-- `global::difficulty_data_to_vector(cursor)`: take `DMA_WINDOW + 1` entries (latest first), pad
with simulated pre-genesis entries, reverse.  Panics on an empty cursor (`last_n[0]`). -/
def difficultyDataToVector (ct : ChainType) (cursor : List HDI) : Option (List HDI) :=
  let needed := DMA_WINDOW + 1
  let lastN := cursor.take needed
  let n := lastN.length
  if needed > n then
    match lastN with
    | [] => none
    | h0 :: rest =>
      let delta := match rest with
        | h1 :: _ => subW h0.ts h1.ts
        | [] => BLOCK_TIME_SEC
      let lastTs := (lastN.getLast?.getD h0).ts
      some ((lastN ++ padWindow ct delta h0.diff (needed - n) lastTs).reverse)
  else some lastN.reverse

/-- `Difficulty::from_num(num) = max(num, 1)` -/
def fromNum (n : Nat) : Nat := max n 1

/-- `next_dma_difficulty(height, cursor)` -/
def nextDmaDifficulty (ct : ChainType) (height : Nat) (cursor : List HDI) : Option HDI :=
  match difficultyDataToVector ct cursor with
  | none => none
  | some data =>
    match secondaryPowScaling height (data.drop 1) with
    | none => none
    | some sec =>
      match data[DMA_WINDOW]?, data[0]? with
      | some hi, some lo =>
        let tsDelta := subW hi.ts lo.ts
        let diffSum := sumW ((data.drop 1).map (·.diff))
        match damp tsDelta BLOCK_TIME_WINDOW DMA_DAMP_FACTOR with
        | none => none
        | some d =>
          match clamp d BLOCK_TIME_WINDOW CLAMP_FACTOR with
          | none => none
          | some adjTs =>
            if adjTs = 0 then none
            else
              let difficulty := max MIN_DMA_DIFFICULTY (mulW diffSum BLOCK_TIME_SEC / adjTs)
              some { ts := 1, diff := fromNum difficulty, scaling := sec, isSec := true }
      | _, _ => none

/-- `next_wtema_difficulty(_height, cursor)`: `unwrap`s the first two entries; the divisor
`WTEMA_HALF_LIFE - BLOCK_TIME_SEC + last_block_time` wraps and can be zero. -/
def nextWtemaDifficulty (ct : ChainType) (cursor : List HDI) : Option HDI :=
  match cursor with
  | last :: prev :: _ =>
    let lastBlockTime := subW last.ts prev.ts
    let den := addW (subW WTEMA_HALF_LIFE BLOCK_TIME_SEC) lastBlockTime
    if den = 0 then none
    else
      let nextDiff := mulW last.diff WTEMA_HALF_LIFE / den
      some { ts := 1, diff := max (minWtemaGraphWeight ct) (fromNum nextDiff), scaling := 0, isSec := true }
  | _ => none

/-- `next_difficulty(height, cursor)`: era switch on the scheduled header version -/
def nextDifficulty (ct : ChainType) (height : Nat) (cursor : List HDI) : Option HDI :=
  if headerVersion ct height < 5 then nextDmaDifficulty ct height cursor
  else nextWtemaDifficulty ct cursor

/-! ### `pow/types.rs` -/

/-- `Proof::scaled_difficulty(scale)` with `h = self.hash().to_u64()`:
`min(((scale as u128) << 64) / max(1, h), u64::MAX)` -/
def scaledDifficulty (hash64 scale : Nat) : Nat :=
  min (scale * 2^64 / max 1 hash64) U64MAX

/-- `ProofOfWork::to_difficulty(height)` -/
def toDifficulty (ct : ChainType) (height edgeBits secondaryScaling hash64 : Nat) : Nat :=
  if edgeBits = SECOND_POW_EDGE_BITS then fromNum (scaledDifficulty hash64 secondaryScaling)
  else fromNum (scaledDifficulty hash64 (graphWeight ct height edgeBits))

/-- `ProofOfWork::is_secondary` -/
def isSecondary (edgeBits : Nat) : Bool := edgeBits == SECOND_POW_EDGE_BITS

/-- `ProofOfWork::is_primary` -/
def isPrimary (ct : ChainType) (edgeBits : Nat) : Bool :=
  edgeBits != SECOND_POW_EDGE_BITS && decide (edgeBits ≥ minEdgeBits ct)

/-! ### abstract header, `DifficultyIter`, `validate_header` -/

/-- The fields of `BlockHeader` the header rules read.  `hash64` stands for
`pow.proof.hash().to_u64()` (blake2b is not modelled; the harness supplies the value). -/
structure Hdr where
  height : Nat
  ts : Int
  version : Nat
  totalDiff : Nat
  secondaryScaling : Nat
  edgeBits : Nat
  hash64 : Nat
  outputMmrSize : Nat
  kernelMmrSize : Nat
  deriving DecidableEq, Repr

/-- `timestamp.timestamp() as u64` -/
def tsU64 (t : Int) : Nat := (t % (2^64 : Int)).toNat

/-- `DifficultyIter`: headers from the start header back to genesis (latest first) →
`HeaderDifficultyInfo`s; `difficulty = total_difficulty - prev.total_difficulty` (wrapping
`Sub`), zero for the missing parent of the last header. -/
def difficultyIter : List Hdr → List HDI
  | [] => []
  | h :: rest =>
    let prevTotal := match rest with
      | p :: _ => p.totalDiff
      | [] => 0
    { ts := tsU64 h.ts, diff := subW h.totalDiff prevTotal, scaling := h.secondaryScaling,
      isSec := isSecondary h.edgeBits } :: difficultyIter rest

/-- the chain `Error` variants the header pipeline can return (`chain/src/error.rs`),
plus `Panic` for a Rust panic inside `next_difficulty` (not an `Error`; shown unreachable
from `validate_header` in `Props/C04.lean`). -/
inductive Err
  | Denied | Orphan | InvalidBlockHeight | InvalidBlockVersion | InvalidBlockTime
  | InvalidMMRSize | TooHeavy | LowEdgebits | InvalidPow | DifficultyTooLow
  | WrongTotalDifficulty | InvalidScaling | InvalidRoot | Panic
  deriving DecidableEq, Repr

def Err.name : Err → String
  | .Denied => "Denied" | .Orphan => "Orphan" | .InvalidBlockHeight => "InvalidBlockHeight"
  | .InvalidBlockVersion => "InvalidBlockVersion" | .InvalidBlockTime => "InvalidBlockTime"
  | .InvalidMMRSize => "InvalidMMRSize" | .TooHeavy => "TooHeavy" | .LowEdgebits => "LowEdgebits"
  | .InvalidPow => "InvalidPow" | .DifficultyTooLow => "DifficultyTooLow"
  | .WrongTotalDifficulty => "WrongTotalDifficulty" | .InvalidScaling => "InvalidScaling"
  | .InvalidRoot => "InvalidRoot"
  | .Panic => "panic"

/-- `TransactionBody::weight_by_iok(0, outputs, kernels)` (saturating u64) -/
def weightByIok (inputs outputs kernels : Nat) : Nat :=
  min U64MAX (min U64MAX (min U64MAX (inputs * INPUT_WEIGHT) + min U64MAX (outputs * OUTPUT_WEIGHT))
    + min U64MAX (kernels * KERNEL_WEIGHT))

/-- everything `validate_header` reads besides the header itself -/
structure Ctx where
  ct : ChainType
  /-- `ctx.header_allowed(header)` failed (denylist) -/
  denied : Bool
  /-- `batch.get_previous_header(header)`; `none`: not in the store -/
  prev : Option Hdr
  /-- what `DifficultyIter::from_batch(prev.hash())` yields -/
  window : List HDI
  /-- `opts.contains(Options::SKIP_POW)` -/
  skipPow : Bool
  /-- `(ctx.pow_verifier)(header).is_ok()` -/
  powOk : Bool

/-- `validate_pow_only` (called with `SKIP_POW` off) -/
def validatePowOnly (ct : ChainType) (powOk : Bool) (h : Hdr) : Except Err Unit :=
  if !isPrimary ct h.edgeBits && !isSecondary h.edgeBits then .error .LowEdgebits
  else if !powOk then .error .InvalidPow
  else .ok ()

/-- `header.X_mmr_count().saturating_sub(prev.X_mmr_count())` -/
def numNew (size prevSize : Nat) : Nat :=
  satSub (Pmmr.nLeaves size) (Pmmr.nLeaves prevSize)

/-- the `if !ctx.opts.contains(Options::SKIP_POW) { … }` block of `pipe::validate_header` -/
def validateDifficulty (c : Ctx) (prev h : Hdr) : Except Err Unit :=
  match validatePowOnly c.ct c.powOk h with
  | .error e => .error e
  | .ok () =>
    if h.totalDiff ≤ prev.totalDiff then .error .DifficultyTooLow else
    -- `target_difficulty = header.total_difficulty() - prev.total_difficulty()`
    if toDifficulty c.ct h.height h.edgeBits h.secondaryScaling h.hash64 < h.totalDiff - prev.totalDiff then
      .error .DifficultyTooLow
    else
      match nextDifficulty c.ct h.height c.window with
      | none => .error .Panic
      | some next =>
        if h.totalDiff - prev.totalDiff ≠ next.diff then .error .WrongTotalDifficulty else
        if h.version < 5 ∧ h.secondaryScaling ≠ next.scaling then .error .InvalidScaling
        else .ok ()

/-- `pipe::validate_header`, check by check in the code's order. -/
def validateHeader (c : Ctx) (h : Hdr) : Except Err Unit :=
  if c.denied then .error .Denied else
  match c.prev with
  | none => .error .Orphan
  | some prev =>
    if h.height ≠ addW prev.height 1 then .error .InvalidBlockHeight else
    if !validHeaderVersion c.ct h.height h.version then .error .InvalidBlockVersion else
    if h.ts ≤ prev.ts then .error .InvalidBlockTime else
    if numNew h.outputMmrSize prev.outputMmrSize = 0 ∨ numNew h.kernelMmrSize prev.kernelMmrSize = 0 then
      .error .InvalidMMRSize else
    if weightByIok 0 (numNew h.outputMmrSize prev.outputMmrSize) (numNew h.kernelMmrSize prev.kernelMmrSize)
        > maxBlockWeight c.ct then .error .TooHeavy else
    if c.skipPow then .ok () else validateDifficulty c prev h

/-- `pipe::process_block_header` after its "already known" short-cuts: `validate_header`, then
`ext.validate_root(header)` inside the header extension (`rootOk`: the header's `prev_root` is
the root of the header MMR rewound to its parent — hashes are not modelled here, the value is
an input; the MMR itself is the subject of C07). -/
def processBlockHeader (c : Ctx) (rootOk : Bool) (h : Hdr) : Except Err Unit :=
  match validateHeader c h with
  | .error e => .error e
  | .ok () => if rootOk then .ok () else .error .InvalidRoot

/-- outcome classes of `UntrustedBlockHeader::read` after the plain decode succeeded -/
inductive ReadErr
  | CorruptedData | InvalidBlockVersion
  deriving DecidableEq, Repr

/-- `UntrustedBlockHeader::read`: the checks after `read_block_header`.  `now` is `Utc::now()`
in seconds, `ftl` the future time limit, `sizeOk` the result of `pow::verify_size`. -/
def untrustedHeaderCheck (ct : ChainType) (now : Int) (ftl : Nat) (sizeOk : Bool) (h : Hdr) :
    Except ReadErr Unit :=
  if h.ts > now + ftl then .error .CorruptedData else
  if !validHeaderVersion ct h.height h.version then .error .InvalidBlockVersion else
  if !isPrimary ct h.edgeBits && !isSecondary h.edgeBits then .error .CorruptedData else
  if !sizeOk then .error .CorruptedData else
  let gw := weightByIok 0 (Pmmr.nLeaves h.outputMmrSize) (Pmmr.nLeaves h.kernelMmrSize)
  if gw > mulW (maxBlockWeight ct) (addW h.height 1) then .error .CorruptedData
  else .ok ()

end GV.Cons
