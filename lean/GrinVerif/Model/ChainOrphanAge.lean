import GrinVerif.Model.ChainOrphans
/-! `OrphanBlockPool::add` WITH the age rule (chain/src/chain.rs): beyond `MAX_ORPHAN_SIZE` entries
the pool first drops every orphan that has waited `MAX_ORPHAN_AGE_SECS` (300 s) or longer
(`orphans.retain(|_, x| x.added.elapsed() < MAX_ORPHAN_AGE_SECS)`), then runs the height loop of
`Model/ChainOrphans.lean` - whose body runs AT LEAST ONCE, whatever the age rule already removed -
then cleans the height index and counts everything that went.

`Model/ChainOrphans.lean` has the pool without clock; here every entry carries the time it was
(last) added: `orphans.insert(hash, orphan)` on a map REPLACES the entry of a block offered again,
so its age starts anew. Time is a parameter (`now`, seconds); the run that would tie this file to
the real pool needs 300 s of wall time and is not part of any check (Props/C03OrphanAge.lean says
what is proved). -/

namespace GV.Chain

structure OPoolT where
  /-- (block id, height, time added) -/
  orphans : List (Nat × Nat × Nat) := []
  heightIdx : List (Nat × List Nat) := []
  evicted : Nat := 0
deriving Repr, Inhabited

/-- forget the clock -/
def OPoolT.erase (P : OPoolT) : OPool :=
  { orphans := P.orphans.map (fun o => (o.1, o.2.1)), heightIdx := P.heightIdx, evicted := P.evicted }

/-- `OrphanBlockPool::add` at time `now` -/
def OPoolT.add (maxSize maxAge : Nat) (P : OPoolT) (now id h : Nat) : OPoolT :=
  let hi := if P.heightIdx.any (·.1 == h)
    then P.heightIdx.map (fun e => if e.1 == h then (e.1, e.2 ++ [id]) else e)
    else P.heightIdx ++ [(h, [id])]
  -- a map: the entry of a block that is already waiting is replaced (its age starts anew)
  let os := if P.orphans.any (·.1 == id)
    then P.orphans.map (fun o => if o.1 == id then (o.1, o.2.1, now) else o)
    else P.orphans ++ [(id, h, now)]
  if os.length > maxSize then
    -- evict too old
    let young := os.filter (fun o => decide (now - o.2.2 < maxAge))
    -- evict too far ahead: the loop of `Model/ChainOrphans.lean` on what is left
    let r := evictLoop maxSize (sortDesc (hi.map (·.1))) (young.map (fun o => (o.1, o.2.1))) hi
    let kept := young.filter (fun o => r.1.any (·.1 == o.1))
    -- cleanup index
    let hi'' := r.2.filter (fun e => e.2.any (fun x => kept.any (·.1 == x)))
    { orphans := kept, heightIdx := hi'', evicted := P.evicted + (os.length - kept.length) }
  else { P with orphans := os, heightIdx := hi }

end GV.Chain
