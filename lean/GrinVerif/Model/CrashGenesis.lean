import GrinVerif.Model.CrashZip
/-! The very first start (C09; known finding C09-genesis-install-window): `Chain::init` on an empty
directory. `setup_head` (chain/src/chain.rs) applies the genesis header to the header MMR
(`header_extending` → `handle.backend.sync()`), finds no body head (`Err(NotFoundErr)`), saves the
genesis block and applies it (`txhashset::extending` → the three `backend.sync()`s), and only then runs
its ONE `batch.commit()` (header head, body head, genesis block, sums). Every file is new: the flushes
only append (no truncation). Until that commit the database is empty, so a restart takes the same
path again — on files that may already hold the genesis entries:

* `TxHashSet::open` (before `setup_head`): a non-empty kernel MMR must yield its first kernel — hash
  file written, data file not yet: `Error::TxHashSetErr`;
* header MMR: the hash file counts a header the data file does not hold — `header_pmmr.size != 0`, no
  `header_head` in the database, `head_hash()` cannot read it: `Error::Other`;
* genesis applied again: `apply_output` requires the output MMR and the range-proof MMR to have the
  same size — output files written, range-proof hash file not yet: `Error::Other`.
In every other uncommitted state the second installation goes through (observed on the real node at
all 47 crash points, followed by the delivery of a chain; the model is the three checks above). -/
namespace GV.Crash

/-- which files already hold the genesis entry; `committed` = `setup_head`'s commit is durable -/
structure GFiles where
  hdrHash : Bool := false
  hdrData : Bool := false
  outHash : Bool := false
  outData : Bool := false
  leaf : Bool := false
  rpHash : Bool := false
  rpData : Bool := false
  kerHash : Bool := false
  kerSize : Bool := false
  kerData : Bool := false
  committed : Bool := false
deriving Repr, DecidableEq, Inhabited

inductive GStep
  | hdrHashApp | hdrDataApp | outHashApp | outDataApp | leafRename | rpHashApp | rpDataApp
  | kerHashApp | kerSizeApp | kerDataApp | commit
deriving Repr, DecidableEq, Inhabited

def applyGStep (g : GFiles) : GStep → GFiles
  | .hdrHashApp => { g with hdrHash := true }
  | .hdrDataApp => { g with hdrData := true }
  | .outHashApp => { g with outHash := true }
  | .outDataApp => { g with outData := true }
  | .leafRename => { g with leaf := true }
  | .rpHashApp => { g with rpHash := true }
  | .rpDataApp => { g with rpData := true }
  | .kerHashApp => { g with kerHash := true }
  | .kerSizeApp => { g with kerSize := true }
  | .kerDataApp => { g with kerData := true }
  | .commit => { g with committed := true }

/-- the durable steps of the first start, in the code's order -/
def genesisSteps : List GStep :=
  [.hdrHashApp, .hdrDataApp, .outHashApp, .outDataApp, .leafRename, .rpHashApp, .rpDataApp,
   .kerHashApp, .kerSizeApp, .kerDataApp, .commit]

def crashAfterG (k : Nat) : GFiles := (genesisSteps.take k).foldl applyGStep {}

/-- the next start: `none` = opens on genesis -/
def recoverG (g : GFiles) : Option WhyZ :=
  if g.committed then none
  else if g.kerHash && !g.kerData then some .txHashSetErr
  else if g.hdrHash && !g.hdrData then some .other
  else if g.outHash && !g.rpHash then some .other
  else none

/-- **No idempotence.** A restart that finds no head installs genesis AGAIN: `apply_block(genesis)`
PUSHES the genesis output / range proof / kernel onto whatever the files hold (`batch.get_output_pos`
finds nothing in the empty database, so `DuplicateCommitment` is not raised). If the output and
range-proof files already hold the genesis entry the MMRs then hold it TWICE (output MMR size 3 where
the genesis header says 1) and the output-position index and the leaf set name the SECOND copy. Nothing
notices at height 0 (`validate` does not check roots at genesis); the first block's
`rewind_and_apply_fork(genesis)` rewinds every MMR to the genesis header's sizes, which drops the second
copy — the chain then syncs — but the index entry and the leaf-set bit of the genesis output pointed at
the dropped copy: a block that spends the genesis output is refused (`AlreadySpent`), on every later
start too. `true` = the genesis output is still spendable after the node has opened. -/
def genesisOutputSpendable (g : GFiles) : Bool := g.committed || !(g.outHash && g.rpHash)

/-- labels of the first start (for `Drv/CrashD.lean`); the commit of `setup_head` is the last but one
LMDB commit of `Chain::init` -/
def gstepOfLabel (l : String) : Option GStep :=
  if l.startsWith "aof.flush:after-append[header_head/pmmr_hash.bin]" then some .hdrHashApp
  else if l.startsWith "aof.flush:after-append[header_head/pmmr_data.bin]" then some .hdrDataApp
  else if l.startsWith "aof.flush:after-append[output/pmmr_hash.bin]" then some .outHashApp
  else if l.startsWith "aof.flush:after-append[output/pmmr_data.bin]" then some .outDataApp
  else if l.startsWith "tmpfile:after-rename[output/pmmr_leaf.bin]" then some .leafRename
  else if l.startsWith "aof.flush:after-append[rangeproof/pmmr_hash.bin]" then some .rpHashApp
  else if l.startsWith "aof.flush:after-append[rangeproof/pmmr_data.bin]" then some .rpDataApp
  else if l.startsWith "aof.flush:after-append[kernel/pmmr_hash.bin]" then some .kerHashApp
  else if l.startsWith "aof.flush:after-append[kernel/pmmr_size.bin]" then some .kerSizeApp
  else if l.startsWith "aof.flush:after-append[kernel/pmmr_data.bin]" then some .kerDataApp
  else none

/-- model steps completed by the first `n` labels -/
def gstepsOfLabels (labels : List String) (n : Nat) : List GStep :=
  let total := (labels.filter (·.startsWith "lmdb:after-commit")).length
  let rec go : List String → Nat → List GStep → List GStep
    | [], _, acc => acc.reverse
    | l :: ls, commits, acc =>
      if l.startsWith "lmdb:after-commit" then
        go ls (commits + 1) (if commits + 2 == total then .commit :: acc else acc)
      else match gstepOfLabel l with
        | some s => go ls commits (s :: acc)
        | none => go ls commits acc
  go (labels.take n) 0 []

/-- a start with a PIBD head marker above the body head (`pibd_in_progress`): `setup_head` neither
rewinds nor validates, the node opens on the stored head -/
def recoverPibd (head headHeight pibdHeight : Nat) (normal : Rec) : Rec :=
  if pibdHeight > headHeight then .ok head else normal

end GV.Crash
