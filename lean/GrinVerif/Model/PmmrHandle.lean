import GrinVerif.Model.Pmmr
/-! Model of ONE live mutable handle `PMMR<'a, T, VecBackend<T>>` (`core/src/core/pmmr/pmmr.rs`,
`struct PMMR { size, backend }`) over a `VecBackend<T>` (`vec_backend.rs`, `struct VecBackend
{ data, hashes, removed }`), as a state machine: open (`PMMR::new` / `PMMR::at(backend, size)` with
ANY `size`), `push`, `rewind`, `prune`, and the read side (`impl ReadablePMMR for PMMR`).

`Model/Pmmr.lean` models a backend by its hash vector and takes the size to be its length; that is
the situation of a handle opened where the backend ends. Here the handle's `size` field is kept
apart from the backend, exactly as in the code: `PMMR::at` accepts any `size` (not a valid MMR size,
smaller or larger than the backend), `push` appends to the END of the backend whatever `size` is,
`rewind` sets `size` to the rounded-up position even when the backend is shorter. The read functions
are those of the trait `ReadablePMMR`, which `ReadonlyPMMR::at(backend, size)` and
`RewindablePMMR::at(backend, size).as_readonly()` implement with the same bodies
(`readonly_pmmr.rs`), so a `Handle` also models those views. Nothing but `size` and the backend is
kept between calls: the struct has no other field. -/
namespace GV.Pmmr

variable {α H : Type}

/-- `VecBackend<T>`: `data` is `None` for a hash-only backend; `removed` is the remove log. -/
structure VecBackend (α H : Type) where
  data : Option (List α) := some []
  hashes : List H := []
  removed : List Nat := []

namespace VecBackend

/-- `get_from_file` = `get_peak_from_file`: `self.hashes.get(pos0)` -/
def getFromFile (b : VecBackend α H) (pos : Nat) : Option H := b.hashes[pos]?

/-- `get_hash`: hidden by the remove log -/
def getHash (b : VecBackend α H) (pos : Nat) : Option H :=
  if b.removed.contains pos then none else b.getFromFile pos

/-- `get_data_from_file`: `data.get(n_leaves(1 + pos0) - 1)` -/
def getDataFromFile (b : VecBackend α H) (pos : Nat) : Option α :=
  match b.data with
  | some d => d[nLeaves (1 + pos) - 1]?
  | none => none

/-- `get_data` -/
def getData (b : VecBackend α H) (pos : Nat) : Option α :=
  if b.removed.contains pos then none else b.getDataFromFile pos

/-- `append(elmt, hashes)`: always at the end of both vectors -/
def append (b : VecBackend α H) (e : α) (hs : List H) : VecBackend α H :=
  { b with data := b.data.map (· ++ [e]), hashes := b.hashes ++ hs }

/-- `rewind(position, _)`: `data.truncate(n_leaves(position))`, `hashes.truncate(position)`; the
remove log is left alone -/
def rewind (b : VecBackend α H) (position : Nat) : VecBackend α H :=
  { b with data := b.data.map (·.take (nLeaves position)), hashes := b.hashes.take position }

/-- `remove(pos0)` -/
def remove (b : VecBackend α H) (pos : Nat) : VecBackend α H :=
  { b with removed := pos :: b.removed }

/-- `leaf_pos_iter`: every leaf position of the hash vector not in the remove log (the vector's own
length, not a handle's size) -/
def leafPosIter (b : VecBackend α H) : List Nat :=
  (List.range b.hashes.length).filter fun x => isLeaf x && !b.removed.contains x

end VecBackend

/-- `PMMR { size, backend, _marker }` -/
structure Handle (α H : Type) where
  be : VecBackend α H := {}
  size : Nat := 0

namespace Handle

/-- `PMMR::new(backend)` on a fresh `VecBackend::new()` -/
def new : Handle α H := {}

/-- `PMMR::at(backend, size)` (also `ReadonlyPMMR::at`, `RewindablePMMR::at`): any size -/
def openAt (b : VecBackend α H) (size : Nat) : Handle α H := ⟨b, size⟩

/-! ### `impl ReadablePMMR for PMMR` -/

/-- `get_hash(pos0)` -/
def getHash (h : Handle α H) (pos : Nat) : Option H :=
  if pos ≥ h.size then none
  else if isLeaf pos then h.be.getHash pos
  else h.be.getFromFile pos

/-- `get_data(pos0)` -/
def getData (h : Handle α H) (pos : Nat) : Option α :=
  if pos ≥ h.size then none
  else if isLeaf pos then h.be.getData pos
  else none

/-- `get_from_file(pos0)` = `get_peak_from_file(pos0)` -/
def getFromFile (h : Handle α H) (pos : Nat) : Option H :=
  if pos ≥ h.size then none else h.be.getFromFile pos

/-- `ReadablePMMR::peaks()` -/
def peaks (h : Handle α H) : List H := (Pmmr.peaks h.size).filterMap h.getFromFile

/-- `ReadablePMMR::root()` -/
def root (hf : HashFn α H) (h : Handle α H) : RootRes H :=
  if h.size = 0 then .zero else
  match bag hf h.size h.peaks with
  | some r => .ok r
  | none => .err

/-- `bag_the_rhs(peak_pos0)` -/
def bagTheRhs (hf : HashFn α H) (h : Handle α H) (peakPos : Nat) : Option H :=
  bag hf h.size (((Pmmr.peaks h.size).filter (· > peakPos)).filterMap h.getFromFile)

/-- `peak_path(peak_pos0)` -/
def peakPath (hf : HashFn α H) (h : Handle α H) (peakPos : Nat) : List H :=
  let lhs := ((Pmmr.peaks h.size).filter (· < peakPos)).filterMap h.getFromFile
  let res := match h.bagTheRhs hf peakPos with
    | some r => lhs ++ [r]
    | none => lhs
  res.reverse

/-- `merkle_proof(pos0)`: `(mmr_size, path)`, `none` = `Err` -/
def merkleProof (hf : HashFn α H) (h : Handle α H) (pos : Nat) : Option (Nat × List H) :=
  if !isLeaf pos then none else
  match h.getHash pos with
  | none => none
  | some _ =>
    let fb := familyBranch pos h.size
    let path := fb.filterMap fun x => h.getFromFile x.2
    let peakPos := match fb.getLast? with
      | some x => x.1
      | none => pos
    some (h.size, path ++ h.peakPath hf peakPos)

/-- `PMMR::validate()` -/
def validate (hf : HashFn α H) [DecidableEq H] (h : Handle α H) : Bool :=
  (List.range h.size).all fun n =>
    let ht := height n
    if ht > 0 then
      match h.getHash n, h.getFromFile (n - 2^ht), h.getFromFile (n - 1) with
      | some p, some l, some r => hf.node n l r == p
      | _, _, _ => true
    else true

/-- `leaf_pos_iter()`: delegated to the backend, ignores the handle's size -/
def leafPosIter (h : Handle α H) : List Nat := h.be.leafPosIter

/-! ### The mutating calls -/

/-- outcome of `PMMR::push`: `Err("bad mmr size …")`, `Err("missing left sibling …")`, or the
handle afterwards -/
inductive PushRes (α H : Type)
  | badSize
  | missingSibling
  | ok (h : Handle α H)

/-- `PMMR::push(leaf)`. The left siblings are read with `backend.get_peak_from_file` (no size
check), the new hashes go to the end of the backend, `size` becomes `pos + 1`. -/
def push (hf : HashFn α H) (h : Handle α H) (e : α) : PushRes α H :=
  let pos := h.size
  let r := peakMapHeight pos
  if r.2 ≠ 0 then .badSize else
  let cur := hf.leaf pos e
  match pushLoop hf h.be.hashes r.1 65 0 pos cur [cur] with
  | none => .missingSibling
  | some new => .ok ⟨h.be.append e new, pos + new.length⟩

/-- `PMMR::rewind(position, _)`: `leaf_pos = round_up_to_leaf_pos(position)`, backend rewound to
it, `size = leaf_pos` (also when the backend is shorter than that) -/
def rewind (h : Handle α H) (position : Nat) : Handle α H :=
  let leafPos := roundUpToLeafPos position
  ⟨h.be.rewind leafPos, leafPos⟩

/-- `PMMR::prune(pos0)`: `none` = `Err` (not a leaf); asks `backend.get_hash` (no size check) -/
def prune (h : Handle α H) (pos : Nat) : Option (Bool × Handle α H) :=
  if !isLeaf pos then none else
  match h.be.getHash pos with
  | none => some (false, h)
  | some _ => some (true, { h with be := h.be.remove pos })

/-! ### The handle as a state machine -/

/-- the mutating operations of a history -/
inductive Op (α : Type)
  | push (e : α)
  | rewind (position : Nat)

/-- one step; a refused push leaves the handle as it was -/
def step (hf : HashFn α H) (h : Handle α H) : Op α → Handle α H
  | .push e => match h.push hf e with
    | .ok h' => h'
    | _ => h
  | .rewind p => h.rewind p

/-- a whole history applied to one handle -/
def run (hf : HashFn α H) (h : Handle α H) (ops : List (Op α)) : Handle α H :=
  ops.foldl (step hf) h

end Handle

end GV.Pmmr
