import GrinVerif.Model.Kv
/-! The resize protocol of `store/src/lmdb.rs` at the granularity of ONE CALL of
`Store::maybe_resize` with its bookkeeping flags as state: `resizing` (new transactions of other
threads wait while it is set), `resize_checking` (the re-entrancy guard: only one resize decision
at a time) and the waiter thread a deferred resize spawns.

```text
fn maybe_resize(&self) {
    if !self.start_resize_checking() { return; }                    // guard busy
    let (resize, new_size) = needs_resize(&self.env, chunk);
    if !resize { self.finish_resize_checking(); return; }           // not needed
    self.set_resizing(true);
    if self.open_txs_count() != 0 {                                 // deferred: "transactions are open"
        spawn { while open_txs_count != 0 { sleep 100 ms }
                env.resize(new_size); resizing = false; resize_checking = false }
    } else {                                                        // immediate
        env.resize(new_size); self.set_resizing(false); self.finish_resize_checking();
    }
}
```

`Store::batch()` is `maybe_resize()` followed by `Batch::new` → `enter_tx`, which waits while
`resizing` is set unless the calling thread already holds a transaction (an open
`Store::iter` iterator of its own: then the batch proceeds on the old map and the resize stays
postponed until that thread has closed everything).

The transition-system view of the same protocol (per-thread counts, safety of `env.resize`) is
`Gate` in `Model/Kv.lean`; the counter alone is `Model/TxCount.lean`. -/
namespace GV.Kv

structure REnv where
  /-- `env.info().map_size` (in memory; the meta page follows at the next commit) -/
  mapSize : Nat
  chunk : Nat
  /-- `open_txs_count` -/
  openTxs : Nat := 0
  resizing : Bool := false
  /-- `resize_checking` -/
  checking : Bool := false
  /-- the spawned waiter thread with the size it is going to set -/
  pending : Option Nat := none
deriving Repr, DecidableEq

/-- which way a call of `maybe_resize` went -/
inductive Branch
  | guardBusy
  | notNeeded
  | immediate (n : Nat)
  | deferred (n : Nat)
deriving Repr, DecidableEq

/-- one call of `maybe_resize` with `used = env_size(env)` -/
def maybeResize (e : REnv) (used : Nat) : REnv × Branch :=
  if e.checking then (e, .guardBusy)
  else
    let r := needsResize e.mapSize used e.chunk
    if !r.1 then ({ e with checking := false }, .notNeeded)
    else if e.openTxs ≠ 0 then
      ({ e with checking := true, resizing := true, pending := some r.2 }, .deferred r.2)
    else
      ({ e with mapSize := r.2, resizing := false, checking := false }, .immediate r.2)

/-- the waiter thread's loop body: it acts only when no transaction is open -/
def waiterStep (e : REnv) : REnv :=
  match e.pending with
  | some n => if e.openTxs = 0 then { e with mapSize := n, resizing := false, checking := false, pending := none } else e
  | none => e

inductive RAct
  /-- `enter_tx` succeeded on some thread -/
  | openTx
  /-- a `TxCounter` dropped -/
  | closeTx
  /-- `maybe_resize` called (by `Store::batch()`) with this `env_size` -/
  | call (used : Nat)
  /-- the waiter thread polls -/
  | waiter
deriving Repr

def rstep (e : REnv) : RAct → REnv
  | .openTx => { e with openTxs := e.openTxs + 1 }
  | .closeTx => { e with openTxs := e.openTxs - 1 }
  | .call used => (maybeResize e used).1
  | .waiter => waiterStep e

def rrun (e : REnv) (as : List RAct) : REnv := as.foldl rstep e

def rinit (mapSize chunk : Nat) : REnv := { mapSize := mapSize, chunk := chunk }

/-! ### `Store::batch()` as the harness observes it (run `selfiter`) -/

/-- State after `Store::batch()` returned, called while the calling thread holds `same`
transactions (iterators) of its own and other threads hold `other`: a deferred resize with only
foreign transactions open makes `enter_tx` wait until they are closed and the waiter has resized;
with an own transaction open the batch proceeds at once on the old map. -/
def batchStart (e : REnv) (used same other : Nat) : REnv :=
  let r := maybeResize { e with openTxs := same + other } used
  match r.2 with
  | .deferred _ => if same = 0 then waiterStep { r.1 with openTxs := 0 } else r.1
  | _ => r.1

/-- everything closed and the waiter given time: it has run if it was pending -/
def settle (e : REnv) : REnv := waiterStep { e with openTxs := 0 }

/-! ### unbounded growth: batch after batch with nothing else open -/

/-- `Store::batch()` issued with nothing open, once per element of `useds` (the `env_size` found
by each call): the map sizes the environment goes through -/
def growRun (e : REnv) : List Nat → REnv
  | [] => e
  | used :: r => growRun (maybeResize { e with openTxs := 0 } used).1 r

/-- the invariant the growth run keeps after every batch that found usage `used` -/
def GrowOk (chunk used : Nat) (e : REnv) : Prop :=
  e.mapSize % chunk = 0 ∧ chunk ≤ e.mapSize ∧ used * 10 ≤ 9 * e.mapSize ∧
  e.checking = false ∧ e.resizing = false ∧ e.pending = none

/-! ### several `Store` handles on one environment

All `Store`s opened on one root share the environment (`ENV_MAP`); `maybe_resize` of any handle
reads the shared `EnvState` and `env.info()`.  A history labelled with the handle that performed
each action: -/
def hrun (e : REnv) (l : List (Nat × RAct)) : REnv := l.foldl (fun e x => rstep e x.2) e

/-! ### the registry of environments (`ENV_MAP`) and `Store::new` on a registered environment

```text
let has_env = { env_map.read().contains_key(&full_path) };
if !has_env { env = open(..); env_map.write().insert(full_path, EnvState { env, open_txs_count: 0,
                  resizing: false, resize_checking: false, stores_count: 1 }); }
else        { stores_count += 1 }          // nothing else of the EnvState is touched
```
`Drop for Store`: `stores_count -= 1`, the entry is removed (the environment closed) at 0. -/

/-- `EnvState`: the gate state every handle of the environment shares, and `stores_count` -/
structure EnvState where
  gate : REnv
  stores : Nat := 1
deriving Repr, DecidableEq

/-- `ENV_MAP`: root path (a number here) ↦ `EnvState` -/
abbrev EnvMap := List (Nat × EnvState)

def envLookup : EnvMap → Nat → Option EnvState
  | [], _ => none
  | (p, s) :: r, path => if p = path then some s else envLookup r path

def envUpdate : EnvMap → Nat → (EnvState → EnvState) → EnvMap
  | [], _, _ => []
  | (p, s) :: r, path, f => if p = path then (p, f s) :: r else (p, s) :: envUpdate r path f

/-- the environment part of `Store::new(root, ..)`; `mapSize` = what `open` finds on disk -/
def storeNewEnv (m : EnvMap) (path mapSize chunk : Nat) : EnvMap :=
  match envLookup m path with
  | some _ => envUpdate m path fun s => { s with stores := s.stores + 1 }
  | none => (path, { gate := rinit mapSize chunk, stores := 1 }) :: m

/-- `Drop for Store` -/
def storeDropEnv (m : EnvMap) (path : Nat) : EnvMap :=
  match envLookup m path with
  | some s => if s.stores ≤ 1 then m.filter (fun x => x.1 != path)
              else envUpdate m path fun s => { s with stores := s.stores - 1 }
  | none => m

/-- run `rehandle`: a handle is opened on the registered environment `path` while `readers` read
transactions of other threads are open; then `Store::batch()` through the NEW handle finds usage
`used`.  `true` = the batch has to wait for the readers (deferred resize), `false` = it goes on at
once (no resize needed, or an immediate one). -/
def rehandleTrigger (m : EnvMap) (path used : Nat) : Bool :=
  match envLookup (storeNewEnv m path 0 0) path with
  | some s => match (maybeResize s.gate used).2 with
    | .deferred _ => true
    | _ => false
  | none => false

/-- … and the map size once the readers are gone and the waiter has run -/
def rehandleMap (m : EnvMap) (path used : Nat) : Nat :=
  match envLookup (storeNewEnv m path 0 0) path with
  | some s => (settle (maybeResize s.gate used).1).mapSize
  | none => 0

/-! ### how the registry keys an environment

`ENV_MAP` is keyed by the STRING `Path::new(root_path).join("multi_lmdb").to_str()`; heed keeps its
own table of opened environments keyed by the CANONICAL path and refuses to open one twice inside a
process (`Error::EnvAlreadyOpened`).  `key` = the string, `dir` = the directory it resolves to. -/

inductive OpenOutcome
  /-- same key: the handle joins the registered environment (`storeNewEnv`, `stores_count + 1`) -/
  | shared
  /-- another spelling of a directory whose environment is open: `env_options.open` fails, `Store::new`
      returns the error, the registry is untouched -/
  | refused
  /-- a directory not open in this process: a fresh environment with a fresh gate -/
  | separate
deriving Repr, DecidableEq

/-- the registry with the directory each key resolves to -/
abbrev EnvMapD := List (Nat × Nat × EnvState)

def storeNewOutcome (m : EnvMapD) (key dir : Nat) : OpenOutcome :=
  if m.any (fun x => x.1 == key) then .shared
  else if m.any (fun x => x.2.1 == dir) then .refused
  else .separate

end GV.Kv
