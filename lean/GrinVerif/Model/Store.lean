import GrinVerif.Model.PruneList
/-! Model of the prunable MMR backend: `store/src/types.rs` (`AppendOnlyFile`, `DataFile`,
size-file based variable-size elements), `store/src/leaf_set.rs` (`LeafSet`) and
`store/src/pmmr.rs` (`PMMRBackend`), plus the part of `core/src/core/pmmr/pmmr.rs`
(`PMMR::push/prune/rewind`, `ReadablePMMR::root/merkle_proof/…`) that runs on top of a backend.

Conventions.
* A fixed-size file is modelled at element level (`AOF E`): `disk` is the list of elements in
  the file (the mmap shows the same bytes at every point where the code reads it), `buffer` the
  unsynced elements.  This is the byte-level behaviour as long as every element serialises to
  exactly `elmt_size` bytes (true for hashes, size entries and the harness' 8-byte elements).
* The variable-size data file is modelled at byte level (`VarFile`) with its size file an
  `AOF (offset × size)`; an element is identified with its serialisation and `el bytes` is the
  number of bytes `T::read` consumes from a stream starting with `bytes` (`none` = read error).
* `set_len` in `flush` of a fixed-size file is modelled by `List.take` (truncation only; the code
  would zero-extend a file when asked to rewind beyond its length – outside the usage protocol;
  for the byte-level variable-size data file the zero-extension is modelled).
* u64 subtractions that would wrap (`1 + pos0 - shift`, `flatfile_pos - shift`) produce a
  position that reads as `None` in the code; with `Nat` subtraction they produce 0, which also
  reads as `None` here. -/

namespace GV.Store
open GV GV.Pmmr

/-! ## `AppendOnlyFile<T>` with `SizeInfo::FixedSize` -/

structure AOF (E : Type) where
  disk : List E := []
  buffer : List E := []
  /-- `buffer_start_pos` -/
  bsp : Nat := 0
  /-- `buffer_start_pos_bak` -/
  bak : Nat := 0
deriving Repr, DecidableEq

namespace AOF
variable {E : Type}

/-- `open` / `init` on an existing file -/
def ofDisk (d : List E) : AOF E := { disk := d, buffer := [], bsp := d.length, bak := 0 }

/-- `init` (re-map the file; buffer and `_bak` are left alone) -/
def init (f : AOF E) : AOF E := { f with bsp := f.disk.length }

def sizeInElmts (f : AOF E) : Nat := f.disk.length
def sizeUnsyncInElmts (f : AOF E) : Nat := f.bsp + f.buffer.length

/-- `append_elmt` -/
def append (f : AOF E) (e : E) : AOF E := { f with buffer := f.buffer ++ [e] }

/-- `append_elmts` -/
def extend (f : AOF E) (es : List E) : AOF E := { f with buffer := f.buffer ++ es }

/-- `read_as_elmt(pos)` (0-indexed) -/
def read (f : AOF E) (pos : Nat) : Option E :=
  if pos ≥ f.sizeUnsyncInElmts then none
  else if pos < f.bsp then f.disk[pos]?
  else f.buffer[pos - f.bsp]?

/-- `rewind(pos)` -/
def rewind (f : AOF E) (pos : Nat) : AOF E :=
  { f with bak := if f.bak = 0 then f.bsp else f.bak, bsp := pos }

/-- `flush` -/
def flush (f : AOF E) : AOF E :=
  let d := if f.bak > 0 then f.disk.take f.bsp else f.disk
  let d' := d ++ f.buffer
  { disk := d', buffer := [], bsp := d'.length, bak := 0 }

/-- `discard` -/
def discard (f : AOF E) : AOF E :=
  { f with bsp := if f.bak > 0 then f.bak else f.bsp, bak := 0, buffer := [] }

/-- loop of `write_tmp_pruned`: `prune_pos.contains(&current_pos)` then drop the *first* entry -/
def writeTmpLoop : List E → Nat → List Nat → List E
  | [], _, _ => []
  | e :: es, cur, pp =>
    if pp.elem cur then writeTmpLoop es (cur + 1) (pp.drop 1)
    else e :: writeTmpLoop es (cur + 1) pp

/-- `write_tmp_pruned(prune_pos)` (0-based indices): reads the file on disk only -/
def writeTmpPruned (f : AOF E) (pruneIdx : List Nat) : List E := writeTmpLoop f.disk 0 pruneIdx

/-- `replace_with_tmp` = `replace` then `init` -/
def replaceWith (f : AOF E) (tmp : List E) : AOF E := init { f with disk := tmp }

end AOF

/-! ## `DataFile<T>`: 1-based wrapper -/

/-- `DataFile::read(position)` = `read_as_elmt(position - 1)` -/
def AOF.read1 {E : Type} (f : AOF E) (position : Nat) : Option E :=
  if position = 0 then none else f.read (position - 1)

/-! ## Variable-size data file (`SizeInfo::VariableSize(size_file)`) at byte level -/

/-- `SizeEntry { offset, size }` -/
abbrev SizeEntry := Nat × Nat

structure VarFile where
  disk : Bytes := []
  buffer : Bytes := []
  bsp : Nat := 0
  bak : Nat := 0
  sizeFile : AOF SizeEntry := {}
deriving Repr, DecidableEq

/-- bytes `[off, off+len)` of `b`, empty if `b` is too short (`read_from_mmap/_buffer`) -/
def slice (b : Bytes) (off len : Nat) : Bytes :=
  if b.length < off + len then [] else (b.drop off).take len

namespace VarFile
variable (el : Bytes → Option Nat)

/-- stream-parse a file into its elements: `while let Ok(elmt) = T::read(reader)` -/
def parseAll : Nat → Bytes → List Bytes
  | 0, _ => []
  | fuel+1, b =>
    match el b with
    | none => []
    | some n => if n = 0 ∨ b.length < n then [] else b.take n :: parseAll fuel (b.drop n)

/-- `rebuild_size_file`: one entry per element read from the data file -/
def sizeEntries : Nat → List Bytes → List SizeEntry
  | _, [] => []
  | off, e :: es => (off, e.length) :: sizeEntries (off + e.length) es

/-- `SizeEntry.size` is a `u16`: `bytes.len() as u16` in `append`, `(total_bytes_read - offset) as
u16` in `rebuild_size_file` - an element of 65536 bytes or more gets the length modulo 2^16, and
`rebuild_size_file` advances its offset by that wrapped value -/
def u16 (n : Nat) : Nat := n % 65536

/-- `rebuild_size_file` as the code computes it (wrapping sizes); `sizeEntries` for elements
shorter than 65536 bytes -/
def sizeEntriesW : Nat → List Bytes → List SizeEntry
  | _, [] => []
  | off, e :: es => (off, u16 e.length) :: sizeEntriesW (off + u16 e.length) es

def sizeInElmts (v : VarFile) : Nat := v.sizeFile.sizeInElmts
def sizeUnsyncInElmts (v : VarFile) : Nat := v.sizeFile.sizeUnsyncInElmts

/-- `sum_sizes` of the size file (over its first `buffer_start_pos` entries) -/
def sumSizes (sf : AOF SizeEntry) : Nat :=
  ((List.range sf.bsp).filterMap sf.read).foldl (fun a e => a + e.2) 0

/-- `init` -/
def init (v : VarFile) : VarFile :=
  let sf := v.sizeFile.init
  { v with sizeFile := sf, bsp := if v.disk.length = 0 then 0 else sf.sizeInElmts }

/-- `rebuild_size_file` followed by `size_file.replace` -/
def rebuildSizeFile (v : VarFile) : VarFile :=
  { v with sizeFile := { v.sizeFile with disk := sizeEntriesW 0 (parseAll el (v.disk.length + 1) v.disk) } }

/-- `open` on the durable parts (data file bytes, size file entries) -/
def ofDisk (d : Bytes) (sizes : List SizeEntry) : VarFile :=
  let v := init { disk := d, sizeFile := { disk := sizes } }
  if sumSizes v.sizeFile ≠ d.length then init (rebuildSizeFile el v) else v

/-- `append(bytes)`; `none` = io error from reading the previous size entry -/
def append (v : VarFile) (bytes : Bytes) : Option VarFile :=
  let nextPos := v.sizeFile.sizeUnsyncInElmts
  let offset? : Option Nat :=
    if nextPos = 0 then some 0
    else match v.sizeFile.read (nextPos - 1) with
      | some (o, s) => some (o + s)
      | none => none
  match offset? with
  | none => none
  | some offset =>
    some { v with sizeFile := v.sizeFile.append (offset, u16 bytes.length), buffer := v.buffer ++ bytes }

/-- `offset_and_size` -/
def offsetAndSize (v : VarFile) (pos : Nat) : Option SizeEntry := v.sizeFile.read pos

/-- `read(pos)`: the raw bytes (`none` = io error, `some []` = nothing there) -/
def readBytes (v : VarFile) (pos : Nat) : Option Bytes :=
  if pos ≥ sizeUnsyncInElmts v then some [] else
  match offsetAndSize v pos with
  | none => none
  | some (offset, length) =>
    if pos < v.bsp then some (slice v.disk offset length)
    else match offsetAndSize v v.bsp with
      | none => none
      | some (bo, _) => some (slice v.buffer (offset - bo) length)

/-- `read_as_elmt(pos)`: deserialise exactly one element from the bytes read -/
def read (v : VarFile) (pos : Nat) : Option Bytes :=
  match readBytes v pos with
  | none => none
  | some b => match el b with
    | none => none
    | some n => if n = 0 ∨ b.length < n then none else some (b.take n)

def read1 (v : VarFile) (position : Nat) : Option Bytes :=
  if position = 0 then none else read el v (position - 1)

/-- `rewind(pos)` -/
def rewind (v : VarFile) (pos : Nat) : VarFile :=
  { v with sizeFile := v.sizeFile.rewind pos,
           bak := if v.bak = 0 then v.bsp else v.bak, bsp := pos }

/-- `flush`; the truncation length comes from the (already flushed) size file -/
def flush (v : VarFile) : VarFile :=
  let sf := v.sizeFile.flush
  let d :=
    if v.bak > 0 then
      if v.bsp = 0 then []
      else match sf.read (v.bsp - 1) with
        | some (o, s) =>
          -- `set_len`: truncates, or zero-extends when the (possibly stale) size entry points
          -- beyond the end of the file
          v.disk.take (o + s) ++ List.replicate (o + s - v.disk.length) 0
        | none => v.disk   -- io error in the code; not reached under the protocol
    else v.disk
  let d' := d ++ v.buffer
  { disk := d', buffer := [], bsp := sf.sizeInElmts, bak := 0, sizeFile := sf }

/-- `discard` -/
def discard (v : VarFile) : VarFile :=
  { v with bsp := if v.bak > 0 then v.bak else v.bsp, bak := 0,
           sizeFile := v.sizeFile.discard, buffer := [] }

/-- `write_tmp_pruned` on the parsed element stream -/
def writeTmpPruned (v : VarFile) (pruneIdx : List Nat) : Bytes :=
  (AOF.writeTmpLoop (parseAll el (v.disk.length + 1) v.disk) 0 pruneIdx).flatten

/-- `replace_with_tmp`: replace, rebuild the size file, `init` -/
def replaceWith (v : VarFile) (tmp : Bytes) : VarFile :=
  init (rebuildSizeFile el { v with disk := tmp })

end VarFile

/-- the data file of a backend: fixed-size or variable-size elements -/
inductive DFile
  | fixed (f : AOF Bytes)
  | var (v : VarFile)
deriving Repr, DecidableEq

namespace DFile
variable (el : Bytes → Option Nat)

/-- `DataFile::append`: returns the file and `size_unsync()` -/
def append (d : DFile) (e : Bytes) : Option (DFile × Nat) :=
  match d with
  | fixed f => let f' := f.append e; some (fixed f', f'.sizeUnsyncInElmts)
  | var v => match VarFile.append v e with
    | some v' => some (var v', VarFile.sizeUnsyncInElmts v')
    | none => none

def read1 (d : DFile) (position : Nat) : Option Bytes :=
  match d with
  | fixed f => f.read1 position
  | var v => VarFile.read1 el v position

def rewind (d : DFile) (pos : Nat) : DFile :=
  match d with
  | fixed f => fixed (f.rewind pos)
  | var v => var (v.rewind pos)

def flush (d : DFile) : DFile :=
  match d with
  | fixed f => fixed f.flush
  | var v => var v.flush

def discard (d : DFile) : DFile :=
  match d with
  | fixed f => fixed f.discard
  | var v => var v.discard

/-- `DataFile::size()` (synced size in elements) -/
def size (d : DFile) : Nat :=
  match d with
  | fixed f => f.sizeInElmts
  | var v => VarFile.sizeInElmts v

/-- `write_tmp_pruned(prune_pos)` (1-based positions) + `replace_with_tmp` -/
def compact (d : DFile) (prunePos1 : List Nat) : DFile :=
  let idx := prunePos1.map (· - 1)
  match d with
  | fixed f => fixed (f.replaceWith (f.writeTmpPruned idx))
  | var v => var (VarFile.replaceWith el v (VarFile.writeTmpPruned el v idx))

/-- reopen from the durable parts -/
def reopen (d : DFile) : DFile :=
  match d with
  | fixed f => fixed (AOF.ofDisk f.disk)
  | var v => var (VarFile.ofDisk el v.disk v.sizeFile.disk)

end DFile

/-! ## `LeafSet` -/

structure LeafSet where
  bitmap : Bitmap := []
  /-- `bitmap_bak`; also the content of the leaf-set file (written by `flush` only) -/
  bak : Bitmap := []
deriving Repr, DecidableEq

namespace LeafSet

def add (ls : LeafSet) (pos0 : Nat) : LeafSet := { ls with bitmap := Bm.add ls.bitmap (1 + pos0) }
def remove (ls : LeafSet) (pos0 : Nat) : LeafSet := { ls with bitmap := Bm.remove ls.bitmap (1 + pos0) }
def includes (ls : LeafSet) (pos0 : Nat) : Bool := Bm.contains ls.bitmap (1 + pos0)
def len (ls : LeafSet) : Nat := ls.bitmap.length

/-- `rewind(cutoff_pos, rewind_rm_pos)` -/
def rewind (ls : LeafSet) (cutoffPos : Nat) (rm : Bitmap) : LeafSet :=
  let b := Bm.removeRange ls.bitmap (cutoffPos + 1) ((Bm.maximum ls.bitmap).getD 0)
  { ls with bitmap := Bm.or b rm }

def flush (ls : LeafSet) : LeafSet := { bitmap := ls.bitmap, bak := ls.bitmap }
def discard (ls : LeafSet) : LeafSet := { ls with bitmap := ls.bak }
/-- `LeafSet::open` on the file -/
def reopen (ls : LeafSet) : LeafSet := { bitmap := ls.bak, bak := ls.bak }

/-- `unpruned_pre_cutoff` -/
def unprunedPreCutoff (cutoffPos : Nat) (pl : PruneList) : Bitmap :=
  (List.range' 1 cutoffPos).filter fun x => isLeaf (x - 1) && !pl.isPruned (x - 1)

/-- `removed_pre_cutoff` -/
def removedPreCutoff (ls : LeafSet) (cutoffPos : Nat) (rm : Bitmap) (pl : PruneList) : Bitmap :=
  let b := Bm.removeRange ls.bitmap (cutoffPos + 1) ((Bm.maximum ls.bitmap).getD 0)
  let b := Bm.or b rm
  Bm.and (Bm.flip b 1 (cutoffPos + 1)) (unprunedPreCutoff cutoffPos pl)

end LeafSet

/-! ## `PMMRBackend` (prunable) -/

structure Backend (H : Type) where
  hashFile : AOF H := {}
  dataFile : DFile := .fixed {}
  leafSet : LeafSet := {}
  pruneList : PruneList := {}
  /-- content of `pmmr_prun.bin` (written by `PruneList::flush`) -/
  pruneFile : Bitmap := []

namespace Backend
variable {H : Type} (el : Bytes → Option Nat)

/-- `Backend::append(data, hashes)` -/
def append (b : Backend H) (data : Bytes) (hashes : List H) : Option (Backend H) :=
  match b.dataFile.append data with
  | none => none
  | some (df, size) =>
    let hf := b.hashFile.extend hashes
    let pos := insertionToPmmrIndex (size + b.pruneList.getTotalLeafShift - 1)
    some { b with dataFile := df, hashFile := hf, leafSet := b.leafSet.add pos }

def isPruned (b : Backend H) (pos0 : Nat) : Bool := b.pruneList.isPruned pos0
def isPrunedRoot (b : Backend H) (pos0 : Nat) : Bool := b.pruneList.isPrunedRoot pos0

/-- `is_compacted` -/
def isCompacted (b : Backend H) (pos0 : Nat) : Bool :=
  if b.leafSet.includes pos0 then false
  else !b.isPrunedRoot pos0 && b.isPruned pos0

/-- `get_from_file` -/
def getFromFile (b : Backend H) (pos0 : Nat) : Option H :=
  if b.isCompacted pos0 then none
  else b.hashFile.read1 (1 + pos0 - b.pruneList.getShift pos0)

/-- `get_peak_from_file` -/
def getPeakFromFile (b : Backend H) (pos0 : Nat) : Option H :=
  b.hashFile.read1 (1 + pos0 - b.pruneList.getShift pos0)

/-- `get_data_from_file` -/
def getDataFromFile (b : Backend H) (pos0 : Nat) : Option Bytes :=
  if !isLeaf pos0 then none
  else if b.isCompacted pos0 then none
  else
    let flatfilePos := nLeaves (pos0 + 1)
    let shift := b.pruneList.getLeafShift (1 + pos0)
    b.dataFile.read1 el (flatfilePos - shift)

/-- `get_hash` -/
def getHash (b : Backend H) (pos0 : Nat) : Option H :=
  if isLeaf pos0 && !b.leafSet.includes pos0 then none else b.getFromFile pos0

/-- `get_data` -/
def getData (b : Backend H) (pos0 : Nat) : Option Bytes :=
  if !isLeaf pos0 then none
  else if !b.leafSet.includes pos0 then none
  else b.getDataFromFile el pos0

/-- `remove` -/
def remove (b : Backend H) (pos0 : Nat) : Backend H := { b with leafSet := b.leafSet.remove pos0 }

/-- `leaf_pos_iter` -/
def leafPosIter (b : Backend H) : List Nat := b.leafSet.bitmap.map (· - 1)

/-- `n_unpruned_leaves` -/
def nUnprunedLeaves (b : Backend H) : Nat := b.leafSet.len

/-- `rewind(position, rewind_rm_pos)` -/
def rewind (b : Backend H) (position : Nat) (rm : Bitmap) : Backend H :=
  let ls := b.leafSet.rewind position rm
  let shift := if position = 0 then 0 else b.pruneList.getShift (position - 1)
  let hf := b.hashFile.rewind (position - shift)
  let flatfilePos := nLeaves position
  let leafShift := if position = 0 then 0 else b.pruneList.getLeafShift position
  let df := b.dataFile.rewind (flatfilePos - leafShift)
  { b with leafSet := ls, hashFile := hf, dataFile := df }

def hashSize (b : Backend H) : Nat := b.hashFile.sizeInElmts
def dataSize (b : Backend H) : Nat := b.dataFile.size

/-- `unpruned_size` -/
def unprunedSize (b : Backend H) : Nat := b.hashSize + b.pruneList.getTotalShift

/-- `sync` -/
def sync (b : Backend H) : Backend H :=
  { b with hashFile := b.hashFile.flush, dataFile := b.dataFile.flush,
           leafSet := b.leafSet.flush, pruneFile := b.pruneList.bitmap }

/-- `discard` -/
def discard (b : Backend H) : Backend H :=
  { b with hashFile := b.hashFile.discard, dataFile := b.dataFile.discard,
           leafSet := b.leafSet.discard }

/-- inner `loop` of `pos_to_rm` for one removed leaf; `current` is 1-based -/
def expandLoop (pl : PruneList) : Nat → Bitmap → Nat → Bitmap
  | 0, expanded, _ => expanded
  | fuel+1, expanded, current =>
    let fam := family (current - 1)
    let siblingPruned := pl.isPrunedRoot fam.2
    let expanded := if siblingPruned then Bm.add expanded (1 + fam.2) else expanded
    if siblingPruned || Bm.contains expanded (1 + fam.2) then
      expandLoop pl fuel (Bm.add expanded (1 + fam.1)) (1 + fam.1)
    else expanded

/-- `removed_excl_roots` -/
def removedExclRoots (removed : Bitmap) : Bitmap :=
  removed.filter fun pos => Bm.contains removed (1 + (family (pos - 1)).1)

/-- `pos_to_rm(cutoff_pos, rewind_rm_pos)` = (leaves removed, positions to remove) -/
def posToRm (b : Backend H) (cutoffPos : Nat) (rm : Bitmap) : Bitmap × Bitmap :=
  let leafPosToRm := b.leafSet.removedPreCutoff cutoffPos rm b.pruneList
  let expanded := leafPosToRm.foldl
    (fun expanded x => expandLoop b.pruneList 64 (Bm.add expanded x) x) []
  (leafPosToRm, removedExclRoots expanded)

/-- `check_compact(cutoff_pos, rewind_rm_pos)` -/
def checkCompact (b : Backend H) (cutoffPos : Nat) (rm : Bitmap) : Backend H :=
  let (leavesRemoved, posToRm) := b.posToRm cutoffPos rm
  -- 1. compact copy of the hash file
  let hashPos := posToRm.map fun pos1 => pos1 - b.pruneList.getShift (pos1 - 1)
  let hashTmp := b.hashFile.writeTmpPruned (hashPos.map (· - 1))
  -- 2. compact copy of the data file
  let leafPosToRm := posToRm.filter fun x => isLeaf (x - 1)
  let dataPos := leafPosToRm.map fun pos => nLeaves pos - b.pruneList.getLeafShift pos
  -- 3. replace both
  let hf := b.hashFile.replaceWith hashTmp
  let df := b.dataFile.compact el dataPos
  -- 4. new prune list, flushed
  let pl := PruneList.new (Bm.or b.pruneList.bitmap leavesRemoved)
  -- 5. leaf set flushed
  { hashFile := hf, dataFile := df, leafSet := b.leafSet.flush, pruneList := pl,
    pruneFile := pl.bitmap }

/-- drop the backend and `PMMRBackend::new` on the same directory -/
def reopen (b : Backend H) : Backend H :=
  { hashFile := AOF.ofDisk b.hashFile.disk,
    dataFile := b.dataFile.reopen el,
    leafSet := b.leafSet.reopen,
    pruneList := PruneList.openBm b.pruneFile,
    pruneFile := b.pruneFile }

end Backend

/-! ## The PMMR layer over a backend (`PMMR::at(&mut backend, size)`) -/

section PmmrLayer
variable {α H : Type}

/-- loop of `PMMR::push` reading left siblings through `get_peak_from_file` -/
def pushLoopB (hf : HashFn α H) (getPeak : Nat → Option H) (pm : Nat) :
    Nat → Nat → Nat → H → List H → Option (List H)
  | 0, _, _, _, acc => some acc
  | fuel+1, j, pos, cur, acc =>
    if bitSet pm j then
      match getPeak (pos + 1 - 2 * 2^j) with
      | none => none
      | some l =>
        let cur' := hf.node (pos + 1) l cur
        pushLoopB hf getPeak pm fuel (j+1) (pos + 1) cur' (acc ++ [cur'])
    else some acc

/-- hashes `PMMR::push` hands to `backend.append` for a leaf pushed at `size`;
`none` = `Err` (bad size / missing left sibling) -/
def pushHashes (hf : HashFn α H) (getPeak : Nat → Option H) (size : Nat) (e : α) : Option (List H) :=
  let r := peakMapHeight size
  if r.2 ≠ 0 then none else
  let cur := hf.leaf size e
  pushLoopB hf getPeak r.1 65 0 size cur [cur]

/-- read accessors of `impl ReadablePMMR for PMMR`: everything is `None` at `pos0 >= size` -/
def guard (size : Nat) (f : Nat → Option H) (pos0 : Nat) : Option H :=
  if pos0 ≥ size then none else f pos0

/-- `ReadablePMMR::root` over accessor functions -/
def rootG (hf : HashFn α H) (size : Nat) (getPeak : Nat → Option H) : RootRes H :=
  if size = 0 then .zero else
  match bag hf size ((peaks size).filterMap getPeak) with
  | some h => .ok h
  | none => .err

/-- `bag_the_rhs` -/
def bagTheRhsG (hf : HashFn α H) (size : Nat) (getFromFile : Nat → Option H) (peakPos : Nat) : Option H :=
  bag hf size (((peaks size).filter (· > peakPos)).filterMap getFromFile)

/-- `peak_path` -/
def peakPathG (hf : HashFn α H) (size : Nat) (getFromFile getPeak : Nat → Option H) (peakPos : Nat) : List H :=
  let lhs := ((peaks size).filter (· < peakPos)).filterMap getPeak
  let res := match bagTheRhsG hf size getFromFile peakPos with
    | some r => lhs ++ [r]
    | none => lhs
  res.reverse

/-- `merkle_proof(pos0)`: `getHash` is `PMMR::get_hash` (leaf → backend `get_hash`) -/
def merkleProofG (hf : HashFn α H) (size : Nat) (getHash getFromFile getPeak : Nat → Option H)
    (pos : Nat) : Option (Nat × List H) :=
  if !isLeaf pos then none else
  match getHash pos with
  | none => none
  | some _ =>
    let fb := familyBranch pos size
    let path := fb.filterMap fun x => getFromFile x.2
    let peakPos := match fb.getLast? with
      | some x => x.1
      | none => pos
    some (size, path ++ peakPathG hf size getFromFile getPeak peakPos)

end PmmrLayer

/-- `PMMR<'a, T, PMMRBackend<T>>`: the backend together with the `size` the caller tracks -/
structure PM (H : Type) where
  b : Backend H := {}
  size : Nat := 0

namespace PM
variable {H : Type} (el : Bytes → Option Nat) (hf : HashFn Bytes H)

def getPeak (p : PM H) : Nat → Option H := guard p.size p.b.getPeakFromFile
def getFromFile (p : PM H) : Nat → Option H := guard p.size p.b.getFromFile
/-- `PMMR::get_hash` -/
def getHash (p : PM H) (pos0 : Nat) : Option H :=
  if pos0 ≥ p.size then none
  else if isLeaf pos0 then p.b.getHash pos0 else p.b.getFromFile pos0
/-- `PMMR::get_data` -/
def getData (p : PM H) (pos0 : Nat) : Option Bytes :=
  if pos0 ≥ p.size then none
  else if isLeaf pos0 then p.b.getData el pos0 else none

/-- `PMMR::push`; `none` = `Err` -/
def push (p : PM H) (e : Bytes) : Option (PM H) :=
  match pushHashes hf p.b.getPeakFromFile p.size e with
  | none => none
  | some hashes =>
    match p.b.append e hashes with
    | none => none
    | some b' => some { b := b', size := p.size + hashes.length }

/-- `PMMR::prune`: `(pmmr, Ok(bool))` or `none` = `Err` (not a leaf) -/
def prune (p : PM H) (pos0 : Nat) : Option (PM H × Bool) :=
  if !isLeaf pos0 then none
  else match p.b.getHash pos0 with
    | none => some (p, false)
    | some _ => some ({ p with b := p.b.remove pos0 }, true)

/-- `PMMR::rewind(position, rewind_rm_pos)` -/
def rewind (p : PM H) (position : Nat) (rm : Bitmap) : PM H :=
  let leafPos := roundUpToLeafPos position
  { b := p.b.rewind leafPos rm, size := leafPos }

def root (p : PM H) : RootRes H := rootG hf p.size p.getPeak

def merkleProof (p : PM H) (pos0 : Nat) : Option (Nat × List H) :=
  merkleProofG hf p.size p.getHash p.getFromFile p.getPeak pos0

end PM

end GV.Store
