import GrinVerif.Model.Chain
/-! Transaction pool model (serves C14).

Transliteration of `pool/src/pool.rs` (`Pool`: one of txpool / stempool) and
`pool/src/transaction_pool.rs` (`TransactionPool`) together with the parts of
`core/src/core/transaction.rs` they call (`aggregate`, `cut_through`, `deaggregate`,
`Transaction::validate`, `fee_rate`, `accept_fee`, weights) and the chain-side checks the pool
reaches through the `BlockChain` trait (`validate_tx`, `validate_inputs`,
`verify_coinbase_maturity`, `verify_tx_lock_height`; adapter as in pool/tests/common.rs).

Commitments are abstract output ids, values are the openings known to the harness (DESIGN §2.3);
signature / range-proof / blinding-sum faults are tags.  The chain is represented by the unspent
set at the head (`GV.Chain.UState`), which the harness reads from the real chain. -/

namespace GV.Pool
open GV.Chain (Ker UState OutDef valOf sumVals)

abbrev Err := String

/-- a kernel: identity (hash incl. excess and signature), features, fee shift -/
structure PKer where
  kid : Nat
  ker : Ker
  shift : Nat := 0
deriving Repr, DecidableEq, Inhabited

/-- `TxSource` (pool/src/types.rs) -/
inductive Src
  | pushApi | broadcast | fluff | embargoExpired | deaggregate
deriving Repr, DecidableEq, Inhabited

/-- A transaction: inputs / outputs as output ids, kernels; `tags` carry crypto-level faults
(`sig`, `rproof`, `sum`).  Equality is the Rust `PartialEq` (body and offset). -/
structure Tx where
  ins : List Nat
  outs : List Nat
  kers : List PKer
  tags : List String := []
deriving Repr, DecidableEq, Inhabited

/-- `Inputs` (core/src/core/transaction.rs): the two forms in which the inputs of a transaction
travel.  `commitOnly` ("v3"): commitments; `featuresAndCommit` ("v2", what wallets pushing through
the API and v2 peers send): each input also *claims* the features of the output it spends
(`true` = coinbase). -/
inductive Inputs
  | commitOnly (cs : List Nat)
  | featuresAndCommit (is : List (Bool × Nat))
deriving Repr, DecidableEq, Inhabited

/-- `From<Inputs> for Vec<CommitWrapper>` — the only way pool.rs / transaction_pool.rs /
`transaction::aggregate` / `deaggregate` / `cut_through` read the inputs of a transaction (the
re-sorting by commitment is immaterial here: ids are abstract) -/
def Inputs.commits : Inputs → List Nat
  | .commitOnly cs => cs
  | .featuresAndCommit is => is.map (·.2)

/-- A transaction as submitted to `TransactionPool::add_to_pool`: inputs in one of the two forms.
`sorted = false`: the input vector is not in the order `verify_sorted_and_unique` demands *for
its variant* (`Input`s are ordered by the hash of (features, commitment), `CommitWrapper`s by
the hash of the commitment: converting one form into the other without re-sorting gives this). -/
structure SubTx where
  inputs : Inputs
  sorted : Bool := true
  outs : List Nat
  kers : List PKer
  tags : List String := []
deriving Repr, DecidableEq, Inhabited

/-- the pool's view of a submitted transaction: inputs read through `Inputs.commits`; the
sortedness of the input vector is a standalone-validity fault like the crypto tags -/
def SubTx.tx (r : SubTx) : Tx :=
  { ins := r.inputs.commits, outs := r.outs, kers := r.kers,
    tags := if r.sorted then r.tags else "unsorted" :: r.tags }

/-- `PoolEntry` (without the timestamp) -/
structure Entry where
  tx : Tx
  src : Src
deriving Repr, DecidableEq, Inhabited

/-- `PoolConfig` + the consensus / global values the pool reads -/
structure Cfg where
  maxPool : Nat := 50
  maxStem : Nat := 50
  mineW : Nat := 250
  /-- `global::get_accept_fee_base()` (what `Transaction::accept_fee` reads) -/
  feeBase : Nat := 1
  /-- `global::max_tx_weight()` -/
  maxTxW : Nat := 226
  /-- `global::max_block_weight()` -/
  maxBlockW : Nat := 250
  maturity : Nat := 3
  nrdEnabled : Bool := true
deriving Repr, Inhabited

/-- what the pool sees of the chain: the head state and header version, values of all outputs -/
structure Ctx where
  cfg : Cfg := {}
  outs : List OutDef := []
  head : UState := {}
  ver : Nat := 1
deriving Inhabited

/-- `Weighting` (core/src/core/transaction.rs); `AsBlock` is not used by the pool -/
inductive Weighting
  | asTransaction
  | asLimited (w : Nat)
  | noLimit
deriving Repr, DecidableEq

/-! ## transaction arithmetic -/

def natSum (l : List Nat) : Nat := l.foldr (· + ·) 0

def Tx.fee (t : Tx) : Nat := natSum (t.kers.map (·.ker.fee))
def Tx.feeShift (t : Tx) : Nat := t.kers.foldr (fun k acc => max acc k.shift) 0
/-- `shifted_fee`: the fee shifted right by the maximal fee shift of the kernels -/
def Tx.shiftedFee (t : Tx) : Nat := t.fee / 2 ^ t.feeShift
/-- `TransactionBody::weight_by_iok` (INPUT 1, OUTPUT 21, KERNEL 3; no saturation in range) -/
def Tx.weight (t : Tx) : Nat := t.ins.length * 1 + t.outs.length * 21 + t.kers.length * 3
/-- `fee_rate`: integer division (`fee() / weight()`; the Rust divides by zero for an empty
transaction, which never passes validation) -/
def Tx.feeRate (t : Tx) : Nat := t.fee / t.weight
/-- `accept_fee` -/
def Tx.acceptFee (c : Cfg) (t : Tx) : Nat := t.weight * c.feeBase
def Tx.lockHeight (t : Tx) : Nat :=
  t.kers.foldr (fun k acc => match k.ker with | .hl _ l => max acc l | _ => acc) 0
/-- `TxKernel::is_nrd` -/
def PKer.isNrd (k : PKer) : Bool := match k.ker with | .nrd .. => true | _ => false
/-- `tx.kernels().iter().any(|k| k.is_nrd())`: SOME kernel of the transaction, wherever it sorts -/
def Tx.hasNrd (t : Tx) : Bool := t.kers.any fun k => match k.ker with | .nrd .. => true | _ => false

def emptyTx : Tx := { ins := [], outs := [], kers := [] }

/-! ## cut-through and aggregation -/

/-- multiset difference `l − m` -/
def msub : List Nat → List Nat → List Nat
  | l, [] => l
  | l, b :: bs => msub (l.erase b) bs

def nodupB : List Nat → Bool
  | [] => true
  | a :: l => !l.contains a && nodupB l

/-- `transaction::cut_through`: input/output pairs with the same commitment cancel one for one;
a duplicate among the remaining inputs or outputs is an error. Returns (inputs, outputs) left. -/
def cutThrough (ins outs : List Nat) : Except Err (List Nat × List Nat) :=
  let i' := msub ins outs
  let o' := msub outs ins
  if nodupB i' && nodupB o' then .ok (i', o') else .error "InvalidTx:CutThrough"

def allIns (txs : List Tx) : List Nat := txs.flatMap (·.ins)
def allOuts (txs : List Tx) : List Nat := txs.flatMap (·.outs)

/-- tags that survive re-assembly with `Transaction::new` (which sorts inputs, outputs and
kernels): everything except a wrongly ordered input vector -/
def keptTags (tags : List String) : List String := tags.filter (· != "unsorted")

/-- `transaction::aggregate` (empty and single-transaction shortcuts as in the code) -/
def aggregate : List Tx → Except Err Tx
  | [] => .ok emptyTx
  | [t] => .ok t
  | txs =>
    match cutThrough (allIns txs) (allOuts txs) with
    | .error e => .error e
    | .ok (i, o) =>
      .ok { ins := i, outs := o, kers := txs.flatMap (·.kers), tags := keptTags (txs.flatMap (·.tags)) }

/-- `transaction::deaggregate`: remove from `mk` everything that belongs to the aggregate of `txs` -/
def deaggregate (mk : Tx) (txs : List Tx) : Except Err Tx :=
  match aggregate txs with
  | .error e => .error e
  | .ok a =>
    let kers := (mk.kers.filter (fun k => !a.kers.contains k)).eraseDups
    -- (nothing new in `mk`: the offsets cancel out; since b04699b48 that yields the zero offset
    -- instead of `Error::Secp(InvalidSecretKey)`, and the empty remainder fails validation)
    .ok { ins := (mk.ins.filter (fun i => !a.ins.contains i)).eraseDups,
          outs := (mk.outs.filter (fun o => !a.outs.contains o)).eraseDups,
          kers := kers,
          tags := keptTags mk.tags }

/-! ## validation -/

def maxWeight (c : Cfg) : Weighting → Option Nat
  | .asTransaction => some c.maxTxW
  | .asLimited w => some (min c.maxBlockW w - 24)
  | .noLimit => none

def overWeight (c : Cfg) (w : Weighting) (t : Tx) : Bool :=
  match maxWeight c w with
  | some m => decide (t.weight > m)
  | none => false

def nrdExcesses (t : Tx) : List String :=
  t.kers.filterMap fun k => match k.ker with | .nrd _ _ ex => some ex | _ => none

def strNodupB : List String → Bool
  | [] => true
  | a :: l => !l.contains a && strNodupB l

/-- value component of `verify_kernel_sums`: Σ inputs = Σ outputs + fee -/
def Tx.balanced (outs : List OutDef) (t : Tx) : Bool :=
  decide (sumVals outs t.ins = sumVals outs t.outs + t.fee)

/-- `Transaction::validate(weighting)`: features, weight, NRD duplicates, sorted-and-unique
(uniqueness from the ids; a wrongly ordered input vector is the tag `unsorted`), cut-through,
range proofs, signatures, kernel sums — in the code's order. -/
def Tx.validate (c : Ctx) (w : Weighting) (t : Tx) : Option Err :=
  if t.kers.any (fun k => k.ker == .cb) then some "InvalidTx:InvalidKernelFeatures"
  else if overWeight c.cfg w t then some "InvalidTx:TooHeavy"
  else if c.cfg.nrdEnabled && !strNodupB (nrdExcesses t) then some "InvalidTx:InvalidNRDRelativeHeight"
  else if !(nodupB t.ins && nodupB t.outs && nodupB (t.kers.map (·.kid))) then some "InvalidTx:Serialization"
  else if t.tags.contains "unsorted" then some "InvalidTx:Serialization"
  else if t.ins.any (fun i => t.outs.contains i) then some "InvalidTx:CutThrough"
  else if t.tags.contains "rproof" then some "InvalidTx:Secp"
  else if t.tags.contains "sig" then some "InvalidTx:IncorrectSignature"
  else if t.kers.isEmpty || (t.ins.isEmpty && t.outs.isEmpty && t.fee == 0) then some "InvalidTx:Committed"
  else if t.tags.contains "sum" || !t.balanced c.outs then some "InvalidTx:Committed"
  else none

/-- the NRD part of `Chain::validate_tx` (`validate_tx_kernels` → `apply_kernels` at the height of
the NEXT block on the BODY head → `apply_kernel_rules`): some NRD kernel repeats an excess last
seen on the chain fewer than its relative height blocks before that next block -/
def nrdTooRecent (c : Ctx) (t : Tx) : Bool :=
  t.kers.any fun k => match k.ker with
    | .nrd _ rel ex => match c.head.nrd.find? (·.1 == ex) with
      | some (_, hPrev) => decide (c.head.height + 1 < hPrev + rel)
      | none => false
    | _ => false

/-- `Chain::validate_tx` through the adapter: no output duplicates an unspent one, every input
is unspent (both surface as `PoolError::Other`), NRD relative heights (`apply_kernel_rules`
returns `Ok` at once while `global::is_nrd_enabled()` is false) -/
def chainValidateTx (c : Ctx) (t : Tx) : Option Err :=
  if t.outs.any c.head.has then some "Other"
  else if !(t.ins.all c.head.has) then some "Other"
  else if c.cfg.nrdEnabled && nrdTooRecent c t then some "NRDKernelRelativeHeight"
  else none

/-- `impl From<transaction::Error> for PoolError` (what `?` applies inside pool.rs): a duplicate NRD
excess inside an aggregate surfaces as `PoolError::NRDKernelRelativeHeight`, everything else as
`InvalidTx(..)`.  (`TransactionPool::add_to_pool` maps the standalone validation with
`map_err(PoolError::InvalidTx)` instead.) -/
def viaPoolError (e : Err) : Err :=
  if e = "InvalidTx:InvalidNRDRelativeHeight" then "NRDKernelRelativeHeight" else e

/-- `Pool::validate_raw_tx` (`apply_tx_to_block_sums` adds nothing in the opening model) -/
def validateRawTx (c : Ctx) (w : Weighting) (t : Tx) : Option Err :=
  match t.validate c w with
  | some e => some (viaPoolError e)
  | none => chainValidateTx c t

/-! ## `Pool` (pool/src/pool.rs) -/

abbrev Pool := List Entry

def Pool.txs (p : Pool) : List Tx := p.map (·.tx)

/-- `contains_tx`: compared by kernels -/
def Pool.containsTx (p : Pool) (t : Tx) : Bool := p.any (fun e => e.tx.kers == t.kers)

/-- `Pool::add_to_pool`: aggregate everything with the new entry, validate against the head -/
def Pool.addToPool (c : Ctx) (p : Pool) (e : Entry) (extra : Option Tx) : Except Err Pool :=
  if p.txs.contains e.tx then .error "DuplicateTx" else
  match aggregate (p.txs ++ extra.toList ++ [e.tx]) with
  | .error er => .error er
  | .ok agg =>
    match validateRawTx c .noLimit agg with
    | some er => .error er
    | none => .ok (p ++ [e])

def reconcileStep (c : Ctx) (extra : Option Tx) (acc : Pool) (e : Entry) : Pool :=
  match Pool.addToPool c acc e extra with
  | .ok acc' => acc'
  | .error _ => acc

/-- `Pool::reconcile`: re-add every entry in order, dropping those that no longer validate -/
def Pool.reconcile (c : Ctx) (p : Pool) (extra : Option Tx) : Pool :=
  p.foldl (reconcileStep c extra) []

/-- `Pool::all_transactions_aggregate` -/
def Pool.allAggregate (c : Ctx) (p : Pool) (extra : Option Tx) : Except Err (Option Tx) :=
  if p.isEmpty then .ok extra else
  match aggregate (p.txs ++ extra.toList) with
  | .error e => .error e
  | .ok a =>
    match a.validate c .noLimit with
    | some e => .error (viaPoolError e)
    | none => .ok (some a)

/-- `Pool::reconcile_block`: drop entries sharing a kernel or an input with the block -/
def Pool.reconcileBlock (p : Pool) (blkIns blkKers : List Nat) : Pool :=
  p.filter fun e => !(e.tx.kers.any (fun k => blkKers.contains k.kid)) && !(e.tx.ins.any (fun i => blkIns.contains i))

/-- `Pool::validate_raw_txs`: keep each candidate that validates together with those kept so far -/
def validateRawTxs (c : Ctx) (w : Weighting) (extra : Option Tx) : List Tx → List Tx → Except Err (List Tx)
  | [], valid => .ok valid
  | t :: rest, valid =>
    match aggregate (extra.toList ++ valid ++ [t]) with
    -- a candidate that cannot be combined with those selected so far (e.g. it spends an output one
    -- of them spends) is skipped like one that fails validation (pool.rs since 611fc1746; before,
    -- the error escaped with `?` and the whole mineable set failed)
    | .error _ => validateRawTxs c w extra rest valid
    | .ok a =>
      match validateRawTx c w a with
      | none => validateRawTxs c w extra rest (valid ++ [t])
      | some _ => validateRawTxs c w extra rest valid

structure Bucket where
  raw : List Tx
  feeRate : Nat
  age : Nat
deriving Repr, Inhabited

def Bucket.new (t : Tx) (age : Nat) : Bucket := { raw := [t], feeRate := t.feeRate, age }

/-- `Bucket::aggregate_with_tx` -/
def Bucket.aggregateWith (c : Ctx) (w : Weighting) (b : Bucket) (t : Tx) : Option Bucket :=
  match aggregate (b.raw ++ [t]) with
  | .error _ => none
  | .ok a =>
    match a.validate c w with
    | some _ => none
    | none => some { raw := b.raw ++ [t], feeRate := a.feeRate, age := b.age }

/-- loop state of `bucket_transactions`: buckets, `output_commits` (most recent insert first),
`rejected` -/
structure BState where
  buckets : List Bucket := []
  commits : List (Nat × Nat) := []
  rejected : List Nat := []
deriving Inhabited

def lookupCommit (m : List (Nat × Nat)) (o : Nat) : Option Nat := (m.find? (·.1 == o)).map (·.2)

/-- the scan over the inputs of one entry: (insert_pos, is_rejected) -/
def scanInputs (st : BState) (ins : List Nat) : Option Nat × Bool :=
  ins.foldl (fun (acc : Option Nat × Bool) i =>
    if st.rejected.contains i then (acc.1, true)
    else match lookupCommit st.commits i with
      | some pos => if acc.1.isSome then (acc.1, true) else (some pos, acc.2)
      | none => acc) (none, false)

/-- one iteration of the loop in `bucket_transactions` -/
def bucketStep (c : Ctx) (w : Weighting) (st : BState) (t : Tx) : BState :=
  let scan := scanInputs st t.ins
  if scan.2 then { st with rejected := t.outs ++ st.rejected }
  else match scan.1 with
    | none =>
      let pos := st.buckets.length
      { st with buckets := st.buckets ++ [Bucket.new t pos], commits := t.outs.map (·, pos) ++ st.commits }
    | some pos =>
      match st.buckets[pos]? with
      | none => st
      | some b =>
        match b.aggregateWith c w t with
        | some nb =>
          if nb.feeRate ≥ b.feeRate then
            { st with buckets := st.buckets.set pos nb, commits := t.outs.map (·, pos) ++ st.commits }
          else
            -- own bucket at the end; NB the commits index still records the *parent's* position
            { st with buckets := st.buckets ++ [Bucket.new t st.buckets.length],
                      commits := t.outs.map (·, pos) ++ st.commits }
        | none => { st with rejected := t.outs ++ st.rejected }

/-- `(Reverse(fee_rate), age_idx)` ordering -/
def Bucket.le (a b : Bucket) : Bool :=
  decide (a.feeRate > b.feeRate) || (decide (a.feeRate = b.feeRate) && decide (a.age ≤ b.age))

def insertBucket (b : Bucket) : List Bucket → List Bucket
  | [] => [b]
  | x :: xs => if b.le x then b :: x :: xs else x :: insertBucket b xs

def sortBuckets (l : List Bucket) : List Bucket := l.foldr insertBucket []

/-- `Pool::bucket_transactions` -/
def Pool.bucketTransactions (c : Ctx) (w : Weighting) (p : Pool) : List Tx :=
  (sortBuckets (p.txs.foldl (bucketStep c w) {}).buckets).flatMap (·.raw)

/-- `Pool::prepare_mineable_transactions` -/
def Pool.prepareMineable (c : Ctx) (p : Pool) (maxW : Nat) : Except Err (List Tx) :=
  validateRawTxs c (.asLimited maxW) none (p.bucketTransactions c (.asLimited maxW)) []

/-- the transaction `Pool::evict_transaction` picks: the last one of the bucket order -/
def Pool.evictee (c : Ctx) (p : Pool) : Option Tx := (p.bucketTransactions c .noLimit).getLast?

/-- `Pool::evict_transaction` -/
def Pool.evict (c : Ctx) (p : Pool) : Pool :=
  match p.evictee c with
  | none => p
  | some t => p.filter (fun e => e.tx != t)

/-- `Pool::find_matching_transactions`: entries whose kernels all occur in `kers` -/
def Pool.findMatching (p : Pool) (kers : List PKer) : List Tx :=
  (p.filter fun e => e.tx.kers.all (fun k => kers.contains k)).map (·.tx)

/-- `Pool::locate_spends`: (spent from the pool, spent from the utxo) -/
def Pool.locateSpends (c : Ctx) (p : Pool) (t : Tx) (extra : Option Tx) : Except Err (List Nat × List Nat) :=
  match p.allAggregate c extra with
  | .error e => .error e
  | .ok agg =>
    let outs := match agg with | some a => a.outs | none => []
    match cutThrough t.ins outs with
    | .error e => .error e
    | .ok (spentUtxo, _) =>
      if spentUtxo.all c.head.has then .ok (t.ins.filter (fun i => outs.contains i), spentUtxo)
      else .error "Other"

/-! ## `TransactionPool` (pool/src/transaction_pool.rs) -/

structure TxPool where
  txpool : Pool := []
  stempool : Pool := []
  /-- `reorg_cache` (oldest first) -/
  cache : List Entry := []
deriving Repr, DecidableEq, Inhabited

abbrev Res := Option Err

def showRes : Res → String
  | none => "ok"
  | some e => s!"err:{e}"

/-- `add_to_txpool`: add, then reconcile the stempool against the new txpool aggregate. On an
error after the first step the txpool stays modified, as in the code. -/
def TxPool.addToTxpool (c : Ctx) (s : TxPool) (e : Entry) : TxPool × Res :=
  match Pool.addToPool c s.txpool e none with
  | .error er => (s, some er)
  | .ok tp =>
    match Pool.allAggregate c tp none with
    | .error er => ({ s with txpool := tp }, some er)
    | .ok agg => ({ s with txpool := tp, stempool := Pool.reconcile c s.stempool agg }, none)

def TxPool.addToReorgCache (c : Ctx) (s : TxPool) (e : Entry) : TxPool :=
  let cache := s.cache ++ [e]
  { s with cache := if cache.length > c.cfg.maxPool then cache.drop 1 else cache }

/-- `deaggregate_tx` -/
def TxPool.deaggregateTx (s : TxPool) (e : Entry) : Except Err Entry :=
  if e.tx.kers.length > 1 then
    let txs := s.txpool.findMatching e.tx.kers
    if txs.isEmpty then .ok e else
    match deaggregate e.tx txs with
    | .error er => .error er
    | .ok t => .ok { tx := t, src := .deaggregate }
  else .ok e

/-- `verify_kernel_variants`: the rules per kernel variant.  `tx.kernels().iter().any(|k|
k.is_nrd())` looks at EVERY kernel of the transaction (kernels are kept sorted by hash: which one
comes first is an accident of the excess), then the feature flag `global::is_nrd_enabled()`
(false on mainnet), then the header version of the head. -/
def verifyKernelVariants (c : Ctx) (t : Tx) : Res :=
  if t.hasNrd then
    if !c.cfg.nrdEnabled then some "NRDKernelNotEnabled"
    else if c.ver < 4 then some "NRDKernelPreHF3"
    else none
  else none

/-- `is_acceptable` -/
def TxPool.isAcceptable (c : Ctx) (s : TxPool) (t : Tx) (stem : Bool) : Res :=
  -- the fee first (since 3aef11dd9): the caller reads `OverCapacity` on the fluff path as "admit,
  -- then evict", which must never apply to a transaction paying less than the minimum fee
  if t.shiftedFee < t.acceptFee c.cfg then some "LowFee"
  else if s.txpool.length > c.cfg.maxPool then some "OverCapacity"
  else if (stem && decide (s.stempool.length > c.cfg.maxStem)) || decide (s.txpool.length > c.cfg.maxPool) then
    some "OverCapacity"
  else none

/-- some coinbase output among `spent` (all unspent at the head) is immature at the next height -/
def immatureCoinbase (c : Ctx) (spent : List Nat) : Bool :=
  spent.any fun i => match c.head.find i with
    | some (_, h, true) => decide (c.head.height + 1 < h + c.cfg.maturity)
    | _ => false

/-- `TransactionPool::add_to_pool` after the duplicate checks -/
def TxPool.addCore (c : Ctx) (s : TxPool) (src : Src) (tx : Tx) (stem stemOk : Bool) : TxPool × Res :=
  if s.txpool.containsTx tx then (s, some "DuplicateTx") else
  match (if stem then .ok { tx, src } else s.deaggregateTx { tx, src }) with
  | .error er => (s, some er)
  | .ok entry =>
  let t := entry.tx
  match verifyKernelVariants c t with
  | some er => (s, some er)
  | none =>
  let acc := s.isAcceptable c t stem
  let evict := !stem && acc == some "OverCapacity"
  if !evict && acc.isSome then (s, acc) else
  match t.validate c .asTransaction with
  | some er => (s, some er)
  | none =>
  if t.lockHeight > c.head.height + 1 then (s, some "ImmatureTransaction") else
  match (if stem then Pool.allAggregate c s.txpool none else .ok none) with
  | .error er => (s, some er)
  | .ok extra =>
  match (if stem then s.stempool.locateSpends c t extra else s.txpool.locateSpends c t none) with
  | .error er => (s, some er)
  | .ok (_, spentUtxo) =>
  if immatureCoinbase c spentUtxo then (s, some "ImmatureCoinbase") else
  -- convert_tx_v2 re-validates the same transaction: nothing new in the model
  let stemStep : Except Err (TxPool × Bool) :=
    if stem then
      match Pool.addToPool c s.stempool entry extra with
      | .error er => .error er
      | .ok sp => .ok ({ s with stempool := sp }, stemOk)
    else .ok (s, false)
  match stemStep with
  | .error er => (s, some er)
  | .ok (s1, true) => (s1, none)
  | .ok (s1, false) =>
    match s1.addToTxpool c entry with
    | (s2, some er) => (s2, some er)
    | (s2, none) =>
      let s3 := s2.addToReorgCache c entry
      if evict then ({ s3 with txpool := s3.txpool.evict c }, none) else (s3, none)

/-- `TransactionPool::add_to_pool` -/
def TxPool.addToPool (c : Ctx) (s : TxPool) (src : Src) (tx : Tx) (stem stemOk : Bool) : TxPool × Res :=
  if stem && s.stempool.containsTx tx then s.addCore c src tx false stemOk
  else s.addCore c src tx stem stemOk

/-- `convert_tx_v2`: the form in which an admitted transaction is stored and relayed — "features
and commit" inputs whose features are those of the outputs *looked up* by `locate_spends` (from
the head for `spent_utxo`; outputs created in the pool are plain), never those the submitter
claimed. -/
def storedInputs (c : Ctx) (t : Tx) : Inputs :=
  .featuresAndCommit (t.ins.map fun i =>
    (match c.head.find i with | some (_, _, cb) => cb | none => false, i))

/-- `TransactionPool::add_to_pool` on a transaction in its submitted form.  Everything the pool
does with the inputs goes through `Vec<CommitWrapper>::from(tx.inputs())` (`contains_tx` and
`find_matching_transactions` look at kernels only); the variant matters for the order
`Transaction::validate` demands (`SubTx.sorted`) and nowhere else. -/
def TxPool.submit (c : Ctx) (s : TxPool) (src : Src) (r : SubTx) (stem stemOk : Bool) : TxPool × Res :=
  s.addToPool c src r.tx stem stemOk

/-- `TransactionPool::reconcile_block` (the context already describes the new head) -/
def TxPool.reconcileBlock (c : Ctx) (s : TxPool) (blkIns blkKers : List Nat) : TxPool × Res :=
  let tp := Pool.reconcile c (s.txpool.reconcileBlock blkIns blkKers) none
  let sp0 := s.stempool.reconcileBlock blkIns blkKers
  match Pool.allAggregate c tp none with
  | .error er => ({ s with txpool := tp, stempool := sp0 }, some er)
  | .ok agg => ({ s with txpool := tp, stempool := Pool.reconcile c sp0 agg }, none)

/-- `TransactionPool::reconcile_reorg_cache` -/
def TxPool.reconcileReorgCache (c : Ctx) (s : TxPool) : TxPool :=
  s.cache.foldl (fun acc e => (acc.addToTxpool c e).1) s

/-- `truncate_reorg_cache` with a cutoff that removes the `n` oldest entries -/
def TxPool.truncateCache (s : TxPool) (n : Nat) : TxPool := { s with cache := s.cache.drop n }

def TxPool.evictFromTxpool (c : Ctx) (s : TxPool) : TxPool := { s with txpool := s.txpool.evict c }

def TxPool.prepareMineable (c : Ctx) (s : TxPool) : Except Err (List Tx) :=
  s.txpool.prepareMineable c c.cfg.mineW

/-! ## the property's specification -/

/-- ids of the unspent outputs at the head -/
def utxoIds (c : Ctx) : List Nat := c.head.utxo.map (·.1)

def unspentCount (utxo : List Nat) (o : Nat) : Nat := if o ∈ utxo then 1 else 0

/-- **Jointly valid**: applying all the transactions together to the unspent set yields a set
again.  For every commitment `o`, with `u = 1` if `o` is unspent at the head and `0` otherwise:
the spends of `o` are covered by distinct instances of `o` (the unspent one and those created by
the transactions) — no double spend, no spend of a missing output — and at most one instance is
left — no duplicate of an unspent output; and every transaction conserves value. -/
structure JointlyValid (outs : List OutDef) (utxo : List Nat) (txs : List Tx) : Prop where
  covered : ∀ o, (allIns txs).count o ≤ (allOuts txs).count o + unspentCount utxo o
  noDup : ∀ o, (allOuts txs).count o + unspentCount utxo o ≤ (allIns txs).count o + 1
  balanced : ∀ t ∈ txs, t.balanced outs = true

/-- executable form of `JointlyValid` (checked on the commitments that occur) -/
def jointlyValidB (outs : List OutDef) (utxo : List Nat) (txs : List Tx) : Bool :=
  let I := allIns txs
  let O := allOuts txs
  (I ++ O).all (fun o =>
    decide (I.count o ≤ O.count o + unspentCount utxo o) &&
    decide (O.count o + unspentCount utxo o ≤ I.count o + 1)) &&
  txs.all (fun t => t.balanced outs)

/-- inputs of transactions of the list that exist nowhere: neither unspent at the head nor
created by a transaction of the list (what the harness computes on the real pool by looking up
every input of every entry with `Chain::get_unspent`) -/
def orphans (utxo : List Nat) (txs : List Tx) : List (Tx × Nat) :=
  txs.flatMap fun t => (t.ins.filter fun i => !(utxo.contains i || (allOuts txs).contains i)).map (t, ·)

/-- **every input available**: each input of each transaction is unspent at the head or created
by a transaction of the list -/
def Avail (utxo : List Nat) (txs : List Tx) : Prop :=
  ∀ t ∈ txs, ∀ i ∈ t.ins, i ∈ utxo ∨ i ∈ allOuts txs

/-- the block a miner assembles from `txs` on top of the head (`mine_block.rs::build_block`):
aggregate with cut-through, add the coinbase output `cbId` and the coinbase kernel -/
def mkBlock (c : Ctx) (a : Tx) (cbId : Nat) : GV.Chain.Blk :=
  { id := 0, parent := none, h := c.head.height + 1, work := 0,
    ver := GV.Chain.headerVersion {} (c.head.height + 1), ts := 0,
    ins := a.ins, outs := a.outs.map (·, false) ++ [(cbId, true)],
    kers := a.kers.map (·.ker) ++ [.cb], tags := [] }

def freshId (c : Ctx) : Nat := (c.outs.map (·.id)).foldr max 0 + 1

/-- `TxKernel::is_nrd` on a kernel of a block -/
def kerIsNrd (k : Ker) : Bool := match k with | .nrd .. => true | _ => false

/-- `Block::verify_nrd_kernels_for_header_version` (core/src/core/block.rs), the feature-flag
half: while `global::is_nrd_enabled()` is false a block with an NRD kernel ANYWHERE in it is
invalid (`NRDKernelNotEnabled`).  The flag is the one `verify_kernel_variants` reads
(`Cfg.nrdEnabled`); the header-version half is `GV.Chain.nrdEraViolation` inside `validateBody`.
(`Model/Chain.lean` itself has no flag: the chain domain runs with NRD enabled.) -/
def blockNrdGate (nrdEnabled : Bool) (b : GV.Chain.Blk) : Option Err :=
  if b.kers.any kerIsNrd && !nrdEnabled then
    some "Block:NRDKernelNotEnabled"
  else none

/-- does the chain model accept the block built from the mineable set?  (`process_block`: the NRD
feature-flag gate with the SAME flag the pool's admission reads, then `validateBody` /
`applyBlock` of the chain model) -/
def mineVerdict (c : Ctx) (txs : List Tx) : Bool :=
  match aggregate txs with
  | .error _ => false
  | .ok a =>
    let cb := freshId c
    let p : GV.Chain.Params := { maturity := c.cfg.maturity }
    let outs := c.outs ++ [{ id := cb, cb := true, v := p.reward + a.fee }]
    let b := mkBlock c a cb
    decide (a.weight + 24 ≤ min c.cfg.maxBlockW (max c.cfg.mineW 24)) &&
    (blockNrdGate c.cfg.nrdEnabled b).isNone &&
    (GV.Chain.validateBody p outs b (sumVals outs b.ins)).isNone &&
    (match GV.Chain.applyBlock p c.head b with | .ok _ => true | .error _ => false)

end GV.Pool

/-! ## histories of pool operations (what the theorems of C14 quantify over) -/
namespace GV.Pool
open GV.Chain (UState)

inductive Op
  /-- `TransactionPool::add_to_pool(src, tx, stem)`; `stemOk`: the Dandelion relay accepted -/
  | submit (src : Src) (tx : Tx) (stem stemOk : Bool)
  /-- a block became the new head (status Next or Reorg): the chain is now at `head` / header
  version `ver`; `reconcile_block` with the block's inputs and kernels -/
  | block (head : UState) (ver : Nat) (ins kers : List Nat)
  /-- `reconcile_reorg_cache` (the server calls it after `reconcile_block` on a reorg) -/
  | reorgCache
  /-- `evict_from_txpool` -/
  | evict
  /-- `truncate_reorg_cache` dropping the `n` oldest entries -/
  | truncate (n : Nat)

def step (cs : Ctx × TxPool) : Op → Ctx × TxPool
  | .submit src tx stem ok => (cs.1, (cs.2.addToPool cs.1 src tx stem ok).1)
  | .block head ver ins kers =>
    let c' : Ctx := { cs.1 with head := head, ver := ver }
    (c', (cs.2.reconcileBlock c' ins kers).1)
  | .reorgCache => (cs.1, cs.2.reconcileReorgCache cs.1)
  | .evict => (cs.1, cs.2.evictFromTxpool cs.1)
  | .truncate n => (cs.1, cs.2.truncateCache n)

def run (cs : Ctx × TxPool) (ops : List Op) : Ctx × TxPool := ops.foldl step cs

/-- the operation can evict: an explicit eviction, or a submission while the txpool is over
`max_pool_size` -/
def evicts (cs : Ctx × TxPool) : Op → Prop
  | .evict => True
  | .submit _ _ _ _ => cs.2.txpool.length > cs.1.cfg.maxPool
  | _ => False

/-- no operation of the history evicts -/
def NoEvict : Ctx × TxPool → List Op → Prop
  | _, [] => True
  | cs, op :: ops => ¬ evicts cs op ∧ NoEvict (step cs op) ops

end GV.Pool
