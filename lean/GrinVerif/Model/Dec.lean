import GrinVerif.Model.Ser
import GrinVerif.Gen.Msg
/-! # `Dec` — instrumented decoders (property C11)

The decoders of `core/src/ser.rs` and of the types that are reachable from the network / the API, run
in an instrumented form

    Dec α := Bytes → Outcome α        Outcome = ok value rest alloc | err e alloc | panic site alloc

* `alloc` is a ghost counter of **requested allocation in bytes**: every `Vec::with_capacity(n)`,
  `vec![0; n]`, `BytesMut::reserve(n)`, `to_string()` is charged where the Rust has it (element size
  × count), *before* the read that may fail, exactly as in the code.  A `Vec` that is only grown by
  `push` of items that were already read is not charged (the allocator sees at most twice its final
  size by amortised doubling; the harness compares with that slack).
* every `unwrap`, index, slice, `-`, capacity computation that can fail in release is an explicit
  `panic` branch.  The C11 theorems say which of these branches are unreachable — and, where they are
  reachable (`MerkleProof::read`, `MerkleProof::from_hex`, `util::from_hex`), exhibit the input.
* the two `Reader` implementations that see untrusted bytes differ in one observable way:
  `BinReader::read_fixed_bytes` (`ser::deserialize`, used by `msg::read_body`, `MerkleProof::from_hex`)
  allocates `vec![0; len]` (cap 100 000) *before* `read_exact`; `BufReader::read_fixed_bytes` (the
  codec) checks `has_remaining(len)` first.  `Rdr` selects the behaviour.

Import-free apart from `Model.Ser` and the generated tables. -/
namespace GV.Dec
open GV GV.Ser

/-- the kinds of release-mode panic sites that occur in the modelled decoders -/
inductive Site
  /-- `Vec::with_capacity(n)` with `n * size_of::<T>() > isize::MAX` ("capacity overflow") -/
  | capacityOverflow
  /-- `Result::unwrap()` on `Err` -/
  | unwrapErr
  /-- `Option::unwrap()` on `None` -/
  | unwrapNone
  /-- `&str[i..j]` with `i` or `j` not on a char boundary -/
  | charBoundary
  /-- slice / `Vec` index out of range -/
  | index
  /-- `assert!` -/
  | assertion
deriving DecidableEq, Repr

def Site.name : Site → String
  | .capacityOverflow => "capacity-overflow"
  | .unwrapErr => "unwrap-err"
  | .unwrapNone => "unwrap-none"
  | .charBoundary => "char-boundary"
  | .index => "index"
  | .assertion => "assert"

inductive Outcome (α : Type)
  | ok (a : α) (rest : Bytes) (alloc : Nat)
  | err (e : SerErr) (alloc : Nat)
  | panic (s : Site) (alloc : Nat)
deriving DecidableEq

namespace Outcome
variable {α β : Type}

def alloc : Outcome α → Nat
  | ok _ _ n => n
  | err _ n => n
  | panic _ n => n

def isPanic : Outcome α → Bool
  | panic _ _ => true
  | _ => false

def addAlloc (k : Nat) : Outcome α → Outcome α
  | ok a r n => ok a r (k + n)
  | err e n => err e (k + n)
  | panic s n => panic s (k + n)

/-- forget the instrumentation (panic has no `Except` image) -/
def toExcept : Outcome α → Option (Except SerErr (α × Bytes))
  | ok a r _ => some (.ok (a, r))
  | err e _ => some (.error e)
  | panic _ _ => none

def map (f : α → β) : Outcome α → Outcome β
  | ok a r n => ok (f a) r n
  | err e n => err e n
  | panic s n => panic s n

/-- outcome class as the harness prints it -/
def cls (inputLen : Nat) : Outcome α → String
  | ok _ r _ => s!"ok {inputLen - r.length}"
  | err e _ => "err " ++ e.name
  | panic _ _ => "panic"

end Outcome

abbrev Dec (α : Type) := Bytes → Outcome α

/-- the `?` operator -/
def bind {α β : Type} (p : Outcome α) (f : α → Bytes → Outcome β) : Outcome β :=
  match p with
  | .ok a r n => (f a r).addAlloc n
  | .err e n => .err e n
  | .panic s n => .panic s n

/-- an uninstrumented `Ser` read that allocates nothing -/
def lift {α : Type} (p : Except SerErr (α × Bytes)) : Outcome α :=
  match p with
  | .ok (a, r) => .ok a r 0
  | .error e => .err e 0

/-- which `Reader` implementation is reading -/
inductive Rdr
  /-- `BinReader` over a byte slice (`ser::deserialize`) -/
  | bin
  /-- `BufReader` over `Bytes` (the codec) -/
  | buf
deriving DecidableEq, Repr

def ISIZE_MAX : Nat := 2^63 - 1

/-- `Vec::<T>::with_capacity(n)` with `size_of::<T>() = sz`, then the continuation -/
def withCapacity {β : Type} (n sz : Nat) (k : Outcome β) : Outcome β :=
  if n * sz > ISIZE_MAX then .panic .capacityOverflow 0 else k.addAlloc (n * sz)

/-! ## primitives -/

def rU8 : Dec Nat := fun bs => lift (readU8 bs)
def rU16 : Dec Nat := fun bs => lift (readU16 bs)
def rU32 : Dec Nat := fun bs => lift (readU32 bs)
def rU64 : Dec Nat := fun bs => lift (readU64 bs)

/-- `read_fixed_bytes(len)`: cap, then (`bin`) allocate-then-read or (`buf`) check-then-allocate -/
def rFixed (rd : Rdr) (len : Nat) : Dec Bytes := fun bs =>
  if len > MAX_FIXED_READ then .err .tooLarge 0
  else match splitExact len bs with
    | some (x, r) => .ok x r len
    | none => .err .ioEof (match rd with | .bin => len | .buf => 0)

/-- `read_bytes_len_prefix` -/
def rBytesLenPrefix (rd : Rdr) : Dec Bytes := fun bs =>
  bind (rU64 bs) fun len r => rFixed rd len r

/-- `expect_u8` -/
def rExpectU8 (v : Nat) : Dec Nat := fun bs => lift (expectU8 v bs)

/-- `Hash::read` (`copy_from_slice` of a 32-byte `Vec` into `[0; 32]`: lengths equal by construction) -/
def rHash (rd : Rdr) : Dec Bytes := rFixed rd 32

/-- `for _ in 0..n { v.push(T::read(reader)?) }` -/
def readN {α : Type} (p : Dec α) : Nat → Dec (List α)
  | 0, bs => .ok [] bs 0
  | n+1, bs => bind (p bs) fun x r => bind (readN p n r) fun xs r' => .ok (x :: xs) r' 0

/-! ## `MerkleProof` (`core/src/core/merkle_proof.rs`) -/

structure MerkleProof where
  mmrSize : Nat
  path : List Bytes
deriving DecidableEq, Repr

/-- the cap of the pre-allocation in `MerkleProof::read` (`std::cmp::min(path_len, 64)`) -/
def MERKLE_PREALLOC : Nat := 64

/-- `Readable for MerkleProof`: `Vec::with_capacity(min(path_len, 64) as usize)` of 32-byte hashes, then
exactly `path_len` hashes are read (`path_len` straight from the wire) -/
def merkleProof (rd : Rdr) : Dec MerkleProof := fun bs =>
  bind (rU64 bs) fun mmrSize r =>
  bind (rU64 r) fun pathLen r =>
  withCapacity (min pathLen MERKLE_PREALLOC) 32
    (bind (readN (rHash rd) pathLen r) fun path r => .ok { mmrSize := mmrSize, path := path } r 0)

def encMerkleProof (p : MerkleProof) : Bytes :=
  writeU64 p.mmrSize ++ writeU64 p.path.length ++ p.path.flatten

/-- `MerkleProof::read` as it was before the repair (`Vec::with_capacity(path_len as usize)`): kept
to state, kernel-checked, what the repaired line rules out (`Props/C11.lean`) -/
def merkleProofUnrepaired (rd : Rdr) : Dec MerkleProof := fun bs =>
  bind (rU64 bs) fun mmrSize r =>
  bind (rU64 r) fun pathLen r =>
  withCapacity pathLen 32
    (bind (readN (rHash rd) pathLen r) fun path r => .ok { mmrSize := mmrSize, path := path } r 0)

/-! ## `util::from_hex` (`util/src/hex.rs`) on the UTF-8 bytes of the `&str` -/

/-- UTF-8 continuation byte `10xxxxxx`; `str::is_char_boundary(i)` is "`i = len` or byte `i` is not one" -/
def isCont (b : Nat) : Bool := 128 ≤ b && b < 192

/-- length in bytes of a `char::is_whitespace` character at the front of `s` (0 if there is none):
U+0009..000D, 0020, 0085, 00A0, 1680, 2000..200A, 2028, 2029, 202F, 205F, 3000 -/
def wsPrefix : Bytes → Nat
  | 0xC2 :: 0x85 :: _ => 2
  | 0xC2 :: 0xA0 :: _ => 2
  | 0xE1 :: 0x9A :: 0x80 :: _ => 3
  | 0xE2 :: 0x80 :: b :: _ => if (0x80 ≤ b && b ≤ 0x8A) || b = 0xA8 || b = 0xA9 || b = 0xAF then 3 else 0
  | 0xE2 :: 0x81 :: 0x9F :: _ => 3
  | 0xE3 :: 0x80 :: 0x80 :: _ => 3
  | b :: _ => if (9 ≤ b && b ≤ 13) || b = 32 then 1 else 0
  | [] => 0

/-- same for the *end* of the string, on the reversed bytes -/
def wsSuffixRev : Bytes → Nat
  | 0x85 :: 0xC2 :: _ => 2
  | 0xA0 :: 0xC2 :: _ => 2
  | 0x80 :: 0x9A :: 0xE1 :: _ => 3
  | 0x9F :: 0x81 :: 0xE2 :: _ => 3
  | 0x80 :: 0x80 :: 0xE3 :: _ => 3
  | b :: 0x80 :: 0xE2 :: _ => if (0x80 ≤ b && b ≤ 0x8A) || b = 0xA8 || b = 0xA9 || b = 0xAF then 3 else 0
  | b :: _ => if (9 ≤ b && b ≤ 13) || b = 32 then 1 else 0
  | [] => 0

def trimStartFuel : Nat → Bytes → Bytes
  | 0, s => s
  | f+1, s => match wsPrefix s with
    | 0 => s
    | k => trimStartFuel f (s.drop k)

def trimEndRevFuel : Nat → Bytes → Bytes
  | 0, s => s
  | f+1, s => match wsSuffixRev s with
    | 0 => s
    | k => trimEndRevFuel f (s.drop k)

/-- `str::trim()` -/
def strTrim (s : Bytes) : Bytes :=
  let a := trimStartFuel s.length s
  (trimEndRevFuel a.length a.reverse).reverse

/-- `trim_start_matches("0x")`: strips the prefix repeatedly -/
def trim0x : Bytes → Bytes
  | 0x30 :: 0x78 :: r => trim0x r
  | s => s

def hexVal (b : Nat) : Option Nat :=
  if 48 ≤ b ∧ b ≤ 57 then some (b - 48)
  else if 97 ≤ b ∧ b ≤ 102 then some (b - 87)
  else if 65 ≤ b ∧ b ≤ 70 then some (b - 55)
  else none

/-- `u8::from_str_radix(&s[i..i+2], 16)` on the two bytes of the slice: an optional leading `+`,
then hex digits (a lone `-` is an invalid digit for an unsigned type) -/
def fromStrRadix16 (a b : Nat) : Option Nat :=
  if a = 43 then hexVal b
  else match hexVal a, hexVal b with
    | some x, some y => some (x * 16 + y)
    | _, _ => none

/-- result of `util::from_hex` -/
inductive HexRes
  | ok (bytes : Bytes)
  /-- `Err(hex.to_string())` -/
  | err
  | panic (s : Site)
deriving DecidableEq, Repr

/-- the `(0..len).step_by(2).map(|i| from_str_radix(&hex[i..i + 2], 16)).collect()` loop; `s` is the
string from byte offset `i` (even) on.  Slicing checks both ends for a char boundary (offset `i` is one
by the previous iteration / because a `&str` starts on one); `collect` stops at the first `Err`. -/
def hexLoop : Bytes → HexRes
  | [] => .ok []
  | [_] => .panic .index          -- unreachable: the length is even
  | a :: b :: r =>
    if isCont a then .panic .charBoundary
    else match r with
      | c :: _ =>
        if isCont c then .panic .charBoundary
        else match fromStrRadix16 a b with
          | none => .err
          | some v => match hexLoop r with
            | .ok vs => .ok (v :: vs)
            | o => o
      | [] => match fromStrRadix16 a b with
          | none => .err
          | some v => .ok [v]

/-- `str::is_ascii` -/
def isAscii (s : Bytes) : Bool := s.all fun b => b < 128

/-- `util::from_hex(hex: &str)` on the UTF-8 bytes of `hex`: odd length or non-ASCII is an `Err` -/
def utilFromHex (s : Bytes) : HexRes :=
  let h := trim0x (strTrim s)
  if h.length % 2 ≠ 0 ∨ isAscii h = false then .err else hexLoop h

/-- requested allocation of `util::from_hex`: the error string copy, or the collected bytes -/
def utilFromHexAlloc (s : Bytes) : Nat :=
  match utilFromHex s with
  | .ok b => b.length
  | .err => (trim0x (strTrim s)).length
  | .panic _ => 0

/-- `MerkleProof::from_hex`: `util::from_hex(hex).map_err(..)?`, then `ser::deserialize_default`
(`BinReader`); both errors are mapped to a string (`err` here; the charge is the copy of the input
plus the message) -/
def merkleProofFromHex (s : Bytes) : Outcome MerkleProof :=
  match utilFromHex s with
  | .ok bytes => (merkleProof .bin bytes).addAlloc bytes.length
  | .err => .err .corrupted ((trim0x (strTrim s)).length + 40)
  | .panic st => .panic st 0

/-! ## `Segment<T>` / `SegmentProof` read (`core/src/core/pmmr/segment.rs`)

only the read side (counts, pre-allocation caps, position order); the segment *model* belongs to the
`seg` domain. -/

/-- `read_segment_item_count` -/
def segItemCount : Dec Nat := fun bs =>
  bind (rU64 bs) fun count r =>
    if count > GV.Gen.MAX_SEGMENT_READ_ITEMS then .err .tooLarge 0 else .ok count r 0

/-- the loop of `read_segment_positions` (`last_pos` threaded; stores `pos - 1`, never underflows
because `pos > last_pos ≥ 0`) -/
def segPositionsLoop : Nat → Nat → Dec (List Nat)
  | 0, _, bs => .ok [] bs 0
  | n+1, last, bs =>
    bind (rU64 bs) fun pos r =>
      if pos ≤ last then .err .sort 0
      else bind (segPositionsLoop n pos r) fun ps r' => .ok ((pos - 1) :: ps) r' 0

/-- `read_segment_positions`: `Vec::with_capacity(min(count, 1024))` of `u64` -/
def segPositions (count : Nat) : Dec (List Nat) := fun bs =>
  withCapacity (min count GV.Gen.SEGMENT_READ_PREALLOC_ITEMS) 8 (segPositionsLoop count 0 bs)

/-- `read_segment_items::<T>`: `Vec::with_capacity(min(count, 1024))` of `T` (`sz = size_of::<T>()`) -/
def segItems {α : Type} (p : Dec α) (sz count : Nat) : Dec (List α) := fun bs =>
  withCapacity (min count GV.Gen.SEGMENT_READ_PREALLOC_ITEMS) sz (readN p count bs)

/-- `Readable for SegmentProof` -/
def segmentProof (rd : Rdr) : Dec (List Bytes) := fun bs =>
  bind (segItemCount bs) fun n r => segItems (rHash rd) 32 n r

structure SegmentId where
  height : Nat
  idx : Nat
deriving DecidableEq, Repr

/-- `Readable for SegmentIdentifier` -/
def segmentId : Dec SegmentId := fun bs =>
  bind (rU8 bs) fun h r => bind (rU64 r) fun i r => .ok { height := h, idx := i } r 0

def encSegmentId (s : SegmentId) : Bytes := writeU8 s.height ++ writeU64 s.idx

structure Segment (α : Type) where
  id : SegmentId
  hashPos : List Nat
  hashes : List Bytes
  leafPos : List Nat
  leafData : List α
  proof : List Bytes

/-- `Readable for Segment<T>`; `p`/`sz` = the leaf reader and `size_of::<T>()` -/
def segment {α : Type} (rd : Rdr) (p : Dec α) (sz : Nat) : Dec (Segment α) := fun bs =>
  bind (segmentId bs) fun id r =>
  bind (segItemCount r) fun nh r =>
  bind (segPositions nh r) fun hashPos r =>
  bind (segItems (rHash rd) 32 nh r) fun hashes r =>
  bind (segItemCount r) fun nl r =>
  bind (segPositions nl r) fun leafPos r =>
  bind (segItems p sz nl r) fun leafData r =>
  bind (segmentProof rd r) fun proof r =>
    .ok { id := id, hashPos := hashPos, hashes := hashes, leafPos := leafPos, leafData := leafData,
          proof := proof } r 0

end GV.Dec
