import GrinVerif.Model.PowCtx
import GrinVerif.Model.PowSelect
/-! # `pow::verify_size(&BlockHeader)` (core/src/pow.rs) — the node's entry point

```
let mut ctx = global::create_pow_context::<u64>(bh.height, bh.pow.edge_bits(),
                                                bh.pow.proof.nonces.len(), MAX_SOLS)?;
ctx.set_header_nonce(bh.pre_pow(), None, false)?;
ctx.verify(&bh.pow.proof)
```
The context is created for the header's height / edge_bits under the thread's chain type, with
`proof_size` = the number of nonces the header CARRIES (not `global::proofsize()`); each `verify`
then compares the nonce count with `global::proofsize()` first. A header read in the skip-proof
deserialisation mode carries an empty nonce vector. -/
namespace GV.Pow
open GV.Gen

/-- `global::proofsize()` -/
def proofsizeOf : ChainType → Nat
  | .automated => AUTOMATED_TESTING_PROOF_SIZE
  | .user => USER_TESTING_PROOF_SIZE
  | .testnet | .mainnet => PROOFSIZE

/-- what `verify_size` can answer besides `Ok(())` -/
inductive SizeErr
  /-- `create_pow_context` failed: `no_cuckaroo_ctx()` ("no cuckaroo past HardFork4") -/
  | noCtx
  /-- the selected context's `verify` refused -/
  | verify (e : Err)
  deriving DecidableEq, Repr

instance : DecidableEq (Except SizeErr Unit)
  | .ok (), .ok () => isTrue rfl
  | .error a, .error b =>
    if h : a = b then isTrue (by rw [h]) else isFalse (fun e => h (by injection e))
  | .ok _, .error _ => isFalse (fun e => by cases e)
  | .error _, .ok _ => isFalse (fun e => by cases e)

def SizeErr.name : SizeErr → String
  | .noCtx => "noctx"
  | .verify e => e.name

/-- `pow::verify_size(bh)` with `height = bh.height`, `eb = bh.pow.edge_bits()`,
`prePow = bh.pre_pow()`, `nonces = bh.pow.proof.nonces` under chain type `c` -/
def verifySize (c : ChainType) (height eb : Nat) (prePow : Bytes) (nonces : List Nat) : Except SizeErr Unit :=
  match selectVariant c height eb with
  | none => .error .noCtx
  | some v =>
    let ctx := (Ctx.new v eb (proofsizeOf c) nonces.length).step (.seed prePow none false)
    match ctx.verify nonces with
    | .ok () => .ok ()
    | .error e => .error (.verify e)

end GV.Pow
