import GrinVerif.Model.CodecConn
/-! # The glue above `conn` (model of the logic of `p2p/src/peer.rs` and `p2p/src/protocol.rs`)

* which protocol version the `Codec` and every outgoing `Msg` use: `info.version`, the version the
  handshake negotiated (`Peer::new` → `conn::listen(conn, info.version, …)`, `Peer::send` →
  `Msg::new(msg_type, msg, self.info.version)`, every response of `Protocol::consume` →
  `self.peer_info.version`);
* the `TrackingAdapter`: an LRU of the last `MAX_TRACK_SIZE` hashes RECEIVED from this peer
  (`push_recv` in `tx_kernel_received`, `transaction_received` unless stem, `block_received`,
  `compact_block_received`, `header_received`), consulted by `Peer::send_header`,
  `send_compact_block`, `send_tx_kernel_hash`, `send_transaction` (`has_recv`, which — going through
  `LruCache::contains_key`, i.e. `get_mut` — also REFRESHES the entry); the LRU of requested blocks
  whose `Options` override those of the delivery;
* `Protocol::consume`: a banned peer is disconnected before anything else happens; Ping / Pong
  bookkeeping (`peer_difficulty(addr, total_difficulty, height)`; a Ping is answered with OUR total
  difficulty and height); the gate in front of a `TxHashSetArchive` (receive ready ∧ requested from this
  peer, the request is used up); a `BanReason` ends the connection.

Hashes are free terms (`Bytes`).  Constants and the list of tracking callbacks / guarded senders are
regenerated into `Gen/CodecConn.lean`. -/
namespace GV.Codec
open GV GV.Ser GV.Msg GV.Gen.Msg GV.Gen.CodecConn

/-- `LruCache::insert(k, v)` with capacity `cap` (least recently used first): an existing key moves to
the most-recent end; beyond the capacity the least recently used entry goes -/
def lruInsert {α : Type} (cap : Nat) (l : List (Bytes × α)) (k : Bytes) (v : α) : List (Bytes × α) :=
  let l' := l.filter (fun e => e.1 != k) ++ [(k, v)]
  if l'.length > cap then l'.drop 1 else l'

/-- `LruCache::get_mut(k)` (also behind `contains_key`): the value, and the entry refreshed -/
def lruGet {α : Type} (l : List (Bytes × α)) (k : Bytes) : Option α × List (Bytes × α) :=
  match l.find? (fun e => e.1 == k) with
  | some e => (some e.2, l.filter (fun e => e.1 != k) ++ [e])
  | none => (none, l)

/-- the state of one `Peer` that the glue logic reads and writes -/
structure Glue where
  /-- `info.version`: the negotiated protocol version -/
  ver : Nat
  /-- `info.capabilities`: what the remote announced -/
  caps : Nat
  /-- `info.addr` -/
  addr : SockAddr
  /-- what our adapter reports as our chain state -/
  td : Nat
  height : Nat
  /-- `TrackingAdapter.received` -/
  received : List (Bytes × Unit)
  /-- `TrackingAdapter.requested` (hash, `chain::Options` bits) -/
  requested : List (Bytes × Nat)
  /-- `adapter.is_banned(info.addr)` -/
  banned : Bool
  /-- `adapter.txhashset_receive_ready()` -/
  ready : Bool
  /-- `state_sync_requested` -/
  syncRequested : Bool
deriving Repr

/-- `Peer::new` after a handshake between a node at `ours` and a remote announcing `theirs` -/
def Glue.new (ours theirs caps : Nat) (addr : SockAddr) (td height : Nat) : Glue :=
  { ver := negotiate ours theirs, caps := caps, addr := addr, td := td, height := height,
    received := [], requested := [], banned := false, ready := false, syncRequested := false }

def TX_KERNEL_HASH : Nat := 8

/-- `TrackingAdapter::has_recv` -/
def hasRecv (g : Glue) (h : Bytes) : Bool × Glue :=
  let (r, l) := lruGet g.received h
  (r.isSome, { g with received := l })

/-- `TrackingAdapter::push_recv` -/
def pushRecv (g : Glue) (h : Bytes) : Glue :=
  { g with received := lruInsert MAX_TRACK_SIZE g.received h () }

/-- a frame arriving from the remote, as far as the glue is concerned -/
inductive In
  | ping (td h : Nat)
  | pong (td h : Nat)
  | banReason
  | kernel (h : Bytes)
  /-- `Transaction` / `StemTransaction` with the hash of its first kernel -/
  | tx (k0 : Bytes) (stem : Bool)
  | block (h : Bytes)
  | cblock (h : Bytes)
  | header (h : Bytes)
  /-- `GetBlock` / `GetCompactBlock` / `GetTransaction`: does our adapter have it? -/
  | getBlock (h : Bytes) (found : Bool)
  | getCompactBlock (h : Bytes) (found : Bool)
  | getTx (h : Bytes) (found : Bool)
  | getPeerAddrs (caps : Nat)
  | getHeaders (n : Nat)
  /-- `TxHashSetArchive { hash, bytes }` -/
  | archive (h : Bytes) (bytes : Nat)
deriving Repr

/-- the calls the underlying adapter sees -/
inductive Call
  | peerDifficulty (addr : SockAddr) (td h : Nat)
  | kernel (h : Bytes)
  | tx (k0 : Bytes) (stem : Bool)
  | block (h : Bytes) (opts : Nat)
  | cblock (h : Bytes)
  | header (h : Bytes)
  | getBlock (h : Bytes)
  | getTx (h : Bytes)
  | findPeers (caps : Nat)
  | locate (n : Nat)
deriving DecidableEq, Repr

/-- what `Protocol::consume` returns -/
inductive GOut
  | none
  /-- `Consumed::Response`: type byte; `pong` carries its body, for the stored objects the body is
  the adapter's object serialised at `ver` -/
  | pong (td h : Nat)
  | stored (t : Nat)
  | attachment (size : Nat)
  | disconnect
  /-- `Err(Error::BadMessage)`: not tolerated by `try_break!` -/
  | badMessage
deriving DecidableEq, Repr

/-- `Protocol::consume` behind the `TrackingAdapter` -/
def consumeGlue (g : Glue) (m : In) : Glue × List Call × GOut :=
  if g.banned then (g, [], .disconnect) else
  match m with
  | .ping td h => (g, [.peerDifficulty g.addr td h], .pong g.td g.height)
  | .pong td h => (g, [.peerDifficulty g.addr td h], .none)
  | .banReason => (g, [], .disconnect)
  | .kernel h => (pushRecv g h, [.kernel h], .none)
  | .tx k0 stem => ((if stem then g else pushRecv g k0), [.tx k0 stem], .none)
  | .block h =>
    let g1 := pushRecv g h
    let (o, l) := lruGet g1.requested h
    ({ g1 with requested := l }, [.block h (o.getD 0)], .none)
  | .cblock h => (pushRecv g h, [.cblock h], .none)
  | .header h => (pushRecv g h, [.header h], .none)
  | .getBlock h found => (g, [.getBlock h], if found then .stored T_Block else .none)
  | .getCompactBlock h found => (g, [.getBlock h], if found then .stored T_CompactBlock else .none)
  | .getTx h found => (g, [.getTx h], if found then .stored T_Transaction else .none)
  | .getPeerAddrs caps => (g, [.findPeers caps], .stored T_PeerAddrs)
  | .getHeaders n => (g, [.locate n], .stored T_Headers)
  | .archive _ bytes =>
    if !g.ready then (g, [], .badMessage)
    else if !g.syncRequested then (g, [], .badMessage)
    else ({ g with syncRequested := false }, [], .attachment bytes)

/-- what the harness asks the `Peer` to send -/
inductive Out
  | ping (td h : Nat)
  | header (h : Bytes)
  | cblock (h : Bytes)
  | kernel (h : Bytes)
  /-- `send_transaction` of a transaction whose first kernel hashes to `k0` -/
  | tx (k0 : Bytes)
  | stem
  | blockReq (h : Bytes) (opts : Nat)
  | txhashsetReq
deriving Repr

/-- `Peer::send_*`: the new state and the frame type put on the send channel (`none`: suppressed,
`Ok(false)`).  With `TX_KERNEL_HASH` among the remote's capabilities a transaction goes out as its
kernel hash. -/
def sendGlue (g : Glue) : Out → Glue × Option Nat
  | .ping _ _ => (g, some T_Ping)
  | .header h => let (r, g') := hasRecv g h; (g', if r then none else some T_Header)
  | .cblock h => let (r, g') := hasRecv g h; (g', if r then none else some T_CompactBlock)
  | .kernel h => let (r, g') := hasRecv g h; (g', if r then none else some T_TransactionKernel)
  | .tx k0 =>
    let (r, g') := hasRecv g k0
    (g', if r then none else some (if g.caps &&& TX_KERNEL_HASH ≠ 0 then T_TransactionKernel else T_Transaction))
  | .stem => (g, some T_StemTransaction)
  | .blockReq h opts => ({ g with requested := lruInsert MAX_TRACK_SIZE g.requested h opts }, some T_GetBlock)
  | .txhashsetReq => ({ g with syncRequested := true }, some T_TxHashSetRequest)

/-- `Peer::is_abusive`: more than `MAX_PEER_MSG_PER_MIN` counted entries in the receive tracker -/
def isAbusive (receivedEntries : List (Nat × Bool)) : Bool :=
  decide (trackedCount (rcOf receivedEntries) > MAX_PEER_MSG_PER_MIN)

end GV.Codec
