import GrinVerif.Model.CodecConn
/-! # The glue above `conn` (model of the logic of `p2p/src/peer.rs` and `p2p/src/protocol.rs`)

* which protocol version the `Codec` and every outgoing `Msg` use: `info.version`, the version the
  handshake negotiated (`Peer::new` → `conn::listen(conn, info.version, …)`, `Peer::send` →
  `Msg::new(msg_type, msg, self.info.version)`, every response of `Protocol::consume` →
  `self.peer_info.version`);
* the `TrackingAdapter`: an LRU of the last `MAX_TRACK_SIZE` hashes RECEIVED from this peer
  (`push_recv` in `tx_kernel_received`, `transaction_received` unless stem, `block_received`,
  `compact_block_received`, `header_received`), consulted by `Peer::send_header`,
  `send_compact_block`, `send_tx_kernel_hash`, `send_transaction` (`has_recv`, which — going through
  `LruCache::contains_key`, i.e. `get_mut` — also REFRESHES the entry); the LRU of requested blocks
  whose `Options` override those of the delivery;
* `Protocol::consume`: a banned peer is disconnected before anything else happens; Ping / Pong
  bookkeeping (`peer_difficulty(addr, total_difficulty, height)`; a Ping is answered with OUR total
  difficulty and height); the gate in front of a `TxHashSetArchive` (receive ready ∧ requested from this
  peer, the request is used up); a `BanReason` ends the connection.

Hashes are free terms (`Bytes`).  Constants and the list of tracking callbacks / guarded senders are
regenerated into `Gen/CodecConn.lean`. -/
namespace GV.Codec
open GV GV.Ser GV.Msg GV.Gen.Msg GV.Gen.CodecConn

/-- `LruCache::insert(k, v)` with capacity `cap` (least recently used first): an existing key moves to
the most-recent end; beyond the capacity the least recently used entry goes -/
def lruInsert {α : Type} (cap : Nat) (l : List (Bytes × α)) (k : Bytes) (v : α) : List (Bytes × α) :=
  let l' := l.filter (fun e => e.1 != k) ++ [(k, v)]
  if l'.length > cap then l'.drop 1 else l'

/-- `LruCache::get_mut(k)` (also behind `contains_key`): the value, and the entry refreshed -/
def lruGet {α : Type} (l : List (Bytes × α)) (k : Bytes) : Option α × List (Bytes × α) :=
  match l.find? (fun e => e.1 == k) with
  | some e => (some e.2, l.filter (fun e => e.1 != k) ++ [e])
  | none => (none, l)

/-- the state of one `Peer` that the glue logic reads and writes -/
structure Glue where
  /-- `info.version`: the negotiated protocol version -/
  ver : Nat
  /-- `info.capabilities`: what the remote announced -/
  caps : Nat
  /-- `info.addr` -/
  addr : SockAddr
  /-- what our adapter reports as our chain state -/
  td : Nat
  height : Nat
  /-- `TrackingAdapter.received` -/
  received : List (Bytes × Unit)
  /-- `TrackingAdapter.requested` (hash, `chain::Options` bits) -/
  requested : List (Bytes × Nat)
  /-- `adapter.is_banned(info.addr)` -/
  banned : Bool
  /-- `adapter.txhashset_receive_ready()` -/
  ready : Bool
  /-- `state_sync_requested` -/
  syncRequested : Bool
deriving Repr

/-- `Peer::new` after a handshake between a node at `ours` and a remote announcing `theirs` -/
def Glue.new (ours theirs caps : Nat) (addr : SockAddr) (td height : Nat) : Glue :=
  { ver := negotiate ours theirs, caps := caps, addr := addr, td := td, height := height,
    received := [], requested := [], banned := false, ready := false, syncRequested := false }

def TX_KERNEL_HASH : Nat := 8

/-- `TrackingAdapter::has_recv` -/
def hasRecv (g : Glue) (h : Bytes) : Bool × Glue :=
  let (r, l) := lruGet g.received h
  (r.isSome, { g with received := l })

/-- `TrackingAdapter::push_recv` -/
def pushRecv (g : Glue) (h : Bytes) : Glue :=
  { g with received := lruInsert MAX_TRACK_SIZE g.received h () }

/-- the four PIBD trees (`Get*Segment` / `*Segment` message pairs) -/
inductive SegKind
  | bitmap | output | rangeproof | kernel
deriving DecidableEq, Repr

def SegKind.reqType : SegKind → Nat
  | .bitmap => T_GetOutputBitmapSegment
  | .output => T_GetOutputSegment
  | .rangeproof => T_GetRangeProofSegment
  | .kernel => T_GetKernelSegment

def SegKind.respType : SegKind → Nat
  | .bitmap => T_OutputBitmapSegment
  | .output => T_OutputSegment
  | .rangeproof => T_RangeProofSegment
  | .kernel => T_KernelSegment

/-- a `Message` handed to `Protocol::consume`, as far as the glue is concerned (every variant of
`enum Message` except `Unknown`, which the reader loop drops before the handler) -/
inductive In
  | ping (td h : Nat)
  | pong (td h : Nat)
  | banReason
  | kernel (h : Bytes)
  /-- `Transaction` / `StemTransaction` with the hash of its first kernel -/
  | tx (k0 : Bytes) (stem : Bool)
  | block (h : Bytes)
  | cblock (h : Bytes)
  | header (h : Bytes)
  /-- `GetBlock` / `GetCompactBlock` / `GetTransaction`: does our adapter have it? -/
  | getBlock (h : Bytes) (found : Bool)
  | getCompactBlock (h : Bytes) (found : Bool)
  | getTx (h : Bytes) (found : Bool)
  | getPeerAddrs (caps : Nat)
  | getHeaders (n : Nat)
  /-- `TxHashSetArchive { hash, bytes }` -/
  | archive (h : Bytes) (bytes : Nat)
  /-- `Attachment(update, _)`: a chunk of the archive has been written to the file; `left` bytes to come -/
  | attachment (h : Bytes) (size left : Nat)
  /-- `Headers(data)`: one batch of `n` headers -/
  | headers (n : Nat)
  /-- `PeerAddrs` with `n` entries -/
  | peerAddrs (n : Nat)
  /-- `TxHashSetRequest`: does `txhashset_archive_header()` succeed, does `txhashset_read` give a file? -/
  | txhashsetReq (hdrOk found : Bool)
  /-- `Get*Segment`: does the adapter produce the segment? -/
  | getSegment (k : SegKind) (found : Bool)
  /-- `*Segment` response -/
  | segment (k : SegKind)
deriving Repr

/-- the calls the underlying adapter sees (every `NetAdapter` / `ChainAdapter` method `Protocol::consume`
uses, in the order it uses them) -/
inductive Call
  | peerDifficulty (addr : SockAddr) (td h : Nat)
  | totalDifficulty
  | totalHeight
  | kernel (h : Bytes)
  | tx (k0 : Bytes) (stem : Bool)
  | block (h : Bytes) (opts : Nat)
  | cblock (h : Bytes)
  | header (h : Bytes)
  | headers (n : Nat)
  | peerAddrs (n : Nat)
  | getBlock (h : Bytes)
  | getTx (h : Bytes)
  | findPeers (caps : Nat)
  | locate (n : Nat)
  | archiveHeader
  | txhashsetRead
  | receiveReady
  | downloadUpdate (done total : Nat)
  | tmpfile
  | txhashsetWrite (h : Bytes)
  | getSegment (k : SegKind)
  | recvSegment (k : SegKind)
deriving DecidableEq, Repr

/-- what `Protocol::consume` returns -/
inductive GOut
  | none
  /-- `Consumed::Response`: type byte; `pong` carries its body, for the stored objects the body is
  the adapter's object serialised at `ver` -/
  | pong (td h : Nat)
  | stored (t : Nat)
  /-- `Consumed::Response` of a message with an attachment (`add_attachment`) -/
  | storedAtt (t : Nat)
  | attachment (size : Nat)
  | disconnect
  /-- `Err(Error::BadMessage)`: not tolerated by `try_break!` -/
  | badMessage
  /-- an adapter error passed on by `?` as `Error::Chain`: tolerated by `try_break!`, nothing is sent -/
  | chainErr
  /-- an `io::Error` passed on by `?` as `Error::Connection`: NOT tolerated (unless `TimedOut` / `WouldBlock`) -/
  | ioErr
deriving DecidableEq, Repr

/-- `Protocol::consume` behind the `TrackingAdapter` -/
def consumeGlue (g : Glue) (m : In) : Glue × List Call × GOut :=
  if g.banned then (g, [], .disconnect) else
  match m with
  | .ping td h => (g, [.peerDifficulty g.addr td h, .totalDifficulty, .totalHeight], .pong g.td g.height)
  | .pong td h => (g, [.peerDifficulty g.addr td h], .none)
  | .banReason => (g, [], .disconnect)
  | .kernel h => (pushRecv g h, [.kernel h], .none)
  | .tx k0 stem => ((if stem then g else pushRecv g k0), [.tx k0 stem], .none)
  | .block h =>
    let g1 := pushRecv g h
    let (o, l) := lruGet g1.requested h
    ({ g1 with requested := l }, [.block h (o.getD 0)], .none)
  | .cblock h => (pushRecv g h, [.cblock h], .none)
  | .header h => (pushRecv g h, [.header h], .none)
  | .getBlock h found => (g, [.getBlock h], if found then .stored T_Block else .none)
  | .getCompactBlock h found => (g, [.getBlock h], if found then .stored T_CompactBlock else .none)
  | .getTx h found => (g, [.getTx h], if found then .stored T_Transaction else .none)
  | .getPeerAddrs caps => (g, [.findPeers caps], .stored T_PeerAddrs)
  | .getHeaders n => (g, [.locate n], .stored T_Headers)
  | .archive _ bytes =>
    if !g.ready then (g, [.receiveReady], .badMessage)
    else if !g.syncRequested then (g, [.receiveReady], .badMessage)
    else ({ g with syncRequested := false }, [.receiveReady, .downloadUpdate 0 bytes, .tmpfile], .attachment bytes)
  | .attachment h size left =>
    (g, .downloadUpdate (size - left) size :: (if left = 0 then [.txhashsetWrite h] else []), .none)
  | .headers n => (g, [.headers n], .none)
  | .peerAddrs n => (g, [.peerAddrs n], .none)
  | .txhashsetReq hdrOk found =>
    if !hdrOk then (g, [.archiveHeader], .chainErr)
    else (g, [.archiveHeader, .txhashsetRead], if found then .storedAtt T_TxHashSetArchive else .none)
  | .getSegment k found => (g, [.getSegment k], if found then .stored k.respType else .none)
  | .segment k => (g, [.recvSegment k], .none)

/-- what the harness asks the `Peer` to send: one constructor per `pub fn send_*` of `impl Peer` -/
inductive Out
  | ping (td h : Nat)
  | banReason
  | header (h : Bytes)
  | cblock (h : Bytes)
  | kernel (h : Bytes)
  /-- `send_transaction` of a transaction whose first kernel hashes to `k0` -/
  | tx (k0 : Bytes)
  | stem
  | headerReq
  | txReq
  | blockReq (h : Bytes) (opts : Nat)
  | cblockReq
  | peerReq
  | txhashsetReq
  | segReq (k : SegKind)
deriving Repr

/-- `Peer::send_*`: the new state and the frame type put on the send channel (`none`: suppressed,
`Ok(false)`).  With `TX_KERNEL_HASH` among the remote's capabilities a transaction goes out as its
kernel hash. -/
def sendGlue (g : Glue) : Out → Glue × Option Nat
  | .ping _ _ => (g, some T_Ping)
  | .banReason => (g, some T_BanReason)
  | .header h => let (r, g') := hasRecv g h; (g', if r then none else some T_Header)
  | .cblock h => let (r, g') := hasRecv g h; (g', if r then none else some T_CompactBlock)
  | .kernel h => let (r, g') := hasRecv g h; (g', if r then none else some T_TransactionKernel)
  | .tx k0 =>
    let (r, g') := hasRecv g k0
    (g', if r then none else some (if g.caps &&& TX_KERNEL_HASH ≠ 0 then T_TransactionKernel else T_Transaction))
  | .stem => (g, some T_StemTransaction)
  | .headerReq => (g, some T_GetHeaders)
  | .txReq => (g, some T_GetTransaction)
  | .blockReq h opts => ({ g with requested := lruInsert MAX_TRACK_SIZE g.requested h opts }, some T_GetBlock)
  | .cblockReq => (g, some T_GetCompactBlock)
  | .peerReq => (g, some T_GetPeerAddrs)
  | .txhashsetReq => ({ g with syncRequested := true }, some T_TxHashSetRequest)
  | .segReq k => (g, some k.reqType)

/-! ## names, for the tie with the regenerated dispatch tables (`Gen/CodecDispatch.lean`) -/

def SegKind.getName : SegKind → String
  | .bitmap => "GetOutputBitmapSegment" | .output => "GetOutputSegment"
  | .rangeproof => "GetRangeProofSegment" | .kernel => "GetKernelSegment"
def SegKind.respName : SegKind → String
  | .bitmap => "OutputBitmapSegment" | .output => "OutputSegment"
  | .rangeproof => "RangeProofSegment" | .kernel => "KernelSegment"
def SegKind.getMethod : SegKind → String
  | .bitmap => "get_bitmap_segment" | .output => "get_output_segment"
  | .rangeproof => "get_rangeproof_segment" | .kernel => "get_kernel_segment"
def SegKind.recvMethod : SegKind → String
  | .bitmap => "receive_bitmap_segment" | .output => "receive_output_segment"
  | .rangeproof => "receive_rangeproof_segment" | .kernel => "receive_kernel_segment"
def SegKind.sender : SegKind → String
  | .bitmap => "send_bitmap_segment_request" | .output => "send_output_segment_request"
  | .rangeproof => "send_rangeproof_segment_request" | .kernel => "send_kernel_segment_request"

/-- the variant of `enum Message` the input stands for (= the arm of `Protocol::consume` that handles it) -/
def In.arm : In → String
  | .ping _ _ => "Ping" | .pong _ _ => "Pong" | .banReason => "BanReason" | .kernel _ => "TransactionKernel"
  | .tx _ stem => if stem then "StemTransaction" else "Transaction"
  | .block _ => "Block" | .cblock _ => "CompactBlock" | .header _ => "Header"
  | .getBlock _ _ => "GetBlock" | .getCompactBlock _ _ => "GetCompactBlock" | .getTx _ _ => "GetTransaction"
  | .getPeerAddrs _ => "GetPeerAddrs" | .getHeaders _ => "GetHeaders" | .archive _ _ => "TxHashSetArchive"
  | .attachment _ _ _ => "Attachment" | .headers _ => "Headers" | .peerAddrs _ => "PeerAddrs"
  | .txhashsetReq _ _ => "TxHashSetRequest" | .getSegment k _ => k.getName | .segment k => k.respName

/-- the adapter method behind a call -/
def Call.method : Call → String
  | .peerDifficulty _ _ _ => "peer_difficulty" | .totalDifficulty => "total_difficulty" | .totalHeight => "total_height"
  | .kernel _ => "tx_kernel_received" | .tx _ _ => "transaction_received" | .block _ _ => "block_received"
  | .cblock _ => "compact_block_received" | .header _ => "header_received" | .headers _ => "headers_received"
  | .peerAddrs _ => "peer_addrs_received" | .getBlock _ => "get_block" | .getTx _ => "get_transaction"
  | .findPeers _ => "find_peer_addrs" | .locate _ => "locate_headers" | .archiveHeader => "txhashset_archive_header"
  | .txhashsetRead => "txhashset_read" | .receiveReady => "txhashset_receive_ready"
  | .downloadUpdate _ _ => "txhashset_download_update" | .tmpfile => "get_tmpfile_pathname"
  | .txhashsetWrite _ => "txhashset_write" | .getSegment k => k.getMethod | .recvSegment k => k.recvMethod

/-- name of a type byte in `enum Type` -/
def typeName (t : Nat) : String :=
  match typeTable.find? (fun e => e.2 == t) with
  | some e => e.1
  | none => "?"

/-- the outcome as the generated table spells it -/
def GOut.name : GOut → String
  | .none => "None" | .pong _ _ => "Response:Pong" | .stored t => "Response:" ++ typeName t
  | .storedAtt t => "Response:" ++ typeName t ++ "+attachment" | .attachment _ => "Attachment"
  | .disconnect => "Disconnect" | .badMessage => "Err:BadMessage" | .chainErr => "?:Chain" | .ioErr => "?:Connection"

/-- the `pub fn send_*` of `impl Peer` a request of the harness calls -/
def Out.sender : Out → String
  | .ping _ _ => "send_ping" | .banReason => "send_ban_reason" | .header _ => "send_header"
  | .cblock _ => "send_compact_block" | .kernel _ => "send_tx_kernel_hash" | .tx _ => "send_transaction"
  | .stem => "send_stem_transaction" | .headerReq => "send_header_request" | .txReq => "send_tx_request"
  | .blockReq _ _ => "send_block_request" | .cblockReq => "send_compact_block_request" | .peerReq => "send_peer_request"
  | .txhashsetReq => "send_txhashset_request" | .segReq k => k.sender

/-! ## adapter errors (`?` behind an adapter call: `chain::Error` → `Error::Chain`, tolerated by `try_break!`) -/

/-- does `Protocol::consume` pass the result of this adapter call through `?` -/
def Call.fallible : Call → Bool
  | .totalDifficulty | .totalHeight | .kernel _ | .tx _ _ | .block _ _ | .cblock _ | .header _ | .headers _
  | .locate _ | .archiveHeader | .txhashsetWrite _ | .recvSegment _ => true
  | _ => false

/-- the call as the regenerated path table spells it -/
def Call.tag (c : Call) : String := if c.fallible then c.method ++ "?" else c.method

/-- the calls up to and including the first `?`-call of method `f` (`none`: no such call on the path) -/
def truncAt (f : String) : List Call → Option (List Call)
  | [] => none
  | c :: r => if c.fallible && c.method == f then some [c] else (truncAt f r).map (c :: ·)

/-- `Protocol::consume` when the underlying adapter fails in method `f` (`Err(chain::Error)`): the `?`
returns `Err(Error::Chain)` at that call - the later calls are not made, nothing is answered, `try_break!`
tolerates it; what the `TrackingAdapter` remembered BEFORE handing on to the adapter stays remembered -/
def consumeGlueF (g : Glue) (m : In) (f : String) : Glue × List Call × GOut :=
  match truncAt f (consumeGlue g m).2.1 with
  | some pre => ((consumeGlue g m).1, pre, .chainErr)
  | none => consumeGlue g m

/-- `Protocol::consume` when the `io` point of the arm fails (`OpenOptions::create_new(..).open(path)?` of an accepted
`TxHashSetArchive`: the temporary file already exists): everything before it has happened - the request is used
up, the adapter was asked - no attachment is expected, the error is `Error::Connection`, the reader loop ends -/
def consumeGlueIo (g : Glue) (m : In) : Glue × List Call × GOut :=
  match m with
  | .archive _ bytes =>
    if !g.banned && g.ready && g.syncRequested then
      ({ g with syncRequested := false }, [.receiveReady, .downloadUpdate 0 bytes, .tmpfile], .ioErr)
    else consumeGlue g m
  | _ => consumeGlue g m

/-- `Peer::is_abusive`: more than `MAX_PEER_MSG_PER_MIN` counted entries in the receive tracker -/
def isAbusive (receivedEntries : List (Nat × Bool)) : Bool :=
  decide (trackedCount (rcOf receivedEntries) > MAX_PEER_MSG_PER_MIN)

end GV.Codec
