import GrinVerif.Model.Kv
/-! Space accounting of an LMDB environment as far as `store/src/lmdb.rs` relies on it
(`needs_resize`, `env_size`): "no operation fails for lack of space", also when the free space
is fragmented.

LMDB allocates `n` *contiguous* pages for a value that does not fit a leaf (overflow pages,
`OVPAGES(size) = (15 + size) / 4096 + 1`) and single pages for tree nodes.  `mdb_page_alloc`
first looks for a run of `n` consecutive reusable page numbers in the freelist and otherwise
takes the pages behind the last used page; only if that would pass the end of the map does the
operation fail with `MDB_MAP_FULL`.  Deleted / overwritten data leave free pages scattered over
the file: a freelist with many pages but no run of `n`.  Therefore `env_size` measures the used
space as `page_size * last_page_number` (freed pages inside count as used) and `needs_resize`
compares THAT with the map size: what matters is the tail behind the last page.

The model keeps exactly this: map size in pages, number of pages in use from the start of the
file (`lastPg` = first never-used page number), an arbitrary freelist. -/
namespace GV.Kv

def PAGE_SIZE : Nat := 4096

structure Space where
  /-- `map_size / page_size` -/
  mapPages : Nat
  /-- pages `0 .. lastPg-1` have been handed out at some time (`last_page_number + 1`) -/
  lastPg : Nat
  /-- reusable page numbers (all `< lastPg`), in any order, with any gaps -/
  free : List Nat
deriving Repr, DecidableEq

/-- pages `p .. p+n-1` are all reusable -/
def isRun (free : List Nat) (p n : Nat) : Bool := (List.range n).all (fun i => free.contains (p + i))

/-- first reusable page that starts a run of `n` -/
def findRun (free : List Nat) (n : Nat) : Option Nat := free.find? (fun p => isRun free p n)

/-- `mdb_page_alloc(num = n)`; `none` = `MDB_MAP_FULL` -/
def alloc (s : Space) (n : Nat) : Option Space :=
  match findRun s.free n with
  | some p => some { s with free := s.free.filter (fun q => !(decide (p ≤ q) && decide (q < p + n))) }
  | none => if s.lastPg + n ≤ s.mapPages then some { s with lastPg := s.lastPg + n } else none

/-- a batch as the list of its allocation requests (run lengths), in order; pages freed by the
batch itself are not reusable before it commits -/
def allocAll : Space → List Nat → Option Space
  | s, [] => some s
  | s, n :: r => match alloc s n with
    | some s' => allocAll s' r
    | none => none

/-- `OVPAGES`: pages of one value of `len` bytes stored out of line -/
def ovPages (len : Nat) : Nat := (15 + len) / PAGE_SIZE + 1

/-- What the harness line `kv space <map> <last_pg> <need> <chunk>` is compared with: `Store::batch()`
runs `needs_resize` on (map, used = last_pg · 4096) first; the batch is guaranteed to succeed if
the pages it can possibly allocate (`need`, an upper bound computed by the harness) fit behind
the last page of the map it then has. -/
def spaceOk (mapSize lastPg need chunk : Nat) : Bool :=
  let used := lastPg * PAGE_SIZE
  let newSize := (needsResize mapSize used chunk).2
  decide ((lastPg + 1 + need) * PAGE_SIZE ≤ newSize)

end GV.Kv
