import GrinVerif.Model.PowSize
/-! # `pow::verify_size` over the WHOLE `u8` range of `edge_bits`, as compiled in release

`Model/PowSize.lean verifySize` follows the call chain of `pow::verify_size` for the sizes a header
read from the wire can carry (`Proof::read` refuses `edge_bits = 0` and `> 63`).  A `BlockHeader`
built through the API (the stratum server's `submit`: `b.header.pow.proof.edge_bits =
params.edge_bits as u8`, then `pow::verify_size(&b.header)`) can carry ANY `u8`.  This file is the
glue in front of the five `verify` functions with the integer arithmetic of the shipped build
(`overflow-checks` off) for every `edge_bits : u8`:

* `global::create_pow_context(height, edge_bits, proof_size, max_sols)` — `selectVariant`
  (`edge_bits > 29` on the raw `u8`);
* `new_cuckaroo_ctx` / `new_cuckaroom_ctx` / `CuckatooContext::new_impl`:
  `CuckooParams::new(edge_bits, edge_bits, proof_size)`; `new_cuckarood_ctx`: `node_bits =
  edge_bits - 1` (`u8`, wraps to 255 at 0); `new_cuckarooz_ctx`: `node_bits = edge_bits + 1` (`u8`,
  wraps to 0 at 255) — `nodeBitsOf`;
* `CuckooParams::new(edge_bits, node_bits, proof_size)` (core/src/pow/common.rs):
  `num_edges = 1u64 << edge_bits; edge_mask = num_edges - 1; num_nodes = 1u64 << node_bits;
  node_mask = num_nodes - 1` — a `u64` shifted by a `u8` uses the low six bits of the amount:
  `numEdges`, `edgeMaskRel`; the node mask is `maskOfBits node_bits` of `Model/Pow.lean` (a `UInt64`
  shift, which masks its amount the same way);
* `Graph::new(max_edges = num_edges, ..)` (core/src/pow/cuckatoo.rs), reached from
  `CuckatooContext::new_impl` before anything is verified: `max_edges >= u64::max_value() / 2` →
  `Err("graph is to big to build")` — `graphTooBig`;
* `ctx.set_header_nonce(bh.pre_pow(), None, false)`; `ctx.verify(&bh.pow.proof)`.

(In a debug build the shifts by ≥ 64 and the two `u8` wraps panic instead.) -/
namespace GV.Pow
open GV.Gen

/-- `node_bits` handed to `CuckooParams::new` by `new_*_ctx(edge_bits, ..)`, `u8` arithmetic -/
def nodeBitsOf : Variant → Nat → Nat
  | .cuckarood, eb => (eb + 255) % 256
  | .cuckarooz, eb => (eb + 1) % 256
  | _, eb => eb

/-- `num_edges = 1u64 << edge_bits` -/
def numEdges (eb : Nat) : Nat := 2^(eb % 64)

/-- `edge_mask = num_edges - 1` -/
def edgeMaskRel (eb : Nat) : Nat := numEdges eb - 1

/-- `Graph::new`: `max_edges >= u64::max_value() / 2` -/
def graphTooBig (eb : Nat) : Bool := decide (numEdges eb ≥ U64MAX / 2)

/-- edge endpoints of the five graphs as a function of the NODE bits (`epOf` of `PowCtx.lean` is
`epNode` at `edge_bits`, `edge_bits - 1`, `edge_bits + 1`: `epOf_eq_epNode`) -/
def epNode (v : Variant) (k : Keys) (nb : Nat) : Nat → Nat × Nat :=
  match v with
  | .cuckatoo => epCuckatoo k nb
  | .cuckaroo => epBlock k nb 21 false
  | .cuckarood => epBlock k nb 25 false
  | .cuckaroom => epBlock k nb 21 true
  | .cuckarooz => epBlock k nb 21 true

/-- what `verify_size` can answer besides `Ok(())` -/
inductive EntryErr
  /-- `create_pow_context`: `no_cuckaroo_ctx()` -/
  | noCtx
  /-- `Graph::new`: "graph is to big to build" -/
  | graphTooBig
  /-- the selected context's `verify` refused -/
  | verify (e : Err)
  deriving DecidableEq, Repr

instance : DecidableEq (Except EntryErr Unit)
  | .ok (), .ok () => isTrue rfl
  | .error a, .error b =>
    if h : a = b then isTrue (by rw [h]) else isFalse (fun e => h (by injection e))
  | .ok _, .error _ => isFalse (fun e => by cases e)
  | .error _, .ok _ => isFalse (fun e => by cases e)

def EntryErr.name : EntryErr → String
  | .noCtx => "noctx"
  | .graphTooBig => "toobiggraph"
  | .verify e => e.name

/-- the parameters `verify` reads: `global::proofsize()`, `params.edge_mask`, `params.proof_size`
(= the number of nonces the header carries), the bucket mask of that count -/
def entryParams (c : ChainType) (eb nNonces : Nat) : Params :=
  { proofsize := proofsizeOf c, edgeMask := edgeMaskRel eb, ctxProofSize := nNonces,
    bk := fun x => x &&& bucketMask (proofsizeOf c) }

/-- `pow::verify_size(bh)` for every `eb = bh.pow.edge_bits() : u8` -/
def verifySizeEntry (c : ChainType) (height eb : Nat) (prePow : Bytes) (nonces : List Nat) :
    Except EntryErr Unit :=
  match selectVariant c height eb with
  | none => .error .noCtx
  | some v =>
    if v = .cuckatoo ∧ graphTooBig eb = true then .error .graphTooBig
    else
      match verifyOf v (entryParams c eb nonces.length)
          (epNode v (keysOfHeader prePow none) (nodeBitsOf v eb)) nonces with
      | .ok () => .ok ()
      | .error e => .error (.verify e)

/-- the clause "the edges they select … form one simple cycle through all of them" per variant -/
def IsProofCycleOf (v : Variant) (ep : Nat → Nat × Nat) (ns : List Nat) : Prop :=
  match v with
  | .cuckatoo => IsProofCycleCuckatoo (ns.map ep)
  | .cuckaroo => IsProofCycleCuckaroo (ns.map ep)
  | .cuckarood => IsProofCycleCuckarood (ns.map (fun x => (x % 2, ep x)))
  | .cuckaroom => IsProofCycleCuckaroom (ns.map ep)
  | .cuckarooz => IsProofCycleCuckarooz (ns.map ep)

end GV.Pow
