import GrinVerif.Model.Chain
/-! The MMR size fields of a header (`output_mmr_size`, `kernel_mmr_size`; as LEAF COUNTS) against
the block's own path:
* `pipe::validate_header`: the header must claim at least one new output and one new kernel over
  its PARENT'S claim (`output_mmr_count().saturating_sub(prev.output_mmr_count())`): else
  `InvalidMMRSize`, before the root of the header MMR is looked at;
* `Extension::validate_sizes` (chain/src/txhashset/txhashset.rs) after `apply_block` and
  `validate_roots`: `(output_mmr_size, output_mmr_size, kernel_mmr_size)` of the header must be the
  sizes of the output, range-proof and kernel MMR after the block - on the block's own path that is
  the number of outputs / kernels of all blocks from the genesis to this block: else `InvalidMMRSize`.
The driver turns the verdict into the tags `hdr:` / `late:` the chain model reads (as
`Model/ChainInputs.lean` does for input features), so nothing downstream changes. -/
namespace GV.Chain

/-- (block id, claimed output leaves, claimed kernel leaves) -/
abbrev SizeClaims := List (Nat × Nat × Nat)

/-- outputs and kernels of all blocks from the genesis to `id`; fuel = number of blocks -/
def countsTo (blks : List Blk) : Nat → Nat → Nat × Nat
  | 0, _ => (0, 0)
  | fuel+1, id =>
    match blks.find? (·.id == id) with
    | none => (0, 0)
    | some b =>
      let r := match b.parent with
        | none => (0, 0)
        | some p => countsTo blks fuel p
      (r.1 + b.outs.length, r.2 + b.kers.length)

/-- `validate_header`: no new output or no new kernel claimed over the parent's header -/
def claimsNothingNew (claims : SizeClaims) (b : Blk) (co ck : Nat) : Bool :=
  match b.parent with
  | none => false
  | some p =>
    match claims.find? (·.1 == p) with
    | none => false
    | some (_, po, pk) => decide (co - po = 0) || decide (ck - pk = 0)

/-- `validate_sizes`: the claim is not what the MMRs hold after the block on its own path
(`blks` already contains every ancestor; the block itself is added to the count) -/
def sizesWrong (blks : List Blk) (b : Blk) (co ck : Nat) : Bool :=
  let r := match b.parent with
    | none => (0, 0)
    | some p => countsTo blks (blks.length + 1) p
  decide (co ≠ r.1 + b.outs.length) || decide (ck ≠ r.2 + b.kers.length)

/-- the block with the verdicts on its size fields as tags: the header-stage one goes FIRST (it is
decided before `validate_root`), the late one LAST (`validate_roots` runs before `validate_sizes`) -/
def Blk.withSizeCheck (b : Blk) (blks : List Blk) (claims : SizeClaims) (co ck : Nat) : Blk :=
  let t1 := if claimsNothingNew claims b co ck then ["hdr:InvalidMMRSize"] else []
  let t2 := if sizesWrong blks b co ck ∧ !(b.tags.any (·.startsWith "late:")) then ["late:InvalidMMRSize"] else []
  { b with tags := t1 ++ b.tags ++ t2 }

end GV.Chain
