import GrinVerif.Model.Basic
/-! Model of `core/src/core/pmmr/pmmr.rs` (pure position arithmetic), the PMMR over a Vec
backend (`vec_backend.rs`) and `merkle_proof.rs`.  Positions are 0-based as in the code.
Arithmetic is on `Nat`; it coincides with the u64 code wherever the Rust expression does not
overflow (all positions < 2^63; the correspondence check compares in that range). -/

namespace GV.Pmmr

/-- `insertion_to_pmmr_index`: 2n - popcount n -/
def mmr (n : Nat) : Nat := 2*n - popcount n

/-- the loop of `peak_map_height` / `peak_sizes_height`, peak size `2^k - 1` downwards -/
def greedy : Nat → Nat → Nat → Nat × Nat
  | 0, s, pm => (pm, s)
  | k+1, s, pm =>
    if s ≥ 2^(k+1) - 1 then greedy k (s - (2^(k+1) - 1)) (2*pm+1)
    else greedy k s (2*pm)

/-- `peak_map_height(size)`; `ALL_ONES >> size.leading_zeros()` is `2^(bitLen size) - 1` -/
def peakMapHeight (size : Nat) : Nat × Nat :=
  if size = 0 then (0, 0) else greedy (bitLen size) size 0

def greedySizes : Nat → Nat → List Nat × Nat
  | 0, s => ([], s)
  | k+1, s =>
    if s ≥ 2^(k+1) - 1 then
      let r := greedySizes k (s - (2^(k+1) - 1))
      ((2^(k+1) - 1) :: r.1, r.2)
    else greedySizes k s

/-- `peak_sizes_height(size)` -/
def peakSizesHeight (size : Nat) : List Nat × Nat :=
  if size = 0 then ([], 0) else greedySizes (bitLen size) size

/-- running sums minus one (the `scan` in `peaks`) -/
def scanPeaks : Nat → List Nat → List Nat
  | _, [] => []
  | acc, x :: xs => (acc + x - 1) :: scanPeaks (acc + x) xs

/-- `peaks(size)` -/
def peaks (size : Nat) : List Nat :=
  let r := peakSizesHeight size
  if r.2 = 0 then scanPeaks 0 r.1 else []

/-- `n_leaves(size)` -/
def nLeaves (size : Nat) : Nat :=
  let r := peakMapHeight size
  if r.2 = 0 then r.1 else r.1 + 1

def insertionToPmmrIndex (n : Nat) : Nat := mmr n

/-- `round_up_to_leaf_pos` -/
def roundUpToLeafPos (pos : Nat) : Nat :=
  let r := peakMapHeight pos
  insertionToPmmrIndex (if r.2 = 0 then r.1 else r.1 + 1)

/-- `pmmr_leaf_to_insertion_index` -/
def pmmrLeafToInsertionIndex (pos : Nat) : Option Nat :=
  let r := peakMapHeight pos
  if r.2 = 0 then some r.1 else none

/-- `bintree_postorder_height` -/
def height (pos : Nat) : Nat := (peakMapHeight pos).2

def isLeaf (pos : Nat) : Bool := height pos == 0

/-- bit test `(peak_map & (1 << h)) != 0` -/
def bitSet (pm h : Nat) : Bool := pm / 2^h % 2 == 1

/-- `family(pos)` = (parent, sibling) -/
def family (pos : Nat) : Nat × Nat :=
  let r := peakMapHeight pos
  let peak := 2^r.2
  if bitSet r.1 r.2 then (pos + 1, pos + 1 - 2*peak)
  else (pos + 2*peak, pos + 2*peak - 1)

def isLeftSibling (pos : Nat) : Bool :=
  let r := peakMapHeight pos
  !bitSet r.1 r.2

/-- loop of `family_branch`; `h` is the current height (peak = 2^h) -/
def familyBranchLoop (pm size : Nat) : Nat → Nat → Nat → List (Nat × Nat)
  | 0, _, _ => []
  | fuel+1, cur, h =>
    if cur + 1 < size then
      let cur' := if bitSet pm h then cur + 1 else cur + 2 * 2^h
      let sib := if bitSet pm h then cur' - 2 * 2^h else cur' - 1
      if cur' ≥ size then [] else (cur', sib) :: familyBranchLoop pm size fuel cur' (h+1)
    else []

/-- `family_branch(pos, size)` -/
def familyBranch (pos size : Nat) : List (Nat × Nat) :=
  let r := peakMapHeight pos
  familyBranchLoop r.1 size (size + 1) pos r.2

def bintreeRightmost (pos : Nat) : Nat := pos - height pos
def bintreeLeftmost (pos : Nat) : Nat := pos + 2 - 2 * 2^(height pos)
/-- `bintree_range(pos)` as (start, end-exclusive) -/
def bintreeRange (pos : Nat) : Nat × Nat := (pos + 2 - 2 * 2^(height pos), pos + 1)

/-- `bintree_leaf_pos_iter(pos)` -/
def bintreeLeafPosIter (pos : Nat) : List Nat :=
  match pmmrLeafToInsertionIndex (bintreeLeftmost pos), pmmrLeafToInsertionIndex (bintreeRightmost pos) with
  | some s, some e => (List.range (e + 1 - s)).map fun i => insertionToPmmrIndex (s + i)
  | _, _ => []

/-! ### Hashing interface: the two shapes the code hashes -/

structure HashFn (α H : Type) where
  /-- `(idx, elem).hash()` -/
  leaf : Nat → α → H
  /-- `(idx, (l, r)).hash()` -/
  node : Nat → H → H → H

variable {α H : Type}

/-- inner loop of `PMMR::push`: hash with all immediately preceding peaks.
`j` is the bit index (peak = 2^j). Returns new hashes (in order) or none if a left sibling is missing. -/
def pushLoop (hf : HashFn α H) (hashes : List H) (pm : Nat) : Nat → Nat → Nat → H → List H → Option (List H)
  | 0, _, _, _, acc => some acc
  | fuel+1, j, pos, cur, acc =>
    if bitSet pm j then
      match hashes[pos + 1 - 2 * 2^j]? with
      | none => none
      | some l =>
        let cur' := hf.node (pos + 1) l cur
        pushLoop hf hashes pm fuel (j+1) (pos + 1) cur' (acc ++ [cur'])
    else some acc

/-- `PMMR::push` over a Vec backend whose `hashes` is the state (size = length). -/
def push (hf : HashFn α H) (hashes : List H) (e : α) : Option (List H) :=
  let pos := hashes.length
  let r := peakMapHeight pos
  if r.2 ≠ 0 then none else
  let cur := hf.leaf pos e
  match pushLoop hf hashes r.1 65 0 pos cur [cur] with
  | none => none
  | some new => some (hashes ++ new)

def pushAll (hf : HashFn α H) : List H → List α → Option (List H)
  | hs, [] => some hs
  | hs, e :: es => match push hf hs e with
    | none => none
    | some hs' => pushAll hf hs' es

/-- bag peak hashes right to left: `(peak, rhash).hash_with_index(size)` -/
def bag (hf : HashFn α H) (size : Nat) : List H → Option H
  | [] => none
  | p :: ps => match bag hf size ps with
    | none => some p
    | some r => some (hf.node size p r)

/-- `ReadablePMMR::peaks` (hashes of the peaks present) -/
def peakHashes (hashes : List H) : List H :=
  (peaks hashes.length).filterMap fun p => hashes[p]?

/-- `ReadablePMMR::root`; `none` = ZERO_HASH for empty; error if no peaks -/
inductive RootRes (H : Type) | zero | ok (h : H) | err
deriving DecidableEq, Repr

def root (hf : HashFn α H) (hashes : List H) : RootRes H :=
  if hashes.length = 0 then .zero else
  match bag hf hashes.length (peakHashes hashes) with
  | some h => .ok h
  | none => .err

/-- `bag_the_rhs(peak_pos)` -/
def bagTheRhs (hf : HashFn α H) (hashes : List H) (peakPos : Nat) : Option H :=
  bag hf hashes.length (((peaks hashes.length).filter (· > peakPos)).filterMap fun p => hashes[p]?)

/-- `peak_path(peak_pos)` -/
def peakPath (hf : HashFn α H) (hashes : List H) (peakPos : Nat) : List H :=
  let lhs := ((peaks hashes.length).filter (· < peakPos)).filterMap fun p => hashes[p]?
  let res := match bagTheRhs hf hashes peakPos with
    | some r => lhs ++ [r]
    | none => lhs
  res.reverse

/-- `merkle_proof(pos)`: (mmr_size, path) -/
def merkleProof (hf : HashFn α H) (hashes : List H) (pos : Nat) : Option (Nat × List H) :=
  let size := hashes.length
  if !isLeaf pos then none else
  match hashes[pos]? with
  | none => none
  | some _ =>
    let fb := familyBranch pos size
    let path := fb.filterMap fun x => hashes[x.2]?
    let peakPos := match fb.getLast? with
      | some x => x.1
      | none => pos
    some (size, path ++ peakPath hf hashes peakPos)

/-- position of `x` in a strictly ascending list (`binary_search`) -/
def findIdx (l : List Nat) (x : Nat) : Option Nat :=
  let i := l.idxOf x
  if i < l.length then some i else none

/-- `MerkleProof::verify` / `verify_consume`; `eh i` is the hash of the current node with index i. -/
def verifyAux (hf : HashFn α H) [DecidableEq H] (root : H) (mmrSize : Nat) (pks : List Nat) :
    List H → (Nat → H) → Nat → Bool
  | [], eh, pos => root == (if pos ≥ mmrSize then eh mmrSize else eh pos)
  | sib :: rest, eh, pos =>
    let nodeHash := if pos ≥ mmrSize then eh mmrSize else eh pos
    let fam := family pos
    match findIdx pks pos with
    | some x =>
      if x + 1 = pks.length then verifyAux hf root mmrSize pks rest (fun i => hf.node i sib nodeHash) fam.1
      else verifyAux hf root mmrSize pks rest (fun i => hf.node i nodeHash sib) fam.1
    | none =>
      if fam.1 ≥ mmrSize then verifyAux hf root mmrSize pks rest (fun i => hf.node i sib nodeHash) fam.1
      else if isLeftSibling fam.2 then verifyAux hf root mmrSize pks rest (fun i => hf.node i sib nodeHash) fam.1
      else verifyAux hf root mmrSize pks rest (fun i => hf.node i nodeHash sib) fam.1

def verify (hf : HashFn α H) [DecidableEq H] (root : H) (mmrSize : Nat) (path : List H) (e : α) (pos : Nat) : Bool :=
  verifyAux hf root mmrSize (peaks mmrSize) path (fun i => hf.leaf i e) pos

/-- `PMMR::validate` over the vec backend with nothing removed -/
def validate (hf : HashFn α H) [DecidableEq H] (hashes : List H) : Bool :=
  (List.range hashes.length).all fun n =>
    let h := height n
    if h > 0 then
      match hashes[n]?, hashes[n - 2^h]?, hashes[n - 1]? with
      | some p, some l, some r => hf.node n l r == p
      | _, _, _ => true
    else true

/-! ### Views at a size over a backend with a remove log

`PMMR::at(backend, size)`, `ReadonlyPMMR::at(backend, size)` and `RewindablePMMR::at / rewind`
(read through `as_readonly`) all see the same thing: the first `size` positions of the backend's
hash file, with the hash of a *leaf* hidden when the leaf is in the backend's remove log
(`VecBackend::removed`). `root`, `peaks`, `bag_the_rhs`, `peak_path` and the path of
`merkle_proof` read with `get_from_file` / `get_peak_from_file`, i.e. ignore the remove log;
only the presence test of `merkle_proof` and `prune` use `get_hash`. -/

structure VBackend (H : Type) where
  hashes : List H := []
  removed : List Nat := []

/-- `ReadablePMMR::get_hash` of a view at `size` -/
def vGetHash (b : VBackend H) (size pos : Nat) : Option H :=
  if pos ≥ size then none
  else if isLeaf pos && b.removed.contains pos then none
  else b.hashes[pos]?

/-- what `get_from_file` of a view at `size` can see -/
def vFile (b : VBackend H) (size : Nat) : List H := b.hashes.take size

def vRoot (hf : HashFn α H) (b : VBackend H) (size : Nat) : RootRes H := root hf (vFile b size)

def vPeaks (b : VBackend H) (size : Nat) : List H := peakHashes (vFile b size)

/-- `merkle_proof(pos)` of a view at `size` -/
def vProof (hf : HashFn α H) (b : VBackend H) (size pos : Nat) : Option (Nat × List H) :=
  if !isLeaf pos then none else
  match vGetHash b size pos with
  | none => none
  | some _ => merkleProof hf (vFile b size) pos

/-- `PMMR::prune(pos)` on a view at `size`: `none` = error (not a leaf) -/
def vPrune (b : VBackend H) (size pos : Nat) : Option (Bool × VBackend H) :=
  if !isLeaf pos then none else
  match vGetHash b size pos with
  | none => some (false, b)
  | some _ => some (true, { b with removed := pos :: b.removed })

/-- `RewindablePMMR::rewind(position)`: the new size of the view -/
def rewindView (position : Nat) : Nat := roundUpToLeafPos position

end GV.Pmmr
