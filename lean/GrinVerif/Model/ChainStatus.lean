import GrinVerif.Model.ChainReport
/-! What the node tells its adapter about every block it accepts (C03 observation point
`ChainAdapter::block_accepted(status)`): `Chain::determine_status` / `Chain::is_on_current_chain`
(chain/src/chain.rs) and the fork point returned by `pipe::rewind_and_apply_fork`
(chain/src/pipe.rs).

`processBlockSingleEv` / `checkOrphansEv` / `deliverBlockEv` are `processBlockSingle` /
`checkOrphans` / `deliverBlock` of `Model/Chain.lean` with the notifications collected in the
order the adapter receives them (one `Chain::process_block` call can notify many times: the block
itself, then every orphan it connects); `Props/C03Status.lean` proves that forgetting the
notifications gives back the original functions. -/

namespace GV.Chain

/-- `BlockStatus` with tips reduced to block ids -/
inductive BStatus
  | next (prev : Nat)
  | fork (prev head forkPoint : Nat)
  | reorg (prev prevHead forkPoint : Nat)
deriving Repr, DecidableEq, Inhabited

def BStatus.toString : BStatus → String
  | .next p => s!"next:b{p}"
  | .fork p h f => s!"fork:b{p}:b{h}:b{f}"
  | .reorg p h f => s!"reorg:b{p}:b{h}:b{f}"

/-- last common block of two root-first paths -/
def lastCommon : List Blk → List Blk → Nat → Nat
  | a :: as, b :: bs, acc => if a.id == b.id then lastCommon as bs a.id else acc
  | _, _, acc => acc

/-- the fork point `pipe::rewind_and_apply_fork(prev)` returns: the header extension is put on the
path to `prev`, then the body head is walked back until it is on that path -/
def forkPoint (n : Node) (prev : Nat) : Nat :=
  match n.path n.head, n.path prev with
  | some ph, some pp => lastCommon ph pp 0
  | _, _ => 0

/-- `Chain::is_on_current_chain(x, head)`: `x` not above `head`, and the HEADER MMR (the path to the
header head, `Node.headerAtHeight`) holds `x` at `x`'s height -/
def isOnCurrentChain (n : Node) (x headHeight : Nat) : Bool :=
  decide (n.heightOf x ≤ headHeight) && ((n.headerAtHeight (n.heightOf x)).map (·.id) == some x)

/-- `Chain::determine_status(head, prev, prev_head, fork_point)`: `n1` is the node when
`pipe::process_block` starts (`prev_head = batch.head()`), `n2` the node after it committed -/
def determineStatus (n1 n2 : Node) (b : Blk) (par : Nat) (headMoved : Bool) : BStatus :=
  let fp := forkPoint n1 par
  if headMoved then
    if isOnCurrentChain n2 n1.head b.h then .next par else .reorg par n1.head fp
  else .fork par n1.head fp

/-- `Chain::process_block_single` with the notification it sends -/
def processBlockSingleEv (p : Params) (n : Node) (b : Blk) : Node × DRes × Option BStatus :=
  match processHeader p n b with
  | .error e => (n, .err e, none)
  | .ok n1 =>
  match precheck n1 b with
  | .reject e => (n1, .err e, none)
  | .orphan => (addOrphan n1 b, .err "Orphan", none)
  | .go par =>
  match checkBlock p n1 b par with
  | .error e => (n1, .err e, none)
  | .ok _ =>
    let r := storeBlock n1 b
    (r.1, r.2, some (determineStatus n1 r.1 b par (r.2 == .okHead)))

/-- one notification: (block, status) -/
abbrev Ev := Nat × BStatus

/-- one orphan taken out of the pool by `check_orphans`: processed, its notification appended -/
def orphanStepEv (p : Params) (acc : (Node × Option Nat) × List Ev) (o : Nat) :
    (Node × Option Nat) × List Ev :=
  match acc.1.1.blk o with
  | none => acc
  | some b =>
    let r := processBlockSingleEv p acc.1.1 b
    let evs := match r.2.2 with
      | some s => acc.2 ++ [(b.id, s)]
      | none => acc.2
    match r.2.1 with
    | .err _ => ((r.1, acc.1.2), evs)
    | _ => ((r.1, some b.h), evs)

/-- `check_orphans(height)` with the notifications of the orphans it connects -/
def checkOrphansEv (p : Params) : Nat → Node → Nat → Node × List Ev
  | 0, n, _ => (n, [])
  | fuel+1, n, height =>
    let (at_, rest) := n.orphans.partition (fun o => n.heightOf o == height)
    if at_.isEmpty then (n, []) else
    let n0 := { n with orphans := rest }
    let step := at_.foldl (orphanStepEv p) ((n0, none), [])
    match step.1.2 with
    | some hAcc =>
      let r := checkOrphansEv p fuel step.1.1 (hAcc + 1)
      (r.1, step.2 ++ r.2)
    | none => (step.1.1, step.2)

/-- `Chain::process_block` with everything the adapter is told during the call -/
def deliverBlockEv (p : Params) (n : Node) (b : Blk) : Node × DRes × List Ev :=
  let r := processBlockSingleEv p n b
  let own : List Ev := match r.2.2 with
    | some s => [(b.id, s)]
    | none => []
  match r.2.1 with
  | .err _ => (r.1, r.2.1, own)
  | _ =>
    let o := checkOrphansEv p (r.1.blks.length + 2) r.1 (b.h + 1)
    (o.1, r.2.1, own ++ o.2)

def showEvs (l : List Ev) : String :=
  "[" ++ ",".intercalate (l.map fun e => s!"b{e.1}:{e.2.toString}") ++ "]"

end GV.Chain
