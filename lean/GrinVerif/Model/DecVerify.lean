import GrinVerif.Model.Pmmr
/-! # `MerkleProof::verify` as the code runs it (property C11: the stateless check a decoded Merkle
proof goes through) — `core/src/core/merkle_proof.rs`, `verify` / `verify_consume`

```rust
pub fn verify(&self, root, element, node_pos) -> Result<(), MerkleProofError> {
    let mut proof = self.clone();                       // the one copy of the path
    let peaks_pos = pmmr::peaks(self.mmr_size);         // computed once
    proof.verify_consume(root, element, node_pos, &peaks_pos)
}
fn verify_consume(&mut self, root, element, node_pos0, peaks_pos0) -> … {
    let node_hash = …;
    if self.path.is_empty() { return if root == node_hash { Ok(()) } else { Err(RootMismatch) } }
    let sibling = self.path.remove(0);
    let (parent_pos0, sibling_pos0) = pmmr::family(node_pos0);
    if let Ok(x) = peaks_pos0.binary_search(&node_pos0) {
        let parent = if x == peaks_pos0.len() - 1 { (sibling, node_hash) } else { (node_hash, sibling) };
        self.verify_consume(root, &parent, parent_pos0, peaks_pos0)
    } else if … { self.verify_consume(…) } else { self.verify_consume(…) }
}
```
Until /repo b3a89a045 the three recursive calls went through `self.verify(…)`, which cloned the
remaining path and recomputed the peaks at every level; that version is kept below as
`verifyUnrepairedI` with its exact (quadratic) memory.

The verdict is the function `GV.Pmmr.verify` of the PMMR model (property C07). This file adds what C11
is about: the explicit panic sites (`remove(0)` on an empty path, `len() - 1` on an empty peak list —
`usize` subtraction does not panic in release, but the index it feeds would be meaningless), the
recursion depth (one `verify_consume` frame per path hash), and the memory that is LIVE at the deepest
point of the recursion: the one clone of the path made by `verify` (32 bytes per hash) and the peak
vector (8 bytes per peak). -/
namespace GV.DecVerify
open GV GV.Pmmr

variable {α H : Type}

structure Out where
  /-- `none` = a panic site was reached -/
  verdict : Option Bool
  /-- number of nested `verify` frames at the deepest point -/
  depth : Nat
  /-- bytes held by the nested frames at the deepest point: path clones and peak vectors -/
  live : Nat
deriving DecidableEq, Repr

/-- bytes of a `Hash` in a path -/
def HASH_BYTES : Nat := 32

/-- `verify_consume` and everything below it: verdict and number of nested frames. Nothing is
allocated in here (`path.remove(0)` shifts in place; the hashes are temporaries). `pks` is
`pmmr::peaks(self.mmr_size)`, `eh i` is `element.hash_with_index(i)`. -/
def consumeI (hf : HashFn α H) [DecidableEq H] (root : H) (mmrSize : Nat) (pks : List Nat) :
    List H → (Nat → H) → Nat → Option Bool × Nat
  | [], eh, pos => (some (root == (if pos ≥ mmrSize then eh mmrSize else eh pos)), 1)
  | sib :: rest, eh, pos =>
    let nodeHash := if pos ≥ mmrSize then eh mmrSize else eh pos
    let fam := family pos
    let below : Option Bool × Nat :=
      match findIdx pks pos with
      | some x =>
        -- `peaks_pos0.len() - 1`: an explicit site; `binary_search` returned `Ok`, so the list is not empty
        if pks.length = 0 then (none, 0)
        else if x + 1 = pks.length then consumeI hf root mmrSize pks rest (fun i => hf.node i sib nodeHash) fam.1
        else consumeI hf root mmrSize pks rest (fun i => hf.node i nodeHash sib) fam.1
      | none =>
        if fam.1 ≥ mmrSize then consumeI hf root mmrSize pks rest (fun i => hf.node i sib nodeHash) fam.1
        else if isLeftSibling fam.2 then consumeI hf root mmrSize pks rest (fun i => hf.node i sib nodeHash) fam.1
        else consumeI hf root mmrSize pks rest (fun i => hf.node i nodeHash sib) fam.1
    (below.1, below.2 + 1)

/-- `MerkleProof::verify(root, element, node_pos)`: one clone of the path, the peaks once, then
`verify_consume`; `depth` counts the `verify` frame too -/
def verify (hf : HashFn α H) [DecidableEq H] (root : H) (mmrSize : Nat) (path : List H) (e : α) (pos : Nat) : Out :=
  let pks := peaks mmrSize
  let r := consumeI hf root mmrSize pks path (fun i => hf.leaf i e) pos
  { verdict := r.1, depth := r.2 + 1, live := HASH_BYTES * path.length + 8 * pks.length }

/-! ### the code before b3a89a045 (recursion through `verify`) -/

/-- one `verify` call of the unrepaired code and everything below it: every level holds its own clone
of the path that was left when it was entered and its own peak vector until the levels below it
return. `pks` is `pmmr::peaks(self.mmr_size)`, the same at
every level since `mmr_size` never changes. `eh i` is `element.hash_with_index(i)`. -/
def verifyUnrepairedI (hf : HashFn α H) [DecidableEq H] (root : H) (mmrSize : Nat) (pks : List Nat) :
    List H → (Nat → H) → Nat → Out
  | [], eh, pos =>
    -- `self.clone()` of an empty path allocates nothing; the peak vector is there
    { verdict := some (root == (if pos ≥ mmrSize then eh mmrSize else eh pos)), depth := 1, live := 8 * pks.length }
  | sib :: rest, eh, pos =>
    let nodeHash := if pos ≥ mmrSize then eh mmrSize else eh pos
    let fam := family pos
    -- this frame: the clone of the path as it came in, and the peaks
    let here := HASH_BYTES * (rest.length + 1) + 8 * pks.length
    let below : Out :=
      match findIdx pks pos with
      | some x =>
        -- `peaks_pos0.len() - 1`: an explicit site; `binary_search` returned `Ok`, so the list is not empty
        if pks.length = 0 then { verdict := none, depth := 0, live := 0 }
        else if x + 1 = pks.length then verifyUnrepairedI hf root mmrSize pks rest (fun i => hf.node i sib nodeHash) fam.1
        else verifyUnrepairedI hf root mmrSize pks rest (fun i => hf.node i nodeHash sib) fam.1
      | none =>
        if fam.1 ≥ mmrSize then verifyUnrepairedI hf root mmrSize pks rest (fun i => hf.node i sib nodeHash) fam.1
        else if isLeftSibling fam.2 then verifyUnrepairedI hf root mmrSize pks rest (fun i => hf.node i sib nodeHash) fam.1
        else verifyUnrepairedI hf root mmrSize pks rest (fun i => hf.node i nodeHash sib) fam.1
    { verdict := below.verdict, depth := below.depth + 1, live := here + below.live }

def verifyUnrepaired (hf : HashFn α H) [DecidableEq H] (root : H) (mmrSize : Nat) (path : List H) (e : α) (pos : Nat) : Out :=
  verifyUnrepairedI hf root mmrSize (peaks mmrSize) path (fun i => hf.leaf i e) pos

/-- 0 + 1 + … + n -/
def tri : Nat → Nat
  | 0 => 0
  | n+1 => tri n + (n + 1)

/-- what the frames of the unrepaired code held for a path of `n` hashes and `p` peaks -/
def liveOf (n p : Nat) : Nat := HASH_BYTES * tri n + 8 * p * (n + 1)

/-- wire length of the proof: `mmr_size`, the count, the hashes -/
def inputLen (n : Nat) : Nat := 16 + HASH_BYTES * n

end GV.DecVerify
