import GrinVerif.Model.Basic
/-! The NRD "recent kernel" index as the node keeps it (property C13, clause "relative locks hold
on every fork"): a persistent doubly linked list per kernel excess, stored as flat records in LMDB.

Transliteration of `/repo/chain/src/linked_list.rs` (`ListWrapper`, `ListEntry`, `MultiIndex`:
`get_list`, `get_entry`, `peek_pos`, `push_pos`, `pop_pos`, `rewind`, `clear`, `prune`,
`pop_pos_back`) and of the callers in `/repo/chain/src/txhashset/txhashset.rs`
(`apply_kernel_rules`, `Extension::apply_kernels`, `Extension::rewind_single_block` (the NRD part),
`Extension::rewind` (the loop over blocks), `TxHashSet::verify_kernel_pos_index` (block-wise:
`verifyKernelPosIndex`; with its lazy header walk over the kernel MMR as written: `verifyWalk` /
`verifyKernelPosIndexWalk`, proved equal in `Lemmas/NrdWalk.lean`),
`TxHashSet::init_recent_kernel_pos_index`).  Specification (`Spec`, `sPush`, … `sApplyBlocks`,
`sRewindBlocks`): per excess the list of occurrences, most recent first; histories: `Op`, `step`,
`run` and their specification twins.

Store: two key spaces of the chain db, prefix `K` (`NRD_KERNEL_LIST_PREFIX`, key = excess
commitment, value = `ListWrapper<CommitPos>`) and prefix `k` (`NRD_KERNEL_ENTRY_PREFIX`, key =
excess ‖ pos as 8 big-endian bytes, value = `ListEntry<CommitPos>`).  The key of an entry is
modelled as the pair (excess, pos) (injective for `pos < 2^64`, which `u64` guarantees).  The store
is an association list so that the driver can dump it; every proof goes through `alGet_alPut` /
`alGet_alDel` only.  `&mut Batch` becomes a returned store; the result of an operation is
`Out = (store after, Result)`: on the error paths the Rust returns *before* its first write, which
is visible here as the unchanged `kv` in the error outcomes (and is stated as a theorem,
`Props/C13Nrd.lean`); the loops (`rewind`, `apply_kernels`, …) propagate an error with `?` and so
return the store as modified so far.

Not modelled: (de)serialisation failures of `get_ser` (the store only ever holds records written
by this code), LMDB errors.  `u64` positions / heights are `Nat`; the only arithmetic is
`pos.height.saturating_sub(prev.height)` (`satSub`). -/

namespace GV.Nrd

/-- `chain/src/types.rs` `CommitPos { pos, height }` -/
structure CommitPos where
  pos : Nat
  height : Nat
deriving DecidableEq, Repr, Inhabited

/-- `linked_list.rs` `ListWrapper<T>` -/
inductive ListWrapper
  | single (pos : CommitPos)
  | multi (head tail : Nat)
deriving DecidableEq, Repr, Inhabited

/-- `linked_list.rs` `ListEntry<T>` -/
inductive ListEntry
  | head (pos : CommitPos) (next : Nat)
  | tail (pos : CommitPos) (prev : Nat)
  | middle (pos : CommitPos) (next prev : Nat)
deriving DecidableEq, Repr, Inhabited

/-- `ListIndexEntry::get_pos` -/
def ListEntry.getPos : ListEntry → CommitPos
  | .head p _ => p
  | .tail p _ => p
  | .middle p _ _ => p

/-- error outcomes: the `store::Error::OtherErr(..)` strings of linked_list.rs, `chain::Error::
NRDRelativeHeight` of `apply_kernel_rules`, `unimplemented!()` of `prune`, and `fuelOut` (the model's
loop bound was hit: the Rust `while` would still be running). -/
inductive Err
  /-- "pos must be increasing" -/
  | posNotIncreasing
  /-- "expected head to be head variant" -/
  | headNotHead
  /-- "next was unexpected" -/
  | nextUnexpected
  /-- "next missing" -/
  | nextMissing
  /-- "expected tail to be tail variant" -/
  | tailNotTail
  /-- "prev was unexpected" -/
  | prevUnexpected
  /-- "prev missing" -/
  | prevMissing
  /-- `Error::NRDRelativeHeight` -/
  | nrdRelativeHeight
  /-- `get_header_hash_by_height` found no header (`verify_kernel_pos_index`'s header walk) -/
  | headerNotFound
  /-- `unimplemented!("… pruning not yet implemented")` -/
  | panicUnimplemented
  | fuelOut
deriving DecidableEq, Repr, Inhabited

def Err.name : Err → String
  | .posNotIncreasing => "PosNotIncreasing"
  | .headNotHead => "HeadNotHead"
  | .nextUnexpected => "NextUnexpected"
  | .nextMissing => "NextMissing"
  | .tailNotTail => "TailNotTail"
  | .prevUnexpected => "PrevUnexpected"
  | .prevMissing => "PrevMissing"
  | .nrdRelativeHeight => "NRDRelativeHeight"
  | .headerNotFound => "HeaderNotFound"
  | .panicUnimplemented => "panic"
  | .fuelOut => "FuelOut"

/-! ## The key-value store (one LMDB write transaction's view) -/

section AL
variable {κ ν : Type} [DecidableEq κ]

def alGet : List (κ × ν) → κ → Option ν
  | [], _ => none
  | (k', v) :: r, k => if k' = k then some v else alGet r k

def alDel : List (κ × ν) → κ → List (κ × ν)
  | [], _ => []
  | (k', v) :: r, k => if k' = k then alDel r k else (k', v) :: alDel r k

def alPut (l : List (κ × ν)) (k : κ) (v : ν) : List (κ × ν) := (k, v) :: alDel l k

end AL

structure KV (ε : Type) where
  /-- prefix `K`: excess ↦ `ListWrapper` -/
  lists : List (ε × ListWrapper) := []
  /-- prefix `k`: (excess, pos) ↦ `ListEntry` -/
  entries : List ((ε × Nat) × ListEntry) := []
deriving Repr, Inhabited

variable {ε : Type} [DecidableEq ε]

/-- `MultiIndex::get_list` -/
def KV.getList (kv : KV ε) (e : ε) : Option ListWrapper := alGet kv.lists e
/-- `ListIndex::get_entry` (key `entry_key(commit, pos)`) -/
def KV.getEntry (kv : KV ε) (e : ε) (pos : Nat) : Option ListEntry := alGet kv.entries (e, pos)
/-- `batch.db.put_ser(list_key …)` -/
def KV.putList (kv : KV ε) (e : ε) (w : ListWrapper) : KV ε := { kv with lists := alPut kv.lists e w }
/-- `batch.db.put_ser(entry_key(commit, pos) …)` -/
def KV.putEntry (kv : KV ε) (e : ε) (pos : Nat) (en : ListEntry) : KV ε :=
  { kv with entries := alPut kv.entries (e, pos) en }
/-- `batch.delete(list_key …)` -/
def KV.delList (kv : KV ε) (e : ε) : KV ε := { kv with lists := alDel kv.lists e }
/-- `batch.delete(entry_key(commit, pos) …)` -/
def KV.delEntry (kv : KV ε) (e : ε) (pos : Nat) : KV ε :=
  { kv with entries := alDel kv.entries (e, pos) }

/-- store after the call, and the `Result` the call returned -/
structure Out (ε : Type) (α : Type) where
  kv : KV ε
  res : Except Err α

/-! ## `impl ListIndex for MultiIndex<T>` -/

/-- `MultiIndex::peek_pos` (read only) -/
def peekPos (kv : KV ε) (e : ε) : Except Err (Option CommitPos) :=
  match kv.getList e with
  | none => .ok none
  | some (.single pos) => .ok (some pos)
  | some (.multi head _) =>
    match kv.getEntry e head with
    | some (.head pos _) => .ok (some pos)
    | _ => .error .headNotHead

/-- `MultiIndex::push_pos` -/
def pushPos (kv : KV ε) (e : ε) (newPos : CommitPos) : Out ε Unit :=
  match kv.getList e with
  | none => ⟨kv.putList e (.single newPos), .ok ()⟩
  | some (.single cur) =>
    if newPos.pos ≤ cur.pos then ⟨kv, .error .posNotIncreasing⟩ else
    ⟨((kv.putEntry e newPos.pos (.head newPos cur.pos)).putEntry e cur.pos (.tail cur newPos.pos)).putList e
        (.multi newPos.pos cur.pos), .ok ()⟩
  | some (.multi head tail) =>
    if newPos.pos ≤ head then ⟨kv, .error .posNotIncreasing⟩ else
    match kv.getEntry e head with
    | some (.head cur curNext) =>
      ⟨((kv.putEntry e newPos.pos (.head newPos cur.pos)).putEntry e cur.pos
          (.middle cur curNext newPos.pos)).putList e (.multi newPos.pos tail), .ok ()⟩
    | _ => ⟨kv, .error .headNotHead⟩

/-- `MultiIndex::pop_pos`.  Note the `Tail` branch: the list becomes `Single` and the old head
record is deleted, but the `Tail` record of the remaining element stays in the store. -/
def popPos (kv : KV ε) (e : ε) : Out ε (Option CommitPos) :=
  match kv.getList e with
  | none => ⟨kv, .ok none⟩
  | some (.single pos) => ⟨kv.delList e, .ok (some pos)⟩
  | some (.multi head tail) =>
    match kv.getEntry e head with
    | some (.head cur curNext) =>
      match kv.getEntry e curNext with
      | some (.middle pos next _) =>
        ⟨((kv.delEntry e cur.pos).putEntry e pos.pos (.head pos next)).putList e (.multi pos.pos tail),
          .ok (some cur)⟩
      | some (.tail pos _) =>
        ⟨(kv.delEntry e cur.pos).putList e (.single pos), .ok (some cur)⟩
      | some (.head _ _) => ⟨kv, .error .nextUnexpected⟩
      | none => ⟨kv, .error .nextMissing⟩
    | _ => ⟨kv, .error .headNotHead⟩

/-- `impl RewindableListIndex for MultiIndex`: `rewind`'s `while` loop, `fuel` iterations at most -/
def rewindLoop (e : ε) (rewindPos : Nat) : Nat → KV ε → Out ε Unit
  | 0, kv => ⟨kv, .error .fuelOut⟩
  | fuel + 1, kv =>
    match peekPos kv e with
    | .error err => ⟨kv, .error err⟩
    | .ok none => ⟨kv, .ok ()⟩
    | .ok (some p) =>
      if p.pos > rewindPos then
        match popPos kv e with
        | ⟨kv', .error err⟩ => ⟨kv', .error err⟩
        | ⟨kv', .ok _⟩ => rewindLoop e rewindPos fuel kv'
      else ⟨kv, .ok ()⟩

/-- loop bound used by `rewind`: on a well-formed list every `pop_pos` strictly lowers the head
position, so `head position + 2` iterations always suffice (`Lemmas/NrdRepr.lean`,
`rewindLoop_repr`); the value is irrelevant otherwise. -/
def rewindFuel (kv : KV ε) (e : ε) : Nat :=
  match peekPos kv e with
  | .ok (some p) => p.pos + 2
  | _ => 1

/-- `MultiIndex::rewind(batch, commit, rewind_pos)`: pop while the head's `pos > rewind_pos` -/
def rewind (kv : KV ε) (e : ε) (rewindPos : Nat) : Out ε Unit :=
  rewindLoop e rewindPos (rewindFuel kv e) kv

/-! ## `impl PruneableListIndex for MultiIndex<T>` -/

/-- `MultiIndex::clear`: every key of both prefixes is deleted (delete errors are ignored) -/
def clear (_kv : KV ε) : Out ε Unit := ⟨{}, .ok ()⟩

/-- `MultiIndex::prune`: `unimplemented!()` — the index is rebuilt on startup / compaction instead -/
def prune (kv : KV ε) (_e : ε) (_cutoffPos : Nat) : Out ε Unit := ⟨kv, .error .panicUnimplemented⟩

/-- `MultiIndex::pop_pos_back`.  Mirror image of `pop_pos`; in the `Head` branch the `Head` record
of the remaining element stays in the store. -/
def popPosBack (kv : KV ε) (e : ε) : Out ε (Option CommitPos) :=
  match kv.getList e with
  | none => ⟨kv, .ok none⟩
  | some (.single pos) => ⟨kv.delList e, .ok (some pos)⟩
  | some (.multi head tail) =>
    match kv.getEntry e tail with
    | some (.tail cur curPrev) =>
      match kv.getEntry e curPrev with
      | some (.middle pos _ prev) =>
        ⟨((kv.delEntry e cur.pos).putEntry e pos.pos (.tail pos prev)).putList e (.multi head pos.pos),
          .ok (some cur)⟩
      | some (.head pos _) =>
        ⟨(kv.delEntry e cur.pos).putList e (.single pos), .ok (some cur)⟩
      | some (.tail _ _) => ⟨kv, .error .prevUnexpected⟩
      | none => ⟨kv, .error .prevMissing⟩
    | _ => ⟨kv, .error .tailNotTail⟩

/-- position of the oldest element, read the way a pruning loop over `pop_pos_back` has to read it
(`get_list`, then `get_entry` of the tail pointer).  NOT in the Rust: `prune` is `unimplemented!()`;
`pruneBack` is what a prune built from the existing `pop_pos_back` does (the harness runs exactly
this loop over the real `pop_pos_back`), modelled so that the tail surgery is covered by a loop
theorem as the head surgery is by `rewind`. -/
def peekBack (kv : KV ε) (e : ε) : Except Err (Option CommitPos) :=
  match kv.getList e with
  | none => .ok none
  | some (.single pos) => .ok (some pos)
  | some (.multi _ tail) =>
    match kv.getEntry e tail with
    | some (.tail pos _) => .ok (some pos)
    | _ => .error .tailNotTail

/-- harness-level prune: pop from the back while the oldest element's `pos < cutoff` -/
def pruneBackLoop (e : ε) (cutoff : Nat) : Nat → KV ε → Out ε Unit
  | 0, kv => ⟨kv, .error .fuelOut⟩
  | fuel + 1, kv =>
    match peekBack kv e with
    | .error err => ⟨kv, .error err⟩
    | .ok none => ⟨kv, .ok ()⟩
    | .ok (some p) =>
      if p.pos < cutoff then
        match popPosBack kv e with
        | ⟨kv', .error err⟩ => ⟨kv', .error err⟩
        | ⟨kv', .ok _⟩ => pruneBackLoop e cutoff fuel kv'
      else ⟨kv, .ok ()⟩

def pruneBack (kv : KV ε) (e : ε) (cutoff : Nat) : Out ε Unit :=
  pruneBackLoop e cutoff (rewindFuel kv e) kv

/-! ## Walking a list (what an observer following the pointers sees) -/

/-- follow `next` pointers from the entry at `pos` -/
def walkFrom (kv : KV ε) (e : ε) : Nat → Nat → List CommitPos
  | 0, _ => []
  | fuel + 1, pos =>
    match kv.getEntry e pos with
    | some (.head p next) => p :: walkFrom kv e fuel next
    | some (.middle p next _) => p :: walkFrom kv e fuel next
    | some (.tail p _) => [p]
    | none => []

/-- the abstract value of the list kept for `e`: head to tail (most recent first) -/
def abs (kv : KV ε) (e : ε) : List CommitPos :=
  match kv.getList e with
  | none => []
  | some (.single pos) => [pos]
  | some (.multi head _) => walkFrom kv e (head + 1) head

/-- follow `prev` pointers from the entry at `pos` (tail to head) -/
def walkBackFrom (kv : KV ε) (e : ε) : Nat → Nat → List CommitPos
  | 0, _ => []
  | fuel + 1, pos =>
    match kv.getEntry e pos with
    | some (.tail p prev) => p :: walkBackFrom kv e fuel prev
    | some (.middle p _ prev) => p :: walkBackFrom kv e fuel prev
    | some (.head p _) => [p]
    | none => []

/-- the list read backwards from the tail pointer (oldest first) -/
def absBack (kv : KV ε) (e : ε) (fuel : Nat) : List CommitPos :=
  match kv.getList e with
  | none => []
  | some (.single pos) => [pos]
  | some (.multi _ tail) => walkBackFrom kv e fuel tail

/-! ## The callers in txhashset.rs -/

/-- what the index needs to know of a `TxKernel`: its excess and, for
`KernelFeatures::NoRecentDuplicate { relative_height, .. }`, the relative height -/
structure Kernel (ε : Type) where
  excess : ε
  nrd : Option Nat
deriving Repr, Inhabited

/-- `apply_kernel_rules(kernel, pos, batch)` with the NRD feature flag on: peek, compare heights,
push. -/
def applyKernelRules (kv : KV ε) (k : Kernel ε) (pos : CommitPos) : Out ε Unit :=
  match k.nrd with
  | none => ⟨kv, .ok ()⟩
  | some rel =>
    match peekPos kv k.excess with
    | .error err => ⟨kv, .error err⟩
    | .ok (some prev) =>
      if satSub pos.height prev.height < rel then ⟨kv, .error .nrdRelativeHeight⟩
      else pushPos kv k.excess pos
    | .ok none => pushPos kv k.excess pos

/-- `Extension::apply_kernels(kernels, height, batch)`; the kernel MMR position returned by
`apply_kernel` (`kernel_pmmr.push`) is given with each kernel. -/
def applyKernels (kv : KV ε) (height : Nat) : List (Kernel ε × Nat) → Out ε Unit
  | [] => ⟨kv, .ok ()⟩
  | (k, pos) :: rest =>
    match applyKernelRules kv k ⟨pos, height⟩ with
    | ⟨kv', .error err⟩ => ⟨kv', .error err⟩
    | ⟨kv', .ok _⟩ => applyKernels kv' height rest

/-- the part of a block the index sees -/
structure Blk (ε : Type) where
  height : Nat
  /-- `prev_header.kernel_mmr_size` -/
  prevSize : Nat
  /-- `header.kernel_mmr_size` -/
  size : Nat
  /-- kernels in block order with their kernel MMR positions (1-based, as in `CommitPos.pos`) -/
  kernels : List (Kernel ε × Nat)
deriving Repr, Inhabited

/-- `Extension::apply_block`, the NRD part: `apply_kernels(b.kernels(), b.header.height, batch)` -/
def applyBlock (kv : KV ε) (b : Blk ε) : Out ε Unit := applyKernels kv b.height b.kernels

/-- `Extension::rewind_single_block`, the NRD part: for every NRD kernel of the block,
`kernel_index.rewind(batch, kernel.excess(), prev_header.kernel_mmr_size)` -/
def rewindKernels (kv : KV ε) (prevSize : Nat) : List (Kernel ε × Nat) → Out ε Unit
  | [] => ⟨kv, .ok ()⟩
  | (k, _) :: rest =>
    match k.nrd with
    | none => rewindKernels kv prevSize rest
    | some _ =>
      match rewind kv k.excess prevSize with
      | ⟨kv', .error err⟩ => ⟨kv', .error err⟩
      | ⟨kv', .ok _⟩ => rewindKernels kv' prevSize rest

def rewindSingleBlock (kv : KV ε) (b : Blk ε) : Out ε Unit := rewindKernels kv b.prevSize b.kernels

/-- `Extension::rewind`: `rewind_single_block` for the blocks from the current head down to (not
including) the block rewound to; `bs` is that list, head first. -/
def rewindBlocks (kv : KV ε) : List (Blk ε) → Out ε Unit
  | [] => ⟨kv, .ok ()⟩
  | b :: rest =>
    match rewindSingleBlock kv b with
    | ⟨kv', .error err⟩ => ⟨kv', .error err⟩
    | ⟨kv', .ok _⟩ => rewindBlocks kv' rest

/-- blocks applied in path order (`rewind_and_apply_fork`: after the rewind, the fork's blocks) -/
def applyBlocks (kv : KV ε) : List (Blk ε) → Out ε Unit
  | [] => ⟨kv, .ok ()⟩
  | b :: rest =>
    match applyBlock kv b with
    | ⟨kv', .error err⟩ => ⟨kv', .error err⟩
    | ⟨kv', .ok _⟩ => applyBlocks kv' rest

/-- `TxHashSet::verify_kernel_pos_index(from_header, …)`: `clear`, then `apply_kernel_rules` for
every kernel from `from_header` on in MMR order, each at the height of the block it belongs to.
`bs` = the blocks from `from_header` to the head, oldest first (the header walk
`while current_pos > current_header.kernel_mmr_size` that finds the height is the block
membership). -/
def verifyKernelPosIndex (kv : KV ε) (bs : List (Blk ε)) : Out ε Unit :=
  applyBlocks (clear kv).kv bs

/-- a header as `verify_kernel_pos_index` reads it: (height, kernel_mmr_size) -/
def Blk.hdr (b : Blk ε) : Nat × Nat := (b.height, b.size)

/-- the inner loop `while current_pos > current_header.kernel_mmr_size { current_header = header at
height + 1 }`; `later` = the headers above `cur` in height order; `none` =
`get_header_hash_by_height` found nothing -/
def advanceHeader : Nat × Nat → List (Nat × Nat) → Nat → Option ((Nat × Nat) × List (Nat × Nat))
  | cur, [], pos => if pos > cur.2 then none else some (cur, [])
  | cur, h :: t, pos => if pos > cur.2 then advanceHeader h t pos else some (cur, h :: t)

/-- the loop of `verify_kernel_pos_index` as written: over the kernels from `prev_size + 1` on in
MMR order, the current header advanced lazily (only when an NRD kernel lies beyond it), every NRD
kernel applied at the current header's height -/
def verifyWalk (kv : KV ε) (cur : Nat × Nat) (later : List (Nat × Nat)) :
    List (Kernel ε × Nat) → Out ε Unit
  | [] => ⟨kv, .ok ()⟩
  | (k, pos) :: rest =>
    match k.nrd with
    | none => verifyWalk kv cur later rest
    | some _ =>
      match advanceHeader cur later pos with
      | none => ⟨kv, .error .headerNotFound⟩
      | some (cur', later') =>
        match applyKernelRules kv k ⟨pos, cur'.1⟩ with
        | ⟨kv', .error err⟩ => ⟨kv', .error err⟩
        | ⟨kv', .ok _⟩ => verifyWalk kv' cur' later' rest

/-- `verify_kernel_pos_index` with its header walk: `clear`, then `verifyWalk` from `from_header`
(`Lemmas/NrdWalk.lean`: equal to `verifyKernelPosIndex` on the blocks) -/
def verifyKernelPosIndexWalk (kv : KV ε) (fromHdr : Nat × Nat) (later : List (Nat × Nat))
    (kernels : List (Kernel ε × Nat)) : Out ε Unit :=
  verifyWalk (clear kv).kv fromHdr later kernels

/-- `TxHashSet::init_recent_kernel_pos_index`: the rebuild from the cutoff header
`head.height.saturating_sub(WEEK_HEIGHT * 2)`; `path` = all blocks of the body chain, oldest
first. -/
def initRecentKernelPosIndex (kv : KV ε) (window : Nat) (headHeight : Nat) (path : List (Blk ε)) : Out ε Unit :=
  verifyKernelPosIndex kv (path.filter fun b => decide (satSub headHeight window ≤ b.height))

/-! ## Specification: per excess the occurrences on this fork, most recent first -/

/-- `rewind`: drop the prefix with `pos > rewind_pos` -/
def specRewind (l : List CommitPos) (r : Nat) : List CommitPos := l.dropWhile fun p => decide (p.pos > r)

/-- prune from the back: drop the suffix with `pos < cutoff` (on a strictly decreasing list the
elements with `pos < cutoff` are a suffix) -/
def specPrune (l : List CommitPos) (cutoff : Nat) : List CommitPos :=
  (l.reverse.dropWhile fun p => decide (p.pos < cutoff)).reverse

/-- push is defined when the new position is above the most recent one -/
def specPushOk (l : List CommitPos) (p : CommitPos) : Bool :=
  match l with
  | [] => true
  | q :: _ => decide (q.pos < p.pos)

/-- the NRD rule on the specification: the most recent occurrence on this fork must be at least
`rel` blocks below -/
def specNrdOk (l : List CommitPos) (height rel : Nat) : Bool :=
  match l with
  | [] => true
  | q :: _ => !decide (satSub height q.height < rel)

/-- specification state: for every excess the list of its occurrences -/
abbrev Spec (ε : Type) := ε → List CommitPos

def upd (S : Spec ε) (e : ε) (l : List CommitPos) : Spec ε := fun e' => if e' = e then l else S e'

structure SOut (ε : Type) (α : Type) where
  st : Spec ε
  res : Except Err α

def sPeek (S : Spec ε) (e : ε) : Option CommitPos := (S e).head?

def sPush (S : Spec ε) (e : ε) (p : CommitPos) : SOut ε Unit :=
  if specPushOk (S e) p then ⟨upd S e (p :: S e), .ok ()⟩ else ⟨S, .error .posNotIncreasing⟩

def sPop (S : Spec ε) (e : ε) : SOut ε (Option CommitPos) := ⟨upd S e (S e).tail, .ok (S e).head?⟩

def sPopBack (S : Spec ε) (e : ε) : SOut ε (Option CommitPos) :=
  ⟨upd S e (S e).dropLast, .ok (S e).getLast?⟩

def sRewind (S : Spec ε) (e : ε) (r : Nat) : SOut ε Unit := ⟨upd S e (specRewind (S e) r), .ok ()⟩

def sPruneBack (S : Spec ε) (e : ε) (c : Nat) : SOut ε Unit := ⟨upd S e (specPrune (S e) c), .ok ()⟩

def sClear (_S : Spec ε) : SOut ε Unit := ⟨fun _ => [], .ok ()⟩

/-- the NRD rule followed by the push -/
def sApplyKernelRules (S : Spec ε) (k : Kernel ε) (pos : CommitPos) : SOut ε Unit :=
  match k.nrd with
  | none => ⟨S, .ok ()⟩
  | some rel =>
    if specNrdOk (S k.excess) pos.height rel then sPush S k.excess pos
    else ⟨S, .error .nrdRelativeHeight⟩

def sApplyKernels (S : Spec ε) (height : Nat) : List (Kernel ε × Nat) → SOut ε Unit
  | [] => ⟨S, .ok ()⟩
  | (k, pos) :: rest =>
    match sApplyKernelRules S k ⟨pos, height⟩ with
    | ⟨S', .error err⟩ => ⟨S', .error err⟩
    | ⟨S', .ok _⟩ => sApplyKernels S' height rest

def sApplyBlock (S : Spec ε) (b : Blk ε) : SOut ε Unit := sApplyKernels S b.height b.kernels

def sApplyBlocks (S : Spec ε) : List (Blk ε) → SOut ε Unit
  | [] => ⟨S, .ok ()⟩
  | b :: rest =>
    match sApplyBlock S b with
    | ⟨S', .error err⟩ => ⟨S', .error err⟩
    | ⟨S', .ok _⟩ => sApplyBlocks S' rest

def sRewindKernels (S : Spec ε) (prevSize : Nat) : List (Kernel ε × Nat) → Spec ε
  | [] => S
  | (k, _) :: rest =>
    match k.nrd with
    | none => sRewindKernels S prevSize rest
    | some _ => sRewindKernels (sRewind S k.excess prevSize).st prevSize rest

def sRewindSingleBlock (S : Spec ε) (b : Blk ε) : Spec ε := sRewindKernels S b.prevSize b.kernels

def sRewindBlocks (S : Spec ε) : List (Blk ε) → Spec ε
  | [] => S
  | b :: rest => sRewindBlocks (sRewindSingleBlock S b) rest

/-! ## Histories -/

/-- one call on the index (inside one write batch) -/
inductive Op (ε : Type) where
  | push (e : ε) (p : CommitPos)
  | pop (e : ε)
  | popBack (e : ε)
  | rewind (e : ε) (r : Nat)
  | pruneBack (e : ε) (c : Nat)
  | prune (e : ε) (c : Nat)
  | clear
  /-- `apply_block` inside an extension whose child batch is dropped when the block is refused -/
  | applyBlock (b : Blk ε)
  | rewindBlock (b : Blk ε)
  /-- `verify_kernel_pos_index` over these blocks -/
  | rebuild (bs : List (Blk ε))

/-- the answer of a call -/
inductive Ans where
  | unit
  | pos (p : Option CommitPos)
  | err (e : Err)
deriving DecidableEq, Repr

def ansUnit : Except Err Unit → Ans
  | .ok _ => .unit
  | .error e => .err e

def ansPos : Except Err (Option CommitPos) → Ans
  | .ok p => .pos p
  | .error e => .err e

/-- a refused block leaves nothing behind: its batch is dropped -/
def keepIfOk (kv : KV ε) (o : Out ε Unit) : KV ε :=
  match o.res with
  | .ok _ => o.kv
  | .error _ => kv

def step (kv : KV ε) : Op ε → KV ε × Ans
  | .push e p => let o := pushPos kv e p; (o.kv, ansUnit o.res)
  | .pop e => let o := popPos kv e; (o.kv, ansPos o.res)
  | .popBack e => let o := popPosBack kv e; (o.kv, ansPos o.res)
  | .rewind e r => let o := rewind kv e r; (o.kv, ansUnit o.res)
  | .pruneBack e c => let o := pruneBack kv e c; (o.kv, ansUnit o.res)
  | .prune e c => let o := prune kv e c; (o.kv, ansUnit o.res)
  | .clear => let o := clear kv; (o.kv, ansUnit o.res)
  | .applyBlock b => let o := applyBlock kv b; (keepIfOk kv o, ansUnit o.res)
  | .rewindBlock b => let o := rewindSingleBlock kv b; (o.kv, ansUnit o.res)
  | .rebuild bs => let o := verifyKernelPosIndex kv bs; (o.kv, ansUnit o.res)

def sKeepIfOk (S : Spec ε) (o : SOut ε Unit) : Spec ε :=
  match o.res with
  | .ok _ => o.st
  | .error _ => S

/-- the same call on the specification -/
def sstep (S : Spec ε) : Op ε → Spec ε × Ans
  | .push e p => let o := sPush S e p; (o.st, ansUnit o.res)
  | .pop e => let o := sPop S e; (o.st, ansPos o.res)
  | .popBack e => let o := sPopBack S e; (o.st, ansPos o.res)
  | .rewind e r => let o := sRewind S e r; (o.st, ansUnit o.res)
  | .pruneBack e c => let o := sPruneBack S e c; (o.st, ansUnit o.res)
  | .prune _ _ => (S, .err .panicUnimplemented)
  | .clear => let o := sClear S; (o.st, ansUnit o.res)
  | .applyBlock b => let o := sApplyBlock S b; (sKeepIfOk S o, ansUnit o.res)
  | .rewindBlock b => (sRewindSingleBlock S b, .unit)
  | .rebuild bs => let o := sApplyBlocks (fun _ => []) bs; (o.st, ansUnit o.res)

/-- a history from a given store: final store and the answers in order -/
def run (kv : KV ε) : List (Op ε) → KV ε × List Ans
  | [] => (kv, [])
  | op :: ops => let (kv1, a) := step kv op; let (kv2, as) := run kv1 ops; (kv2, a :: as)

def srun (S : Spec ε) : List (Op ε) → Spec ε × List Ans
  | [] => (S, [])
  | op :: ops => let (S1, a) := sstep S op; let (S2, as) := srun S1 ops; (S2, a :: as)

end GV.Nrd
