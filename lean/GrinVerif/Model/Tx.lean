/-! # Model of transaction aggregation, cut-through, de-aggregation and compact-block hydration

Transliteration of
* `core/src/core/transaction.rs`: `cut_through`, `aggregate`, `deaggregate`,
  `TransactionBody::{init, sort, verify_sorted, verify_cut_through, verify_features, with_output,
  with_kernel}`, `Transaction::validate_read`
* `core/src/core/committed.rs`: `sum_kernel_offsets`, `blind_sum_or_zero`, `to_secrets`
* `core/src/core/block.rs`: `Block::from_reward`, `Block::hydrate_from`
* `core/src/core/compact_block.rs`: `From<Block> for CompactBlock`

Representation (DESIGN §2.2, §2.3).  Everything is a natural number handed over by the harness:

* an **input** is the id `c` of its commitment; ids are assigned in the byte order of the real
  33-byte commitments, so `c₁ < c₂` in the model iff `commit₁ < commit₂` in the code
  (`sort_unstable_by_key(|x| *x.as_ref())` and the `cmp` of the merge loop);
* an **output** is the code `2*c + f` with `c` the commitment id and `f = 1` for
  `OutputFeatures::Coinbase`, `0` for `Plain` (`Output: Ord/Eq` go through the identifier
  `(features, commit)`, `AsRef<Commitment>` only sees `c`);
* a **kernel** is the code `2*k + f`, `k` the rank of the kernel hash, `f = 1` for a coinbase kernel;
* `CommitWrapper`, `OutputIdentifier`, `TxKernel` are ordered **by hash** (`hashable_ord!`); the
  hash orders are supplied as data: `Keys.ik`, `Keys.ok`, `Keys.kk` (any functions; the theorems ask
  for injectivity where the code relies on "equal hash ⇒ equal element");
* a kernel offset (`BlindingFactor`, 32 bytes) is the big-endian natural number of its bytes.
  Scalars are added modulo the secp256k1 group order `N`; zero and out-of-range values are
  *skipped* (`to_secrets`).  `secp.blind_sum` itself refuses a zero *sum* (`SecretKey::from_slice`
  rejects it); `committed::blind_sum_or_zero` catches exactly that case and yields the zero
  blinding factor, so offsets that cancel are accepted (`Lemmas/TxAgg.lean: blindSumOrZero_eq`).

Import-free (core only): linked into the driver. -/
namespace GV.Tx

/-- secp256k1 group order -/
def N : Nat := 0xFFFFFFFFFFFFFFFFFFFFFFFFFFFFFFFEBAAEDCE6AF48A03BBFD25E8CD0364141

inductive Err
  /-- `Error::CutThrough` -/
  | cutThrough
  /-- `Error::Committed(Secp(InvalidSecretKey))`: the error `blind_sum_or_zero` hands on when
  `secp.blind_sum` fails for another reason than a zero sum.  Kept because the code has the
  branch; `blindSumOrZero_eq` proves that it is never taken. -/
  | secp
deriving DecidableEq, Repr

/-- hash orders supplied by the harness -/
structure Keys where
  /-- hash order of `CommitWrapper { commit }` for commitment id `c` -/
  ik : Nat → Nat
  /-- hash order of `OutputIdentifier { features, commit }` for output code `o` -/
  ok : Nat → Nat
  /-- hash order of `TxKernel` for kernel code `k` -/
  kk : Nat → Nat

/-- commitment id of an output code (`AsRef<Commitment> for Output`) -/
def outCommit (o : Nat) : Nat := o / 2
/-- `is_coinbase()` of an output / kernel code -/
def isCoinbase (code : Nat) : Bool := code % 2 == 1

/-- `sort_unstable_by_key` / `sort_unstable` (elements with equal keys are equal elements in every
use the property is about, so stability is not observable) -/
def sortBy (key : Nat → Nat) (l : List Nat) : List Nat :=
  l.mergeSort (fun a b => decide (key a ≤ key b))

/-! ## `cut_through` -/

/-- the four slices returned by `cut_through` -/
structure Cut where
  ins : List Nat
  outs : List Nat
  cutIns : List Nat
  cutOuts : List Nat
deriving DecidableEq, Repr

/-- The `while inputs_idx < inputs.len() && outputs_idx < outputs.len()` loop over the two
commitment-sorted slices plus the two drain loops.  The in-place `swap(idx - ncut, idx)` only
compacts the kept elements to the front (all four slices are re-sorted afterwards), so the
loop is modelled by what it keeps and what it cuts. -/
def cutMerge (ca cb : Nat → Nat) : List Nat → List Nat → Cut
  | [], ys => ⟨[], ys, [], []⟩
  | x :: xs, [] => ⟨x :: xs, [], [], []⟩
  | x :: xs, y :: ys =>
    if ca x < cb y then
      let r := cutMerge ca cb xs (y :: ys)
      ⟨x :: r.ins, r.outs, r.cutIns, r.cutOuts⟩
    else if cb y < ca x then
      let r := cutMerge ca cb (x :: xs) ys
      ⟨r.ins, y :: r.outs, r.cutIns, r.cutOuts⟩
    else
      let r := cutMerge ca cb xs ys
      ⟨r.ins, r.outs, x :: r.cutIns, y :: r.cutOuts⟩
termination_by xs ys => xs.length + ys.length

/-- `slice.windows(2).any(|pair| pair[0] == pair[1])` -/
def adjDup : List Nat → Bool
  | a :: b :: t => a == b || adjDup (b :: t)
  | _ => false

/-- `cut_through(inputs, outputs)`: `ca`/`cb` are the commitment of an input / output element,
`ka`/`kb` the `Ord` of the element types (hash order) used by the final `sort_unstable()`s. -/
def cutThrough (ca cb ka kb : Nat → Nat) (ins outs : List Nat) : Except Err Cut :=
  let r := cutMerge ca cb (sortBy ca ins) (sortBy cb outs)
  let ins' := sortBy ka r.ins
  let outs' := sortBy kb r.outs
  if adjDup ins' then .error .cutThrough
  else if adjDup outs' then .error .cutThrough
  else .ok ⟨ins', outs', sortBy ka r.cutIns, sortBy kb r.cutOuts⟩

/-! ## kernel offsets (`committed.rs`) -/

/-- `to_secrets`: drop zero blinding factors and those that are not valid secret keys -/
def toSecrets (l : List Nat) : List Nat := l.filter (fun x => x != 0 && decide (x < N))

/-- the scalar `Σ positive − Σ negative` modulo the group order -/
def scalarSum (pos neg : List Nat) : Nat := (pos.sum + (neg.map (fun x => N - x % N)).sum) % N

/-- `secp.blind_sum(positive, negative)`: the sum, followed by `SecretKey::from_slice`, which
refuses zero (`none` is `Err(InvalidSecretKey)`; the only way this call fails) -/
def secpBlindSum (pos neg : List Nat) : Option Nat :=
  let s := scalarSum pos neg
  if s = 0 then none else some s

/-- `committed::blind_sum_or_zero(secp, positive, negative)`: `blind_sum`, and when that fails,
once more together with `ONE_KEY`; if that gives exactly `ONE_KEY` the keys cancel and the result
is `BlindingFactor::zero()`, otherwise the first error is handed on. -/
def blindSumOrZero (pos neg : List Nat) : Except Err Nat :=
  match secpBlindSum pos neg with
  | some s => .ok s
  | none =>
    match secpBlindSum (pos ++ [1]) neg with
    | some s => if s = 1 then .ok 0 else .error .secp
    | none => .error .secp

/-- `sum_kernel_offsets(positive, negative)` with its "positive empty ⇒ zero" shortcut -/
def sumKernelOffsets (pos neg : List Nat) : Except Err Nat :=
  let p := toSecrets pos
  let n := toSecrets neg
  if p.isEmpty then .ok 0 else blindSumOrZero p n

/-! ## transactions -/

structure Tx where
  offset : Nat
  /-- `Inputs::FeaturesAndCommit` (true) or `Inputs::CommitOnly` (false) -/
  v2 : Bool
  inputs : List Nat
  outputs : List Nat
  kernels : List Nat
deriving DecidableEq, Repr

/-- `Transaction::empty()` -/
def Tx.empty : Tx := ⟨0, false, [], [], []⟩

/-- `let v: Vec<CommitWrapper> = tx.inputs().into()`: a features-and-commit vector is converted
and sorted by the `CommitWrapper` order -/
def Tx.inputsCO (K : Keys) (t : Tx) : List Nat :=
  if t.v2 then sortBy K.ik t.inputs else t.inputs

/-- the general path of `aggregate` (two or more transactions) -/
def aggregateFull (K : Keys) (txs : List Tx) : Except Err Tx :=
  let inputs := txs.flatMap (Tx.inputsCO K)
  let outputs := txs.flatMap (·.outputs)
  let kernels := txs.flatMap (·.kernels)
  match cutThrough id outCommit K.ik K.ok inputs outputs with
  | .error e => .error e
  | .ok r =>
    match sumKernelOffsets (txs.map (·.offset)) [] with
    | .error e => .error e
    | .ok off =>
      -- `Transaction::new(Inputs::from(inputs), outputs, &kernels)` sorts everything
      .ok ⟨off, false, sortBy K.ik r.ins, sortBy K.ok r.outs, sortBy K.kk kernels⟩

/-- `aggregate(txs)` -/
def aggregate (K : Keys) (txs : List Tx) : Except Err Tx :=
  match txs with
  | [] => .ok Tx.empty
  | [tx] => .ok tx
  | _ => aggregateFull K txs

/-- the three `for mk_x in …  if !tx_xs.contains(mk_x) && !xs.contains(mk_x) { xs.push(mk_x) }`
loops of `deaggregate` -/
def pushNew (other : List Nat) : List Nat → List Nat → List Nat
  | acc, [] => acc
  | acc, x :: xs =>
    if other.contains x || acc.contains x then pushNew other acc xs
    else pushNew other (acc ++ [x]) xs

/-- `deaggregate(mk_tx, txs)` -/
def deaggregate (K : Keys) (mk : Tx) (txs : List Tx) : Except Err Tx :=
  match aggregate K txs with
  | .error e => .error e
  | .ok tx =>
    let inputs := pushNew (tx.inputsCO K) [] (mk.inputsCO K)
    let outputs := pushNew tx.outputs [] mk.outputs
    let kernels := pushNew tx.kernels [] mk.kernels
    let pos := toSecrets [mk.offset]
    let neg := toSecrets [tx.offset]
    let off := if pos.isEmpty && neg.isEmpty then .ok 0 else blindSumOrZero pos neg
    match off with
    | .error e => .error e
    | .ok off => .ok ⟨off, false, sortBy K.ik inputs, sortBy K.ok outputs, sortBy K.kk kernels⟩

/-! ## structural validation (`Transaction::validate_read` without weight / NRD checks) -/

inductive VErr
  | sort | dup | cutThrough | outputFeatures | kernelFeatures
deriving DecidableEq, Repr

/-- `verify_sorted_and_unique` -/
def sortedUnique (key : Nat → Nat) : List Nat → Option VErr
  | a :: b :: t =>
    if key a > key b then some .sort
    else if a == b then some .dup
    else sortedUnique key (b :: t)
  | _ => none

/-- `verify_cut_through`: all input and output commitments sorted, no two adjacent equal -/
def verifyCutThrough (t : Tx) : Option VErr :=
  if adjDup (sortBy id (t.inputs ++ t.outputs.map outCommit)) then some .cutThrough else none

/-- `Transaction::validate_read` for a commit-only transaction: `verify_sorted`,
`verify_cut_through`, `verify_features`, in that order -/
def validateRead (K : Keys) (t : Tx) : Option VErr :=
  match sortedUnique K.ik t.inputs with
  | some e => some e
  | none =>
  match sortedUnique K.ok t.outputs with
  | some e => some e
  | none =>
  match sortedUnique K.kk t.kernels with
  | some e => some e
  | none =>
  match verifyCutThrough t with
  | some e => some e
  | none =>
  if t.outputs.any isCoinbase then some .outputFeatures
  else if t.kernels.any isCoinbase then some .kernelFeatures
  else none

/-! ## blocks (`block.rs`, `compact_block.rs`) -/

/-- a block: the header's `total_kernel_offset` and the body -/
structure Block where
  totalOffset : Nat
  v2 : Bool
  inputs : List Nat
  outputs : List Nat
  kernels : List Nat
deriving DecidableEq, Repr

/-- `with_output` / `with_kernel`: `if let Err(e) = v.binary_search(&x) { v.insert(e, x) }`
on a vector sorted by `key` -/
def insertSorted (key : Nat → Nat) (x : Nat) (l : List Nat) : List Nat :=
  if l.contains x then l
  else l.takeWhile (fun y => decide (key y < key x)) ++ x :: l.dropWhile (fun y => decide (key y < key x))

/-- `Block::from_reward(prev, txs, reward_out, reward_kern, difficulty)`: body and
`header.total_kernel_offset` -/
def fromReward (K : Keys) (prevOffset : Nat) (txs : List Tx) (rout rkern : Nat) : Except Err Block :=
  match aggregate K txs with
  | .error e => .error e
  | .ok agg =>
    match sumKernelOffsets [agg.offset, prevOffset] [] with
    | .error e => .error e
    | .ok off =>
      .ok ⟨off, agg.v2, agg.inputs, insertSorted K.ok rout agg.outputs, insertSorted K.kk rkern agg.kernels⟩

/-- compact block: header (only the offset is modelled), nonce, full coinbase outputs and
kernels, and the kernels represented by a short id.  The 6-byte short-id values (siphash keyed by
header hash and nonce) and their order are not modelled: `kernIds` records *which* kernels are
represented. -/
structure CompactBlock where
  header : Nat
  nonce : Nat
  outFull : List Nat
  kernFull : List Nat
  kernIds : List Nat
deriving DecidableEq, Repr

/-- `impl From<Block> for CompactBlock` (with the nonce made explicit) -/
def compact (K : Keys) (nonce : Nat) (b : Block) : CompactBlock :=
  { header := b.totalOffset, nonce := nonce,
    outFull := sortBy K.ok (b.outputs.filter isCoinbase),
    kernFull := sortBy K.kk (b.kernels.filter isCoinbase),
    kernIds := b.kernels.filter (fun k => !isCoinbase k) }

/-- `Block::hydrate_from(cb, txs)` -/
def hydrateFrom (K : Keys) (cb : CompactBlock) (txs : List Tx) : Except Err Block :=
  let inputs := txs.flatMap (Tx.inputsCO K)
  let outputs := txs.flatMap (·.outputs)
  let kernels := txs.flatMap (·.kernels)
  match cutThrough id outCommit K.ik K.ok inputs outputs with
  | .error e => .error e
  | .ok r =>
    .ok ⟨cb.header, false, sortBy K.ik r.ins, sortBy K.ok (r.outs ++ cb.outFull),
         sortBy K.kk (kernels ++ cb.kernFull)⟩

/-! ## multiset specification -/

/-- spec of cut-through on multisets given as lists: `(I − O, O − I)` with truncated difference,
stated through `count` (the kept inputs contain `x` exactly `count x I − count (ca x) (O.map cb)`
times, …) in `Props/C12.lean`. -/
def specKeptIn (ins outCommits : List Nat) (x : Nat) : Nat := ins.count x - outCommits.count x

end GV.Tx
