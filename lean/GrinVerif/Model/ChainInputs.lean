import GrinVerif.Model.Chain
/-! Inputs in the "features and commit" form (`Inputs::FeaturesAndCommit`, protocol version 2 and
JSON): `UTXOView::validate_inputs` (chain/src/txhashset/utxo_view.rs) looks the commitment up and
then compares the FULL output identifier — features and commitment — with the input. An input that
names an existing unspent commitment with the wrong features spends nothing that exists.
The commit-only form (`Inputs::CommitOnly`, protocol version 3) carries no claim to compare. -/
namespace GV.Chain

/-- `validate_inputs` over `(output id, claimed coinbase flag)`: `none` as claim = commit-only form.
Per input, in order: not unspent → `AlreadySpent`; identifier mismatch → `Other("input mismatch")`. -/
def validateInputsFC (s : UState) : List (Nat × Option Bool) → Option Err
  | [] => none
  | (i, claim) :: rest =>
    match s.find i with
    | none => some "AlreadySpent"
    | some (_, _, cb) =>
      match claim with
      | some f => if cb != f then some "Other" else validateInputsFC s rest
      | none => validateInputsFC s rest

/-- some claimed input flag differs from the flag the output was created with (a static fact about
the block and the outputs it names) -/
def featMismatch (outs : List OutDef) (inf : List (Nat × Bool)) : Bool :=
  inf.any fun (i, f) => match outs.find? (·.id == i) with
    | some d => d.cb != f
    | none => false

/-- A block whose inputs come in features-and-commit form with the claims `inf`. In the block
pipeline the comparison happens in `validate_utxo`, after coinbase maturity (which resolves every
input by commitment: `AlreadySpent`) and the duplicate-output check, before the block sums: exactly
where the model evaluates its state-stage fault tag — so a mismatch is carried there as
`sums:Other`. -/
def Blk.withInputFeatures (outs : List OutDef) (b : Blk) (inf : List (Nat × Bool)) : Blk :=
  if featMismatch outs inf then { b with tags := b.tags ++ ["sums:Other"] } else b

/-- `Chain::validate_tx` with inputs carrying claims: outputs must not duplicate unspent
commitments, then the inputs as above, then the NRD rule (as `txValidate`). -/
def txValidateFC (s : UState) (t : TxA) (claims : List (Nat × Option Bool)) : Option Err :=
  if t.outs.any s.has then some "DuplicateCommitment"
  else match validateInputsFC s claims with
  | some e => some e
  | none => txValidate s t

end GV.Chain
