import GrinVerif.Model.Kv
/-! Specification side of C18: the textbook nested-transaction map.

A database is a function `Key → Option Val`; a write is a point update; a transaction is the
*composition* of its own writes and of the effects of those child transactions that commit, in
program order; an aborted (dropped) child contributes the identity.  Nothing here mentions
overlays, stacks or sorted lists. -/
namespace GV.Kv

/-- a database as a mathematical map -/
abbrev Map := Key → Option Val

/-- the map a table denotes -/
def den (t : Tbl) : Map := fun k => tget t k

/-- point update (`some v` = put, `none` = delete) -/
def writeF (w : W) (m : Map) : Map := fun k => if w.1 = k then w.2 else m k

/-- a list of writes (newest first) as a composition of point updates -/
def ovF (o : Ov) (m : Map) : Map := o.foldr writeF m

/-- The body of one batch, as a tree: writes in program order, child batches with their own body
and the decision whether the child commits (`true`) or is dropped (`false`). -/
inductive Prog
  | done
  | put (k : Key) (v : Val) (rest : Prog)
  | del (k : Key) (rest : Prog)
  | child (body : Prog) (commit : Bool) (rest : Prog)

/-- textbook semantics of a batch body: function composition; a dropped child is the identity -/
def Prog.sem : Prog → Map → Map
  | .done, m => m
  | .put k v rest, m => rest.sem (writeF (k, some v) m)
  | .del k rest, m => rest.sem (writeF (k, none) m)
  | .child b c rest, m => rest.sem (if c then b.sem m else m)

/-- the operation sequence the batch body performs on `Batch` / `Store` -/
def Prog.flat : Prog → List Op
  | .done => []
  | .put k v rest => Op.put k v :: rest.flat
  | .del k rest => Op.del k :: rest.flat
  | .child b c rest => Op.child :: (b.flat ++ (if c then Op.commit else Op.drop) :: rest.flat)

/-- the writes of the body that survive to its end, newest first -/
def Prog.writes : Prog → Ov
  | .done => []
  | .put k v rest => rest.writes ++ [(k, some v)]
  | .del k rest => rest.writes ++ [(k, none)]
  | .child b c rest => rest.writes ++ (if c then b.writes else [])

/-- every write occurrence of the body (newest first) with the conjunction of the commit
decisions of all child batches enclosing it *inside this body* -/
def Prog.occs : Prog → List (W × Bool)
  | .done => []
  | .put k v rest => rest.occs ++ [((k, some v), true)]
  | .del k rest => rest.occs ++ [((k, none), true)]
  | .child b c rest => rest.occs ++ b.occs.map (fun e => (e.1, e.2 && c))

/-- nesting depth of a body (0 = no child batch) -/
def Prog.depth : Prog → Nat
  | .done => 0
  | .put _ _ rest => rest.depth
  | .del _ rest => rest.depth
  | .child b _ rest => max (b.depth + 1) rest.depth

/-- a complete top-level batch: `Store::batch()`, the body, then commit or drop -/
def txn (p : Prog) (commit : Bool) : List Op :=
  Op.begin :: (p.flat ++ [if commit then Op.commit else Op.drop])

/-- `ops` performs no *outermost* commit when started in `st` (commits of child batches allowed) -/
def NoOuterCommit : St → List Op → Prop
  | _, [] => True
  | st, op :: r => ¬ (op = Op.commit ∧ st.stack.length = 1) ∧ NoOuterCommit (step st op) r

end GV.Kv
