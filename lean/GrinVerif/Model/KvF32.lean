import GrinVerif.Model.Kv
/-! The `f32` arithmetic `needs_resize` (`store/src/lmdb.rs`) really performs, modelled exactly:

```text
size_used as f32 / env_info.map_size as f32 > RESIZE_PERCENT            // const RESIZE_PERCENT: f32 = 0.9
size_used as f32 / tot as f32 > RESIZE_MIN_TARGET_PERCENT as f32 / 100.0 // const …: u128 = 65
```

A finite non-negative `f32` is `m · 2^e` with `2^23 ≤ m < 2^24` (all values here are normal: between
`2^-40` and `2^64`), or zero.  `usize as f32`, the literal `0.9` and `/` all round to nearest, ties to
even (IEEE 754 binary32; Rust's `as` from an integer and its literal parsing are correctly rounded).
`Model/Kv.lean` `needsResize` reads the comparisons as exact rationals; `needsResizeF32` below is
what the code computes.  They differ only when `used / map` lies within half an ulp (`2^-25`) above
`0.9` resp. `0.65`, which needs a map of at least `2^24` pages (64 GiB) – run `kv f32probe` checks
every page-granular map size below that exhaustively on the hardware and ties this model to the
hardware's `f32` on the boundary cases beyond. -/
namespace GV.Kv.F32

/-- `m · 2^e`, `m = 0` or `2^23 ≤ m < 2^24` -/
structure F where
  m : Nat
  e : Int
deriving Repr, DecidableEq

/-- `n · 2^k` for an integer `k`, as numerator / denominator factors -/
def shiftPair (k : Int) : Nat × Nat :=
  if k ≥ 0 then (2 ^ k.toNat, 1) else (1, 2 ^ (-k).toNat)

/-- quotient and scaled operands of `num / (den · 2^e)` -/
def scaled (num den : Nat) (e : Int) : Nat × Nat :=
  let s := shiftPair e
  (num * s.2, den * s.1)

/-- adjust the exponent until the integer part has exactly 24 bits -/
def normExp (num den : Nat) : Nat → Int → Int
  | 0, e => e
  | fuel+1, e =>
    let (n, d) := scaled num den e
    let t := n / d
    if t < 2 ^ 23 then normExp num den fuel (e - 1)
    else if t ≥ 2 ^ 24 then normExp num den fuel (e + 1)
    else e

/-- the positive rational `num / den` rounded to the nearest `f32`, ties to even -/
def round (num den : Nat) : F :=
  if num = 0 ∨ den = 0 then ⟨0, 0⟩ else
  let e0 : Int := (Nat.log2 num : Int) - (Nat.log2 den : Int) - 23
  let e := normExp num den 4 e0
  let (n, d) := scaled num den e
  let t := n / d
  let r := n % d
  let up := decide (2 * r > d) || (decide (2 * r = d) && t % 2 == 1)
  let m := if up then t + 1 else t
  if m = 2 ^ 24 then ⟨2 ^ 23, e + 1⟩ else ⟨m, e⟩

/-- `n as f32` for an unsigned integer -/
def ofNat (n : Nat) : F := round n 1

/-- `a / b` -/
def div (a b : F) : F :=
  let k := a.e - b.e
  let s := shiftPair k
  round (a.m * s.1) (b.m * s.2)

/-- `a > b` -/
def gt (a b : F) : Bool :=
  let k := a.e - b.e
  let s := shiftPair k
  decide (a.m * s.1 > b.m * s.2)

/-- the IEEE bit pattern (sign 0) -/
def bits (a : F) : Nat :=
  if a.m = 0 then 0 else ((a.e + 23 + 127).toNat) * 2 ^ 23 + (a.m - 2 ^ 23)

/-- the literal `0.9_f32` -/
def c90 : F := round 9 10
/-- `65_u128 as f32 / 100.0` -/
def c65 : F := div (ofNat 65) (ofNat 100)

/-- `used as f32 / map as f32 > 0.9` -/
def gt90 (used map : Nat) : Bool := gt (div (ofNat used) (ofNat map)) c90
/-- `used as f32 / tot as f32 > 65 as f32 / 100.0` -/
def gt65 (used tot : Nat) : Bool := gt (div (ofNat used) (ofNat tot)) c65

def growLoopF32 (used chunk : Nat) : Nat → Nat → Nat
  | 0, tot => tot
  | fuel+1, tot => if gt65 used tot then growLoopF32 used chunk fuel (tot + chunk) else tot

/-- `needs_resize(env, chunk)` as the code computes it (`mapSize = 0`: the quotient is `inf` / `NaN`,
but `map_size < alloc_chunk_size` decides) -/
def needsResizeF32 (mapSize used chunk : Nat) : Bool × Nat :=
  let resize := (mapSize ≠ 0 && gt90 used mapSize) || decide (mapSize < chunk)
  if !resize then (false, mapSize)
  else if mapSize < chunk then (true, chunk)
  else (true, growLoopF32 used chunk (used * 2 + 1) (mapSize - mapSize % chunk))

end GV.Kv.F32
