import GrinVerif.Model.SerStore
import GrinVerif.Model.SerMsg
/-! # The remaining `Readable` / `Writeable` impls: database values and small wrappers

Every `impl Readable for …` of the source tree that `Model/Ser{,Tx,Block,Seg,Msg,Store}.lean` did not
cover (the inventory is `Model/SerImpls.lean`):

* `chain/src/linked_list.rs` — `ListWrapperVariant`, `ListEntryVariant`, `ListWrapper<T>`,
  `ListEntry<T>` (the NRD kernel index: `MultiIndex<CommitPos>`, LMDB values);
* `core/src/core/block_sums.rs` — `BlockSums`;
* `store/src/types.rs` — `SizeEntry` (the element of a `pmmr_size.bin` file);
* `core/src/ser.rs` — `ProtocolVersion`, the fixed-size byte strings `Commitment`, `BlindingFactor`,
  `Identifier`, `Signature`, `Hash`, `PublicKey` (generic in the curve test, and with the real test
  `secpOnCurve`), the integer impls of
  `impl_int!`, the tuples `(A,B,C)` and `(A,B,C,D)`;
* `p2p/src/store.rs` — `PeerData` (LMDB value of the peer store), with its two OPTIONAL trailing
  fields: a failed `read_i64` is replaced by `Utc::now()` (parameter `now`) resp. `0`;
* `chain/src/store.rs` — `BoolFlag` (private, never constructed): `1 & x == 1`.

Transliterations: `?` = `andThen`, field order as in the source. None of these encodings depends on
the protocol version or the serialisation mode. -/
namespace GV.SerDb
open GV GV.Ser GV.SerMsg

/-! ## `chain/src/linked_list.rs` -/

/-- `ListWrapperVariant::from_u8(..).ok_or(CorruptedData)`: `Single = 0`, `Multi = 1` -/
inductive WrapperVariant | single | multi
deriving DecidableEq, Repr

def WrapperVariant.tag : WrapperVariant → Nat
  | .single => 0
  | .multi => 1

def decWrapperVariant : Parser WrapperVariant := fun bs =>
  andThen (readU8 bs) fun t r =>
    if t = 0 then .ok (.single, r)
    else if t = 1 then .ok (.multi, r)
    else .error .corrupted

/-- `ListEntryVariant`: `Head = 2`, `Tail = 3`, `Middle = 4` ("start at 2 to differentiate") -/
inductive EntryVariant | head | tail | middle
deriving DecidableEq, Repr

def EntryVariant.tag : EntryVariant → Nat
  | .head => 2
  | .tail => 3
  | .middle => 4

def decEntryVariant : Parser EntryVariant := fun bs =>
  andThen (readU8 bs) fun t r =>
    if t = 2 then .ok (.head, r)
    else if t = 3 then .ok (.tail, r)
    else if t = 4 then .ok (.middle, r)
    else .error .corrupted

/-- `pub enum ListWrapper<T>` -/
inductive ListWrapper (α : Type)
  | single (pos : α)
  | multi (head tail : Nat)
deriving DecidableEq, Repr

/-- `Writeable for ListWrapper<T>` -/
def encListWrapper {α : Type} (w : α → Bytes) : ListWrapper α → Bytes
  | .single pos => writeU8 WrapperVariant.single.tag ++ w pos
  | .multi head tail => writeU8 WrapperVariant.multi.tag ++ writeU64 head ++ writeU64 tail

/-- `Readable for ListWrapper<T>` -/
def decListWrapper {α : Type} (p : Parser α) : Parser (ListWrapper α) := fun bs =>
  andThen (decWrapperVariant bs) fun v r =>
    match v with
    | .single => andThen (p r) fun pos r => .ok (.single pos, r)
    | .multi =>
      andThen (readU64 r) fun head r =>
      andThen (readU64 r) fun tail r =>
      .ok (.multi head tail, r)

/-- `pub enum ListEntry<T>` -/
inductive ListEntry (α : Type)
  | head (pos : α) (next : Nat)
  | tail (pos : α) (prev : Nat)
  | middle (pos : α) (next prev : Nat)
deriving DecidableEq, Repr

/-- `Writeable for ListEntry<T>` -/
def encListEntry {α : Type} (w : α → Bytes) : ListEntry α → Bytes
  | .head pos next => writeU8 EntryVariant.head.tag ++ w pos ++ writeU64 next
  | .tail pos prev => writeU8 EntryVariant.tail.tag ++ w pos ++ writeU64 prev
  | .middle pos next prev => writeU8 EntryVariant.middle.tag ++ w pos ++ writeU64 next ++ writeU64 prev

/-- `Readable for ListEntry<T>` -/
def decListEntry {α : Type} (p : Parser α) : Parser (ListEntry α) := fun bs =>
  andThen (decEntryVariant bs) fun v r =>
    match v with
    | .head =>
      andThen (p r) fun pos r =>
      andThen (readU64 r) fun next r =>
      .ok (.head pos next, r)
    | .tail =>
      andThen (p r) fun pos r =>
      andThen (readU64 r) fun prev r =>
      .ok (.tail pos prev, r)
    | .middle =>
      andThen (p r) fun pos r =>
      andThen (readU64 r) fun next r =>
      andThen (readU64 r) fun prev r =>
      .ok (.middle pos next prev, r)

/-- the two instances the node stores (`nrd_recent_kernel_index(): MultiIndex<CommitPos>`) -/
def decNrdList : Parser (ListWrapper CommitPos) := decListWrapper decCommitPos
def encNrdList : ListWrapper CommitPos → Bytes := encListWrapper encCommitPos
def decNrdEntry : Parser (ListEntry CommitPos) := decListEntry decCommitPos
def encNrdEntry : ListEntry CommitPos → Bytes := encListEntry encCommitPos

/-! ## BlockSums (`core/src/core/block_sums.rs`) -/

structure BlockSums where
  utxoSum : Bytes
  kernelSum : Bytes
deriving DecidableEq, Repr

def encBlockSums (s : BlockSums) : Bytes := writeFixed s.utxoSum ++ writeFixed s.kernelSum

/-- `Commitment::read` twice -/
def decBlockSums : Parser BlockSums := fun bs =>
  andThen (readFixed COMMIT_SIZE bs) fun u r =>
  andThen (readFixed COMMIT_SIZE r) fun k r =>
  .ok ({ utxoSum := u, kernelSum := k }, r)

/-! ## SizeEntry (`store/src/types.rs`) -/

structure SizeEntry where
  offset : Nat
  size : Nat
deriving DecidableEq, Repr

/-- `SizeEntry::LEN` -/
def SIZE_ENTRY_LEN : Nat := 8 + 2

def encSizeEntry (e : SizeEntry) : Bytes := writeU64 e.offset ++ writeU16 e.size

def decSizeEntry : Parser SizeEntry := fun bs =>
  andThen (readU64 bs) fun o r =>
  andThen (readU16 r) fun s r =>
  .ok ({ offset := o, size := s }, r)

/-! ## `core/src/ser.rs`: ProtocolVersion, fixed-size byte strings, integers, tuples -/

def encProtocolVersion (v : Nat) : Bytes := writeU32 v
def decProtocolVersion : Parser Nat := readU32

/-- `SECRET_KEY_SIZE`, `IDENTIFIER_SIZE`, `AGG_SIGNATURE_SIZE`, `COMPRESSED_PUBLIC_KEY_SIZE` -/
def SECRET_KEY_SIZE : Nat := 32
def IDENTIFIER_SIZE : Nat := 17
def SIGNATURE_SIZE : Nat := 64
def PUBKEY_SIZE : Nat := 33

/-- `Commitment`, `BlindingFactor`, `Identifier`, `Signature`, `Hash`: `read_fixed_bytes(N)` copied
into an array; the writer is `write_fixed_bytes` -/
def decFixedN (n : Nat) : Parser Bytes := readFixed n
def encFixedN (b : Bytes) : Bytes := writeFixed b

/-- `Readable for PublicKey`: 33 bytes, then `PublicKey::from_slice` (`onCurve` = the parse of a
compressed point succeeds; crypto is a parameter); the writer emits the compressed form -/
def decPublicKey (onCurve : Bytes → Bool) : Parser Bytes := fun bs =>
  andThen (readFixed PUBKEY_SIZE bs) fun b r =>
    if onCurve b then .ok (b, r) else .error .corrupted

/-- the field prime of secp256k1 -/
def SECP_P : Nat := 2^256 - 2^32 - 977

/-- `b^e mod m` by square-and-multiply over the `fuel` low bits of `e` -/
def powMod (b m : Nat) : Nat → Nat → Nat
  | 0, _ => 1 % m
  | fuel+1, e =>
    let h := powMod b m fuel (e / 2)
    if e % 2 = 1 then h * h % m * b % m else h * h % m

/-- what `secp256k1_ec_pubkey_parse` accepts for a 33-byte input: tag 02 / 03, `x < p`, and
`x³ + 7` a non-zero square mod p (Euler's criterion; the group has odd prime order, so no point has
`y = 0`) -/
def secpOnCurve (b : Bytes) : Bool :=
  match b with
  | tag :: xs =>
    let x := ofBE xs
    (tag == 2 || tag == 3) && xs.length == 32 && decide (x < SECP_P)
      && powMod ((x * x * x + 7) % SECP_P) SECP_P 256 ((SECP_P - 1) / 2) == 1
  | [] => false

/-- `Readable for PublicKey` with the real curve test; the writer's compressed form of a parsed key is
the bytes it was parsed from (the tag byte IS the parity of `y`) -/
def decPublicKeyReal : Parser Bytes := decPublicKey secpOnCurve

/-- `impl_int!(i32, write_i32, read_i32)` -/
def writeI32 (z : Int) : Bytes := writeU32 (z % 2^32).toNat
def readI32 : Parser Int := fun bs =>
  andThen (readU32 bs) fun u r => .ok (toI32 u, r)

/-- `Readable for (A, B, C)` / `(A, B, C, D)` -/
def decTriple {α β γ : Type} (pa : Parser α) (pb : Parser β) (pc : Parser γ) : Parser (α × β × γ) := fun bs =>
  andThen (pa bs) fun a r =>
  andThen (pb r) fun b r =>
  andThen (pc r) fun c r =>
  .ok ((a, b, c), r)

def encTriple {α β γ : Type} (wa : α → Bytes) (wb : β → Bytes) (wc : γ → Bytes) (x : α × β × γ) : Bytes :=
  wa x.1 ++ wb x.2.1 ++ wc x.2.2

def decQuad {α β γ δ : Type} (pa : Parser α) (pb : Parser β) (pc : Parser γ) (pd : Parser δ) :
    Parser (α × β × γ × δ) := fun bs =>
  andThen (pa bs) fun a r =>
  andThen (pb r) fun b r =>
  andThen (pc r) fun c r =>
  andThen (pd r) fun d r =>
  .ok ((a, b, c, d), r)

def encQuad {α β γ δ : Type} (wa : α → Bytes) (wb : β → Bytes) (wc : γ → Bytes) (wd : δ → Bytes)
    (x : α × β × γ × δ) : Bytes :=
  wa x.1 ++ wb x.2.1 ++ wc x.2.2.1 ++ wd x.2.2.2

/-! ## BoolFlag (`chain/src/store.rs`, private) -/

def encBoolFlag (b : Bool) : Bytes := writeU8 (if b then 1 else 0)

/-- `BoolFlag(1 & x == 1)`: the low bit decides, the other seven are ignored -/
def decBoolFlag : Parser Bool := fun bs =>
  andThen (readU8 bs) fun x r => .ok (x % 2 == 1, r)

/-! ## PeerData (`p2p/src/store.rs`) -/

/-- `State::from_u8`: `Healthy = 0`, `Banned = 1`, `Defunct = 2`, `Unknown = 3` -/
def PEER_STATE_MAX : Nat := 3

structure PeerData where
  addr : PeerAddr
  /-- `Capabilities::bits()` -/
  capabilities : Nat
  /-- UTF-8 bytes of `user_agent` -/
  userAgent : Bytes
  /-- `State as u8` -/
  flags : Nat
  lastBanned : Int
  /-- `ReasonForBan as i32` -/
  banReason : Nat
  lastConnected : Int
  lastAttempt : Int
deriving DecidableEq, Repr

/-- `Writeable for PeerData` -/
def encPeerData (p : PeerData) : Bytes :=
  encPeerAddr p.addr ++ writeU32 p.capabilities ++ writeBytes p.userAgent ++ writeU8 p.flags
  ++ writeI64 p.lastBanned ++ writeU32 p.banReason ++ writeI64 p.lastConnected ++ writeI64 p.lastAttempt

/-- the two optional trailing fields: `reader.read_i64()` twice WITHOUT `?`; a failed read is
replaced by `now` resp. `0` (`read_exact` on a byte slice that is too short consumes what is left,
so the second read fails as well) -/
def readTrailing (now : Int) (bs : Bytes) : Int × Int × Bytes :=
  match readI64 bs with
  | .ok (lc, r) =>
    (match readI64 r with
     | .ok (la, r') => (lc, la, r')
     | .error _ => (lc, 0, []))
  | .error _ => (now, 0, [])

/-- `Readable for PeerData`. Order as in the source: all reads first, then `String::from_utf8`,
`from_bits_truncate`, `ReasonForBan::from_i32`, `State::from_u8` (the three refusals are all
`CorruptedData`). -/
def decPeerData (now : Int) : Parser PeerData := fun bs =>
  andThen (decPeerAddr bs) fun addr r =>
  andThen (readU32 r) fun capab r =>
  andThen (readBytesLenPrefix r) fun ua r =>
  andThen (readU8 r) fun fl r =>
  andThen (readI64 r) fun lb r =>
  andThen (readU32 r) fun br r =>
    let t := readTrailing now r
    if !validUtf8 ua then .error .corrupted
    else match reasonOfI32 (toI32 br) with
      | none => .error .corrupted
      | some reason =>
        if fl > PEER_STATE_MAX then .error .corrupted
        else .ok ({ addr := addr, capabilities := capsTruncate capab, userAgent := ua, flags := fl,
                    lastBanned := lb, banReason := reason, lastConnected := t.1, lastAttempt := t.2.1 },
                  t.2.2)

end GV.SerDb
