import GrinVerif.Gen.SerImpls
/-! # Where an encoding can depend on the protocol version

HAND-MAINTAINED against `Gen/SerImpls.lean` (`versionSites`, regenerated on every check run by
tools/gen_serimpls.py): every top-level item of the source tree that mentions `protocol_version()`,
with what it is in the model. `Props/C10Version.lean` decides that the regenerated list IS this list
(a new branch on the version anywhere in the tree breaks that obligation) and proves, per codec
site, exactly what the version changes. Every `Readable` / `Writeable` impl that is NOT in this list
does not look at the version: its model has no version parameter. -/
namespace GV.SerVersion

inductive Role
  /-- a codec that branches on the version: the model definition that carries the branch -/
  | codec (modelDef : String)
  /-- the version is only handed on (to a reader / writer / child batch), no encoding decision -/
  | plumbing (what : String)
deriving DecidableEq, Repr

structure Site where
  file : String
  item : String
  mentions : Nat
  role : Role
deriving DecidableEq, Repr

def sites : List Site := [
  { file := "chain/src/store.rs", item := "impl<'a>Batch<'a>", mentions := 4,
    role := .plumbing "ProtocolVersion of the db handed to get_ser / put_ser / child batches / iterators" },
  { file := "core/src/core/transaction.rs", item := "implWriteableforKernelFeatures", mentions := 1,
    role := .codec "encKernelFeatures: ver <= 1 writes the fixed-width v1 layout, ver >= 2 the variable v2 layout; hash mode always v1" },
  { file := "core/src/core/transaction.rs", item := "implReadableforKernelFeatures", mentions := 1,
    role := .codec "decKernelFeatures: ver <= 1 reads v1, ver >= 2 reads v2" },
  { file := "core/src/core/transaction.rs", item := "implReadableforTransactionBody", mentions := 1,
    role := .codec "decInputs: ver <= 2 reads Input (features + commit), ver >= 3 reads CommitWrapper" },
  { file := "core/src/core/transaction.rs", item := "implWriteableforInputs", mentions := 2,
    role := .codec "encInputs: FeaturesAndCommit written in full at ver <= 2 and as commitments at ver >= 3; CommitOnly refused at ver <= 2; hash mode writes what is held" },
  { file := "p2p/src/store.rs", item := "impl<'a>PeersIterBatch<'a>", mentions := 1,
    role := .plumbing "version of the peer db handed to the iterator" },
  { file := "servers/src/grin/server.rs", item := "implServer", mentions := 1,
    role := .plumbing "reported in the server stats" },
  { file := "store/src/lmdb.rs", item := "implStore", mentions := 1,
    role := .plumbing "accessor / version handed to get_ser" },
  { file := "store/src/lmdb.rs", item := "impl<'a>Batch<'a>", mentions := 3,
    role := .plumbing "version handed to ser_vec / deserialize / child batch" }]

def Site.key (s : Site) : String × String × Nat := (s.file, s.item, s.mentions)

end GV.SerVersion
