import GrinVerif.Model.Crash
/-! Crash model, step lists of the scenarios added in session 8 (C09): a block whose header is
already known (header-first propagation, `Chain::process_block` → `pipe::process_block`: the header
MMR is not touched, the body extension syncs the three backends, then the final LMDB commit), several
such acceptances in ONE call (`check_orphans`: the orphan's acceptance follows its parent's), and
`Chain::reset_chain_head(target, true)` (chain/src/chain.rs: `txhashset::extending` rewinds the
txhashset to the target and syncs the three backends, `header_extending` rewinds and syncs the
header MMR, then ONE `batch.commit()` stores body head and header head).
Nested (child) LMDB commits are not durable and are left out of the lists; `Drv/CrashD.lean` walks the
real crash-point labels and checks at every enumerated crash point that the state it reaches is the
state of these lists. -/
namespace GV.Crash

/-- a node whose body stands on `O` and whose header chain stands on `H` (headers delivered first) -/
def hdrFirst (O H : List BlkInfo) : Durable :=
  { consistent O with
    dbHHead := (H.getLast?.map (·.id)).getD 0, hdrHash := H.map (·.id), hdrData := H.map (·.id) }

/-- the durable steps of accepting a block whose header is known -/
def bodySteps : List Step :=
  [.outHashTrunc, .outHashApp, .outDataTrunc, .outDataApp, .leafRename,
   .kerHashTrunc, .kerHashApp, .kerDataTrunc, .kerDataApp, .finalCommit]

/-- several acceptances in one call, each running `steps`: the first `k` durable steps overall -/
def multiCrashAfter : List Target → Durable → List Step → Nat → Durable
  | [], d, _, _ => d
  | t :: ts, d, steps, k =>
    if k ≤ steps.length then crashAfter t d steps k
    else multiCrashAfter ts (crashAfter t d steps steps.length) steps (k - steps.length)

/-- the file steps of `reset_chain_head`: txhashset first, then the header MMR -/
def resetFileSteps : List Step :=
  [.outHashTrunc, .outHashApp, .outDataTrunc, .outDataApp, .leafRename,
   .kerHashTrunc, .kerHashApp, .kerDataTrunc, .kerDataApp,
   .hdrHashTrunc, .hdrHashApp, .hdrDataTrunc, .hdrDataApp]

/-- the first `k` durable steps of a head reset; step 14 is the single commit of both heads -/
def resetCrashAfter (t : Target) (d : Durable) (k : Nat) : Durable :=
  let d' := crashAfter t d resetFileSteps k
  if resetFileSteps.length < k then applyStep t (applyStep t d' .hdrCommit) .finalCommit else d'

/-- the target of a reset to the path `T` -/
def resetTarget (T : List BlkInfo) : Target :=
  { newPath := T, forkLen := T.length, movesHHead := true, movesHead := true }

end GV.Crash
