import GrinVerif.Model.ChainStatus
import GrinVerif.Model.ChainReset
/-! Block processing exactly as the code short-cuts it, in EVERY node state - also the states
`Chain::reset_chain_head` leaves behind, in which blocks with MORE work than the head are already in
the block store - and with the header denylist (`Chain::invalidate_header`).

`Model/Chain.lean` writes "already known" as `id = head ∨ id = head.prev ∨ stored`. The code
(chain/src/pipe.rs `check_known`, `check_known_head`, `check_known_store`; chain/src/chain.rs
`is_known`) asks that question ONLY for a block that has no more work than the head
(`if header.total_difficulty() <= head.total_difficulty`). While the head has the most work among
stored blocks (`HeadMax`, an invariant of block processing: Props/C03 `headMax_step`) the two agree
(`Props/C03Known.lean`: `processBlockSingleK_eq`), after a reset they do not: a stored block above
the new head is processed AGAIN in full (its own ancestors re-applied from the block store by
`rewind_and_apply_fork`), which is how a reset node gets back to where it was.

Transliterated here, in the code's order:
* `pipe::check_known` (+ `_head`, `_store`): `checkKnown`
* `pipe::validate_header_denylist` as the first step of `validate_header` and on every header that
  `rewind_and_apply_header_fork` re-applies (the `fork_hashes`: headers of the target's own path that
  the header MMR - the path to the header head - does not hold): `forkHeaders`, `forkDenied`
* `pipe::process_block_header`: `processHeaderK`
* `Chain::process_block_single` = `process_block_header`, `is_known`, `check_orphan`, then
  `pipe::process_block` = `check_known`, (`validate_pow_only`: SKIP_POW), `prev_header_store`,
  `process_block_header` a SECOND time, `validate_block`, extension (`rewind_and_apply_fork` with
  the denylist, maturity, utxo, sums, apply), `add_block`, `update_head`: `precheckK`,
  `pipeProcessBlockK`, `processBlockSingleK` (with the adapter notification of `Model/ChainStatus`)
* `Chain::check_orphans`, `Chain::process_block` over any single-block step: `checkOrphansG`,
  `deliverBlockG`; `deliverBlockK`
* `Chain::reset_chain_head` with the denylist: `resetChainHeadK`
* `Chain::sync_block_headers` / `pipe::process_block_headers` (a chunk of headers, all or nothing):
  `validateChunk`, `applyForkHeaders`, `processHeadersK`
* the options a block is processed with (`Options`; chain/src/types.rs): they change nothing in
  `chain/` under SKIP_POW, they are PASSED ON - to the adapter with every notification, and into the
  orphan pool (`Orphan.opts`; `HashMap::insert` replaces an entry, so a block parked twice carries
  the options of the LAST offer) from where `check_orphans` processes every orphan with ITS OWN
  options: `parkOpts`, `annotateOpts`. -/

namespace GV.Chain

/-- `pipe::check_known(header, head)`: asked only when the block has no more work than the head -/
def checkKnown (n : Node) (b : Blk) : Option Err :=
  if b.work ≤ n.workOf n.head then
    -- check_known_head: last_block_h / prev_block_h of the head tip
    if b.id == n.head ∨ some b.id == n.parentOf n.head then some "Unfit" else
    -- check_known_store
    if n.stored.contains b.id then
      some (if b.h < n.heightOf n.head - 50 then "OldBlock" else "Unfit")
    else none
  else none

/-- `validate_header` after the denylist and before anything tagged (the tag `hdr:` carries
`validate_root`, which runs later, inside the header extension) -/
def validateHeaderPre (p : Params) (n : Node) (b : Blk) : Option Err :=
  match b.parent with
  | none => some "StoreErr"
  | some par =>
  if !n.headers.contains par then some "StoreErr" else
  if b.h ≠ n.heightOf par + 1 then some "InvalidBlockHeight" else
  if b.ver ≠ headerVersion p b.h then some "InvalidBlockVersion" else
  match n.blk par with
  | none => some "StoreErr"
  | some pb => if b.ts ≤ pb.ts then some "InvalidBlockTime" else none

/-- the `fork_hashes` of `rewind_and_apply_header_fork(x)`: walking back from `x` while the header
MMR does not hold the header at its height (`is_on_current_chain`), i.e. the blocks of `x`'s own
path that are not on the path to the header head -/
def forkHeaders (n : Node) (x : Nat) : List Nat :=
  match n.path x with
  | some px => (px.filter fun b => !((n.headerAtHeight b.h).map (·.id) == some b.id)).map (·.id)
  | none => []

/-- some header that `rewind_and_apply_header_fork(x)` re-applies is on the denylist
(`validate_header_denylist` returns early on an empty list) -/
def forkDenied (deny : List Nat) (n : Node) (x : Nat) : Bool :=
  if deny.isEmpty then false else (forkHeaders n x).any deny.contains

/-- `pipe::process_block_header` -/
def processHeaderK (p : Params) (deny : List Nat) (n : Node) (b : Blk) : Except Err Node :=
  -- check_known(header, head).is_err(): success, nothing to do
  if (checkKnown n b).isSome then .ok n else
  -- get_previous_header
  match b.parent with
  | none => .error "StoreErr"
  | some par =>
  if !n.headers.contains par then .error "StoreErr" else
  -- the header is in the store and has no more work than the header head
  if n.headers.contains b.id ∧ ¬ (b.work > n.workOf n.hhead) then .ok n else
  -- validate_header: validate_header_ctx first
  if deny.contains b.id then .error "Block" else
  match validateHeaderPre p n b with
  | some e => .error e
  | none =>
  -- header_extending: rewind_and_apply_header_fork(prev_header), validate_root, apply_header
  if forkDenied deny n par then .error "Block" else
  match hasTag b "hdr:" with
  | some e => .error e
  | none =>
    let hs := if n.headers.contains b.id then n.headers else n.headers ++ [b.id]
    let hh := if b.work > n.workOf n.hhead then b.id else n.hhead
    .ok { n with headers := hs, hhead := hh }

/-- `Chain::is_known`, `Chain::check_orphan`, then `check_known` of `pipe::process_block` -/
def precheckK (n1 : Node) (b : Blk) : Pre :=
  -- is_known
  if b.id == n1.head then .reject "Unfit" else
  if b.work ≤ n1.workOf n1.head ∧ n1.stored.contains b.id then .reject "Unfit" else
  -- check_orphan
  match b.parent with
  | none => .reject "StoreErr"
  | some par =>
  if ¬ (par == n1.head ∨ n1.stored.contains par) then .orphan else
  -- pipe::process_block: check_known
  match checkKnown n1 b with
  | some e => .reject e
  | none => .go par

/-- `pipe::process_block` after `check_known`: the header once more, `validate_block`, then the
extension: `rewind_and_apply_fork(prev)` (header fork against the denylist; the parent's own path
replayed), the state rules, `apply_block`. No node state is modified. -/
def pipeProcessBlockK (p : Params) (deny : List Nat) (n1 : Node) (b : Blk) (par : Nat) :
    Except Err (Node × UState) :=
  match processHeaderK p deny n1 b with
  | .error e => .error e
  | .ok n2 =>
  match n2.stateAt p par with
  | .error e => .error s!"ParentState:{e}"
  | .ok sPar =>
  match validateBody p n2.outs b (sumVals n2.outs b.ins) with
  | some e => .error e
  | none =>
  if forkDenied deny n2 par then .error "Block" else
  match applyBlock p sPar b with
  | .error e => .error e
  | .ok s' => .ok (n2, s')

/-- `Chain::process_block_single` with the notification it sends -/
def processBlockSingleK (p : Params) (deny : List Nat) (n : Node) (b : Blk) :
    Node × DRes × Option BStatus :=
  match processHeaderK p deny n b with
  | .error e => (n, .err e, none)
  | .ok n1 =>
  match precheckK n1 b with
  | .reject e => (n1, .err e, none)
  | .orphan => (addOrphan n1 b, .err "Orphan", none)
  | .go par =>
  match pipeProcessBlockK p deny n1 b par with
  | .error e => (n1, .err e, none)
  | .ok (n2, _) =>
    let r := storeBlock n2 b
    (r.1, r.2, some (determineStatus n2 r.1 b par (r.2 == .okHead)))

/-- a single-block step: node, result, notification -/
abbrev BStep := Node → Blk → Node × DRes × Option BStatus

/-- one orphan taken out of the pool by `check_orphans` -/
def orphanStepG (f : BStep) (acc : (Node × Option Nat) × List Ev) (o : Nat) :
    (Node × Option Nat) × List Ev :=
  match acc.1.1.blk o with
  | none => acc
  | some b =>
    let r := f acc.1.1 b
    let evs := match r.2.2 with
      | some s => acc.2 ++ [(b.id, s)]
      | none => acc.2
    match r.2.1 with
    | .err _ => ((r.1, acc.1.2), evs)
    | _ => ((r.1, some b.h), evs)

/-- `Chain::check_orphans(height)` over any single-block step -/
def checkOrphansG (f : BStep) : Nat → Node → Nat → Node × List Ev
  | 0, n, _ => (n, [])
  | fuel+1, n, height =>
    let (at_, rest) := n.orphans.partition (fun o => n.heightOf o == height)
    if at_.isEmpty then (n, []) else
    let n0 := { n with orphans := rest }
    let step := at_.foldl (orphanStepG f) ((n0, none), [])
    match step.1.2 with
    | some hAcc =>
      let r := checkOrphansG f fuel step.1.1 (hAcc + 1)
      (r.1, step.2 ++ r.2)
    | none => (step.1.1, step.2)

/-- `Chain::process_block` over any single-block step -/
def deliverBlockG (f : BStep) (n : Node) (b : Blk) : Node × DRes × List Ev :=
  let r := f n b
  let own : List Ev := match r.2.2 with
    | some s => [(b.id, s)]
    | none => []
  match r.2.1 with
  | .err _ => (r.1, r.2.1, own)
  | _ =>
    let o := checkOrphansG f (r.1.blks.length + 2) r.1 (b.h + 1)
    (o.1, r.2.1, own ++ o.2)

/-- `Chain::process_block` as coded -/
def deliverBlockK (p : Params) (deny : List Nat) (n : Node) (b : Blk) : Node × DRes × List Ev :=
  deliverBlockG (processBlockSingleK p deny) n b

/-- `Chain::process_block_header` as coded -/
def deliverHeaderK (p : Params) (deny : List Nat) (n : Node) (b : Blk) : Node × String :=
  match processHeaderK p deny n b with
  | .error e => (n, s!"err:{e}")
  | .ok n' => (n', "ok")

/-- `Chain::reset_chain_head(head, rewind_headers)`: `rewind_and_apply_fork` (and, for the header
MMR, `rewind_and_apply_header_fork`) run with the node's denylist -/
def resetChainHeadK (p : Params) (deny : List Nat) (n : Node) (target : Nat) (rewindHeaders : Bool) :
    Except Err Node :=
  if !n.headers.contains target then .error "StoreErr" else
  if forkDenied deny n target then .error "Block" else
  resetChainHead p n target rewindHeaders

/-! ### header sync chunks: `Chain::sync_block_headers` / `pipe::process_block_headers` -/

/-- the `for header in headers` loop: `validate_header` (denylist, previous header - read through
the batch, so a header of the chunk finds its predecessor of the same chunk -, height, version,
time), then `add_block_header` into the batch. No "already known" exit: a known header is validated
again. -/
def validateChunk (p : Params) (deny : List Nat) : Node → List Blk → Except Err Node
  | n, [] => .ok n
  | n, b :: bs =>
    if deny.contains b.id then .error "Block" else
    match validateHeaderPre p n b with
    | some e => .error e
    | none =>
      validateChunk p deny
        { n with headers := if n.headers.contains b.id then n.headers else n.headers ++ [b.id] } bs

/-- the `for h in fork_hashes` loop of `rewind_and_apply_header_fork`: every header being
re-applied is checked against the denylist, then `validate_root` (tag `hdr:`), in path order -/
def applyForkHeaders (deny : List Nat) : List Blk → Option Err
  | [] => none
  | b :: bs =>
    if deny.contains b.id then some "Block" else
    match hasTag b "hdr:" with
    | some e => some e
    | none => applyForkHeaders deny bs

/-- the blocks of `forkHeaders`, root first -/
def forkBlocks (n : Node) (x : Nat) : List Blk :=
  match n.path x with
  | some px => px.filter fun b => !((n.headerAtHeight b.h).map (·.id) == some b.id)
  | none => []

/-- `pipe::process_block_headers(headers, sync_head)` inside `Chain::sync_block_headers`: every
header validated and put into the batch, then ONE header-MMR extension for the whole chunk
(`rewind_and_apply_header_fork(last)`: denylist and `validate_root` for every header the MMR does
not hold yet - the chunk's and older fork headers below it), the header head moved iff the last
header has more work; any error drops the batch: ALL OR NOTHING. (The returned sync head is the
caller's business and not modelled.) -/
def processHeadersK (p : Params) (deny : List Nat) (n : Node) (bs : List Blk) : Except Err Node :=
  match bs.getLast? with
  | none => .ok n
  | some last =>
    match validateChunk p deny n bs with
    | .error e => .error e
    | .ok n1 =>
      match applyForkHeaders deny (forkBlocks n1 last.id) with
      | some e => .error e
      | none => .ok { n1 with hhead := if last.work > n.workOf n.hhead then last.id else n.hhead }

def deliverHeadersK (p : Params) (deny : List Nat) (n : Node) (bs : List Blk) : Node × String :=
  match processHeadersK p deny n bs with
  | .error e => (n, s!"err:{e}")
  | .ok n' => (n', "ok")

/-! ### options -/

/-- `Orphan.opts`: a block refused as an orphan is parked with the options of THIS offer -/
def parkOpts (oopts : List (Nat × Nat)) (b : Nat) (opts : Nat) (r : DRes) : List (Nat × Nat) :=
  if r == .err "Orphan" then (b, opts) :: oopts.filter (fun e => !(e.1 == b)) else oopts

/-- the options the adapter sees with every notification of one `process_block(b, opts)` call:
the block's own, and for every orphan connected during the call those it was parked with -/
def annotateOpts (oopts : List (Nat × Nat)) (own opts : Nat) (evs : List Ev) : List (Ev × Nat) :=
  evs.map fun e =>
    if e.1 == own then (e, opts) else
    match oopts.find? (·.1 == e.1) with
    | some x => (e, x.2)
    | none => (e, 0)

def showEvsO (l : List (Ev × Nat)) : String :=
  "[" ++ ",".intercalate (l.map fun e => s!"b{e.1.1}:{e.1.2.toString}:o{e.2}") ++ "]"

/-! ### processing options and the verdict

`Options` (chain/src/types.rs): `SKIP_POW` skips `validate_pow_only` and the difficulty rules of
`validate_header`; `SYNC` and `MINE` are read NOWHERE in `chain/` (they travel to the adapter and
into the orphan pool). A proof-of-work fault of a block is carried as a tag `pow:<class>`; with
`SKIP_POW` it is not looked at, without it it is a header-stage fault (`validate_pow_only` sits in
`validate_header`, after the cheap header rules). -/

structure Opts where
  skipPow : Bool := true
  sync : Bool := false
  mine : Bool := false
deriving Repr, DecidableEq

/-- bits: SKIP_POW 1, SYNC 2, MINE 4 -/
def Opts.ofBits (n : Nat) : Opts := { skipPow := n % 2 == 1, sync := (n / 2) % 2 == 1, mine := (n / 4) % 2 == 1 }

def isPowTag (t : String) : Bool := t.startsWith "pow:"

/-- the block as the pipeline sees it under the given options -/
def Blk.withOpts (b : Blk) (o : Opts) : Blk :=
  if o.skipPow then { b with tags := b.tags.filter (fun t => !isPowTag t) }
  else { b with tags := (b.tags.filter isPowTag).map (fun t => "hdr:" ++ (t.drop 4).toString) ++ b.tags.filter (fun t => !isPowTag t) }

/-- `Chain::process_block_single(b, opts)` -/
def processBlockSingleO (p : Params) (deny : List Nat) (o : Opts) (n : Node) (b : Blk) :
    Node × DRes × Option BStatus :=
  processBlockSingleK p deny n (b.withOpts o)

end GV.Chain
