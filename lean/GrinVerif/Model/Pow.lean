import GrinVerif.Model.Basic
/-! # Model of the Cuckoo-cycle proof-of-work verifiers (property C05)

Rust anchors: `core/src/pow/{siphash,common,cuckatoo,cuckaroo,cuckarood,cuckaroom,cuckarooz}.rs`.

Conventions
* `siphash24` / `siphash_block` are transliterated on `UInt64` (wrapping arithmetic = the Rust
  `wrapping_add`, shifts by constants < 64).
* The *graph part* of each verifier is parameterised by the endpoint function
  `ep : nonce → (u, v)` — the theorems in `Props/C05.lean` hold for every `ep`, i.e. for every
  header seed. The driver instantiates `ep` with the real siphash endpoints (`epCuckatoo` …).
* Rust `Vec`s indexed by slot / bucket (`uvs`, `prev`, `head*`, `from`, `to`, `visited`) are
  modelled as total maps `Nat → Nat` with functional update `upd`; every index the Rust code uses
  is in bounds (`& mask` < `mask + 1`, slots < `2 * size`), so no panic outcome is needed.
  Where the Rust code has two head arrays (`headu`, `headv`) the undirected engine keeps them in
  one map keyed `2 * bucket + side` (a representation choice, not a behavioural one).
* The bucket hash `x & mask` is a parameter `bk : Nat → Nat`; the theorems hold for every `bk`
  (the hash only speeds up the search, it never changes the verdict).
* Loops without a syntactic bound get a fuel argument; running out of fuel is the distinct
  outcome `Err.hang`. History: the Cuckarood walk originally had no bound at all and did not
  terminate on some inputs (found by this model: fuel exhausted; confirmed on the real code);
  /repo commit df0049399 added `if n >= size { Err("cycle does not close") }`, modelled by
  `roodWalk` / `Err.noClose`.
-/
namespace GV.Pow

/-! ## siphash (siphash.rs) -/

structure Sip where
  v0 : UInt64
  v1 : UInt64
  v2 : UInt64
  v3 : UInt64

@[inline] def rotl (x : UInt64) (r : UInt64) : UInt64 := (x <<< r) ||| (x >>> (64 - r))

/-- `SipHash24::round` -/
def Sip.round (s : Sip) (rotE : UInt64) : Sip :=
  let v0 := s.v0 + s.v1
  let v2 := s.v2 + s.v3
  let v1 := rotl s.v1 13
  let v3 := rotl s.v3 16
  let v1 := v1 ^^^ v0
  let v3 := v3 ^^^ v2
  let v0 := rotl v0 32
  let v2 := v2 + v1
  let v0 := v0 + v3
  let v1 := rotl v1 17
  let v3 := rotl v3 rotE
  let v1 := v1 ^^^ v2
  let v3 := v3 ^^^ v0
  let v2 := rotl v2 32
  ⟨v0, v1, v2, v3⟩

/-- `SipHash24::hash` : 2 rounds, then 4 -/
def Sip.hash (s : Sip) (nonce : UInt64) (rotE : UInt64) : Sip :=
  let s := { s with v3 := s.v3 ^^^ nonce }
  let s := (s.round rotE).round rotE
  let s := { s with v0 := s.v0 ^^^ nonce, v2 := s.v2 ^^^ 0xff }
  (((s.round rotE).round rotE).round rotE).round rotE

def Sip.digest (s : Sip) : UInt64 := (s.v0 ^^^ s.v1) ^^^ (s.v2 ^^^ s.v3)

structure Keys where
  k0 : UInt64
  k1 : UInt64
  k2 : UInt64
  k3 : UInt64

def Keys.sip (k : Keys) : Sip := ⟨k.k0, k.k1, k.k2, k.k3⟩

/-- `siphash24(v, nonce)` -/
def siphash24 (k : Keys) (nonce : UInt64) : UInt64 := (k.sip.hash nonce 21).digest

/-- the 64 chained digests of the block starting at `nonce0` (the state is *not* reset
between the hashes of one block) -/
def sipBlockDigests (k : Keys) (nonce0 : UInt64) (rotE : UInt64) : Array UInt64 :=
  let rec go (i : Nat) (fuel : Nat) (s : Sip) (acc : Array UInt64) : Array UInt64 :=
    match fuel with
    | 0 => acc
    | f+1 =>
      let s := s.hash (nonce0 + i.toUInt64) rotE
      go (i+1) f s (acc.push s.digest)
  go 0 64 k.sip #[]

def xorRange (a : Array UInt64) (x : UInt64) (i : Nat) : Nat → UInt64
  | 0 => x
  | f+1 => xorRange a (x ^^^ a[i]!) (i+1) f

/-- `siphash_block(v, nonce, rot_e, xor_all)` -/
def siphashBlock (k : Keys) (nonce : UInt64) (rotE : UInt64) (xorAll : Bool) : UInt64 :=
  let nonce0 := nonce &&& ~~~(63 : UInt64)
  let nonceI := (nonce &&& 63).toNat
  let hs := sipBlockDigests k nonce0 rotE
  let x := hs[nonceI]!
  let xorFrom := if xorAll || nonceI == 63 then nonceI + 1 else 63
  xorRange hs x xorFrom (64 - xorFrom)

/-- `CuckooParams::sipnode` -/
def sipnode (k : Keys) (nodeMask : UInt64) (edge uorv : UInt64) : UInt64 :=
  siphash24 k (2 * edge + uorv) &&& nodeMask

def maskOfBits (bits : Nat) : UInt64 := ((1 : UInt64) <<< bits.toUInt64) - 1

/-! ### endpoint functions of the five graphs (`edge_bits` → node mask as in `new_*_ctx`) -/

def epCuckatoo (k : Keys) (edgeBits : Nat) (n : Nat) : Nat × Nat :=
  let nm := maskOfBits edgeBits
  ((sipnode k nm n.toUInt64 0).toNat, (sipnode k nm n.toUInt64 1).toNat)

def epBlock (k : Keys) (nodeBits : Nat) (rotE : UInt64) (xorAll : Bool) (n : Nat) : Nat × Nat :=
  let nm := maskOfBits nodeBits
  let e := siphashBlock k n.toUInt64 rotE xorAll
  ((e &&& nm).toNat, ((e >>> 32) &&& nm).toNat)

def epCuckaroo (k : Keys) (edgeBits : Nat) : Nat → Nat × Nat := epBlock k edgeBits 21 false
def epCuckarood (k : Keys) (edgeBits : Nat) : Nat → Nat × Nat := epBlock k (edgeBits - 1) 25 false
def epCuckaroom (k : Keys) (edgeBits : Nat) : Nat → Nat × Nat := epBlock k edgeBits 21 true
def epCuckarooz (k : Keys) (edgeBits : Nat) : Nat → Nat × Nat := epBlock k (edgeBits + 1) 21 true

/-! ## verifiers -/

/-- the distinct `Error::Verification(..)` messages of the five `verify` functions
(+ `hang`: the Rust loop does not terminate) -/
inductive Err
  | wrongLen      -- "wrong cycle length"
  | tooBig        -- "edge too big"
  | notAscending  -- "edges not ascending"
  | notBalanced   -- "edges not balanced" (Cuckarood)
  | noMatch       -- "endpoints don't match up"
  | branch        -- "branch in cycle"
  | deadEnd       -- "cycle dead ends"
  | tooShort      -- "cycle too short"
  | noClose       -- "cycle does not close" (Cuckarood, since the repair of its endless walk)
  | hang          -- fuel exhausted
  deriving DecidableEq, Repr, Inhabited

instance : DecidableEq (Except Err Unit)
  | .ok (), .ok () => isTrue rfl
  | .error a, .error b =>
    if h : a = b then isTrue (by rw [h]) else isFalse (fun e => h (by injection e))
  | .ok _, .error _ => isFalse (fun e => by cases e)
  | .error _, .ok _ => isFalse (fun e => by cases e)

def Err.name : Err → String
  | .wrongLen => "wronglen" | .tooBig => "toobig" | .notAscending => "notasc"
  | .notBalanced => "notbal" | .noMatch => "nomatch" | .branch => "branch"
  | .deadEnd => "deadend" | .tooShort => "tooshort" | .noClose => "noclose" | .hang => "hang"

/-- verifier context: `global::proofsize()`, `params.edge_mask`, `params.proof_size`
(only Cuckarooz reads the latter, in its last comparison), and the bucket hash `& mask` -/
structure Params where
  proofsize : Nat
  edgeMask : Nat
  ctxProofSize : Nat
  bk : Nat → Nat

/-- `mask = u64::MAX >> (size as u64).leading_zeros()` for `size > 0` -/
def bucketMask (size : Nat) : Nat := 2^(bitLen size) - 1

/-- functional array update -/
def upd (f : Nat → Nat) (i v : Nat) : Nat → Nat := fun x => if x = i then v else f x

/-- `n > 0 && nonces[n] <= nonces[n-1]` with `last = nonces[n-1]` -/
def notAsc (last : Option Nat) (x : Nat) : Bool :=
  match last with
  | some y => decide (x ≤ y)
  | none => false

/-! ### Cuckaroom (cuckaroom.rs `verify`) -/

structure RoomSt where
  frm : Nat → Nat
  to : Nat → Nat
  head : Nat → Nat
  prev : Nat → Nat
  xf : Nat
  xt : Nat

def RoomSt.init (size : Nat) : RoomSt :=
  { frm := fun _ => 0, to := fun _ => 0, head := fun _ => size, prev := fun _ => 0, xf := 0, xt := 0 }

/-- `for n in 0..size { … }` (first loop) -/
def roomBuild (P : Params) (ep : Nat → Nat × Nat) : List Nat → Nat → Option Nat → RoomSt → Except Err RoomSt
  | [], _, _, s => .ok s
  | x :: xs, n, last, s =>
    if x > P.edgeMask then .error .tooBig
    else if notAsc last x then .error .notAscending
    else
      let u := (ep x).1
      let v := (ep x).2
      let bits := P.bk u
      roomBuild P ep xs (n+1) (some x)
        { frm := upd s.frm n u, prev := upd s.prev n (s.head bits), head := upd s.head bits n,
          to := upd s.to n v, xf := s.xf ^^^ u, xt := s.xt ^^^ v }

/-- inner `loop { if k == size {dead end}; if from[k] == to[i] {break}; k = prev[k] }` -/
def roomFind (size : Nat) (s : RoomSt) (target : Nat) : Nat → Nat → Except Err Nat
  | 0, _ => .error .hang
  | f+1, k =>
    if k = size then .error .deadEnd
    else if s.frm k = target then .ok k
    else roomFind size s target f (s.prev k)

/-- outer `loop` following the cycle, with the `visited` array -/
def roomWalk (P : Params) (size : Nat) (s : RoomSt) : Nat → (Nat → Bool) → Nat → Nat → Except Err Nat
  | 0, _, _, _ => .error .hang
  | f+1, vis, i, n =>
    if vis i then .error .branch
    else
      match roomFind size s (s.to i) (size+1) (s.head (P.bk (s.to i))) with
      | .error e => .error e
      | .ok k =>
        if k = 0 then .ok (n+1)
        else roomWalk P size s f (fun x => decide (x = i) || vis x) k (n+1)

def verifyCuckaroom (P : Params) (ep : Nat → Nat × Nat) (nonces : List Nat) : Except Err Unit :=
  let size := nonces.length
  if size ≠ P.proofsize then .error .wrongLen
  else
    match roomBuild P ep nonces 0 none (RoomSt.init size) with
    | .error e => .error e
    | .ok s =>
      if s.xf ≠ s.xt then .error .noMatch
      else
        match roomWalk P size s (size+1) (fun _ => false) 0 0 with
        | .error e => .error e
        | .ok n => if n = size then .ok () else .error .tooShort

/-! ### the undirected engine: Cuckatoo / Cuckaroo / Cuckarooz

The three `verify` bodies are the same text up to the points collected in `UCfg`. -/

structure UCfg where
  /-- head-array slot for an endpoint: Cuckaroo `2*(u & mask) + side` (two arrays `headu`,
  `headv`), Cuckatoo `2*((u>>1) & mask) + side`, Cuckarooz `u & mask` (one array `head`) -/
  key : (bk : Nat → Nat) → (side : Nat) → (node : Nat) → Nat
  /-- the test in the inner loop: `uvs[k] == uvs[i]` resp. `uvs[k]>>1 == uvs[i]>>1` -/
  mt : Nat → Nat → Bool
  /-- Cuckatoo's extra `|| uvs[j] == uvs[i]` in the dead-end test -/
  deadSame : Bool
  /-- initial value of `xor0`, `xor1`: Cuckatoo `(size/2) & 1`, else 0 -/
  xinit : Nat → Nat
  /-- Cuckarooz xors all endpoints into one accumulator (`xoruv = x0 ^ x1`, test `xoruv != 0`);
  the others test `xor0 | xor1 != 0` -/
  jointXor : Bool
  /-- last comparison: Cuckarooz `n == self.params.proof_size`, else `n == size` -/
  useCtxSize : Bool

def cfgCuckaroo : UCfg :=
  { key := fun bk side u => 2 * bk u + side, mt := fun a b => a == b, deadSame := false,
    xinit := fun _ => 0, jointXor := false, useCtxSize := false }
def cfgCuckatoo : UCfg :=
  { key := fun bk side u => 2 * bk (u >>> 1) + side, mt := fun a b => (a >>> 1) == (b >>> 1),
    deadSame := true, xinit := fun size => (size / 2) % 2, jointXor := false, useCtxSize := false }
def cfgCuckarooz : UCfg :=
  { key := fun bk _ u => bk u, mt := fun a b => a == b, deadSame := false,
    xinit := fun _ => 0, jointXor := true, useCtxSize := true }

structure USt where
  uvs : Nat → Nat
  head : Nat → Nat
  prev : Nat → Nat
  x0 : Nat
  x1 : Nat

def USt.init (C : UCfg) (size : Nat) : USt :=
  { uvs := fun _ => 0, head := fun _ => 2 * size, prev := fun _ => 0, x0 := C.xinit size, x1 := C.xinit size }

/-- first loop: fill `uvs`, push slot `2n` then slot `2n+1` on their bucket lists, xor -/
def uBuild (C : UCfg) (P : Params) (ep : Nat → Nat × Nat) : List Nat → Nat → Option Nat → USt → Except Err USt
  | [], _, _, s => .ok s
  | x :: xs, n, last, s =>
    if x > P.edgeMask then .error .tooBig
    else if notAsc last x then .error .notAscending
    else
      let u := (ep x).1
      let v := (ep x).2
      let ub := C.key P.bk 0 u
      let uvs1 := upd s.uvs (2*n) u
      let prev1 := upd s.prev (2*n) (s.head ub)
      let head1 := upd s.head ub (2*n)
      let vb := C.key P.bk 1 v
      let uvs2 := upd uvs1 (2*n+1) v
      let prev2 := upd prev1 (2*n+1) (head1 vb)
      let head2 := upd head1 vb (2*n+1)
      uBuild C P ep xs (n+1) (some x)
        { uvs := uvs2, prev := prev2, head := head2, x0 := s.x0 ^^^ u, x1 := s.x1 ^^^ v }

/-- new value of `prev[a]` in `if prev[a] == 2*size { prev[a] = v }` -/
def circVal (nil : Nat) (prev : Nat → Nat) (a v : Nat) : Nat :=
  if prev a = nil then v else prev a

/-- "make prev lists circular": `for n in 0..size { if prev[2n] == 2*size {..}; if prev[2n+1] == 2*size {..} }` -/
def uCirc (C : UCfg) (P : Params) (size : Nat) (s : USt) : Nat → (Nat → Nat) → (Nat → Nat)
  | 0, prev => prev
  | m+1, prev =>
    -- iteration n = size - (m+1)
    let n := size - (m+1)
    let x := circVal (2*size) prev (2*n) (s.head (C.key P.bk 0 (s.uvs (2*n))))
    let prev := upd prev (2*n) x
    let y := circVal (2*size) prev (2*n+1) (s.head (C.key P.bk 1 (s.uvs (2*n+1))))
    let prev := upd prev (2*n+1) y
    uCirc C P size s m prev

/-- inner `loop { k = prev[k]; if k == i {break}; if match { if j != i {branch}; j = k } }` -/
def uFind (C : UCfg) (uvs prev : Nat → Nat) (i : Nat) : Nat → Nat → Nat → Except Err Nat
  | 0, _, _ => .error .hang
  | f+1, k, j =>
    let k := prev k
    if k = i then .ok j
    else if C.mt (uvs k) (uvs i) then
      (if j ≠ i then .error .branch else uFind C uvs prev i f k k)
    else uFind C uvs prev i f k j

/-- one step of the outer loop: find `j`, dead-end test -/
def uStep (C : UCfg) (size : Nat) (uvs prev : Nat → Nat) (i : Nat) : Except Err Nat :=
  match uFind C uvs prev i (2*size+1) i i with
  | .error e => .error e
  | .ok j =>
    if j = i || (C.deadSame && uvs j == uvs i) then .error .deadEnd
    else .ok (j ^^^ 1)

/-- outer `loop { …; i = j ^ 1; n += 1; if i == 0 {break} }` -/
def uWalk (step : Nat → Except Err Nat) : Nat → Nat → Nat → Except Err Nat
  | 0, _, _ => .error .hang
  | f+1, i, n =>
    match step i with
    | .error e => .error e
    | .ok i' => if i' = 0 then .ok (n+1) else uWalk step f i' (n+1)

def verifyU (C : UCfg) (P : Params) (ep : Nat → Nat × Nat) (nonces : List Nat) : Except Err Unit :=
  let size := nonces.length
  if size ≠ P.proofsize then .error .wrongLen
  else
    match uBuild C P ep nonces 0 none (USt.init C size) with
    | .error e => .error e
    | .ok s =>
      if (if C.jointXor then s.x0 ^^^ s.x1 else s.x0 ||| s.x1) ≠ 0 then .error .noMatch
      else
        let prev := uCirc C P size s size s.prev
        match uWalk (uStep C size s.uvs prev) (2*size+1) 0 0 with
        | .error e => .error e
        | .ok n =>
          if n = (if C.useCtxSize then P.ctxProofSize else size) then .ok () else .error .tooShort

/-- cuckaroo.rs `verify` -/
def verifyCuckaroo := verifyU cfgCuckaroo
/-- cuckatoo.rs `verify_impl` -/
def verifyCuckatoo := verifyU cfgCuckatoo
/-- cuckarooz.rs `verify` (`xoruv ^= u ^ v` accumulates `x0 ^ x1`; test `xoruv != 0`) -/
def verifyCuckarooz := verifyU cfgCuckarooz

/-! ### Cuckarood (cuckarood.rs `verify`) -/

structure RoodSt where
  uvs : Nat → Nat
  headu : Nat → Nat
  headv : Nat → Nat
  prev : Nat → Nat
  nd0 : Nat
  nd1 : Nat
  x0 : Nat
  x1 : Nat

def RoodSt.init (size : Nat) : RoodSt :=
  { uvs := fun _ => 0, headu := fun _ => 2*size, headv := fun _ => 2*size, prev := fun _ => 0,
    nd0 := 0, nd1 := 0, x0 := 0, x1 := 0 }

def roodBuild (P : Params) (ep : Nat → Nat × Nat) (size : Nat) : List Nat → Option Nat → RoodSt → Except Err RoodSt
  | [], _, s => .ok s
  | x :: xs, last, s =>
    let dir := x % 2
    let nd := if dir = 0 then s.nd0 else s.nd1
    if nd ≥ size / 2 then .error .notBalanced
    else if x > P.edgeMask then .error .tooBig
    else if notAsc last x then .error .notAscending
    else
      let idx := 4 * nd + 2 * dir
      let u := (ep x).1
      let v := (ep x).2
      let ub := P.bk (2 * u + dir)
      let vb := P.bk (2 * v + dir)
      roodBuild P ep size xs (some x)
        { uvs := upd (upd s.uvs idx u) (idx+1) v,
          prev := upd (upd s.prev idx (s.headu ub)) (idx+1) (s.headv vb),
          headu := upd s.headu ub idx, headv := upd s.headv vb (idx+1),
          nd0 := if dir = 0 then s.nd0 + 1 else s.nd0, nd1 := if dir = 0 then s.nd1 else s.nd1 + 1,
          x0 := s.x0 ^^^ u, x1 := s.x1 ^^^ v }

/-- `while k != 2*size { if uvs[k]==uvs[i] { if j != i {branch}; j = k }; k = prev[k] }` -/
def roodFind (size : Nat) (s : RoodSt) (i : Nat) : Nat → Nat → Nat → Except Err Nat
  | 0, _, _ => .error .hang
  | f+1, k, j =>
    if k = 2*size then .ok j
    else if s.uvs k = s.uvs i then
      (if j ≠ i then .error .branch else roodFind size s i f (s.prev k) k)
    else roodFind size s i f (s.prev k) j

def roodStep (P : Params) (size : Nat) (s : RoodSt) (i : Nat) : Except Err Nat :=
  let k := if i % 2 = 0 then s.headu (P.bk (2 * s.uvs i + 1)) else s.headv (P.bk (2 * s.uvs i))
  match roodFind size s i (2*size+1) k i with
  | .error e => .error e
  | .ok j => if j = i then .error .deadEnd else .ok (j ^^^ 1)

/-- Cuckarood's outer loop: as `uWalk`, plus `if n >= size { return Err("cycle does not close") }`
after the `i == 0` test (added by the repair of the endless walk: the step map of this variant is
not injective, so a walk can fall into a loop that excludes slot 0) -/
def roodWalk (step : Nat → Except Err Nat) (size : Nat) : Nat → Nat → Nat → Except Err Nat
  | 0, _, _ => .error .hang
  | f+1, i, n =>
    match step i with
    | .error e => .error e
    | .ok i' =>
      if i' = 0 then .ok (n+1)
      else if n + 1 ≥ size then .error .noClose
      else roodWalk step size f i' (n+1)

def verifyCuckarood (P : Params) (ep : Nat → Nat × Nat) (nonces : List Nat) : Except Err Unit :=
  let size := nonces.length
  if size ≠ P.proofsize then .error .wrongLen
  else
    match roodBuild P ep size nonces none (RoodSt.init size) with
    | .error e => .error e
    | .ok s =>
      if (s.x0 ||| s.x1) ≠ 0 then .error .noMatch
      else
        match roodWalk (roodStep P size s) size (size+1) 0 0 with
        | .error e => .error e
        | .ok n => if n = size then .ok () else .error .tooShort

end GV.Pow
