import GrinVerif.Model.Basic
/-! SHA-256 (FIPS 180-4), used only by the driver to recompute the BIP39 checksum byte of
`keychain/src/mnemonic.rs` (`Sha256::default(); update(entropy); finalize()`); theorems about the
mnemonic model are generic in the hash function.  Checked against the real one on every mnemonic
line of the `mnemonic` run (the checksum bits of every generated mnemonic). -/
namespace GV.Sha256

def K : Array UInt32 := #[
  0x428a2f98, 0x71374491, 0xb5c0fbcf, 0xe9b5dba5, 0x3956c25b, 0x59f111f1, 0x923f82a4, 0xab1c5ed5,
  0xd807aa98, 0x12835b01, 0x243185be, 0x550c7dc3, 0x72be5d74, 0x80deb1fe, 0x9bdc06a7, 0xc19bf174,
  0xe49b69c1, 0xefbe4786, 0x0fc19dc6, 0x240ca1cc, 0x2de92c6f, 0x4a7484aa, 0x5cb0a9dc, 0x76f988da,
  0x983e5152, 0xa831c66d, 0xb00327c8, 0xbf597fc7, 0xc6e00bf3, 0xd5a79147, 0x06ca6351, 0x14292967,
  0x27b70a85, 0x2e1b2138, 0x4d2c6dfc, 0x53380d13, 0x650a7354, 0x766a0abb, 0x81c2c92e, 0x92722c85,
  0xa2bfe8a1, 0xa81a664b, 0xc24b8b70, 0xc76c51a3, 0xd192e819, 0xd6990624, 0xf40e3585, 0x106aa070,
  0x19a4c116, 0x1e376c08, 0x2748774c, 0x34b0bcb5, 0x391c0cb3, 0x4ed8aa4a, 0x5b9cca4f, 0x682e6ff3,
  0x748f82ee, 0x78a5636f, 0x84c87814, 0x8cc70208, 0x90befffa, 0xa4506ceb, 0xbef9a3f7, 0xc67178f2]

def H0 : Array UInt32 := #[
  0x6a09e667, 0xbb67ae85, 0x3c6ef372, 0xa54ff53a, 0x510e527f, 0x9b05688c, 0x1f83d9ab, 0x5be0cd19]

def rotr (x : UInt32) (n : UInt32) : UInt32 := (x >>> n) ||| (x <<< (32 - n))

/-- one 64-byte block -/
def compress (h : Array UInt32) (blk : Array Nat) : Array UInt32 := Id.run do
  let mut w : Array UInt32 := Array.replicate 64 0
  for i in [0:16] do
    w := w.set! i (UInt32.ofNat (((blk.getD (4*i) 0 * 256 + blk.getD (4*i+1) 0) * 256 + blk.getD (4*i+2) 0) * 256 + blk.getD (4*i+3) 0))
  for i in [16:64] do
    let x := w[i-15]!
    let y := w[i-2]!
    let s0 := rotr x 7 ^^^ rotr x 18 ^^^ (x >>> 3)
    let s1 := rotr y 17 ^^^ rotr y 19 ^^^ (y >>> 10)
    w := w.set! i (w[i-16]! + s0 + w[i-7]! + s1)
  let mut a := h[0]!
  let mut b := h[1]!
  let mut c := h[2]!
  let mut d := h[3]!
  let mut e := h[4]!
  let mut f := h[5]!
  let mut g := h[6]!
  let mut hh := h[7]!
  for i in [0:64] do
    let s1 := rotr e 6 ^^^ rotr e 11 ^^^ rotr e 25
    let ch := (e &&& f) ^^^ ((~~~ e) &&& g)
    let t1 := hh + s1 + ch + K[i]! + w[i]!
    let s0 := rotr a 2 ^^^ rotr a 13 ^^^ rotr a 22
    let mj := (a &&& b) ^^^ (a &&& c) ^^^ (b &&& c)
    let t2 := s0 + mj
    hh := g
    g := f
    f := e
    e := d + t1
    d := c
    c := b
    b := a
    a := t1 + t2
  return #[h[0]! + a, h[1]! + b, h[2]! + c, h[3]! + d, h[4]! + e, h[5]! + f, h[6]! + g, h[7]! + hh]

/-- SHA-256 of a byte string -/
def hash (data : Bytes) : Bytes := Id.run do
  let n := data.length
  let padLen := (55 + 64 - n % 64) % 64
  let msg := (data ++ [0x80] ++ List.replicate padLen 0 ++ beBytes 8 (8 * n)).toArray
  let mut h := H0
  for bi in [0:msg.size / 64] do
    h := compress h (msg.extract (bi*64) (bi*64+64))
  let mut out : List Nat := []
  for i in [0:8] do
    out := out ++ beBytes 4 (h[i]!.toNat)
  return out

end GV.Sha256
