import GrinVerif.Model.Keys
/-! # The two-party combinators of `libtx::build` (C20)

`core/src/libtx/build.rs`: besides `input` / `coinbase_input` / `output` / `with_excess`
(`Model/Keys.lean: Step`) the element list may contain `initial_tx(tx)`:

```text
initial_tx(tx):  acc.map(|(_, sum)| (tx.clone(), sum))
```

i.e. the transaction accumulated so far is REPLACED by `tx` while the `BlindSum` accumulated so far
is kept.  `partial_transaction` and `transaction_with_kernel` fold the list over
`(Transaction, BlindSum)` and only then call `keychain.blind_sum`.  Import-free. -/
namespace GV.Keys

/-- one element of the list handed to `partial_transaction` / `transaction` -/
inductive XStep
  /-- `input` / `coinbase_input` / `output` / `with_excess` -/
  | base (s : Step)
  /-- `initial_tx(tx)`: the body of `tx` as openings -/
  | initialTx (ins outs : List Opening)
  deriving DecidableEq, Repr

def xstep (st : BuildSt) : XStep → BuildSt
  | .base s => step st s
  | .initialTx i o => { st with ins := i, outs := o }

def runX (st : BuildSt) (elems : List XStep) : BuildSt := elems.foldl xstep st

/-- the plain combinators of a list, in order (every `initial_tx` dropped) -/
def baseOf : List XStep → List Step
  | [] => []
  | .base s :: r => s :: baseOf r
  | .initialTx _ _ :: r => baseOf r

/-- `build::partial_transaction(tx, elems, ..)` -/
def xPartialTransaction (ins outs : List Opening) (elems : List XStep) : List Opening × List Opening × SumRes :=
  let st := runX { ins := ins, outs := outs } elems
  (st.ins, st.outs, kcBlindSum st.posK st.negK st.posB [])

/-- `build::transaction_with_kernel(elems, kernel, excess, ..)` / `build::transaction` -/
def xTransactionWithKernel (elems : List XStep) (fee excess : Nat) : Option Tx :=
  let st := runX {} elems
  match kcBlindSum st.posK st.negK st.posB [] with
  | .ok bs => match bfSplit bs excess with
    | .ok off => some ⟨st.ins, st.outs, fee, excess, off⟩
    | _ => Option.none
  | _ => Option.none

end GV.Keys
