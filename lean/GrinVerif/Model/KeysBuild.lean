import GrinVerif.Model.Keys
/-! # The two-party combinators of `libtx::build` (C20)

`core/src/libtx/build.rs`: besides `input` / `coinbase_input` / `output` / `with_excess`
(`Model/Keys.lean: Step`) the element list may contain `initial_tx(tx)`:

```text
initial_tx(tx):  acc.map(|(_, sum)| (tx.clone(), sum))
```

i.e. the transaction accumulated so far is REPLACED by `tx` while the `BlindSum` accumulated so far
is kept.  `partial_transaction` and `transaction_with_kernel` fold the list over
`(Transaction, BlindSum)` and only then call `keychain.blind_sum`.  Import-free. -/
namespace GV.Keys

/-- one element of the list handed to `partial_transaction` / `transaction` -/
inductive XStep
  /-- `input` / `coinbase_input` / `output` / `with_excess` -/
  | base (s : Step)
  /-- `initial_tx(tx)`: the body of `tx` as openings -/
  | initialTx (ins outs : List Opening)
  deriving DecidableEq, Repr

def xstep (st : BuildSt) : XStep → BuildSt
  | .base s => step st s
  | .initialTx i o => { st with ins := i, outs := o }

def runX (st : BuildSt) (elems : List XStep) : BuildSt := elems.foldl xstep st

/-- the plain combinators of a list, in order (every `initial_tx` dropped) -/
def baseOf : List XStep → List Step
  | [] => []
  | .base s :: r => s :: baseOf r
  | .initialTx _ _ :: r => baseOf r

/-- `build::partial_transaction(tx, elems, ..)` -/
def xPartialTransaction (ins outs : List Opening) (elems : List XStep) : List Opening × List Opening × SumRes :=
  let st := runX { ins := ins, outs := outs } elems
  (st.ins, st.outs, kcBlindSum st.posK st.negK st.posB [])

/-- `build::transaction_with_kernel(elems, kernel, excess, ..)` / `build::transaction` -/
def xTransactionWithKernel (elems : List XStep) (fee excess : Nat) : Option Tx :=
  let st := runX {} elems
  match kcBlindSum st.posK st.negK st.posB [] with
  | .ok bs => match bfSplit bs excess with
    | .ok off => some ⟨st.ins, st.outs, fee, excess, off⟩
    | _ => Option.none
  | _ => Option.none

/-! ### the `offset` field of the folded transaction

`Transaction` carries an `offset`.  `initial_tx(tx)` installs `tx.clone()` — body AND offset;
`with_input` / `with_output` (what `input` / `output` call) and `with_excess` leave the offset
alone.  `partial_transaction` hands the folded transaction back as it is; `transaction_with_kernel`
ends with `tx.offset = blind_sum.split(&excess, ..)?` — an ASSIGNMENT: whatever offset the folded
transaction carried (a finished `build::transaction` result used as `initial_tx`) is overwritten. -/

/-- an element together with the offset of the transaction it installs (read for `initial_tx` only) -/
structure XElem where
  step : XStep
  txOffset : Nat := 0
  deriving DecidableEq, Repr

/-- the offset of the transaction after the fold, starting from a transaction with offset `start` -/
def foldTxOffset (start : Nat) : List XElem → Nat
  | [] => start
  | ⟨.initialTx _ _, f⟩ :: r => foldTxOffset f r
  | ⟨.base _, _⟩ :: r => foldTxOffset start r

/-- `build::transaction_with_kernel` on such elements: the final offset is assigned, the folded one
is not read -/
def xTransactionWithKernelO (elems : List XElem) (fee excess : Nat) : Option Tx :=
  xTransactionWithKernel (elems.map (·.step)) fee excess

/-- `build::partial_transaction(tx, elems, ..)`: body, blinding sum, and the offset of the returned
transaction (the folded one) -/
def xPartialTransactionO (ins outs : List Opening) (baseOff : Nat) (elems : List XElem) :
    List Opening × List Opening × SumRes × Nat :=
  let r := xPartialTransaction ins outs (elems.map (·.step))
  (r.1, r.2.1, r.2.2, foldTxOffset baseOff elems)

end GV.Keys
