import GrinVerif.Model.Dec
/-! # p2p message layer (model of `p2p/src/msg.rs`, `p2p/src/types.rs::PeerAddr`)

* `MsgHeader` (2 magic bytes, type `u8`, length `u64` = 11 bytes), `MsgHeaderWrapper::read`
  (`Known` / `Unknown`, the `msg_len > max_msg_size(t) * 4` refusal) — discriminants, size table and
  magic bytes come from the regenerated `Gen/Msg.lean`;
* the body codecs of the message types that `p2p/src/msg.rs` itself defines, as **instrumented**
  decoders (`Dec`, see `Model/Dec.lean`) and plain encoders.  The large payload types
  (`Transaction`, `UntrustedBlock`, `UntrustedCompactBlock`, `UntrustedBlockHeader`, segment
  responses) are owned by the `ser`/`seg` domains; at this layer their body is an opaque byte string
  handed to a payload decoder that is a parameter (`Payload`).
* `write_message` = header ++ body (++ attachment bytes).

Import-free apart from `Model.*` / `Gen.*`. -/
namespace GV.Msg
open GV GV.Ser GV.Dec GV.Gen.Msg

/-- what the thread-local `global` state contributes: magic bytes and `global::max_block_weight()` -/
structure NetCfg where
  magic : Nat × Nat
  mbw : Nat

def netAutomatedTesting : NetCfg := { magic := OTHER_MAGIC, mbw := GV.Gen.TESTING_MAX_BLOCK_WEIGHT }
def netMainnet : NetCfg := { magic := MAINNET_MAGIC, mbw := GV.Gen.MAX_BLOCK_WEIGHT }
def netTestnet : NetCfg := { magic := TESTNET_MAGIC, mbw := GV.Gen.MAX_BLOCK_WEIGHT }

/-- `Type::from_u8(t).is_some()` -/
def isKnownType (t : Nat) : Bool := typeTable.any fun p => p.2 == t

/-! ## `MsgHeader` / `MsgHeaderWrapper` -/

inductive HdrW
  /-- `Known(MsgHeader { msg_type, msg_len, .. })` -/
  | known (t : Nat) (len : Nat)
  /-- `Unknown(msg_len, type_byte)` -/
  | unknown (len : Nat) (t : Nat)
deriving DecidableEq, Repr

/-- `Writeable for MsgHeader` -/
def encHeader (c : NetCfg) (t len : Nat) : Bytes :=
  writeU8 c.magic.1 ++ writeU8 c.magic.2 ++ writeU8 t ++ writeU64 len

/-- the length limit `MsgHeaderWrapper::read` enforces for type byte `t` -/
def maxLen (c : NetCfg) (t : Nat) : Nat :=
  if isKnownType t then maxMsgSize c.mbw t * KNOWN_LEN_FACTOR
  else defaultMaxMsgSize c.mbw * UNKNOWN_LEN_FACTOR

/-- `Readable for MsgHeaderWrapper` -/
def decHeader (c : NetCfg) : Dec HdrW := fun bs =>
  bind (rExpectU8 c.magic.1 bs) fun _ r =>
  bind (rExpectU8 c.magic.2 r) fun _ r =>
  bind (rU8 r) fun t r =>
  bind (rU64 r) fun len r =>
    if len > maxLen c t then .err .tooLarge 0
    else if isKnownType t then .ok (.known t len) r 0
    else .ok (.unknown len t) r 0

/-! ## `PeerAddr` (`p2p/src/types.rs`) -/

inductive PeerAddr
  /-- `SocketAddr::V4`: 4 octets, port -/
  | v4 (ip : Bytes) (port : Nat)
  /-- `SocketAddr::V6`: 8 segments, port (flowinfo / scope id 0) -/
  | v6 (segs : List Nat) (port : Nat)
deriving DecidableEq, Repr

def encPeerAddr : PeerAddr → Bytes
  | .v4 ip port => writeU8 0 ++ writeFixed ip ++ writeU16 port
  | .v6 segs port => writeU8 1 ++ (segs.map writeU16).flatten ++ writeU16 port

/-- `Ipv6Addr::to_ipv4_mapped()`: only `::ffff:a.b.c.d` (since /repo 7698a7ec9; `to_ipv4()` before,
which also mapped `::a.b.c.d`) -/
def toIpv4 (segs : List Nat) : Option Bytes :=
  match segs with
  | [0, 0, 0, 0, 0, f, ab, cd] =>
    if f = 0xffff then some [ab / 256, ab % 256, cd / 256, cd % 256] else none
  | _ => none

/-- the V6 branch's result: a V4 address when `to_ipv4_mapped()` is `Some` -/
def v6Result (segs : List Nat) (port : Nat) : PeerAddr :=
  match toIpv4 segs with
  | some ip => .v4 ip port
  | none => .v6 segs port

/-- `Readable for PeerAddr`.  `ip[0..3]` on the 4-byte `Vec` and `ip[0..7]` on the 8 collected
segments are in range by construction (explicit `index` panic branches otherwise).  A tag byte
other than 0 / 1 is `CorruptedData` (since /repo 7fb4be0aa; read as V6 before). -/
def decPeerAddr (rd : Rdr) : Dec PeerAddr := fun bs =>
  bind (rU8 bs) fun tag r =>
    if tag = 0 then
      bind (rFixed rd 4 r) fun ip r =>
      bind (rU16 r) fun port r =>
        if ip.length ≠ 4 then .panic .index 0 else .ok (.v4 ip port) r 0
    else if tag = 1 then
      bind (readN rU16 8 r) fun segs r =>
        if segs.length ≠ 8 then .panic .index 0 else
        bind (rU16 r) fun port r =>
          .ok (v6Result segs port) r 0
    else .err .corrupted 0

/-- `size_of::<PeerAddr>()` (= `SocketAddr`) -/
def PEER_ADDR_MEM : Nat := 32

/-! ## UTF-8 (`String::from_utf8`) -/

def cont (b : Nat) : Bool := 0x80 ≤ b && b ≤ 0xBF

/-- well-formed UTF-8 byte sequences (Unicode table 3-7) -/
def validUtf8 : Bytes → Bool
  | [] => true
  | b0 :: r =>
    if b0 < 0x80 then validUtf8 r
    else if 0xC2 ≤ b0 ∧ b0 ≤ 0xDF then
      match r with
      | b1 :: r => cont b1 && validUtf8 r
      | _ => false
    else if 0xE0 ≤ b0 ∧ b0 ≤ 0xEF then
      match r with
      | b1 :: b2 :: r =>
        (if b0 = 0xE0 then 0xA0 ≤ b1 && b1 ≤ 0xBF
         else if b0 = 0xED then 0x80 ≤ b1 && b1 ≤ 0x9F
         else cont b1) && cont b2 && validUtf8 r
      | _ => false
    else if 0xF0 ≤ b0 ∧ b0 ≤ 0xF4 then
      match r with
      | b1 :: b2 :: b3 :: r =>
        (if b0 = 0xF0 then 0x90 ≤ b1 && b1 ≤ 0xBF
         else if b0 = 0xF4 then 0x80 ≤ b1 && b1 ≤ 0x8F
         else cont b1) && cont b2 && cont b3 && validUtf8 r
      | _ => false
    else false

/-- `read_bytes_len_prefix` then `String::from_utf8(..).map_err(|_| CorruptedData)` -/
def decString (rd : Rdr) : Dec Bytes := fun bs =>
  bind (rBytesLenPrefix rd bs) fun ua r =>
    if validUtf8 ua then .ok ua r 0 else .err .corrupted 0

/-! ## message bodies -/

structure Hand where
  version : Nat
  capabilities : Nat
  nonce : Nat
  genesis : Bytes
  totalDifficulty : Nat
  senderAddr : PeerAddr
  receiverAddr : PeerAddr
  userAgent : Bytes
deriving DecidableEq, Repr

def encHand (h : Hand) : Bytes :=
  writeU32 h.version ++ writeU32 h.capabilities ++ writeU64 h.nonce ++ writeU64 h.totalDifficulty ++
  encPeerAddr h.senderAddr ++ encPeerAddr h.receiverAddr ++ writeBytes h.userAgent ++ writeFixed h.genesis

/-- `Capabilities::from_bits_truncate` -/
def capsTruncate (bits : Nat) : Nat := bits &&& CAPABILITIES_ALL

/-- `Readable for Hand` -/
def decHand (rd : Rdr) : Dec Hand := fun bs =>
  bind (rU32 bs) fun version r =>
  bind (rU32 r) fun capab r =>
  bind (rU64 r) fun nonce r =>
  bind (rU64 r) fun td r =>
  bind (decPeerAddr rd r) fun sender r =>
  bind (decPeerAddr rd r) fun receiver r =>
  bind (decString rd r) fun ua r =>
  bind (rHash rd r) fun genesis r =>
    .ok { version := version, capabilities := capsTruncate capab, nonce := nonce, genesis := genesis,
          totalDifficulty := td, senderAddr := sender, receiverAddr := receiver, userAgent := ua } r 0

structure Shake where
  version : Nat
  capabilities : Nat
  genesis : Bytes
  totalDifficulty : Nat
  userAgent : Bytes
deriving DecidableEq, Repr

def encShake (s : Shake) : Bytes :=
  writeU32 s.version ++ writeU32 s.capabilities ++ writeU64 s.totalDifficulty ++
  writeBytes s.userAgent ++ writeFixed s.genesis

/-- `Readable for Shake` -/
def decShake (rd : Rdr) : Dec Shake := fun bs =>
  bind (rU32 bs) fun version r =>
  bind (rU32 r) fun capab r =>
  bind (rU64 r) fun td r =>
  bind (decString rd r) fun ua r =>
  bind (rHash rd r) fun genesis r =>
    .ok { version := version, capabilities := capsTruncate capab, genesis := genesis,
          totalDifficulty := td, userAgent := ua } r 0

/-- the decoded body of a message whose type `p2p/src/msg.rs` defines; `P` = decoded payload of the
types owned by other domains -/
inductive Body (P : Type)
  /-- `Ping` / `Pong`: total difficulty, height -/
  | pingPong (totalDifficulty height : Nat)
  /-- `BanReason` (`ReasonForBan` discriminant) -/
  | banReason (r : Nat)
  /-- `TransactionKernel`, `GetTransaction`, `GetBlock`, `GetCompactBlock`: a `Hash` -/
  | hash (h : Bytes)
  /-- `GetHeaders`: `Locator` -/
  | locator (hs : List Bytes)
  | getPeerAddrs (caps : Nat)
  | peerAddrs (peers : List PeerAddr)
  | txHashSetRequest (h : Bytes) (height : Nat)
  | txHashSetArchive (h : Bytes) (height bytes : Nat)
  /-- `Get*Segment`: `SegmentRequest` -/
  | segmentRequest (blockHash : Bytes) (id : SegmentId)
  /-- `Transaction`, `StemTransaction`, `Block`, `CompactBlock`, `Header`, `*Segment` responses -/
  | payload (p : P)

/-- `Readable for Ping` / `Pong` -/
def decPingPong {P : Type} : Dec (Body P) := fun bs =>
  bind (rU64 bs) fun td r => bind (rU64 r) fun h r => .ok (.pingPong td h) r 0

/-- `read_i32` as a signed value -/
def toI32 (u : Nat) : Int := if u < 2^31 then (u : Int) else (u : Int) - 2^32

/-- `Readable for BanReason`: a failed `read_i32` is replaced by 0 (a `BinReader` over a slice has
then consumed the rest of the slice, a `BufReader` nothing); `ReasonForBan::from_i32` -/
def decBanReason {P : Type} (rd : Rdr) : Dec (Body P) := fun bs =>
  let v : Int := match readU32 bs with
    | .ok (u, _) => toI32 u
    | .error _ => 0
  let rest := match readU32 bs with
    | .ok (_, r) => r
    | .error _ => (match rd with | .bin => [] | .buf => bs)
  if 0 ≤ v ∧ banReasons.contains v.toNat then .ok (.banReason v.toNat) rest 0 else .err .corrupted 0

def decHashBody {P : Type} (rd : Rdr) : Dec (Body P) := fun bs =>
  bind (rHash rd bs) fun h r => .ok (.hash h) r 0

/-- `Readable for Locator`: `len > MAX_LOCATORS as u8` refused; `Vec::with_capacity(len)` of hashes -/
def decLocator {P : Type} (rd : Rdr) : Dec (Body P) := fun bs =>
  bind (rU8 bs) fun len r =>
    if len > GV.Gen.MAX_LOCATORS % 256 then .err .tooLarge 0
    else withCapacity len 32 (bind (readN (rHash rd) len r) fun hs r => .ok (.locator hs) r 0)

def decGetPeerAddrs {P : Type} : Dec (Body P) := fun bs =>
  bind (rU32 bs) fun capab r => .ok (.getPeerAddrs (capsTruncate capab)) r 0

/-- `Readable for PeerAddrs`: count capped by `MAX_PEER_ADDRS`, `Vec::with_capacity(count)` -/
def decPeerAddrs {P : Type} (rd : Rdr) : Dec (Body P) := fun bs =>
  bind (rU32 bs) fun count r =>
    if count > GV.Gen.MAX_PEER_ADDRS then .err .tooLarge 0
    else if count = 0 then .ok (.peerAddrs []) r 0
    else withCapacity count PEER_ADDR_MEM
      (bind (readN (decPeerAddr rd) count r) fun ps r => .ok (.peerAddrs ps) r 0)

def decTxHashSetRequest {P : Type} (rd : Rdr) : Dec (Body P) := fun bs =>
  bind (rHash rd bs) fun h r => bind (rU64 r) fun height r => .ok (.txHashSetRequest h height) r 0

def decTxHashSetArchive {P : Type} (rd : Rdr) : Dec (Body P) := fun bs =>
  bind (rHash rd bs) fun h r =>
  bind (rU64 r) fun height r =>
  bind (rU64 r) fun bytes r => .ok (.txHashSetArchive h height bytes) r 0

def decSegmentRequest {P : Type} (rd : Rdr) : Dec (Body P) := fun bs =>
  bind (rHash rd bs) fun h r => bind (segmentId r) fun id r => .ok (.segmentRequest h id) r 0

/-- `PeerError` (type `Error`; never decoded by the codec, listed for completeness) -/
def decPeerError (rd : Rdr) : Dec (Nat × Bytes) := fun bs =>
  bind (rU32 bs) fun code r => bind (decString rd r) fun m r => .ok (code, m) r 0

/-- the payload decoders owned by other domains, per message type -/
abbrev Payload (P : Type) := Nat → Dec P

/-- outcome of `decode_message` for the type bytes it refuses -/
inductive BodyErr
  | ser (e : SerErr)
  /-- `Error::UnexpectedMessage` (`Error`, `Hand`, `Shake`, `Headers`) -/
  | unexpectedMessage
deriving DecidableEq, Repr

/-- does `decode_message` dispatch on this (known) type? -/
def isDispatched (t : Nat) : Bool :=
  isKnownType t && t != T_Error && t != T_Hand && t != T_Shake && t != T_Headers

/-- is the body of this type an opaque payload at this layer? -/
def isPayloadType (t : Nat) : Bool :=
  t == T_Transaction || t == T_StemTransaction || t == T_Block || t == T_CompactBlock || t == T_Header ||
  t == T_OutputBitmapSegment || t == T_OutputSegment || t == T_RangeProofSegment || t == T_KernelSegment

/-- the `msg.body()?` of each arm of `decode_message` (`p2p/src/codec.rs`), instrumented -/
def decBody {P : Type} (pl : Payload P) (rd : Rdr) (t : Nat) : Dec (Body P) :=
  if t = T_Ping ∨ t = T_Pong then decPingPong
  else if t = T_BanReason then decBanReason rd
  else if t = T_TransactionKernel ∨ t = T_GetTransaction ∨ t = T_GetBlock ∨ t = T_GetCompactBlock then decHashBody rd
  else if t = T_GetHeaders then decLocator rd
  else if t = T_GetPeerAddrs then decGetPeerAddrs
  else if t = T_PeerAddrs then decPeerAddrs rd
  else if t = T_TxHashSetRequest then decTxHashSetRequest rd
  else if t = T_TxHashSetArchive then decTxHashSetArchive rd
  else if t = T_GetOutputBitmapSegment ∨ t = T_GetOutputSegment ∨ t = T_GetRangeProofSegment ∨ t = T_GetKernelSegment
    then decSegmentRequest rd
  else fun bs => (pl t bs).map .payload

/-! ## encoders of the bodies (`Writeable` impls) -/

def encBody {P : Type} (encP : P → Bytes) : Body P → Bytes
  | .pingPong td h => writeU64 td ++ writeU64 h
  | .banReason r => writeU32 r
  | .hash h => writeFixed h
  | .locator hs => writeU8 hs.length ++ hs.flatten
  | .getPeerAddrs caps => writeU32 caps
  | .peerAddrs ps => writeU32 ps.length ++ (ps.map encPeerAddr).flatten
  | .txHashSetRequest h height => writeFixed h ++ writeU64 height
  | .txHashSetArchive h height bytes => writeFixed h ++ writeU64 height ++ writeU64 bytes
  | .segmentRequest h id => writeFixed h ++ encSegmentId id
  | .payload p => encP p

/-- `write_message`: `ser_vec(header) ++ body`, then the attachment file contents -/
def writeMessage (c : NetCfg) (t : Nat) (body attachment : Bytes) : Bytes :=
  encHeader c t body.length ++ body ++ attachment

end GV.Msg
