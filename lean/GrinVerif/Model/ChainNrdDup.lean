import GrinVerif.Model.Chain
/-! `TransactionBody::verify_no_nrd_duplicates` (core/src/core/transaction.rs): it is never valid to
have two NRD kernels with the same public excess inside one transaction or block, whatever their
relative heights. The check runs in `validate_read`, right after the weight check and BEFORE the
sorting, cut-through, range-proof and signature checks — i.e. where `validateBody` evaluates its
first `body:` tag; it is a static fact about the block, so the driver derives the tag from the
kernels printed with the block. Plain / height-locked / coinbase kernels are not counted. -/
namespace GV.Chain

/-- the excesses of the block's NRD kernels, in body order -/
def nrdExcesses (b : Blk) : List String :=
  b.kers.filterMap fun k => match k with
    | .nrd _ _ ex => some ex
    | _ => none

/-- two NRD kernels of the block share an excess (`sort; dedup; compare lengths`) -/
def nrdDupInBody (b : Blk) : Bool := !(decide (nrdExcesses b).Nodup)

/-- the block with the verdict of `verify_no_nrd_duplicates` in front of its other body-level tags -/
def Blk.withNrdDupCheck (b : Blk) : Blk :=
  if nrdDupInBody b then { b with tags := "body:Block:Transaction:InvalidNRDRelativeHeight" :: b.tags }
  else b

end GV.Chain
