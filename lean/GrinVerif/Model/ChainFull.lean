import GrinVerif.Model.Chain
/-! Full-state validation (C01): `txhashset::Extension::validate` (chain/src/txhashset/txhashset.rs),
the path behind `Chain::validate(fast)`, `Chain::txhashset_write`, the desegmenter's
`validate_complete_state` and the periodic validation.

A state is what the validation reads: the kernel MMR position by position (`verify_kernel_signatures`
walks the positions `0 .. size` and picks the leaves), the unspent outputs in MMR order
(`verify_rangeproofs` walks `leaf_pos_iter`), the height of the header it is validated against, and
whether the genesis carried a reward. As everywhere in the chain model (DESIGN §2.3) signature and
range-proof faults are tags on the items, the value component of the sums is computed from the
openings, the blinding-level component, the MMR hashes, roots and sizes are tags on the state.
The two batching loops are transliterated with their batch size as a parameter (5000 kernels,
1000 proofs in the code) so that the theorems hold for every batch size and every count. -/

namespace GV.Chain

/-- a kernel of the state: the model keeps the fault tag only -/
structure KItem where
  sigBad : Bool := false
deriving Repr, DecidableEq, Inhabited

/-- one position of the kernel MMR as `verify_kernel_signatures` sees it: a parent (skipped), a leaf
with its kernel, or a leaf whose data cannot be read (`get_data(n) = None`) -/
inductive KPos
  | parent
  | leaf (k : KItem)
  | missing
deriving Repr, DecidableEq, Inhabited

/-- an unspent output of the state (a set bit of the leaf set), with the opening of its value -/
structure OItem where
  v : Nat := 0
  proofBad : Bool := false
  /-- `output_pmmr.get_data(pos)` is `None` (data pruned away under a set leaf bit) -/
  outMissing : Bool := false
  /-- `rproof_pmmr.get_data(pos)` is `None` -/
  proofMissing : Bool := false
deriving Repr, DecidableEq, Inhabited

structure FullState where
  /-- height of the header the state is validated against (`self.head.height`) -/
  height : Nat := 0
  /-- `genesis.kernel_mmr_size > 0` -/
  genesisHadReward : Bool := true
  kernelMmr : List KPos := []
  utxo : List OItem := []
  /-- `validate_mmrs`: some parent hash of one of the three MMRs is not the hash of its children -/
  mmrFault : Option Err := none
  /-- `validate_roots` -/
  rootFault : Option Err := none
  /-- `validate_sizes` -/
  sizeFault : Option Err := none
  /-- blinding-level fault of the sums (foreign kernel, total offset off …) -/
  blindFault : Option Err := none
deriving Repr, Inhabited

/-- `TxKernel::batch_sig_verify`: the batch fails iff one of its kernels carries a signature fault
(an empty batch passes) -/
def batchSigVerify (b : List KItem) : Bool := b.all (fun k => !k.sigBad)

/-- `Output::batch_verify_proofs` -/
def batchProofVerify (b : List OItem) : Bool := b.all (fun o => !o.proofBad)

/-- the `if pmmr::is_leaf(n) { tx_kernels.push(get_data(n)?) }` part of one loop iteration -/
def accAfter : KPos → List KItem → Option (List KItem)
  | .parent, acc => some acc
  | .leaf k, acc => some (acc ++ [k])
  | .missing, _ => none

/-- `Extension::verify_kernel_signatures`: `for n in 0..size`, leaves are collected; the batch is
verified and cleared when it holds `B` kernels **or** `n + 1 >= size` (the last position, which is
a leaf or a parent depending on the count). `acc` = `tx_kernels`. No stop state. -/
def sigLoop (B : Nat) : List KPos → List KItem → Option Err
  | [], _ => none
  | p :: rest, acc =>
    match accAfter p acc with
    | none => some "TxKernelNotFound"
    | some acc' =>
      if B ≤ acc'.length ∨ rest.isEmpty then
        (if batchSigVerify acc' then sigLoop B rest [] else some "Transaction:IncorrectSignature")
      else sigLoop B rest acc'

/-- `Extension::verify_rangeproofs` (no start position, not `single_iter`, no stop state): every
unspent leaf must have its output and its proof; a batch is verified when it holds `B` proofs, the
remainder after the loop. `acc` = `commits` / `proofs`. -/
def proofLoop (B : Nat) : List OItem → List OItem → Option Err
  | [], acc =>
    if acc.isEmpty then none
    else if batchProofVerify acc then none else some "Transaction:Secp:InvalidRangeProof"
  | o :: rest, acc =>
    if o.outMissing then some "OutputNotFound"
    else if o.proofMissing then some "RangeproofNotFound"
    else
      if B ≤ (acc ++ [o]).length then
        (if batchProofVerify (acc ++ [o]) then proofLoop B rest []
         else some "Transaction:Secp:InvalidRangeProof")
      else proofLoop B rest (acc ++ [o])

/-- Σ of the openings of the unspent outputs -/
def FullState.total (s : FullState) : Nat := (s.utxo.map (·.v)).sum

/-- minus `BlockHeader::total_overage(genesis_had_reward)`: one reward per block, plus the genesis' -/
def FullState.supply (p : Params) (s : FullState) : Nat :=
  (s.height + (if s.genesisHadReward then 1 else 0)) * p.reward

/-- `Extension::validate(genesis, fast_validation, status, None, None, header, None)`:
`validate_mmrs`, `validate_roots`, `validate_sizes`; a state at height 0 is accepted as it is;
`validate_kernel_sums` (value component computed, blinding component a tag); and unless `fast`
every range proof of the unspent set, then every kernel signature. `kB`, `pB` = batch sizes. -/
def validateFull (p : Params) (kB pB : Nat) (s : FullState) (fast : Bool) : Option Err :=
  match s.mmrFault with
  | some e => some e
  | none =>
  match s.rootFault with
  | some e => some e
  | none =>
  match s.sizeFault with
  | some e => some e
  | none =>
  if s.height = 0 then none else
  if s.total ≠ s.supply p then some "Committed:KernelSumMismatch" else
  match s.blindFault with
  | some e => some e
  | none =>
  if fast then none else
  match proofLoop pB s.utxo [] with
  | some e => some e
  | none => sigLoop kB s.kernelMmr []

/-- batch sizes of the code: `KERNEL_BATCH_SIZE`, `batch_size.unwrap_or(1_000)` -/
def KERNEL_BATCH : Nat := 5000
def PROOF_BATCH : Nat := 1000

/-- the MMR shape of a kernel list: after the `i`-th leaf (1-based) come as many parents as `i`
has trailing zero bits (the driver uses this to lay a count out; the theorems hold for every
interleaving of leaves and parents) -/
def trailingZeros : Nat → Nat → Nat
  | 0, _ => 0
  | fuel+1, n => if n = 0 then 0 else if n % 2 = 1 then 0 else 1 + trailingZeros fuel (n / 2)

def layoutFrom : Nat → List KItem → List KPos
  | _, [] => []
  | i, k :: ks => (KPos.leaf k :: List.replicate (trailingZeros 64 i) KPos.parent) ++ layoutFrom (i + 1) ks

def kernelLayout (ks : List KItem) : List KPos := layoutFrom 1 ks

/-- the state a replay leads to, as the full validation sees it: its unspent outputs with their
openings, `ks` = the kernels of the blocks replayed (in MMR layout), height = number of blocks -/
def fullOf (outs : List OutDef) (s : UState) (height : Nat) (ks : List KItem) : FullState :=
  { height, genesisHadReward := true, kernelMmr := kernelLayout ks,
    utxo := s.utxo.map (fun u => { v := valOf outs u.1 }) }

end GV.Chain
