import GrinVerif.Model.Basic
import GrinVerif.Model.Blake2b
/-! # `Proof` nonce packing and proof difficulty (core/src/pow/types.rs)

`pack_bits`, `extract_bits`, `read_number`, the nonce part of `Proof::read` (with the padding
check) and `Proof::scaled_difficulty`, bit for bit. Bytes are `List Nat` (each < 256). -/
namespace GV.Pow

/-- `Proof::pack_len(bit_width)` with `global::proofsize() = ps` -/
def packLen (w ps : Nat) : Nat := (w * ps + 7) / 8

/-- the `for el in uncompressed` loop of `pack_bits`; `out` = bytes already copied to
`compressed`, `total` = its full length; `none` = slice-index panic (`compressed[..8]` too short) -/
def packLoop (w total : Nat) : List Nat → Nat → Nat → Bytes → Option (Bytes × Nat)
  | [], mini, _, out => some (out, mini)
  | el :: r, mini, rem, out =>
    let mini := mini ||| shlW el (64 - rem)
    if w < rem then packLoop w total r mini (rem - w) out
    else if out.length + 8 > total then none
    else packLoop w total r (el >>> rem) (64 + rem - w) (out ++ leBytes 8 mini)

/-- `Proof::pack_nonces` = zeroed buffer of `pack_len` bytes + `pack_bits`; `none` = panic -/
def packNonces (w ps : Nat) (nonces : List Nat) : Option Bytes :=
  let total := packLen w ps
  match packLoop w total nonces 0 64 [] with
  | none => none
  | some (out, mini) =>
    let rest := total - out.length
    let remainder := if rest % 8 = 0 then 8 else rest % 8
    if mini > 0 then
      -- `compressed[..].copy_from_slice(&le[..remainder])` panics unless the lengths agree
      if rest = remainder then some (out ++ (leBytes 8 mini).take remainder) else none
    else some (out ++ List.replicate rest 0)

/-- `extract_bits` -/
def extractBits (bits : Bytes) (bitStart bitCount readFrom : Nat) : Nat :=
  let word := ofLE ((bits.drop readFrom).take 8)
  if bitCount = 64 then word
  else (word >>> (bitStart - readFrom * 8)) &&& (2^bitCount - 1)

/-- `read_number` (callers guarantee `bits.length ≥ 8`) -/
def readNumber (bits : Bytes) (bitStart bitCount : Nat) : Nat :=
  if bitCount = 0 then 0
  else
    let readFrom := if bitStart / 8 + 8 > bits.length then bits.length - 8 else bitStart / 8
    let maxBitEnd := (readFrom + 8) * 8
    if bitStart + bitCount ≤ maxBitEnd then extractBits bits bitStart bitCount readFrom
    else
      let low := extractBits bits bitStart 8 readFrom
      let high := extractBits bits (bitStart + 8) (bitCount - 8) (readFrom + 1)
      (high <<< 8) + low

/-- nonce part of `Proof::read` after the `edge_bits` byte `w` was read; `bs` are the
`pack_len` bytes; `none` = `CorruptedData` -/
def readProof (w ps : Nat) (bs : Bytes) : Option (List Nat) :=
  if w = 0 ∨ w > 63 then none
  else if packLen w ps < 8 then none
  else
    let nonces := (List.range ps).map fun n => readNumber bs (n * w) w
    let endOfData := ps * w
    if readNumber bs endOfData (packLen w ps * 8 - endOfData) ≠ 0 then none
    else some nonces

/-- `self.hash().to_u64()`: the first 8 bytes, big endian, of blake2b-256 of the packed nonces
(`Proof::write` in hash mode writes `pack_nonces()` only) -/
def hashPrefix (packed : Bytes) : Nat := ofBE ((Blake2b.hash 32 packed).take 8)

/-- The arithmetic of `Proof::scaled_difficulty(scale)` as written, `h = self.hash().to_u64()`:
`let diff = ((scale as u128) << 64) / (max(1, h) as u128); min(diff, u64::MAX as u128) as u64`
with the u128 shift and the final `as u64` truncation explicit. -/
def scaledDiffU128 (scale h : Nat) : Nat :=
  let diff := ((scale % 2^64) * 2^64 % 2^128) / (max 1 h)
  (min diff (2^64 - 1)) % 2^64

/-- The definition the property fixes: `floor(scale · 2^64 / max(1, h))`, saturating at `u64::MAX`
(exact rational arithmetic in `Nat`). `Props/C05.lean difficulty_exact`: equal to `scaledDiffU128`
for every `scale < 2^64`. -/
def diffExact (scale h : Nat) : Nat := min ((scale * 2^64) / (max 1 h)) (2^64 - 1)

/-- `Proof::scaled_difficulty(scale)`: a function of the packed nonces -/
def scaledDifficulty (scale : Nat) (packed : Bytes) : Nat := scaledDiffU128 scale (hashPrefix packed)


/-- `Proof::read` on a byte stream (`impl Readable for Proof`, default deserialization mode):
`read_u8` for the edge bits, the guards, `read_fixed_bytes(pack_len)` — which fails when fewer bytes
are left — then the nonce part.  Returns the edge bits, the nonces and the number of bytes left
unread; `none` = any `Err` (`CorruptedData`, `UnexpectedEof` / `IOErr`). -/
def readProofStream (ps : Nat) : Bytes → Option (Nat × List Nat × Nat)
  | [] => none
  | w :: rest =>
    if w = 0 ∨ w > 63 then none
    else if packLen w ps < 8 then none
    else if rest.length < packLen w ps then none
    else
      match readProof w ps (rest.take (packLen w ps)) with
      | none => none
      | some ns => some (w, ns, rest.length - packLen w ps)

end GV.Pow
