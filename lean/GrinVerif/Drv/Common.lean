import GrinVerif.Model.Basic
import GrinVerif.Model.Blake2b
/-! Glue shared by the per-domain driver handlers (line protocol). -/
namespace GV.Drv

/-- verdict of the model on one `op args => impl` line -/
inductive Verdict
  | ok
  /-- implementation deviates from a value the property itself fixes (spec / proven-equal model):
      the line is a concrete failing input -/
  | fail (model : String)
  /-- implementation deviates from the model on an internal observable -/
  | diff (model : String)
  | unknown
  | note (msg : String)

def cmpSpec (model impl : String) : Verdict := if model = impl then .ok else .fail model
def cmpModel (model impl : String) : Verdict := if model = impl then .ok else .diff model

def nat? (s : String) : Option Nat := s.toNat?

/-- real hash: blake2b-256 -/
def h256 (b : Bytes) : Bytes := Blake2b.hash 32 b

def splitWs (s : String) : List String :=
  (s.splitOn " ").filter (fun t => !t.isEmpty)

/-- "[aa,bb]" hex list -/
def parseHexList (s : String) : Option (List Bytes) :=
  let inner := (s.drop 1).dropEnd 1 |>.toString
  if inner.isEmpty then some [] else (inner.splitOn ",").mapM parseHex

def showHexList (l : List Bytes) : String := "[" ++ ",".intercalate (l.map toHex) ++ "]"

end GV.Drv
