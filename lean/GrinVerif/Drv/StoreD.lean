import GrinVerif.Drv.Common
import GrinVerif.Model.Store
import GrinVerif.Model.StoreExt
/-! Driver glue for the `store` domain (property C08).

Every line is answered three ways: by the implementation (the text after `=>`), by the model
backend (`GV.Store.PM` over the model files / leaf set / prune list) and – where the property
fixes the value – by the **reference**: an unpruned Vec MMR (`GV.Pmmr.push`) over the same leaf
history plus the set of unspent leaf positions.  Implementation ≠ reference is a `FAIL`
(the property's oracle violated on a concrete history); implementation ≠ model is a `DIFF`.

Which lines are spec-compared (`cmp2`: reference first) and why the reference value is the value
the property fixes – `Props/C08.lean`, for every history satisfying `RefSt.Proto`:
* `push` / `rewind` (resulting size), `usize` (synced states): `history_preserves_reference`, size
  and `unprunedSize` clauses;
* `prune` (was the leaf unspent), `leaves`, `nleaves`: unspent-set clause (the reference steps its
  set exactly as `RefSt.step`: `push` adds the new leaf, `prune` removes, `rewind N' rm` =
  `(unspent ∩ < mmr N') ∪ rm`);
* `root`: root clause; `data`, `hash`, `leafobs`: hash/data clause for unspent leaves (and `None`
  for spent leaves: `getHash`/`getData` test the leaf set first);
* `proof`: `history_merkle_proofs` (whole proof value of unspent leaves; refused for spent ones);
* `file`, `node`: only the part the property fixes – the positions the reference still needs
  (peaks, Merkle-path siblings of unspent leaves: path/peak clauses) must not read `None` and must
  read the reference hash; which other positions read `None` is internal (`cmpModel`).
* `covered` (which of the leaves a permitted rewind can still make unspent lie in a pruned subtree
  of the prune list on disk): the value is `[]` – `protected_never_pruned` (block-level histories:
  compaction cutoff = a committed boundary, `rewind_rm_pos` = everything spent after it);
* `disk` (length and digest of hash file, data file, size file): between two `disk` lines with no
  `sync` / `compact` / `new` in between the files must not change – appends, removals and rewinds
  only touch memory and `discard` writes nothing (`unit_disk_untouched`, `unit_discard`); the first
  `disk` line after a write is compared with the model only.
`cmpModel` only: `usize_mid` (inside a unit the theorem says nothing about `unpruned_size`),
`sizes`, `prunelist`, the `pl_*` stream, the acknowledgements of `new`/`sync`/`discard`/
`compact`/`reopen`, and the whole out-of-protocol `x*` stream.

Import path (state sync) and further views (`Model/StoreExt.lean`): `pushpruned pos0 hash [leaf data…]`
(`PMMR::push_pruned_subtree`; the leaf data of the subtree is ghost information for the reference,
which pushes those leaves as spent ones; the hash handed to the store must be the reference hash of
`pos0`; resulting size spec-compared – `history_from_synced_state` of Props/C08Import for the histories that follow; the import step itself is sampled), `rmleaf pos`
(`remove_from_leaf_set`), `nleaves_to i` / `leafidx i` (`n_unpruned_leaves_to_index`, `leaf_idx_iter`:
functions of the unspent set, spec-compared), `resetpl` (`reset_prune_list`, model only),
`snapshot` / `reopen_snap` (leaf-set snapshot taken inside a rewound unit and used by
`PMMRBackend::new(.., Some(header))`: the reference unspent set becomes the one at the snapshot).
`new npfixed|npvar`: the non-prunable backend (`prunable == false`, kernel / header MMR); the same
operation names are answered by the `np*` functions; the reference never spends a leaf. -/
namespace GV.Drv.StoreD
open GV GV.Pmmr GV.Store GV.Drv

/-- the real hash shapes: `(idx, elem).hash()` and `(idx, (l, r)).hash()` -/
def realHF : HashFn Bytes Bytes where
  leaf := fun i e => h256 (beBytes 8 i ++ e)
  node := fun i l r => h256 (beBytes 8 i ++ l ++ r)

/-- harness' variable-size element: one length byte, then that many bytes -/
def varElemLen : Bytes → Option Nat
  | [] => none
  | n :: rest => if rest.length ≥ n then some (n + 1) else none

/-- harness' element type for the oversize probe (`new big`): a 4-byte big-endian length, then
that many bytes -/
def bigElemLen (b : Bytes) : Option Nat :=
  if b.length < 4 then none else
  let n := ofBE (b.take 4)
  if b.length - 4 ≥ n then some (n + 4) else none

/-- the unpruned reference -/
structure Ref where
  hashes : List Bytes := []
  /-- leaf data in insertion order -/
  datas : List Bytes := []
  /-- unspent leaf positions (0-based), ascending -/
  unspent : List Nat := []

structure St where
  pm : PM Bytes := {}
  ref : Ref := {}
  refC : Ref := {}
  sizeC : Nat := 0
  /-- state of the direct `PruneList` stream -/
  pl : PruneList := {}
  /-- the last `disk` answer of the implementation, while nothing has been allowed to write to the
  files since (`none` after `new` / `sync` / `compact`) -/
  lastDisk : Option String := none
  /-- non-prunable backend (`prunable == false`) -/
  np : Bool := false
  /-- element reader of kind `big` (4-byte length prefix) instead of the 1-byte one -/
  big : Bool := false
  /-- `LeafSet::snapshot` per header tag: the bitmap written to the side file, and the reference unspent set then -/
  snaps : List (String × Bitmap × List Nat) := []

def showPl (pl : PruneList) : String :=
  s!"{showNatList pl.bitmap} {showNatList pl.shiftCache} {showNatList pl.leafShiftCache}"

def showRoot : RootRes Bytes → String
  | .zero => "zero"
  | .ok h => toHex h
  | .err => "err"

def showOptHex : Option Bytes → String
  | some b => toHex b
  | none => "none"

def showProof : Option (Nat × List Bytes) → String
  | some (sz, path) => s!"{sz} {showHexList path}"
  | none => "err"

/-- spec verdict first, then model verdict -/
def cmp2 (spec model impl : String) : Verdict :=
  if spec ≠ impl then .fail spec else if model ≠ impl then .diff model else .ok

namespace Ref

def push (r : Ref) (e : Bytes) : Option Ref :=
  match Pmmr.push realHF r.hashes e with
  | none => none
  | some hs => some { r with hashes := hs, datas := r.datas ++ [e], unspent := r.unspent ++ [r.hashes.length] }

def isUnspent (r : Ref) (p : Nat) : Bool := r.unspent.elem p

/-- the reference semantics of `rewind` (`RefSt.step` of Lemmas/StoreHistory): the leaf history is
truncated, the unspent set is the old one below the boundary plus the re-added leaves.  (Several
committed boundaries can have the same size – units that only remove – so the boundary is not a
function of the size.) -/
def rewind (r : Ref) (size : Nat) (rm1 : List Nat) : Ref :=
  let size := roundUpToLeafPos size
  { hashes := r.hashes.take size, datas := r.datas.take (nLeaves size),
    unspent := Bm.or (r.unspent.filter (· < size)) (rm1.map (· - 1)) }

def dataAt (r : Ref) (p : Nat) : Option Bytes :=
  match pmmrLeafToInsertionIndex p with
  | some i => r.datas[i]?
  | none => none

def getData (r : Ref) (p : Nat) : Option Bytes := if r.isUnspent p then r.dataAt p else none
def getHash (r : Ref) (p : Nat) : Option Bytes := if r.isUnspent p then r.hashes[p]? else none

end Ref

/-- digest input over all leaves `< size`: `be8 pos ‖ data? ‖ hash?` -/
def leafObsBytes (size : Nat) (getData getHash : Nat → Option Bytes) : Bytes :=
  let n := nLeaves size
  (List.range n).flatMap fun i =>
    let p := insertionToPmmrIndex i
    if p ≥ size then [] else
    beBytes 8 p ++ (getData p).getD [] ++ (getHash p).getD []

/-- positions whose hash the reference still needs: peaks and the Merkle-path siblings of
every unspent leaf -/
def neededPos (size : Nat) (unspent : List Nat) : List Nat :=
  peaks size ++ unspent ++ unspent.flatMap fun p => (familyBranch p size).map (·.2)

/-- the non-prunable backend (`new npfixed` / `new npvar`): same operation names, answered by the
`np*` functions of `Model/StoreExt.lean`; the reference never spends a leaf -/
def handleNp (st : St) (args : List String) (impl : String) : St × Verdict :=
  let el := if st.big then bigElemLen else varElemLen
  match args with
  | ["push", e] => match parseHex e with
    | none => (st, .unknown)
    | some e =>
      match st.ref.push e, st.pm.npPush realHF e with
      | some r, some pm => ({ st with ref := r, pm := pm }, cmp2 (toString r.hashes.length) (toString pm.size) impl)
      | some r, none => ({ st with ref := r }, cmp2 (toString r.hashes.length) "err" impl)
      | none, some pm => ({ st with pm := pm }, cmp2 "err" (toString pm.size) impl)
      | none, none => (st, cmp2 "err" "err" impl)
  | ["prune", p] => match nat? p with
    | none => (st, .unknown)
    | some p =>
      -- `PMMR::prune`: not a leaf -> Err; nothing there -> Ok(false); else `Backend::remove` asserts
      let model := if !isLeaf p then "err" else if (st.pm.b.npGetHash p).isNone then "false" else "panic"
      (st, cmpModel model impl)
  | ["rewind", size, _] => match nat? size with
    | some size =>
      let r := st.ref.rewind size []
      let pm := st.pm.npRewind size
      ({ st with ref := r, pm := pm }, cmp2 (toString r.hashes.length) (toString pm.size) impl)
    | none => (st, .unknown)
  | ["sync"] =>
    ({ st with pm := { st.pm with b := st.pm.b.npSync }, refC := st.ref, sizeC := st.pm.size,
               lastDisk := none }, cmpModel "ok" impl)
  | ["discard"] =>
    ({ st with pm := { b := st.pm.b.discard, size := st.sizeC }, ref := st.refC }, cmpModel "ok" impl)
  | ["reopen"] =>
    ({ st with pm := { st.pm with b := st.pm.b.reopen el } }, cmpModel "ok" impl)
  | ["root"] =>
    (st, cmp2 (showRoot (Pmmr.root realHF st.ref.hashes)) (showRoot (rootG realHF st.pm.size st.pm.npGetPeak)) impl)
  | ["usize"] => (st, cmp2 (toString st.ref.hashes.length) (toString st.pm.b.unprunedSize) impl)
  | ["usize_mid"] => (st, cmpModel (toString st.pm.b.unprunedSize) impl)
  | ["nleaves"] =>
    -- `n_leaves(unpruned_size())`: the synced size, whatever the handle's size is
    (st, cmpModel (toString st.pm.b.npNUnprunedLeaves) impl)
  | ["nleaves_sync"] => (st, cmp2 (toString st.ref.unspent.length) (toString st.pm.b.npNUnprunedLeaves) impl)
  | ["nleaves_to", i] => match nat? i with
    | some i => (st, cmpModel (toString (Backend.npNUnprunedLeavesToIndex i)) impl)
    | none => (st, .unknown)
  | ["data", p] => match nat? p with
    | some p => (st, cmp2 (showOptHex (st.ref.getData p)) (showOptHex (st.pm.npGetData el p)) impl)
    | none => (st, .unknown)
  | ["hash", p] => match nat? p with
    | some p => (st, cmp2 (showOptHex (st.ref.getHash p)) (showOptHex (st.pm.npGetHash p)) impl)
    | none => (st, .unknown)
  | ["node", p] => match nat? p with
    | some p =>
      let model := showOptHex (st.pm.npGetHash p)
      if p < st.ref.hashes.length && !isLeaf p then (st, cmp2 (showOptHex st.ref.hashes[p]?) model impl)
      else (st, cmpModel model impl)
    | none => (st, .unknown)
  | ["leafobs"] =>
    let size := st.ref.hashes.length
    let spec := leafObsBytes size st.ref.getData st.ref.getHash
    let model := leafObsBytes st.pm.size (st.pm.npGetData el) st.pm.npGetHash
    let hs := toHex (h256 spec)
    let hm := if model = spec then hs else toHex (h256 model)
    (st, cmp2 hs hm impl)
  | ["proof", p] => match nat? p with
    | some p =>
      let spec := if st.ref.isUnspent p then Pmmr.merkleProof realHF st.ref.hashes p else none
      (st, cmp2 (showProof spec) (showProof (st.pm.npMerkleProof realHF p)) impl)
    | none => (st, .unknown)
  | ["sizes"] =>
    (st, cmpModel s!"{st.pm.b.hashSize} {st.pm.b.dataSize} {st.pm.b.pruneList.bitmap.length}" impl)
  | _ => (st, .unknown)

/-- the entries of a size file given as its bytes: 10 bytes each, `offset: u64 BE, size: u16 BE`;
trailing bytes that do not make a whole entry are not addressable (`size / 10` elements) -/
def parseSizeEntries : Nat → Bytes → List SizeEntry
  | 0, _ => []
  | fuel+1, b =>
    if b.length < 10 then []
    else (ofBE (b.take 8), ofBE ((b.drop 8).take 2)) :: parseSizeEntries fuel (b.drop 10)

/-- `sizefile <hex>`: between closing the backend and `reopen` the harness replaced the content of
`pmmr_size.bin` (deleted = `-`, truncated, shifted, junk appended, zero-filled, same-sum swap): the
model's size file on disk becomes these entries; what `reopen` (`AppendOnlyFile::open`:
`sum_sizes != size` → `rebuild_size_file`) makes of it is `VarFile.ofDisk`.  Spec side: nothing –
the lines that follow are compared with the reference as always (`var_file_open_rebuilds`: a size
file whose sum differs is rebuilt, the elements are those of the data file). -/
def handleSizeFile (st : St) (hexs : String) (impl : String) : St × Verdict :=
  match parseHex hexs, st.pm.b.dataFile with
  | some bytes, .var v =>
    let entries := parseSizeEntries (bytes.length + 1) bytes
    let v' : VarFile := { v with sizeFile := { v.sizeFile with disk := entries } }
    ({ st with pm := { st.pm with b := { st.pm.b with dataFile := .var v' } }, lastDisk := none },
      cmpModel "ok" impl)
  | _, _ => (st, .unknown)

def handle (st : St) (args : List String) (impl : String) : St × Verdict :=
  let el := if st.big then bigElemLen else varElemLen
  -- `@n` tokens only number the observation inside the run
  let args := args.filter (fun a => !a.startsWith "@")
  if args.head? == some "sizefile" then handleSizeFile st (args.getD 1 "") impl else
  if st.np && args.head? != some "new" then handleNp st args impl else
  match args with
  | ["new", kind] =>
    let df : DFile := if kind = "var" || kind = "npvar" || kind = "big" then .var {} else .fixed {}
    ({ pm := { b := { dataFile := df }, size := 0 }, np := kind.startsWith "np", big := kind = "big" }, cmpModel "ok" impl)
  -- the import path of state sync
  | ["pushpruned", p, h, es] => match nat? p, parseHex h, parseHexList es with
    | some p, some h, some es =>
      -- the reference holds the leaves of the subtree, all spent
      let r := es.foldl (fun r e => match r.push e with
        | some r' => { r' with unspent := r.unspent }
        | none => r) st.ref
      let (pm, ok) := st.pm.pushPrunedSubtree realHF h p
      let spec := if r.hashes[p]? = some h then toString r.hashes.length else "bad-hash"
      ({ st with ref := r, pm := pm }, cmp2 spec (if ok then toString pm.size else "err") impl)
    | _, _, _ => (st, .unknown)
  | ["xpushpruned", p, h] => match nat? p, parseHex h with
    | some p, some h =>
      let (pm, ok) := st.pm.pushPrunedSubtree realHF h p
      ({ st with pm := pm }, cmpModel (if ok then toString pm.size else "err") impl)
    | _, _ => (st, .unknown)
  | ["rmleaf", p] => match nat? p with
    | some p =>
      ({ st with ref := { st.ref with unspent := st.ref.unspent.filter (· != p) },
                 pm := { st.pm with b := st.pm.b.removeFromLeafSet p } }, cmpModel "ok" impl)
    | none => (st, .unknown)
  | ["resetpl"] => ({ st with pm := { st.pm with b := st.pm.b.resetPruneList } }, cmpModel "ok" impl)
  | ["nleaves_to", i] => match nat? i with
    | some i =>
      (st, cmp2 (toString (st.ref.unspent.filter (· + 1 < i)).length)
        (toString (st.pm.b.nUnprunedLeavesToIndex i)) impl)
    | none => (st, .unknown)
  | ["leafidx", i] => match nat? i with
    | some i =>
      let spec := (st.ref.unspent.filter (· ≥ insertionToPmmrIndex i)).map fun p => nLeaves (p + 1) - 1
      (st, cmp2 (showNatList spec) (showNatList (st.pm.b.leafIdxIter i)) impl)
    | none => (st, .unknown)
  | ["snapshot", tag] =>
    ({ st with snaps := (tag, st.pm.b.snapshot, st.ref.unspent) :: st.snaps }, cmpModel "ok" impl)
  | ["reopen_snap", tag] => match st.snaps.find? (·.1 == tag) with
    | some (_, bm, ru) =>
      ({ st with pm := { st.pm with b := st.pm.b.reopenWithSnapshot el bm },
                 ref := { st.ref with unspent := ru } }, cmpModel "ok" impl)
    | none => (st, .unknown)
  | ["push", e] => match parseHex e with
    | none => (st, .unknown)
    | some e =>
      match st.ref.push e, st.pm.push realHF e with
      | some r, some pm => ({ st with ref := r, pm := pm }, cmp2 (toString r.hashes.length) (toString pm.size) impl)
      | some r, none => ({ st with ref := r }, cmp2 (toString r.hashes.length) "err" impl)
      | none, some pm => ({ st with pm := pm }, cmp2 "err" (toString pm.size) impl)
      | none, none => (st, cmp2 "err" "err" impl)
  | ["prune", p] => match nat? p with
    | none => (st, .unknown)
    | some p =>
      let spec := if !isLeaf p then "err" else showBool (st.ref.isUnspent p)
      let r := { st.ref with unspent := st.ref.unspent.filter (· != p) }
      match st.pm.prune p with
      | none => ({ st with ref := r }, cmp2 spec "err" impl)
      | some (pm, ok) => ({ st with ref := r, pm := pm }, cmp2 spec (showBool ok) impl)
  | ["rewind", size, rm] => match nat? size, parseNatList rm with
    | some size, some rm =>
      let r := st.ref.rewind size rm
      let pm := st.pm.rewind size (Bm.ofList rm)
      ({ st with ref := r, pm := pm }, cmp2 (toString r.hashes.length) (toString pm.size) impl)
    | _, _ => (st, .unknown)
  | ["sync"] =>
    ({ st with pm := { st.pm with b := st.pm.b.sync }, refC := st.ref, sizeC := st.pm.size,
               lastDisk := none }, cmpModel "ok" impl)
  | ["discard"] =>
    ({ st with pm := { b := st.pm.b.discard, size := st.sizeC }, ref := st.refC }, cmpModel "ok" impl)
  | ["compact", cutoff, rm] => match nat? cutoff, parseNatList rm with
    | some cutoff, some rm =>
      ({ st with pm := { st.pm with b := st.pm.b.checkCompact el cutoff (Bm.ofList rm) },
                 lastDisk := none }, cmpModel "ok" impl)
    | _, _ => (st, .unknown)
  | ["reopen"] =>
    ({ st with pm := { st.pm with b := st.pm.b.reopen el } }, cmpModel "ok" impl)
  -- observables fixed by the reference
  | ["root"] => (st, cmp2 (showRoot (Pmmr.root realHF st.ref.hashes)) (showRoot (st.pm.root realHF)) impl)
  | ["usize"] => (st, cmp2 (toString st.ref.hashes.length) (toString st.pm.b.unprunedSize) impl)
  | ["nleaves"] => (st, cmp2 (toString st.ref.unspent.length) (toString st.pm.b.nUnprunedLeaves) impl)
  | ["leaves"] => (st, cmp2 (showNatList st.ref.unspent) (showNatList st.pm.b.leafPosIter) impl)
  | ["data", p] => match nat? p with
    | some p => (st, cmp2 (showOptHex (st.ref.getData p)) (showOptHex (st.pm.getData el p)) impl)
    | none => (st, .unknown)
  | ["hash", p] => match nat? p with
    | some p => (st, cmp2 (showOptHex (st.ref.getHash p)) (showOptHex (st.pm.getHash p)) impl)
    | none => (st, .unknown)
  | ["leafobs"] =>
    let size := st.ref.hashes.length
    let spec := leafObsBytes size st.ref.getData st.ref.getHash
    let model := leafObsBytes st.pm.size (st.pm.getData el) st.pm.getHash
    let hs := toHex (h256 spec)
    let hm := if model = spec then hs else toHex (h256 model)
    (st, cmp2 hs hm impl)
  | ["proof", p] => match nat? p with
    | some p =>
      let spec := if st.ref.isUnspent p then Pmmr.merkleProof realHF st.ref.hashes p else none
      (st, cmp2 (showProof spec) (showProof (st.pm.merkleProof realHF p)) impl)
    | none => (st, .unknown)
  -- out-of-protocol stream: model only, the reference is not consulted
  | ["xpush", e] => match parseHex e with
    | none => (st, .unknown)
    | some e => match st.pm.push realHF e with
      | some pm => ({ st with pm := pm }, cmpModel (toString pm.size) impl)
      | none => (st, cmpModel "err" impl)
  | ["xprune", p] => match nat? p with
    | none => (st, .unknown)
    | some p => match st.pm.prune p with
      | none => (st, cmpModel "err" impl)
      | some (pm, ok) => ({ st with pm := pm }, cmpModel (showBool ok) impl)
  | ["xrewind", size, rm] => match nat? size, parseNatList rm with
    | some size, some rm =>
      let pm := st.pm.rewind size (Bm.ofList rm)
      ({ st with pm := pm }, cmpModel (toString pm.size) impl)
    | _, _ => (st, .unknown)
  | ["xsetsize", n] => match nat? n with
    | some n => ({ st with pm := { st.pm with size := n } }, cmpModel "ok" impl)
    | none => (st, .unknown)
  | ["xsizes"] => (st, cmpModel s!"{st.pm.b.hashSize} {st.pm.b.dataSize}" impl)
  | ["xdata", p] => match nat? p with
    | some p => (st, cmpModel (showOptHex (st.pm.getData el p)) impl)
    | none => (st, .unknown)
  -- oversize probe: elements are runs of one byte `<len>x<byte>`; answers `none` | `<len>:<blake2b of the encoding>`
  | ["xpushrun", len, byte] => match nat? len, nat? byte with
    | some len, some byte =>
      let e := beBytes 4 len ++ List.replicate len byte
      match st.pm.push realHF e with
      | some pm => ({ st with pm := pm }, cmpModel (toString pm.size) impl)
      | none => (st, cmpModel "err" impl)
    | _, _ => (st, .unknown)
  | ["xdatalen", p] => match nat? p with
    | some p =>
      let model := match st.pm.getData el p with
        | some d => s!"{d.length}:{toHex (h256 d)}"
        | none => "none"
      (st, cmpModel model impl)
    | none => (st, .unknown)
  | ["xroot"] => (st, cmpModel (showRoot (st.pm.root realHF)) impl)
  | ["xleaves"] => (st, cmpModel (showNatList st.pm.b.leafPosIter) impl)
  | ["xleafobs"] =>
    (st, cmpModel (toHex (h256 (leafObsBytes st.pm.size (st.pm.getData el) st.pm.getHash))) impl)
  | ["xfile"] =>
    let vals := (List.range st.pm.size).map fun p => (p, st.pm.b.getFromFile p)
    let nones := vals.filterMap fun x => if x.2.isNone then some x.1 else none
    let cat := vals.flatMap fun x => x.2.getD []
    (st, cmpModel s!"{showNatList nones} {toHex (h256 cat)}" impl)
  -- internal observables (model only)
  | ["usize_mid"] => (st, cmpModel (toString st.pm.b.unprunedSize) impl)
  | ["node", p] => match nat? p with
    | some p =>
      let model := showOptHex (st.pm.getHash p)
      -- a position the reference still needs must read the reference hash
      if p < st.ref.hashes.length && !isLeaf p && (neededPos st.ref.hashes.length st.ref.unspent).elem p then
        (st, cmp2 (showOptHex st.ref.hashes[p]?) model impl)
      else (st, cmpModel model impl)
    | none => (st, .unknown)
  | ["sizes"] =>
    (st, cmpModel s!"{st.pm.b.hashSize} {st.pm.b.dataSize} {st.pm.b.pruneList.bitmap.length}" impl)
  | ["file"] =>
    -- `get_from_file` for every position: which are `None`, digest of the rest
    let size := st.pm.size
    let vals := (List.range size).map fun p => (p, st.pm.b.getFromFile p)
    let nones := vals.filterMap fun x => if x.2.isNone then some x.1 else none
    let cat := vals.flatMap fun x => x.2.getD []
    let model := s!"{showNatList nones} {toHex (h256 cat)}"
    -- the implementation's own list of `None` positions must not contain a needed position
    let implNones := (parseNatList ((impl.splitOn " ").headD "")).getD []
    let needed := neededPos st.ref.hashes.length st.ref.unspent
    match needed.find? (fun p => implNones.elem p) with
    | some p => (st, .fail s!"position {p} is needed by the reference but reads None")
    | none =>
    if model ≠ impl then (st, .diff model) else
    -- the implementation's answers are the model's; check them against the reference
    let bad := vals.find? fun x => match x.2 with
      | some h => st.ref.hashes[x.1]? != some h
      | none => false
    match bad with
    | some x => (st, .fail s!"position {x.1} must read the reference hash")
    | none =>
      match (neededPos size st.ref.unspent).find? (fun p => nones.elem p) with
      | some p => (st, .fail s!"position {p} is needed by the reference but reads None")
      | none => (st, .ok)
  | ["covered", ps] => match parseNatList ps with
    | some ps =>
      let pl := PruneList.openBm st.pm.b.pruneFile
      (st, cmp2 "[]" (showNatList (ps.filter fun p => pl.isPruned p)) impl)
    | none => (st, .unknown)
  | ["disk"] =>
    let part (b : Bytes) : String := s!"{b.length} {toHex (h256 b)}"
    let hashPart := part st.pm.b.hashFile.disk.flatten
    let model := match st.pm.b.dataFile with
      | .fixed f => s!"{hashPart} {part f.disk.flatten} 0 -"
      | .var v =>
        let sz := v.sizeFile.disk.flatMap fun e => beBytes 8 e.1 ++ beBytes 2 e.2
        s!"{hashPart} {part v.disk} {part sz}"
    let v := match st.lastDisk with
      | some spec => cmp2 spec model impl
      | none => cmpModel model impl
    ({ st with lastDisk := some impl }, v)
  | ["prunelist"] =>
    -- `PruneList::open` on the prune file of the directory
    let pl := PruneList.openBm st.pm.b.pruneFile
    (st, cmpModel (showPl pl) impl)
  -- direct `PruneList` stream
  | ["pl_new"] => ({ st with pl := {} }, .ok)
  | ["pl_append", p] => match nat? p with
    | some p => let pl := st.pl.append p; ({ st with pl := pl }, cmpModel (showPl pl) impl)
    | none => (st, .unknown)
  -- `clean <name:age:f|d,…>`: directory entries (age in seconds, `-` = access time in the future) before a
  -- compaction => the names `clean_rewind_files` deleted, sorted
  | ["clean", ents] =>
    let inner := ((ents.drop 1).dropEnd 1).toString
    let parts := if inner.isEmpty then [] else inner.splitOn ","
    let es := parts.filterMap fun p => match p.splitOn ":" with
      | [n, a, k] => some ({ name := n, isDir := k == "d", age := a.toNat? } : DirEnt)
      | _ => none
    if es.length ≠ parts.length then (st, .unknown) else
    let del := (cleanRewindFiles es).toArray.qsort (· < ·) |>.toList
    (st, cmpModel ("[" ++ ",".intercalate del ++ "]") impl)
  | ["pl_try", p] => match nat? p with
    -- `append` with its assertions (`Model/PruneList.lean` `appendChecked`): a panic leaves the list as it was
    | some p => match st.pl.appendChecked 64 p with
      | some pl => ({ st with pl := pl }, cmpModel (showPl pl) impl)
      | none => (st, cmpModel "panic" impl)
    | none => (st, .unknown)
  | ["pl_q", p] => match nat? p with
    | some p =>
      let pl := st.pl
      (st, cmpModel s!"{pl.getShift p} {pl.getLeafShift p} {showBool (pl.isPruned p)} {showBool (pl.isPrunedRoot p)}" impl)
    | none => (st, .unknown)
  | ["pl_total"] => (st, cmpModel s!"{st.pl.getTotalShift} {st.pl.getTotalLeafShift}" impl)
  | ["pl_reopen"] =>
    let pl := PruneList.openBm st.pl.bitmap
    ({ st with pl := pl }, cmpModel (showPl pl) impl)
  | _ => (st, .unknown)

end GV.Drv.StoreD
