import GrinVerif.Drv.Common
import GrinVerif.Model.Chain
import GrinVerif.Model.ChainImpl
import GrinVerif.Model.ChainFull
import GrinVerif.Model.ChainInputs
import GrinVerif.Model.ChainNrdDup
import GrinVerif.Model.ChainReport
import GrinVerif.Model.ChainStatus
import GrinVerif.Model.ChainOrphans
import GrinVerif.Model.ChainReset
import GrinVerif.Model.ChainKnown
import GrinVerif.Model.ChainSizes
import GrinVerif.Model.ChainBodyOrder
/-! Driver glue for the `chain` domain: block tree definitions shared by all subject chains,
one model `Node` per subject. -/
namespace GV.Drv.ChainD
open GV GV.Drv GV.Chain

structure St where
  outs : List OutDef := []
  blks : List Blk := []
  nodes : List (String × Node) := []
  /-- parallel run of the incremental txhashset model (`Model/ChainImpl.lean`), per subject:
  the block the txhashset is at, and the txhashset (`none` after a failed move) -/
  impls : List (String × Nat × Option TxHS) := []
  /-- per subject: what the model's adapter was told during the last `deliver` -/
  told : List (String × String) := []
  /-- per subject: the bounded orphan pool (`Model/ChainOrphans.lean`) -/
  pools : List (String × OPool) := []
  /-- leaf counts claimed by the header of every block described so far -/
  sizes : SizeClaims := []
  /-- per subject: `Chain::denylist` (in memory: a restart forgets it) -/
  deny : List (String × List Nat) := []
  /-- per subject: the options every parked orphan was last offered with (`Orphan.opts`) -/
  oopts : List (String × List (Nat × Nat)) := []
  /-- per subject: the notifications of the last `deliver` with the options the adapter saw -/
  toldO : List (String × String) := []

def stripPfx (s : String) (n : Nat) : String := (s.drop n).toString

/-- `o12` / `b3` → 12 / 3 -/
def idOf (s : String) : Option Nat := (stripPfx s 1).toNat?

def kv (args : List String) (k : String) : Option String :=
  (args.find? (·.startsWith (k ++ "="))).map (fun a => stripPfx a (k.length + 1))

def listItems (s : String) : List String :=
  let inner := (s.drop 1).dropEnd 1 |>.toString
  if inner.isEmpty then [] else inner.splitOn ","

def parseKer (s : String) : Option Ker :=
  match s.splitOn ":" with
  | ["cb"] => some .cb
  | ["p", f] => f.toNat?.map .plain
  | ["hl", f, l] => do let f ← f.toNat?; let l ← l.toNat?; pure (.hl f l)
  | ["nrd", f, r, e] => do let f ← f.toNat?; let r ← r.toNat?; pure (.nrd f r e)
  | _ => none

def parseOutRef (s : String) : Option (Nat × Bool) :=
  match s.splitOn ":" with
  | [o, "cb"] => (idOf o).map (·, true)
  | [o, "pl"] => (idOf o).map (·, false)
  | _ => none

def parseBlk (id : String) (args : List String) : Option Blk := do
  let bid ← idOf id
  let parS ← kv args "parent"
  let parent := if parS == "-" then none else idOf parS
  let h ← (← kv args "h").toNat?
  let work ← (← kv args "work").toNat?
  let ver ← (← kv args "ver").toNat?
  let ts ← (← kv args "ts").toNat?
  let ins ← (listItems (← kv args "ins")).mapM idOf
  let outs ← (listItems (← kv args "outs")).mapM parseOutRef
  let kers ← (listItems (← kv args "kers")).mapM parseKer
  let tags := listItems (← kv args "tags")
  pure { id := bid, parent, h, work, ver, ts, ins, outs, kers, tags }

/-- optional `inf=[o3:pl,o7:cb]`: the inputs come in features-and-commit form with these claims -/
def parseClaims (args : List String) : Option (List (Nat × Bool)) :=
  match kv args "inf" with
  | none => some []
  | some l => (listItems l).mapM parseOutRef

def getNode (st : St) (s : String) : Option Node :=
  (st.nodes.find? (·.1 == s)).map fun x => { x.2 with outs := st.outs, blks := st.blks }

def setNode (st : St) (s : String) (n : Node) : St :=
  { st with nodes := (s, { n with outs := [], blks := [] }) :: st.nodes.filter (·.1 != s) }

def sortNat (l : List Nat) : List Nat := (l.toArray.qsort (· < ·)).toList

def showObs (n : Node) (p : Params) : String :=
  let u := sortNat (n.reportedUtxo p)
  s!"head=b{n.head} hhead=b{n.hhead} utxo=[{",".intercalate (u.map fun o => s!"o{o}")}]"

/-- the incremental txhashset follows the model's head: rewind to the fork point, apply the other
branch (`switchTo` = `rewind_and_apply_fork`) -/
def implFollow (n : Node) (cur : Nat × Option TxHS) : Nat × Option TxHS :=
  if cur.1 == n.head then cur else
  match cur.2, n.path cur.1, n.path n.head with
  | some S, some po, some pn =>
    match switchTo S po pn with
    | .ok S' => (n.head, some S')
    | .error _ => (n.head, none)
  | _, _, _ => (n.head, none)

def setImpl (st : St) (s : String) (v : Nat × Option TxHS) : St :=
  { st with impls := (s, v) :: st.impls.filter (·.1 != s) }

/-- move the subject's txhashset model to the head of its node model -/
def followImpl (st : St) (s : String) (n : Node) : St :=
  match st.impls.find? (·.1 == s) with
  | some (_, cur) => setImpl st s (implFollow { n with outs := st.outs, blks := st.blks } cur)
  | none => st

/-- the unspent set the txhashset model reports, in the format of `showObs` -/
def showImplUtxo (S : TxHS) : String :=
  s!"utxo=[{",".intercalate ((sortNat S.reported).map fun o => s!"o{o}")}]"

/-- on an `obs` line: the implementation's unspent set against the txhashset model's -/
def cmpImplObs (st : St) (s : String) (impl : String) : Verdict :=
  match st.impls.find? (·.1 == s) with
  | some (_, _, some S) =>
    let m := showImplUtxo S
    if (impl.splitOn " ").contains m then .ok else .diff s!"txhashset-model {m}"
  | some (_, _, none) => .diff "txhashset-model failed to follow the head"
  | none => .ok

def showOuts (l : List Nat) : String := "[" ++ ",".intercalate (l.map fun o => s!"o{o}") ++ "]"

def implOf (st : St) (s : String) : Option TxHS :=
  match st.impls.find? (·.1 == s) with
  | some (_, _, some S) => some S
  | _ => none

/-- `-` or a number -/
def parseOptNat (s : String) : Option (Option Nat) :=
  if s == "-" then some none else s.toNat?.map some

/-- `chain enum …`: `Chain::unspent_outputs_by_pmmr_index` on the txhashset model -/
def showEnum (S : TxHS) (start count : Nat) (max : Option Nat) : String :=
  let r := S.unspentOutputsByPmmrIndex start count max
  s!"next={r.1} last={r.2.1} outs={showOuts r.2.2}"

/-- the part of an enumeration answer the property fixes when the whole set is asked for: which
outputs are reported -/
def outsField (s : String) : String :=
  match (s.splitOn " ").find? (·.startsWith "outs=") with
  | some f => f
  | none => ""

/-- `[b5:next:b4,b6:fork:b3:b5:b2]` → `[b5:head,b6:fork]`: which blocks were announced, and
whether as a new head or as a fork block -/
def statusSkeleton (s : String) : List String :=
  (listItems s).map fun it =>
    match it.splitOn ":" with
    | b :: k :: _ => if k == "fork" then b ++ ":fork" else b ++ ":head"
    | _ => it

/-- accept/reject is fixed by the property (spec); the error class is an internal observable -/
def cmpDeliver (model impl : String) : Verdict :=
  if model = impl then .ok
  else if model.startsWith "err:" ∧ impl.startsWith "err:" then .diff model
  else .fail model

/-- `chain fullval …`: the state described by its counts and the indices of its bad items, as the
full validation sees it (`Model/ChainFull.lean`); only the total of the openings matters to the
sums, so the first unspent output carries it -/
def parseFull (p : Params) (rest : List String) : Option (FullState × Bool × Bool) := do
  let n ← (← kv rest "n").toNat?
  let fast ← kv rest "fast"
  let k ← (← kv rest "K").toNat?
  let u ← (← kv rest "U").toNat?
  let gr ← kv rest "gr"
  let voff ← (← kv rest "voff").toInt?
  let blind ← kv rest "blind"
  let sigbad ← (listItems (← kv rest "sigbad")).mapM String.toNat?
  let proofbad ← (listItems (← kv rest "proofbad")).mapM String.toNat?
  let ks : List KItem := (List.range k).map fun i => { sigBad := sigbad.contains i }
  let s0 : FullState := { height := n, genesisHadReward := gr == "1" }
  let total := (Int.ofNat (s0.supply p) + voff).toNat
  let utxo : List OItem := (List.range u).map fun i =>
    { v := if i == 0 then total else 0, proofBad := proofbad.contains i }
  let s : FullState := { s0 with kernelMmr := kernelLayout ks, utxo,
                                  blindFault := if blind == "1" then some "Committed:KernelSumMismatch" else none }
  pure (s, fast == "1", !sigbad.isEmpty || !proofbad.isEmpty)

def denyOf (st : St) (s : String) : List Nat :=
  match st.deny.find? (·.1 == s) with
  | some (_, l) => l
  | none => []

def ooptsOf (st : St) (s : String) : List (Nat × Nat) :=
  match st.oopts.find? (·.1 == s) with
  | some (_, l) => l
  | none => []

def handle (st : St) (args : List String) (impl : String) : St × Verdict :=
  let p : Params := {}
  match args with
  | "reset" :: _ => ({}, .ok)
  | "out" :: o :: rest =>
    match idOf o, kv rest "cb", (kv rest "v").bind String.toNat? with
    | some id, some cb, some v => ({ st with outs := st.outs ++ [{ id, cb := cb == "1", v }] }, .ok)
    | _, _, _ => (st, .unknown)
  | "blk" :: b :: rest =>
    match parseBlk b rest, parseClaims rest with
    | some blk, some inf =>
      let blk1 := ((blk.withInputFeatures st.outs inf).withNrdDupCheck).withBodyOrder
      -- `osz=` / `ksz=`: the leaf counts the header claims (Model/ChainSizes.lean)
      match (kv rest "osz").bind String.toNat?, (kv rest "ksz").bind String.toNat? with
      | some co, some ck =>
        ({ st with blks := st.blks ++ [blk1.withSizeCheck st.blks st.sizes co ck],
                   sizes := (blk.id, co, ck) :: st.sizes }, .ok)
      | _, _ => ({ st with blks := st.blks ++ [blk1] }, .ok)
    | _, _ => (st, .unknown)
  | ["new", s] =>
    let S0 := match st.blks.find? (·.id == 0) with
      | some g => (match applyBlockImpl {} g with | .ok S => some S | .error _ => none)
      | none => none
    let st0 := { st with deny := st.deny.filter (·.1 != s), oopts := st.oopts.filter (·.1 != s) }
    (setImpl (setNode st0 s {}) s (0, S0), .ok)
  | "deliver" :: s :: b :: optArg =>
    match getNode st s, (idOf b).bind (fun i => st.blks.find? (·.id == i)) with
    | some n, some blk =>
      -- `deliverBlockK` (Model/ChainKnown.lean) is `Chain::process_block` with the code's
      -- work-conditional `check_known` and the denylist; on the states block processing alone
      -- reaches it is `deliverBlockEv` (Props/C03Known.lean: `deliverBlockK_eq`), which is
      -- `deliverBlock` with the adapter notifications (Props/C03Status.lean)
      let opts := ((kv optArg "opts").bind String.toNat?).getD 1
      let (n', r, evs) := deliverBlockK p (denyOf st s) n blk
      let oo := ooptsOf st s
      let st1 := { st with told := (s, showEvs evs) :: st.told.filter (·.1 != s),
                           toldO := (s, showEvsO (annotateOpts oo blk.id opts evs)) :: st.toldO.filter (·.1 != s),
                           oopts := (s, parkOpts oo blk.id opts r) :: st.oopts.filter (·.1 != s) }
      (followImpl (setNode st1 s n') s n', cmpDeliver r.toString impl)
    | _, _ => (st, .unknown)
  | ["deny", s, b] =>
    -- `Chain::invalidate_header`
    match idOf b with
    | some id => ({ st with deny := (s, denyOf st s ++ [id]) :: st.deny.filter (·.1 != s) }, cmpSpec "ok" impl)
    | none => (st, .unknown)
  | ["statuso", s] =>
    -- as `status`, with the options the adapter saw with every notification
    match st.toldO.find? (·.1 == s) with
    | some (_, m) =>
      if statusSkeleton m = statusSkeleton impl then (st, cmpModel m impl) else (st, .fail m)
    | none => (st, .unknown)
  | ["orph", s] =>
    -- `Chain::is_orphan` over every block of the tree: the blocks waiting in the orphan pool
    match getNode st s with
    | some n => (st, cmpModel ("[" ++ ",".intercalate ((sortNat n.orphans).map fun o => s!"b{o}") ++ "]") impl)
    | none => (st, .unknown)
  | ["opool", s, "new"] => ({ st with pools := (s, {}) :: st.pools.filter (·.1 != s) }, .ok)
  | ["opool", s, "add", b, h] =>
    match st.pools.find? (·.1 == s), idOf b, (kv [h] "h").bind String.toNat? with
    | some (_, P), some id, some h =>
      let P' := P.add GV.Gen.MAX_ORPHAN_SIZE id h
      ({ st with pools := (s, P') :: st.pools.filter (·.1 != s) },
        cmpModel s!"len={P'.orphans.length} evicted={P'.evicted}" impl)
    | _, _, _ => (st, .unknown)
  | ["opool", s, "has", l] =>
    match st.pools.find? (·.1 == s), (listItems l).mapM idOf with
    | some (_, P), some ids =>
      (st, cmpModel ("[" ++ ",".intercalate (ids.map fun i => if P.contains i then "1" else "0") ++ "]") impl)
    | _, _ => (st, .unknown)
  | ["protect", s, hor] =>
    -- the bitmap compaction receives as "spent above the horizon": walk over the head's own path
    match implOf st s, getNode st s, (kv [hor] "hor").bind idOf with
    | some S, some n, some hb =>
      let l := (sortNat (inputPosToRewind n S (n.heightOf hb))).eraseDups
      (st, cmpModel ("[" ++ ",".intercalate (l.map toString) ++ "]") impl)
    | _, _, _ => (st, .diff "txhashset-model failed to follow the head")
  | ["resethead", s, b, hd] =>
    -- `Chain::reset_chain_head(b, rewind_headers)`
    match getNode st s, idOf b, kv [hd] "hdrs" with
    | some n, some t, some h =>
      match resetChainHeadK p (denyOf st s) n t (h == "1") with
      | .ok n' => (followImpl (setNode st s n') s n', cmpDeliver "ok" impl)
      | .error e => (st, cmpDeliver s!"err:{e}" impl)
    | _, _, _ => (st, .unknown)
  | ["tail", s] =>
    -- after a compaction: `remove_historical_blocks` deleted every block below the body tail (on
    -- every fork) with its spent-index record; the tail itself is taken from the implementation
    match st.impls.find? (·.1 == s), getNode st s, idOf impl with
    | some (_, cur, some S), some n, some t =>
      let th := n.heightOf t
      (setImpl st s (cur, some { S with spentIdx := S.spentIdx.filter (fun e => !(decide (n.heightOf e.1 < th))) }), .ok)
    | _, _, _ => (st, .unknown)
  | ["spentdrop", s, b] =>
    -- the harness deleted the spent-index record of a block behind the node's back
    match st.impls.find? (·.1 == s), idOf b with
    | some (_, cur, some S), some id =>
      (setImpl st s (cur, some { S with spentIdx := S.spentIdx.filter (fun e => !(e.1 == id)) }), cmpSpec "ok" impl)
    | _, _ => (st, .unknown)
  | ["status", s] =>
    -- which blocks are announced as accepted, and whether as head or as fork, is fixed by the
    -- property (C03 observation point); Next-vs-Reorg and the fork point follow the code
    match st.told.find? (·.1 == s) with
    | some (_, m) =>
      if statusSkeleton m = statusSkeleton impl then (st, cmpModel m impl) else (st, .fail m)
    | none => (st, .unknown)
  | ["upos", s] =>
    match implOf st s with
    | some S =>
      let l := (sortNat S.reported).filterMap fun c => (S.getUnspentPos c).map fun (pos, h) => s!"o{c}:{pos}:{h}"
      (st, cmpModel ("[" ++ ",".intercalate l ++ "]") impl)
    | none => (st, .diff "txhashset-model failed to follow the head")
  | ["enum", s, a, c, m] =>
    match implOf st s, (kv [a] "start").bind String.toNat?, (kv [c] "count").bind String.toNat?, (kv [m] "max").bind parseOptNat with
    | some S, some start, some count, some max =>
      let model := showEnum S start count max
      -- the whole set in one call: WHICH outputs are reported is the property itself
      if start ≤ 1 ∧ max.isNone ∧ count ≥ S.leaves.length then
        if outsField model = outsField impl then (st, cmpModel model impl) else (st, .fail model)
      else (st, cmpModel model impl)
    | none, _, _, _ => (st, .diff "txhashset-model failed to follow the head")
    | _, _, _, _ => (st, .unknown)
  | ["outat", s] =>
    match implOf st s with
    | some S =>
      let items := listItems impl
      let m := items.map fun it =>
        match it.splitOn ":" with
        | [p, _] => match p.toNat? with
          | some pos0 => (match S.getUnspentOutputAt pos0 with
            | .ok c => s!"{pos0}:o{c}"
            | .error _ => s!"{pos0}:-")
          | none => "?"
        | _ => "?"
      (st, cmpModel ("[" ++ ",".intercalate m ++ "]") impl)
    | none => (st, .diff "txhashset-model failed to follow the head")
  | ["hdrfor", s] =>
    match implOf st s, getNode st s with
    | some S, some n =>
      let l := (sortNat S.reported).map fun c =>
        match headerForOutput n S c with
        | .ok b => s!"o{c}:b{b}"
        | .error _ => s!"o{c}:err"
      (st, cmpModel ("[" ++ ",".intercalate l ++ "]") impl)
    | _, _ => (st, .diff "txhashset-model failed to follow the head")
  | ["hrange", s, a, b] =>
    match getNode st s, a.toNat?, parseOptNat b with
    | some n, some a, some b =>
      let m := match heightRangeToPmmr n a b (fun id => (st.sizes.find? (·.1 == id)).map (·.2.1)) with
        | .ok (x, y) => s!"{x},{y}"
        | .error e => s!"err:{e}"
      (st, cmpModel m impl)
    | _, _, _ => (st, .unknown)
  | ["hdrs", s, l] =>
    -- `Chain::sync_block_headers`: a chunk of headers, all or nothing (Model/ChainKnown.lean)
    match getNode st s, (listItems l).mapM (fun x => (idOf x).bind (fun i => st.blks.find? (·.id == i))) with
    | some n, some bs =>
      let (n', r) := deliverHeadersK p (denyOf st s) n bs
      (setNode st s n', cmpDeliver r impl)
    | _, _ => (st, .unknown)
  | ["hdr", s, b] =>
    match getNode st s, (idOf b).bind (fun i => st.blks.find? (·.id == i)) with
    | some n, some blk =>
      let (n', r) := deliverHeaderK p (denyOf st s) n blk
      (setNode st s n', cmpDeliver r impl)
    | _, _ => (st, .unknown)
  | "txmat" :: s :: rest | "txlock" :: s :: rest | "txval" :: s :: rest | "txins" :: s :: rest =>
    match getNode st s, kv rest "ins", kv rest "outs", kv rest "kers" with
    | some n, some i, some o, some k =>
      match (listItems i).mapM idOf, (listItems o).mapM idOf, (listItems k).mapM parseKer, n.stateAt p n.head with
      | some ins, some outs, some kers, .ok hs =>
        let t : TxA := { ins, outs, kers }
        let claims : List (Nat × Option Bool) := match kv rest "inf" with
          | none => ins.map (·, none)
          | some l => match (listItems l).mapM parseOutRef with
            | some c => c.map fun (i, f) => (i, some f)
            | none => ins.map (·, none)
        let r := match args.head? with
          | some "txmat" => txMaturity p hs t
          | some "txlock" => txLock hs t
          | some "txins" => validateInputsFC hs claims
          | _ => txValidateFC hs t claims
        -- admission decisions are fixed by the property: accept / refuse is spec, the class internal
        let m := match r with | some e => s!"err:{e}" | none => "ok"
        (st, cmpDeliver m impl)
      | _, _, _, _ => (st, .unknown)
    | _, _, _, _ => (st, .unknown)
  | ["obs", s] =>
    match getNode st s with
    | some n =>
      match cmpSpec (showObs n p) impl with
      | .ok => (st, cmpImplObs st s impl)
      | v => (st, v)
    | none => (st, .unknown)
  | ["reopen", s] =>
    -- a restart forgets the in-memory orphan pool and the denylist; everything else is durable
    match getNode st s with
    | some n =>
      let st1 := { st with deny := st.deny.filter (·.1 != s), oopts := st.oopts.filter (·.1 != s) }
      (setNode st1 s { n with orphans := [] }, cmpSpec "ok" impl)
    | none => (st, .unknown)
  | "fullval" :: rest =>
    match parseFull p rest with
    | some (s, fast, itemFault) =>
      let m := match validateFull p KERNEL_BATCH PROOF_BATCH s fast with
        | none => "ok"
        | some e => s!"err:{e}"
      -- refusal of a bad state by the full validation, refusal of unbalanced sums by both, and
      -- acceptance of honest states are fixed by the property; that the fast validation does not
      -- look at signatures and proofs is the code's choice (internal)
      (st, if fast && itemFault then cmpModel m impl else cmpDeliver m impl)
    | none => (st, .unknown)
  | ["untouched", _, _] =>
    -- after a losing-fork or refused block: head / unspent set / roots, every byte of the txhashset
    -- files, the database's view of the best chain, the data of best-chain outputs, full validation
    -- and the stored sums are what they were (fixed by the property)
    (st, cmpSpec "state=same,files=same,db=same,readback=same,validate=ok,sums=ok" impl)
  | ["compact", _] => (st, cmpSpec "ok" impl)
  | ["validate", _] => (st, cmpSpec "ok" impl)
  | _ => (st, .unknown)

end GV.Drv.ChainD
