import GrinVerif.Drv.Common
import GrinVerif.Model.Cons
import GrinVerif.Model.ConsNet
/-! Driver glue for the `cons` domain (property C04): header rules and difficulty retarget.

Token formats: chain type `main|test|auto|user`; a difficulty-window entry
`ts:diff:scaling:sec` (`sec` 0/1), windows `[e,e,…]` latest first; an abstract header
`height:ts:version:total_difficulty:secondary_scaling:edge_bits:hash64:output_mmr_size:kernel_mmr_size`
(`none` for a missing parent); booleans `0|1`; a network header
`<pre_pow hex>/<n1.n2.….nk | ->/<abstract header>` (the bytes the proof of work is seeded with, the
proof nonces, the rule fields).

Ops of the `powsize` and `wire` runs (network side of the rules, `Model/ConsNet.lean`):
* `vsz <ct> <nethdr> => ok|<verifier error>`: `pow::verify_size` on a header with these fields; the
  model builds the context from the header's CLAIMED edge bits.  Accept/refuse is fixed by the
  property ("has a proof of work" = a cycle on the graph of the claimed size): FAIL; the error kind is
  an internal observable: DIFF.
* `wire <path> <pv> <ct> <now> <ftl> <nethdr> => ok|CorruptedData|InvalidBlockVersion`: the header read
  through the `Untrusted*` reader of that path (`hdr`, `cblk`, `blk` directly; `msg-hdr`, `msg-cblk`,
  `msg-blk` through the real `Codec`); the model is the one function `netHeaderOk` whatever the path.
* `wirehs <pv> <ct> <now> <ftl> [nethdr,…] => …`: a `Headers` message through the real `Codec`.
* `wiredec <path> <pv> <ct> <edge_bits> => CorruptedData`: the header cannot even be read (`Proof::read`).
* `pbhn <via> <ct> <opts> <rootok> <prev> <nethdr> <window> => ok|<chain error>`: a header delivered to a
  real `Chain` (`via` = `pbh|sync|pb`), the verifier's answer computed by the model. -/
namespace GV.Drv.ConsD
open GV GV.Drv GV.Cons

structure St where
  /-- the model nodes of the `node` ops, by id -/
  nodes : List (String × HNode) := []
  /-- the model nodes of the `rnode` ops (root comparisons computed with the real hash), by id -/
  rnodes : List (String × RNode Bytes Bytes) := []
  /-- the parameter store of the `glob` ops: process-wide values and the running thread's cells -/
  ps : PStore := PStore.empty

def ct? : String → Option ChainType
  | "main" => some .mainnet
  | "test" => some .testnet
  | "auto" => some .automatedTesting
  | "user" => some .userTesting
  | _ => none

def bool? : String → Option Bool
  | "0" => some false
  | "1" => some true
  | _ => none

def int? (s : String) : Option Int := s.toInt?

def hdi? (s : String) : Option HDI :=
  match s.splitOn ":" with
  | [a, b, c, d] =>
    match nat? a, nat? b, nat? c, bool? d with
    | some a, some b, some c, some d => some { ts := a, diff := b, scaling := c, isSec := d }
    | _, _, _, _ => none
  | _ => none

def listOf {α} (f : String → Option α) (s : String) : Option (List α) :=
  if !(s.startsWith "[" && s.endsWith "]") then none else
  let inner := (s.drop 1).dropEnd 1 |>.toString
  if inner.isEmpty then some [] else (inner.splitOn ",").mapM f

def window? (s : String) : Option (List HDI) := listOf hdi? s

def hdr? (s : String) : Option Hdr :=
  match s.splitOn ":" with
  | [a, b, c, d, e, f, g, h, i] =>
    match nat? a, int? b, nat? c, nat? d, nat? e, nat? f, nat? g, nat? h, nat? i with
    | some a, some b, some c, some d, some e, some f, some g, some h, some i =>
      some { height := a, ts := b, version := c, totalDiff := d, secondaryScaling := e,
             edgeBits := f, hash64 := g, outputMmrSize := h, kernelMmrSize := i }
    | _, _, _, _, _, _, _, _, _ => none
  | _ => none

def optHdr? (s : String) : Option (Option Hdr) :=
  if s = "none" then some none else (hdr? s).map some

def showHdi (d : HDI) : String :=
  s!"{d.ts}:{d.diff}:{d.scaling}:{if d.isSec then 1 else 0}"

def showWindow (l : List HDI) : String := "[" ++ ",".intercalate (l.map showHdi) ++ "]"

def showOpt {α} (f : α → String) : Option α → String
  | none => "panic"
  | some a => f a

def showExc {ε} (f : ε → String) : Except ε Unit → String
  | .ok () => "ok"
  | .error e => f e

def ReadErr.name : ReadErr → String
  | .CorruptedData => "CorruptedData"
  | .InvalidBlockVersion => "InvalidBlockVersion"

/-- acceptance of a header the model rejects is a failing input for the property itself;
a different error class is a model disagreement -/
def cmpAccept (model impl : String) : Verdict :=
  if model = impl then .ok
  else if impl = "ok" then .fail model
  else .diff model

/-- `hash:prev:rest:powok:rootok:` followed by the nine fields of `hdr?` -/
def fhdr? (s : String) : Option FHdr :=
  match s.splitOn ":" with
  | a :: b :: r :: p :: q :: rest =>
    match nat? a, nat? b, nat? r, bool? p, bool? q, hdr? (":".intercalate rest) with
    | some a, some b, some r, some p, some q, some h =>
      some { hash := a, prevHash := b, h := h, rest := r, powOk := p, rootOk := q }
    | _, _, _, _, _, _ => none
  | _ => none

/-- `hash:prev:height:total_difficulty` -/
def tip? (s : String) : Option Tip :=
  match s.splitOn ":" with
  | [a, b, c, d] =>
    match nat? a, nat? b, nat? c, nat? d with
    | some a, some b, some c, some d => some ⟨a, b, c, d⟩
    | _, _, _, _ => none
  | _ => none

def showTip (t : Tip) : String := s!"{t.hash}:{t.prevHash}:{t.height}:{t.totalDiff}"

def showHdr (h : Hdr) : String :=
  s!"{h.height}:{h.ts}:{h.version}:{h.totalDiff}:{h.secondaryScaling}:{h.edgeBits}:{h.hash64}:{h.outputMmrSize}:{h.kernelMmrSize}"

/-- a stored header: identity, link, digest of the remaining fields, the rule fields -/
def showStored (f : FHdr) : String := s!"{f.hash}:{f.prevHash}:{f.rest}:{showHdr f.h}"

/-- `Options` as its bits (`0` NONE, `1` SKIP_POW, `2` SYNC, `4` MINE, sums for unions) -/
def opts? (s : String) : Option Opts := (nat? s).map Opts.mk

def getNode (st : St) (id : String) : Option HNode := (st.nodes.find? (·.1 == id)).map (·.2)

def setNode (st : St) (id : String) (n : HNode) : St :=
  { st with nodes := (id, n) :: st.nodes.filter (·.1 != id) }

def param? : String → Option Param
  | "ct" => some .chainType
  | "fee" => some .feeBase
  | "ftl" => some .ftl
  | "nrd" => some .nrd
  | _ => none

def showVal : Option Nat → String
  | none => "panic"
  | some v => toString v

/-- verdict on a delivery result.  `spec = false`: acceptance of something the model refuses is a
failing input, anything else a disagreement (`cmpAccept`).  `spec = true` (the `wnode` runs, where
the cycle verifier is the constant `Ok` and everything else the header carries is fixed by the
consensus rules): acceptance **or** refusal against the model, or another error class, is a
failing input; only the `some`/`none` of the returned sync head is an internal observable. -/
def cmpDelivery (spec : Bool) (model impl : String) : Verdict :=
  if !spec then cmpAccept model impl else
  let norm (s : String) : String := if s.startsWith "ok" then "ok" else s
  if norm model = norm impl then (if model = impl then .ok else .diff model) else .fail model

/-- the `node <id> …` / `wnode <id> …` ops: a model node folded over the deliveries -/
def handleNode (spec : Bool) (st : St) (id : String) (args : List String) (impl : String) : St × Verdict :=
  match args with
  | ["new", g] => match fhdr? g with
    | some g => (setNode st id (HNode.genesis .automatedTesting g), cmpModel "ok" impl)
    | none => (st, .unknown)
  | ["newct", c, g] => match ct? c, fhdr? g with
    | some c, some g => (setNode st id (HNode.genesis c g), cmpModel "ok" impl)
    | _, _ => (st, .unknown)
  | _ =>
  match getNode st id with
  | none => (st, .unknown)
  | some n =>
  match args with
  | ["sync", skip, sh, batch] => match opts? skip, tip? sh, listOf fhdr? batch with
    | some skip, some sh, some batch =>
      match processBlockHeaders n skip sh batch with
      | .ok (n', r) => (setNode st id n', cmpDelivery spec (if r then "ok:some" else "ok:none") impl)
      | .error e => (st, cmpDelivery spec e.name impl)
    | _, _, _ => (st, .unknown)
  | ["pbh", skip, f] => match opts? skip, fhdr? f with
    | some skip, some f =>
      match nodeProcessBlockHeader n skip f with
      | .ok n' => (setNode st id n', cmpDelivery spec "ok" impl)
      | .error e => (st, cmpDelivery spec e.name impl)
    | _, _ => (st, .unknown)
  | ["pb", skip, bok, f] => match opts? skip, bool? bok, fhdr? f with
    | some skip, some bok, some f =>
      let (n', r) := nodeProcessBlock n skip f bok
      (setNode st id n', cmpDelivery spec (showExc NErr.name r) impl)
    | _, _, _ => (st, .unknown)
  | ["state"] => (st, cmpModel s!"{showTip n.headerHead} {showTip n.head}" impl)
  | ["get", k] => match nat? k with
    | some k => (st, cmpModel (match getHdr n.hdrs k with | some f => showStored f | none => "none") impl)
    | none => (st, .unknown)
  -- what the store-backed `DifficultyIter` yields from header `k` (first `DMA_WINDOW + 1` entries):
  -- timestamp, difficulty, secondary_scaling and is_secondary of every header as it was delivered
  | ["window", k] => match nat? k with
    | some k =>
      let w := showWindow (windowFrom n.hdrs (GV.Gen.DMA_WINDOW + 1) k)
      (st, if spec then cmpSpec w impl else cmpModel w impl)
    | none => (st, .unknown)
  -- the header hash the header MMR holds at every height up to `header_head` (`get_header_by_height`):
  -- by the rules the ancestors of `header_head`, genesis first (theorem `hmmr_is_ancestor_chain`)
  | ["hmmr"] =>
    let m := "[" ++ ",".intercalate (n.hmmr.map toString) ++ "]"
    (st, if spec then cmpSpec m impl else cmpModel m impl)
  | _ => (st, .unknown)

/-- the real hash shapes of the header MMR: `(idx, header).hash()` with the header in hash mode
(its packed proof nonces) and `(idx, (l, r)).hash()` -/
def hdrHF : Pmmr.HashFn Bytes Bytes where
  leaf := fun i e => h256 (beBytes 8 i ++ e)
  node := fun i l r => h256 (beBytes 8 i ++ l ++ r)

/-- an `fhdr?` token followed by `:<header in hash mode, hex>:<prev_root hex>` -/
def rhdr? (s : String) : Option (RHdr Bytes Bytes) :=
  let parts := s.splitOn ":"
  if parts.length < 3 then none else
  match parseHex (parts.getD (parts.length - 2) ""), parseHex (parts.getD (parts.length - 1) ""),
        fhdr? (":".intercalate (parts.take (parts.length - 2))) with
  | some h, some r, some f => some { f := f, leaf := h, prevRoot := r }
  | _, _, _ => none

def getRNode (st : St) (id : String) : Option (RNode Bytes Bytes) := (st.rnodes.find? (·.1 == id)).map (·.2)

def setRNode (st : St) (id : String) (n : RNode Bytes Bytes) : St :=
  { st with rnodes := (id, n) :: st.rnodes.filter (·.1 != id) }

/-- the `rnode <id> …` ops: the node model with every `prev_root` comparison computed from the
header MMR of the delivered header's own ancestors (the `rootok` field of the token is ignored);
all answers are fixed by the rules, so they are compared as spec values -/
def handleRNode (st : St) (id : String) (args : List String) (impl : String) : St × Verdict :=
  match args with
  | ["newct", c, g] => match ct? c, rhdr? g with
    | some c, some g => (setRNode st id (RNode.genesis hdrHF c g), cmpModel "ok" impl)
    | _, _ => (st, .unknown)
  | _ =>
  match getRNode st id with
  | none => (st, .unknown)
  | some N =>
  match args with
  | ["sync", o, sh, batch] => match opts? o, tip? sh, listOf rhdr? batch with
    | some o, some sh, some batch =>
      match syncR hdrHF N o sh batch with
      | .ok (N', r) => (setRNode st id N', cmpDelivery true (if r then "ok:some" else "ok:none") impl)
      | .error e => (st, cmpDelivery true e.name impl)
    | _, _, _ => (st, .unknown)
  | ["pbh", o, f] => match opts? o, rhdr? f with
    | some o, some f =>
      match pbhR hdrHF N o f with
      | .ok N' => (setRNode st id N', cmpDelivery true "ok" impl)
      | .error e => (st, cmpDelivery true e.name impl)
    | _, _ => (st, .unknown)
  | ["pb", o, bok, f] => match opts? o, bool? bok, rhdr? f with
    | some o, some bok, some f =>
      let (N', r) := pbR hdrHF N o f bok
      (setRNode st id N', cmpDelivery true (showExc NErr.name r) impl)
    | _, _, _ => (st, .unknown)
  | ["state"] => (st, cmpSpec s!"{showTip N.n.headerHead} {showTip N.n.head}" impl)
  | ["get", k] => match nat? k with
    | some k => (st, cmpModel (match getHdr N.n.hdrs k with | some f => showStored f | none => "none") impl)
    | none => (st, .unknown)
  | _ => (st, .unknown)

/-- the `glob …` ops: the parameter store folded over one thread's operations at a time -/
def handleGlob (st : St) (args : List String) (impl : String) : St × Verdict :=
  let upd (r : Option Nat × PStore) : St × Verdict := ({ st with ps := r.2 }, cmpModel (showVal r.1) impl)
  match args with
  | ["thread"] => ({ st with ps := st.ps.newThread }, cmpModel "ok" impl)
  | ["get", p] => match param? p with
    | some p => upd (st.ps.get p)
    | none => (st, .unknown)
  | ["setl", p, v] => match param? p, nat? v with
    | some p, some v => ({ st with ps := st.ps.setLocal p v }, cmpModel "ok" impl)
    | _, _ => (st, .unknown)
  | ["setg", p, v] => match param? p, nat? v with
    | some p, some v => ({ st with ps := st.ps.setGlobal p v }, cmpModel "ok" impl)
    | _, _ => (st, .unknown)
  | ["initg", p, v] => match param? p, nat? v with
    | some p, some v =>
      match st.ps.initGlobal p v with
      | some s' => ({ st with ps := s' }, cmpModel "ok" impl)
      | none => (st, cmpModel "panic" impl)
    | _, _ => (st, .unknown)
  | ["mbw"] => upd (derived maxBlockWeight st.ps)
  | ["cbm"] => upd (derived coinbaseMaturity st.ps)
  | ["fee", w] => match nat? w with
    | some w => upd (acceptFee w st.ps)
    | none => (st, .unknown)
  | ["uhdr", now, sok, h] => match int? now, bool? sok, hdr? h with
    | some now, some sok, some h =>
      let (r, s') := untrustedHeaderRead st.ps now sok h
      ({ st with ps := s' }, cmpAccept (match r with | none => "panic" | some x => showExc ReadErr.name x) impl)
    | _, _, _ => (st, .unknown)
  | _ => (st, .unknown)

/-- `<pre_pow hex>/<nonces joined by '.', '-' for none>/<abstract header>` -/
def nethdr? (s : String) : Option NetHdr :=
  match s.splitOn "/" with
  | [pre, ns, h] =>
    let nonces := if ns = "-" then some [] else (ns.splitOn ".").mapM nat?
    match parseHex pre, nonces, hdr? h with
    | some pre, some ns, some h => some { h := h, prePow := pre, nonces := ns }
    | _, _, _ => none
  | _ => none

def showVs : Except VsErr Unit → String
  | .ok () => "ok"
  | .error e => e.name

/-- accept / refuse is fixed by the property (either direction is a failing input), the error kind
is the model's -/
def cmpVerdict (model impl : String) : Verdict :=
  if model = impl then .ok
  else if (model = "ok") != (impl = "ok") then .fail model
  else .diff model

def netPath? : String → Option NetPath
  | "hdr" | "msg-hdr" => some .header
  | "cblk" | "msg-cblk" => some .compactBlock
  | "blk" | "msg-blk" => some .block
  | _ => none

/-- the ops of the `powsize` and `wire` runs -/
def handleNet (st : St) (args : List String) (impl : String) : Option (St × Verdict) :=
  match args with
  | ["vsz", c, n] => match ct? c, nethdr? n with
    | some c, some n => some (st, cmpVerdict (showVs (verifySizeHdr c n)) impl)
    | _, _ => some (st, .unknown)
  | ["wire", p, _pv, c, now, ftl, n] => match netPath? p, ct? c, int? now, nat? ftl, nethdr? n with
    | some p, some c, some now, some ftl, some n =>
      some (st, cmpVerdict (showExc ReadErr.name (netRead p c now ftl n (.ok ()))) impl)
    | _, _, _, _, _ => some (st, .unknown)
  | ["wirehs", _pv, c, now, ftl, ns] => match ct? c, int? now, nat? ftl, listOf nethdr? ns with
    | some c, some now, some ftl, some ns =>
      some (st, cmpVerdict (showExc ReadErr.name (readHeadersMsg c now ftl ns)) impl)
    | _, _, _, _ => some (st, .unknown)
  | ["wiredec", p, _pv, c, eb] => match netPath? p, ct? c, nat? eb with
    | some _, some c, some eb =>
      some (st, cmpVerdict (if proofReadable eb (Pow.proofsizeOf (powCt c)) then "readable" else "CorruptedData") impl)
    | _, _, _ => some (st, .unknown)
  | ["pbhn", via, c, o, rok, prev, n, w] =>
    if via = "pbh" || via = "sync" || via = "pb" then
      match ct? c, opts? o, bool? rok, optHdr? prev, nethdr? n, window? w with
      | some c, some o, some rok, some prev, some n, some w =>
        some (st, cmpAccept (showExc Err.name (processBlockHeader (ctxForNet c o.skipPow prev w n) rok n.h)) impl)
      | _, _, _, _, _, _ => some (st, .unknown)
    else some (st, .unknown)
  | _ => none

def handle (st : St) (args : List String) (impl : String) : St × Verdict :=
  match handleNet st args impl with
  | some r => r
  | none =>
  match args with
  | "node" :: id :: rest => handleNode false st id rest impl
  | "wnode" :: id :: rest => handleNode true st id rest impl
  | "rnode" :: id :: rest => handleRNode st id rest impl
  | "glob" :: rest => handleGlob st rest impl
  | ["damp", a, g, f] => match nat? a, nat? g, nat? f with
    | some a, some g, some f => (st, cmpModel (showOpt toString (damp a g f)) impl)
    | _, _, _ => (st, .unknown)
  | ["clamp", a, g, f] => match nat? a, nat? g, nat? f with
    | some a, some g, some f => (st, cmpModel (showOpt toString (clamp a g f)) impl)
    | _, _, _ => (st, .unknown)
  | ["ratio", h] => match nat? h with
    | some h => (st, cmpModel (toString (secondaryPowRatio h)) impl)
    | none => (st, .unknown)
  | ["hv", c, h] => match ct? c, nat? h with
    | some c, some h => (st, cmpModel (toString (headerVersion c h)) impl)
    | _, _ => (st, .unknown)
  | ["vhv", c, h, v] => match ct? c, nat? h, nat? v with
    | some c, some h, some v => (st, cmpModel (showBool (validHeaderVersion c h v)) impl)
    | _, _, _ => (st, .unknown)
  | ["gw", c, h, e] => match ct? c, nat? h, nat? e with
    | some c, some h, some e => (st, cmpModel (toString (graphWeight c h e)) impl)
    | _, _, _ => (st, .unknown)
  | ["params", c] => match ct? c with
    | some c => (st, cmpModel
        s!"{minEdgeBits c} {baseEdgeBits c} {maxBlockWeight c} {initialGraphWeight c} {minWtemaGraphWeight c}" impl)
    | none => (st, .unknown)
  | ["arcount", w] => match window? w with
    | some w => (st, cmpModel (toString (arCount w)) impl)
    | none => (st, .unknown)
  | ["sps", h, w] => match nat? h, window? w with
    | some h, some w => (st, cmpModel (showOpt toString (secondaryPowScaling h w)) impl)
    | _, _ => (st, .unknown)
  | ["ddv", c, w] => match ct? c, window? w with
    | some c, some w => (st, cmpModel (showOpt showWindow (difficultyDataToVector c w)) impl)
    | _, _ => (st, .unknown)
  | ["nd", c, h, w] => match ct? c, nat? h, window? w with
    | some c, some h, some w => (st, cmpModel (showOpt showHdi (nextDifficulty c h w)) impl)
    | _, _, _ => (st, .unknown)
  | ["ndma", c, h, w] => match ct? c, nat? h, window? w with
    | some c, some h, some w => (st, cmpModel (showOpt showHdi (nextDmaDifficulty c h w)) impl)
    | _, _, _ => (st, .unknown)
  | ["nwtema", c, w] => match ct? c, window? w with
    | some c, some w => (st, cmpModel (showOpt showHdi (nextWtemaDifficulty c w)) impl)
    | _, _ => (st, .unknown)
  | ["todiff", c, h, e, s, x] => match ct? c, nat? h, nat? e, nat? s, nat? x with
    | some c, some h, some e, some s, some x => (st, cmpModel (toString (toDifficulty c h e s x)) impl)
    | _, _, _, _, _ => (st, .unknown)
  | ["unscaled", x] => match nat? x with
    | some x => (st, cmpModel (toString (fromNum (scaledDifficulty x 1))) impl)
    | none => (st, .unknown)
  | ["edge", c, e] => match ct? c, nat? e with
    -- the classification of a proof by its edge bits is fixed by the rules for every chain type:
    -- secondary iff 29, primary iff not 29 and at least the chain's minimum
    | some c, some e => (st, cmpSpec s!"{showBool (isPrimary c e)} {showBool (isSecondary e)}" impl)
    | _, _ => (st, .unknown)
  | ["diter", hs] => match listOf hdr? hs with
    | some hs => (st, cmpModel (showWindow (difficultyIter hs)) impl)
    | none => (st, .unknown)
  | ["vh", c, den, skip, pok, prev, h, w] =>
    match ct? c, bool? den, bool? skip, bool? pok, optHdr? prev, hdr? h, window? w with
    | some c, some den, some skip, some pok, some prev, some h, some w =>
      let ctx : Ctx := { ct := c, denied := den, prev := prev, window := w, skipPow := skip, powOk := pok }
      (st, cmpAccept (showExc Err.name (validateHeader ctx h)) impl)
    | _, _, _, _, _, _, _ => (st, .unknown)
  | [via, skip, pok, rok, prev, h, w] =>
    if via = "pbh" || via = "sync" || via = "pb" then
      match bool? skip, bool? pok, bool? rok, optHdr? prev, hdr? h, window? w with
      | some skip, some pok, some rok, some prev, some h, some w =>
        let ctx : Ctx := { ct := .automatedTesting, denied := false, prev := prev, window := w,
                           skipPow := skip, powOk := pok }
        (st, cmpAccept (showExc Err.name (processBlockHeader ctx rok h)) impl)
      | _, _, _, _, _, _ => (st, .unknown)
    else (st, .unknown)
  | ["uhdr", c, now, ftl, sok, h] =>
    match ct? c, int? now, nat? ftl, bool? sok, hdr? h with
    | some c, some now, some ftl, some sok, some h =>
      (st, cmpAccept (showExc ReadErr.name (untrustedHeaderCheck c now ftl sok h)) impl)
    | _, _, _, _, _ => (st, .unknown)
  | _ => (st, .unknown)

end GV.Drv.ConsD
