import GrinVerif.Drv.Common
import GrinVerif.Model.Bitmap
/-! Driver glue for the `bitmap` domain (property C15): replays the histories printed by
`harness/src/bin/bitmap.rs` on the model of `BitmapAccumulator` with the real BLAKE2b and
compares roots byte-exactly.

Ops (see the harness for the generator):
* `new <respect>`                         start of a history (fresh accumulator, no outputs); `new 2` = history driven
                                          through the real `Extension::{apply_block, rewind}` (`ext` mode): there the
                                          model's `extApply` on the affected positions derived from the block contents is
                                          proven equal to the from-scratch commitment (`Props.C15.extApply_eq_scratch`),
                                          so a deviating committed accumulator is reported as a spec failure
* `init [U] n`                            `BitmapAccumulator::init(U, n)` on a fresh accumulator; U becomes the unspent set
* `block k [spent]`                       k outputs appended, `spent` (ascending) spent, then `apply_to_bitmap_accumulator`
* `rewind n' [restored] [affected_pos]`   output set shrinks to n' leaves, `restored` un-spent, then `apply_to_bitmap_accumulator(affected_pos)`
* `peekrewind n' [restored] [affected_pos]`  the same inside a READ-ONLY extension that is then discarded
                                          (`extending_readonly`: `get_merkle_proof`, `txhashset_read`, segmenter): the
                                          accumulator seen inside is compared, the model state is NOT changed — the `reopen`
                                          line that follows must find the head state untouched
* `touch [affected_pos]`                  `apply_to_bitmap_accumulator(affected_pos)` with the output set unchanged
* `reopen`                                accumulator replaced by `TxHashSet::bitmap_accumulator` (rebuild on open)
* `scratch`                               property oracle: impl's incremental root vs the from-scratch root of the model's unspent set
* `asbitmap`                              `as_bitmap()` of the accumulator held now, every set bit (after raw calls on small sets)
* `probe`                                 (histories outside the chain invariant) does incremental = scratch? `same`/`differ`
* `rawinit [idx] size`, `rawapply [inval] [idx] size`   direct API calls with arbitrary (unsorted, out-of-range) arguments
* `chunk [bits]`                          128-byte serialisation of a chunk (the hashed leaf element)
* `cex [U0] [inval] [idx] [U1] size`      incremental vs scratch roots of the documented counter-example
* `merged ver pmmr_root bitmap_root size hdr_output_root`   `TxHashSetRoots::validate` on the output root -/
namespace GV.Drv.BitmapD
open GV GV.Drv GV.Pmmr GV.Bitmap

/-- the real hash shapes: `(idx, chunk).hash()` over the 128 chunk bytes and `(idx, (l, r)).hash()` -/
def realHF : HashFn Nat Bytes where
  leaf := fun i ch => h256 (beBytes 8 i ++ chunkBytes ch)
  node := fun i l r => h256 (beBytes 8 i ++ l ++ r)

structure St where
  acc : Acc Bytes := Bitmap.new
  /-- number of leaves of the output MMR -/
  n : Nat := 0
  /-- unspent leaf indices, ascending -/
  U : List Nat := []
  respect : Bool := true
  /-- `ext` mode: block / rewind / reopen lines are compared with `cmpSpec` -/
  spec : Bool := false

def showRoot : RootRes Bytes → String
  | .zero => "zero"
  | .ok h => toHex h
  | .err => "panic"

/-- `root nleaves card sum wsum sqsum` as printed by the harness -/
def showAcc (a : Acc Bytes) : String :=
  let bm := match asBitmap a with
    | some l =>
      -- cardinality, sum, rank-weighted sum and sum of squares (mod 1000000007) of the set bits in
      -- the order `as_bitmap` yields them: a fingerprint of the whole derived bitmap
      let w := (l.foldl (fun (a : Nat × Nat) x => (a.1 + 1, (a.2 + (a.1 + 1) * x) % 1000000007)) (0, 0)).2
      let q := l.foldl (fun a x => (a + x * x) % 1000000007) 0
      s!"{l.length} {l.foldl (· + ·) 0} {w} {q}"
    | none => "panic"
  s!"{showRoot (Bitmap.root realHF a)} {nLeaves a.hashes.length} {bm}"

def showRes : Option (Acc Bytes) → String
  | some a => showAcc a
  | none => "err"

/-- a \ b on ascending lists -/
def diffSorted : List Nat → List Nat → List Nat
  | [], _ => []
  | a, [] => a
  | x :: xs, y :: ys =>
    if x < y then x :: diffSorted xs (y :: ys)
    else if x = y then diffSorted xs ys
    else diffSorted (x :: xs) ys
termination_by a b => a.length + b.length

/-- a ∪ b on ascending lists -/
def unionSorted : List Nat → List Nat → List Nat
  | [], b => b
  | a, [] => a
  | x :: xs, y :: ys =>
    if x < y then x :: unionSorted xs (y :: ys)
    else if x = y then x :: unionSorted xs ys
    else y :: unionSorted (x :: xs) ys
termination_by a b => a.length + b.length

def outPmmr (st : St) : OutputPmmr := { size := insertionToPmmrIndex st.n, leafSet := st.U }

/-- run `apply_to_bitmap_accumulator`, keep the old accumulator on error (as `?` does) -/
def step (st : St) (affected : List Nat) (impl : String) : St × Verdict :=
  let r := extApply realHF st.acc (outPmmr st) affected
  ({ st with acc := r.getD st.acc }, (if st.spec then cmpSpec else cmpModel) (showRes r) impl)

def handle (st : St) (args : List String) (impl : String) : St × Verdict :=
  match args with
  | ["new", r] => ({ respect := r != "0", spec := r == "2" }, .ok)
  | ["init", u, n] => match parseNatList u, nat? n with
    | some u, some n =>
      let r := Bitmap.init realHF Bitmap.new u n
      ({ st with acc := r.getD Bitmap.new, n := n, U := u }, cmpModel (showRes r) impl)
    | _, _ => (st, .unknown)
  | ["block", k, spent] => match nat? k, parseNatList spent with
    | some k, some spent =>
      let created := (List.range k).map (· + st.n)
      let st' := { st with n := st.n + k, U := diffSorted (st.U ++ created) spent }
      let affected := (created ++ spent).map fun i => insertionToPmmrIndex i + 1
      step st' affected impl
    | _, _ => (st, .unknown)
  | ["rewind", n', restored, affected] => match nat? n', parseNatList restored, parseNatList affected with
    | some n', some restored, some affected =>
      let st' := { st with n := n', U := unionSorted (st.U.filter (· < n')) restored }
      step st' affected impl
    | _, _, _ => (st, .unknown)
  | ["peekrewind", n', restored, affected] => match nat? n', parseNatList restored, parseNatList affected with
    | some n', some restored, some affected =>
      let st' := { st with n := n', U := unionSorted (st.U.filter (· < n')) restored }
      (st, (step st' affected impl).2)
    | _, _, _ => (st, .unknown)
  | ["touch", affected] => match parseNatList affected with
    | some affected => step st affected impl
    | none => (st, .unknown)
  | ["reopen"] =>
    let r := rebuildOnOpen realHF (outPmmr st)
    ({ st with acc := r.getD st.acc }, (if st.spec then cmpSpec else cmpModel) (showRes r) impl)
  | ["scratch"] =>
    -- the value the property fixes: the commitment computed from scratch over the unspent set
    (st, cmpSpec (match fromScratch realHF st.U st.n with
      | some a => showRoot (Bitmap.root realHF a)
      | none => "err") impl)
  | ["asbitmap"] =>
    -- the derived view in full: every set bit of `as_bitmap()` of the accumulator held now; the
    -- value the property fixes is the unspent set itself when the state is a from-scratch state
    (st, cmpModel (match asBitmap st.acc with
      | some l => showNatList l
      | none => "panic") impl)
  | ["probe"] =>
    let inc := showRoot (Bitmap.root realHF st.acc)
    let scr := match fromScratch realHF st.U st.n with
      | some a => showRoot (Bitmap.root realHF a)
      | none => "err"
    (st, cmpModel (if inc == scr then "same" else "differ") impl)
  | ["rawinit", idx, size] => match parseNatList idx, nat? size with
    | some idx, some size =>
      let r := Bitmap.init realHF Bitmap.new idx size
      ({ st with acc := r.getD Bitmap.new }, cmpModel (showRes r) impl)
    | _, _ => (st, .unknown)
  | ["rawapply", inval, idx, size] => match parseNatList inval, parseNatList idx, nat? size with
    | some inval, some idx, some size =>
      let r := Bitmap.apply realHF st.acc inval idx size
      ({ st with acc := r.getD st.acc }, cmpModel (showRes r) impl)
    | _, _, _ => (st, .unknown)
  | ["chunk", bits] => match parseNatList bits with
    | some bits =>
      (st, cmpModel (toHex (chunkBytes (bits.foldl (fun ch b => chunkSet ch (b % 1024)) chunkNew))) impl)
    | none => (st, .unknown)
  | ["cex", u0, inval, idx, u1, size] =>
    match parseNatList u0, parseNatList inval, parseNatList idx, parseNatList u1, nat? size with
    | some u0, some inval, some idx, some u1, some size =>
      let inc := match Bitmap.init realHF Bitmap.new u0 size with
        | some a => match Bitmap.apply realHF a inval idx size with
          | some b => showRoot (Bitmap.root realHF b)
          | none => "err"
        | none => "err"
      let scr := match fromScratch realHF u1 size with
        | some a => showRoot (Bitmap.root realHF a)
        | none => "err"
      (st, cmpModel s!"{inc} {scr}" impl)
    | _, _, _, _, _ => (st, .unknown)
  | ["merged", ver, pr, br, size, hdr] =>
    match nat? ver, parseHex pr, parseHex br, nat? size, parseHex hdr with
    | some ver, some pr, some br, some size, some hdr =>
      let r : TxHashSetRoots Bytes := { pmmrRoot := pr, bitmapRoot := br, rproofRoot := [], kernelRoot := [] }
      let h : HeaderRoots Bytes := { version := ver, outputMmrSize := size, outputRoot := hdr, rangeProofRoot := [], kernelRoot := [] }
      (st, cmpSpec (if validateRoots realHF r h then "ok" else "invalid") impl)
    | _, _, _, _, _ => (st, .unknown)
  | _ => (st, .unknown)

end GV.Drv.BitmapD
