import GrinVerif.Drv.Common
import GrinVerif.Model.KeysSig
import GrinVerif.Model.KeysBuild
import GrinVerif.Model.KeysNonce
import GrinVerif.Model.KeysMnemonic
/-! Driver glue for the `keys` domain (property C20): recomputes every observation printed by
`harness/src/bin/keys.rs` with the model `GrinVerif/Model/Keys.lean`.

`cmpSpec` (→ FAIL, a concrete failing input) is used where the property itself fixes the value:
modular arithmetic of blinding factors, path/identifier round trips, message round trips, rewind
results, builder validity. `cmpModel` (→ DIFF) for internal observables. -/
namespace GV.Drv.KeysD
open GV GV.Drv GV.Keys

structure St where
  dummy : Unit := ()

/-- 32-byte (any length) big-endian hex → Nat -/
def scalar? (s : String) : Option Nat := (parseHex s).map ofBE

def ident? (s : String) : Option Ident := parseHex s

def scalars? (s : String) : Option (List Nat) := (parseHexList s).map (·.map ofBE)

def showPath (p : Path) : String :=
  let flags := String.ofList (p.comps.map fun c => if c.isHardened then 'h' else 'n')
  s!"{p.depth} {showNatList (p.comps.map ChildNumber.toU32)} {flags}"

def showOptId : Option Ident → String
  | some id => toHex id
  | none => "panic"

/-- `keychain.commit` under the free derivation (see `freeKD`) -/
def fcommit : Nat → Ident → Switch → Res Opening := commit freeKD

def sameCommit (amount : Nat) (id : Ident) (sw : Switch) (id' : Ident) (sw' : Switch) : Bool :=
  match fcommit amount id sw, fcommit amount id' sw' with
  | .ok a, .ok b => a == b
  | _, _ => false

def parseStep (s : String) : Option Step :=
  match s.splitOn ":" with
  | ["i", v, k] => match v.toNat?, scalar? k with
    | some v, some k => some (.input ⟨v, k⟩)
    | _, _ => none
  | ["o", v, k] => match v.toNat?, scalar? k with
    | some v, some k => some (.output ⟨v, k⟩)
    | _, _ => none
  | ["x", b] => (scalar? b).map .withExcess
  | _ => none

def parseSteps (s : String) : Option (List Step) :=
  let inner := (s.drop 1).dropEnd 1 |>.toString
  if inner.isEmpty then some [] else (inner.splitOn ",").mapM parseStep

/-- element of the run `exchange`: the plain combinators as in `parseStep` (`c:` = `coinbase_input`,
the same opening as `input`), and `T;i:v:k;o:v:k;…` = `initial_tx` with that body -/
def parseXStep (s : String) : Option XStep :=
  match s.splitOn ";" with
  | "T" :: parts =>
    let os := parts.mapM fun p => match p.splitOn ":" with
      | ["i", v, k] => match v.toNat?, scalar? k with
        | some v, some k => some (true, (⟨v, k⟩ : Opening))
        | _, _ => none
      | ["o", v, k] => match v.toNat?, scalar? k with
        | some v, some k => some (false, (⟨v, k⟩ : Opening))
        | _, _ => none
      | _ => none
    os.map fun l => .initialTx ((l.filter (·.1)).map (·.2)) ((l.filter (!·.1)).map (·.2))
  | [t] =>
    match t.splitOn ":" with
    | ["c", v, k] => match v.toNat?, scalar? k with
      | some v, some k => some (.base (.input ⟨v, k⟩))
      | _, _ => none
    | _ => (parseStep t).map .base
  | _ => none

/-- `T;f:<offset>;i:..;o:..`: the offset of the transaction an `initial_tx` installs (0 without `f:`) -/
def parseXElem (s : String) : Option XElem :=
  match s.splitOn ";" with
  | "T" :: parts =>
    let offs := parts.filterMap fun p => match p.splitOn ":" with
      | ["f", h] => scalar? h
      | _ => none
    let rest := parts.filter fun p => !(p.startsWith "f:")
    (parseXStep (";".intercalate ("T" :: rest))).map fun st => ⟨st, offs.headD 0⟩
  | _ => (parseXStep s).map fun st => ⟨st, 0⟩

def parseXElems (s : String) : Option (List XElem) :=
  let inner := (s.drop 1).dropEnd 1 |>.toString
  if inner.isEmpty then some [] else (inner.splitOn ",").mapM parseXElem

def parseXSteps (s : String) : Option (List XStep) :=
  let inner := (s.drop 1).dropEnd 1 |>.toString
  if inner.isEmpty then some [] else (inner.splitOn ",").mapM parseXStep

/-- a body side as the harness prints it: `value:key` tokens, sorted as strings -/
def showOpenings (l : List Opening) : String :=
  let toks := l.map fun o => s!"{o.value}:{toHex (beBytes 32 o.blind)}"
  "[" ++ ",".intercalate (toks.toArray.qsort (· < ·)).toList ++ "]"

def REWARD : Nat := 60000000000

/-- the result `proof::rewind` must give for an output created by the same builder, under the
    crypto contracts (`Crypto.rewind_same`): `check_output` applied to the embedded message -/
def expectedRewind (kind : String) (id : Ident) (sw : Switch) (amount : Nat) : Option Check :=
  match fcommit amount id sw with
  | .ok c =>
    match kind with
    | "new" => some (checkOutput fcommit c amount (proofMessage id sw))
    | "legacy" => some (legacyCheckOutput fcommit c amount (legacyProofMessage id sw))
    | "view" => some (viewCheckOutput 0 (.normal 0) (fun id' sw' => sameCommit amount id sw id' sw')
        amount (proofMessage id sw))
    | _ => none
  | _ => none

def showRewind (c : Check) (amount : Nat) : String :=
  match c with
  | .some id sw => s!"some {toHex id} {sw.show} {amount}"
  | c => c.show

def handle (st : St) (args : List String) (impl : String) : St × Verdict :=
  match args with
  -- tags
  | ["sw_from", n] => match nat? n with
    | some n => (st, cmpSpec (match Switch.ofU8 n with | some s => s.show | none => "err") impl)
    | none => (st, .unknown)
  | ["sw_to", s] => match Switch.parse s with
    | some s => (st, cmpSpec (toString s.toU8) impl)
    | none => (st, .unknown)
  | ["child", n] => match nat? n with
    | some n =>
      let c := ChildNumber.ofU32 n
      let s := match c with
        | .normal i => s!"n {i}"
        | .hardened i => s!"h {i}"
      (st, cmpSpec s!"{s} {c.toU32}" impl)
    | none => (st, .unknown)
  -- identifiers
  | ["frompath", d, l] => match nat? d, parseNatList l with
    | some d, some [a, b, c, e] => (st, cmpSpec (toHex (deriveKeyId d a b c e)) impl)
    | _, _ => (st, .unknown)
  | ["frombytes", h] => match ident? h with
    | some b => (st, cmpSpec (toHex (Ident.fromBytes b)) impl)
    | none => (st, .unknown)
  | ["rootid"] => (st, cmpSpec (toHex (deriveKeyId 0 0 0 0 0)) impl)
  | ["topath", h] => match ident? h with
    | some id => (st, cmpSpec (showPath id.toPath) impl)
    | none => (st, .unknown)
  | ["idrt", h] => match ident? h with
    -- the round trip from_path (to_path id): id with its depth byte clamped to 4 (`ident_roundtrip`)
    | some id => (st, cmpSpec (toHex id.toPath.toIdentifier) impl)
    | none => (st, .unknown)
  | ["serpath", h] => match ident? h with
    | some id => (st, cmpSpec (toHex id.serializePath) impl)
    | none => (st, .unknown)
  | ["parent", h] => match ident? h with
    | some id => (st, cmpModel (showOptId id.parentPath) impl)
    | none => (st, .unknown)
  | ["lastidx", h] => match ident? h with
    | some id => (st, cmpModel (match id.toPath.lastPathIndex with | some n => toString n | none => "panic") impl)
    | none => (st, .unknown)
  -- `ExtKeychainPath::new(depth, ..).last_path_index()` on the path *struct* (public depth field):
  -- still an index panic for depth > 4 (`path_struct_depth_gt4_panics`)
  | ["pathlastidx", d, l] => match nat? d, parseNatList l with
    | some d, some [a, b, c, e] =>
      (st, cmpModel (match (Path.new d a b c e).lastPathIndex with | some n => toString n | none => "panic") impl)
    | _, _ => (st, .unknown)
  | ["bip32", h] => match ident? h with
    | some id => (st, cmpModel (match id.bip32 with
        | some l => "m" ++ String.join (l.map fun i => s!"/{i}")
        | none => "panic") impl)
    | none => (st, .unknown)
  | ["fromser", len, h] => match nat? len, ident? h with
    | some len, some p => (st, cmpModel (showOptId (Ident.fromSerializedPath len p)) impl)
    | _, _ => (st, .unknown)
  -- proof messages
  | ["msg", kind, h, sw] => match ident? h, Switch.parse sw with
    | some id, some sw =>
      if kind = "new" then (st, cmpSpec (toHex (proofMessage id sw)) impl)
      else if kind = "legacy" then (st, cmpSpec (toHex (legacyProofMessage id sw)) impl)
      else (st, .unknown)
    | _, _ => (st, .unknown)
  | ["check", kind, m, h, sw, amount] => match parseHex m, ident? h, Switch.parse sw, nat? amount with
    | some msg, some id, some sw, some amount =>
      match fcommit amount id sw with
      | .ok c =>
        -- on the output's own (honest) message the answer is what the property fixes ("recovers
        -- exactly …", `message_roundtrip_all` / `legacy_parse_message`): a deviation is a concrete
        -- failing input; on a mutated message it is an internal observable of the byte logic
        if kind = "new" then
          (st, (if msg = proofMessage id sw then cmpSpec else cmpModel) (checkOutput fcommit c amount msg).show impl)
        else if kind = "legacy" then
          (st, (if msg = legacyProofMessage id sw then cmpSpec else cmpModel)
            (legacyCheckOutput fcommit c amount msg).show impl)
        else (st, .unknown)
      | _ => (st, .unknown)
    | _, _, _, _ => (st, .unknown)
  | ["vcheck", vd, vc, m, h, sw, amount] =>
    match nat? vd, nat? vc, parseHex m, ident? h, Switch.parse sw, nat? amount with
    | some vd, some vc, some msg, some id, some sw, some amount =>
      (st, (if msg = proofMessage id sw then cmpSpec else cmpModel) (viewCheckOutput vd (.ofU32 vc)
        (fun id' sw' => sameCommit amount id sw id' sw') amount msg).show impl)
    | _, _, _, _, _, _ => (st, .unknown)
  -- view keys made from a privately derived child (any depth, hardened words): `vk` = its path words
  | ["vkcheck", vk, m, h, sw, amount] =>
    match parseNatList vk, parseHex m, ident? h, Switch.parse sw, nat? amount with
    | some vk, some msg, some id, some sw, some amount =>
      match fcommit amount id sw with
      -- honest message: `view_key_covers_iff` / `rewind_with_view_key_all` fix the answer
      | .ok c => (st, (if msg = proofMessage id sw then cmpSpec else cmpModel)
          (viewCheckAt freeKD (vk.map ChildNumber.ofU32) c amount msg).show impl)
      | _ => (st, .unknown)
    | _, _, _, _, _ => (st, .unknown)
  | ["vkrewind", vk, h, sw, amount] =>
    match parseNatList vk, ident? h, Switch.parse sw, nat? amount with
    | some vk, some id, some sw, some amount =>
      match fcommit amount id sw with
      -- `Crypto.rewind_same`: the view key sees the embedded (amount, message) and checks it
      | .ok c => (st, cmpSpec (showRewind
          (viewCheckAt freeKD (vk.map ChildNumber.ofU32) c amount (proofMessage id sw)) amount) impl)
      | _ => (st, .unknown)
    | _, _, _, _ => (st, .unknown)
  -- determinism across instance history: the model's derive is a pure function of (seed, id, sw,
  -- amount) (`derive_history_independent`), so whatever was asked before the answer is the same
  | ["hist", _kind, _order, h, sw, amount] =>
    match ident? h, Switch.parse sw, nat? amount with
    | some _, some _, some _ => (st, cmpSpec "same" impl)
    | _, _, _ => (st, .unknown)
  -- two different seeds (any lengths, long common prefixes): master key, public root key, commitment
  -- and rewind nonce all differ (`different_seeds_different_master` under collision-freedom)
  | "seedpair" :: _what :: _ => (st, cmpSpec "differ" impl)
  -- a seed of any length makes a keychain
  | ["seedlen", _len] => (st, cmpSpec "ok" impl)
  -- one hasher object reused across derivations: every result equals the one obtained with a fresh
  -- hasher / through ExtKeychain (`hasher_reuse_equals_fresh`)
  | "hasher" :: _what :: _ => (st, cmpSpec "same" impl)
  -- arithmetic
  | ["bsum", p, n] => match scalars? p, scalars? n with
    | some p, some n => (st, cmpSpec (secpBlindSum p n).show impl)
    | _, _ => (st, .unknown)
  | ["kbsum", pk, nk, pb, nb] => match scalars? pk, scalars? nk, scalars? pb, scalars? nb with
    | some pk, some nk, some pb, some nb => (st, cmpSpec (kcBlindSum pk nk pb nb).show impl)
    | _, _, _, _ => (st, .unknown)
  | ["bfadd", a, b] => match scalar? a, scalar? b with
    | some a, some b => (st, cmpSpec (bfAdd a b).show impl)
    | _, _ => (st, .unknown)
  | ["bfsplit", a, b] => match scalar? a, scalar? b with
    | some a, some b => (st, cmpSpec (bfSplit a b).show impl)
    | _, _ => (st, .unknown)
  | ["koff", p, n] => match scalars? p, scalars? n with
    -- blind-sum law (`blind_sum_or_zero_value`): the sum mod n, the zero factor when it cancels
    | some p, some n => (st, cmpSpec (sumKernelOffsets p n).show impl)
    | _, _ => (st, .unknown)
  -- crypto contracts (sampled)
  | ["samekey", h, sw, h', sw'] => match ident? h, Switch.parse sw, ident? h', Switch.parse sw' with
    | some id, some sw, some id', some sw' => (st, cmpSpec (showBool (sameCommit 5 id sw id' sw')) impl)
    | _, _, _, _ => (st, .unknown)
  | ["verify", _, _, _, _] => (st, cmpSpec "true" impl)
  | ["rewind", "view", h, sw, amount] => match ident? h, Switch.parse sw, nat? amount with
    | some id, some sw, some amount => match expectedRewind "view" id sw amount with
      | some c => (st, cmpSpec (showRewind c amount) impl)
      | none => (st, .unknown)
    | _, _, _ => (st, .unknown)
  | ["rewind", kind, h, sw, amount] => match ident? h, Switch.parse sw, nat? amount with
    | some id, some sw, some amount => match expectedRewind kind id sw amount with
      | some c => (st, cmpSpec (showRewind c amount) impl)
      | none => (st, .unknown)
    | _, _, _ => (st, .unknown)
  | "rewind_other" :: _ => (st, cmpSpec "none" impl)
  | ["derive_depth", h] => match ident? h with
    -- `derive_total`: derive_key / commit are total on every 17-byte identifier
    | some id => (st, cmpSpec (match fcommit 5 id .regular with
        | .ok _ => "ok" | .err => "err" | .panic => "panic") impl)
    | none => (st, .unknown)
  -- builder
  | ["build", fee, ex, steps] => match nat? fee, scalar? ex, parseSteps steps with
    | some fee, some ex, some steps =>
      match transactionWithKernel steps fee ex with
      | some tx => (st, cmpSpec
          s!"{toHex (beBytes 32 tx.offset)} {tx.ins.length} {tx.outs.length} {(txValidate tx).show}" impl)
      | none => (st, cmpSpec "err" impl)
    | _, _, _ => (st, .unknown)
  | ["buildv", fee, steps] => match nat? fee, parseSteps steps with
    | some fee, some steps =>
      -- the excess is drawn inside `build::transaction`; the verdict does not depend on it:
      -- excess + offset = blind sum whatever the excess
      let (ins, outs, bs) := partialTransaction [] [] steps
      match bs with
      | .ok bs =>
        let tx : Tx := ⟨ins, outs, fee, 0, bs⟩
        (st, cmpSpec s!"{ins.length} {outs.length} {(txValidate tx).show}" impl)
      | _ => (st, cmpSpec "err" impl)
    | _, _ => (st, .unknown)
  | ["partial", steps] => match parseSteps steps with
    | some steps =>
      let (ins, outs, bs) := partialTransaction [] [] steps
      match bs with
      | .ok bs => (st, cmpSpec s!"{toHex (beBytes 32 bs)} {ins.length} {outs.length}" impl)
      | _ => (st, cmpSpec "err" impl)
    | none => (st, .unknown)
  -- run `exchange`: element lists with `initial_tx`, every permutation
  | ["xbuild", fee, ex, steps] => match nat? fee, scalar? ex, parseXElems steps with
    | some fee, some ex, some steps =>
      match xTransactionWithKernelO steps fee ex with
      | some tx => (st, cmpSpec
          s!"{toHex (beBytes 32 tx.offset)} {showOpenings tx.ins} {showOpenings tx.outs} {(txValidate tx).show}" impl)
      | none => (st, cmpSpec "err" impl)
    | _, _, _ => (st, .unknown)
  | ["xpartial", steps] => match parseXElems steps with
    | some steps =>
      let (ins, outs, bs, off) := xPartialTransactionO [] [] 0 steps
      match bs with
      | .ok bs => (st, cmpSpec s!"{toHex (beBytes 32 bs)} {showOpenings ins} {showOpenings outs} {toHex (beBytes 32 off)}" impl)
      | _ => (st, cmpSpec "err" impl)
    | none => (st, .unknown)
  -- `partial_transaction(base, elems)` on a non-empty base transaction (`T;…` token = its body)
  | ["xpartialb", base, steps] => match parseXElem base, parseXElems steps with
    | some ⟨.initialTx bi bo, boff⟩, some steps =>
      let (ins, outs, bs, off) := xPartialTransactionO bi bo boff steps
      match bs with
      | .ok bs => (st, cmpSpec s!"{toHex (beBytes 32 bs)} {showOpenings ins} {showOpenings outs} {toHex (beBytes 32 off)}" impl)
      | _ => (st, cmpSpec "err" impl)
    | _, _ => (st, .unknown)
  -- signatures (run `sigs`): honest ones verify (rule-fixed), negative controls do not
  | ["sig", variant, _] =>
    if variant.startsWith "ok-" then (st, cmpSpec (sigExpected variant) impl)
    else (st, cmpModel (sigExpected variant) impl)
  -- the zero blinding factor as signing key: `ExtKeychain::sign_with_blinding` panics (ZERO_KEY
  -- reaches the assert in `Secp256k1::sign`), `aggsig::sign_with_blinding` signs
  -- sign_with_blinding on chosen 32-byte blinding factors: ok / err / panic with the exact condition
  | ["signb", "keychain", b] => match scalar? b with
    | some b => (st, cmpModel (showSignRes (ksignBlinding b)) impl)
    | none => (st, .unknown)
  | ["signb", "aggsig", b] => match scalar? b with
    | some b => (st, cmpModel (showSignRes (aggsigSignBlinding b)) impl)
    | none => (st, .unknown)
  | ["sigzero", "ksign-blinding", _] => (st, cmpModel "panic" impl)
  | ["sigzero", "aggsig-blinding", _] => (st, cmpModel "true" impl)
  | ["mask", m, k] => match parseHex m, parseHex k with
    | some m, some k => (st, cmpModel (toHex (maskMasterKey m k)) impl)
    | _, _ => (st, .unknown)
  | ["coinbase", fees] => match nat? fees with
    | some fees =>
      let (o, e) := rewardOutput REWARD fees 7
      let okc := verifyCoinbase REWARD fees o e
      (st, cmpSpec s!"{o.value} true true {showBool okc} {if fees = 0 then "block-ok" else "block-skip"}" impl)
    | none => (st, .unknown)
  -- run `nonces`: the rewind / private nonces of the three builders recomputed from the key material
  -- (keyed blake2b), `Identifier::from_pubkey`, `BlindingFactor::from_slice`
  | ["nonce", kind, pubRoot, privRoot, legacyRoot, commit] =>
    match parseHex pubRoot, parseHex privRoot, parseHex legacyRoot, parseHex commit with
    | some pubRoot, some privRoot, some legacyRoot, some commit =>
      let r := match kind with
        | "new-rewind" => some (builderNonce pubRoot privRoot commit false)
        | "new-private" => some (builderNonce pubRoot privRoot commit true)
        | "legacy-rewind" => some (legacyNonce legacyRoot commit)
        | "legacy-private" => some (legacyNonce legacyRoot commit)
        | "view-rewind" => some (viewNonce pubRoot commit)
        | _ => none
      match r with
      | some r => (st, cmpModel (showNonce r) impl)
      | none => (st, .unknown)
    | _, _, _, _ => (st, .unknown)
  -- child numbers at the 2^31 boundary: constructors (panic from 2^31 on) and `From<u32>`
  | ["cnidx", kind, i] => match nat? i with
    | some i => match childFromIdx (kind == "hardened") i with
      | some c => (st, cmpModel s!"ok:{c.toU32}:{if c.isHardened then "hardened" else "normal"}" impl)
      | none => (st, cmpModel "panic" impl)
    | none => (st, .unknown)
  -- two children of one parent: the same key iff the same u32 word
  | ["ckdsame", a, b] => match nat? a, nat? b with
    | some a, some b => (st, cmpSpec (if a == b then "same" else "differs") impl)
    | _, _ => (st, .unknown)
  -- HMAC key and message of a derivation step, observed with a recording hasher
  | ["ckdmsg", kind, w, cc, secret, pub] =>
    match nat? w, parseHex cc, parseHex secret, parseHex pub with
    | some w, some cc, some secret, some pub =>
      let c := ChildNumber.ofU32 w
      if kind == "priv" then (st, cmpModel s!"{toHex cc} {toHex (ckdPrivMessage secret pub c)}" impl)
      else match ckdPubMessage pub c with
        | some m => (st, cmpModel s!"{toHex cc} {toHex m}" impl)
        | none => (st, cmpModel "err" impl)
    | _, _, _, _ => (st, .unknown)
  -- `new_master(seed)`: HMAC key "IamVoldemort", message = the whole seed
  | ["mastermsg", seed] => match parseHex seed with
    | some seed => (st, cmpModel s!"{toHex ("IamVoldemort".toUTF8.toList.map (·.toNat))} {toHex seed}" impl)
    | none => (st, .unknown)
  | ["rewindhash", pubRoot] => match parseHex pubRoot with
    | some p => (st, cmpModel (toHex (viewRewindHash p)) impl)
    | none => (st, .unknown)
  | ["idpub", pub] => match parseHex pub with
    | some p => (st, cmpModel (toHex (identFromPubkey p)) impl)
    | none => (st, .unknown)
  | ["bfslice", data] => match (if data == "-" then some [] else parseHex data) with
    | some d => (st, cmpModel (toHex (bfFromSlice d)) impl)
    | none => (st, .unknown)
  -- run `mnemonic`: BIP39 bit packing, checksum by the driver's own SHA-256
  | ["mnfrom", e] => match (if e == "-" then some [] else parseHex e) with
    | some e => match Mnemonic.fromEntropy Mnemonic.sha0 e with
      | .ok idx => (st, cmpModel (showNatList idx) impl)
      | .error er => (st, cmpModel ("err:" ++ er.show) impl)
    | none => (st, .unknown)
  | ["mnto", idx] => match parseNatList idx with
    | some idx => match Mnemonic.toEntropy Mnemonic.sha0 idx with
      | .ok e => (st, cmpModel (toHex e) impl)
      | .error er => (st, cmpModel ("err:" ++ er.show) impl)
    | none => (st, .unknown)
  -- `reward::output` called twice with the same arguments: same output (commitment, range proof),
  -- same excess; the same kernel signature exactly in test mode (fixed nonce)
  | ["cbdet", _, tm] => (st, cmpSpec s!"true true true {tm}" impl)
  | _ => (st, .unknown)

end GV.Drv.KeysD
