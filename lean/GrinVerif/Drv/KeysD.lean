import GrinVerif.Drv.Common
/-! Driver glue for the `keys` domain (line protocol handler). -/
namespace GV.Drv.KeysD
open GV GV.Drv

structure St where
  dummy : Unit := ()

def handle (st : St) (_args : List String) (_impl : String) : St × Verdict :=
  (st, .unknown)

end GV.Drv.KeysD
