import GrinVerif.Drv.Common
import GrinVerif.Model.Deseg
/-! Driver glue for the `deseg` domain: the state machine of `chain/src/txhashset/desegmenter.rs`
(`Model/Deseg.lean`) folded over the lines of `harness/src/bin/deseg.rs`.

    deseg new <hB> <hO> <hR> <hK> <outSize> <kerSize> <gOut> <gKer> => <bitmap leaf count> <bitmap mmr size>
    deseg apply                       => <ok|err:Class|panic> <output size> <rangeproof size> <kernel size>
    deseg check                       => 0|1
    deseg want <max>                  => [kind:height:idx,...]
    deseg iscomplete                  => 0|1
    deseg add <kind> <h> <idx> <valid> <jump> <extra> => ok|InvalidSegmentHeight|NonExistent|Invalid

Everything is an internal observable of the state machine (`cmpModel`), except the answer to a
segment of another height, which the property's repair fixes (`cmpSpec`). -/
namespace GV.Drv.DesegD
open GV GV.Drv GV.Seg GV.Deseg

structure St where
  d : Option Deseg.St := none

def kindOf : Nat → Option Kind
  | 0 => some .bitmap
  | 1 => some .output
  | 2 => some .rangeproof
  | 3 => some .kernel
  | _ => none

def kindNo : Kind → Nat
  | .bitmap => 0
  | .output => 1
  | .rangeproof => 2
  | .kernel => 3

def showAdd : AddRes → String
  | .ok => "ok"
  | .invalidSegmentHeight => "InvalidSegmentHeight"
  | .nonExistent => "NonExistent"
  | .invalid => "Invalid"

def showWant (l : List (Kind × Ident)) : String :=
  "[" ++ ",".intercalate (l.map fun x => s!"{kindNo x.1}:{x.2.height}:{x.2.idx}") ++ "]"

def bit (b : Bool) : String := if b then "1" else "0"

def handle (st : St) (args : List String) (impl : String) : St × Verdict :=
  match args with
  | ["new", hb, ho, hr, hk, outSize, kerSize, gOut, gKer] =>
    match nat? hb, nat? ho, nat? hr, nat? hk, nat? outSize, nat? kerSize, nat? gOut, nat? gKer with
    | some hb, some ho, some hr, some hk, some o, some k, some go, some gk =>
      let d := Deseg.St.new hb ho hr hk o k go gk
      ({ d := some d }, cmpModel s!"{d.bmLeafCount} {d.bmSize}" impl)
    | _, _, _, _, _, _, _, _ => (st, .unknown)
  | ["apply"] =>
    match st.d with
    | some d =>
      let d' := d.applyNextSegments
      -- the model has no failing apply: a misapplied segment (one that starts beyond the local MMR)
      -- is where the real code fails or corrupts the MMR
      let res := if d'.misapplied then "misapplied" else "ok"
      ({ d := some d' }, cmpModel s!"{res} {d'.out.size} {d'.rp.size} {d'.ker.size}" impl)
    | none => (st, .unknown)
  | ["check"] =>
    match st.d with
    | some d => (st, cmpModel (bit d.checkProgress) impl)
    | none => (st, .unknown)
  | ["want", max] =>
    match st.d, nat? max with
    | some d, some max =>
      let r := d.nextDesiredSegments max
      ({ d := some r.1 }, cmpModel (showWant r.2) impl)
    | _, _ => (st, .unknown)
  | ["iscomplete"] =>
    match st.d with
    | some d => (st, cmpModel (bit d.isComplete) impl)
    | none => (st, .unknown)
  | ["add", kind, h, idx, valid, jump, extra] =>
    match st.d, (nat? kind).bind kindOf, nat? h, nat? idx, nat? valid, nat? jump, nat? extra with
    | some d, some k, some h, some idx, some valid, some jump, some extra =>
      let x : SegIn := { id := ⟨h, idx⟩, valid := valid != 0, jump := jump, extra := extra }
      let r := d.addSegment k x
      let v := if h ≠ d.heightOf k then cmpSpec (showAdd r.2) impl else cmpModel (showAdd r.2) impl
      ({ d := some r.1 }, v)
    | _, _, _, _, _, _, _ => (st, .unknown)
  | _ => (st, .unknown)

end GV.Drv.DesegD
