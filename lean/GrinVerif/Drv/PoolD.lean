import GrinVerif.Drv.Common
import GrinVerif.Model.Pool
import GrinVerif.Model.PoolNode
import GrinVerif.Model.PoolTime
import GrinVerif.Model.PoolConvert
/-! Driver glue for the `pool` domain (C14): the harness describes outputs, transactions, the
head state and every pool operation; the model recomputes verdicts and pool contents, and
evaluates the property's specification (`jointlyValidB`, `mineVerdict`) on its own state. -/
namespace GV.Drv.PoolD
open GV GV.Drv GV.Pool GV.Chain

structure St where
  ctx : Ctx := {}
  pool : TxPool := {}
  txs : List (Nat × Tx) := []
  /-- run `poolclock`: the Dandelion configuration and the current epoch (`Model/PoolTime.lean`) -/
  dcfg : DCfg := {}
  tep : TEpoch := {}
  /-- run `poolrelay`: the peer objects and the epoch's current relay (by id) -/
  rpeers : List RPeer := []
  rcur : Option Nat := none
  /-- the relay was chosen at random among these (several candidates): resolved by the next `rcur` line -/
  rpending : List Nat := []
  /-- the transaction the model's last submission / eviction removed from the txpool (`evicted` lines) -/
  lastEvicted : Option Tx := none

def stripPfx (s : String) (n : Nat) : String := (s.drop n).toString

/-- `o12` / `t3` / `k7` → number -/
def idOf (s : String) : Option Nat := (stripPfx s 1).toNat?

def kv (args : List String) (k : String) : Option String :=
  (args.find? (·.startsWith (k ++ "="))).map (fun a => stripPfx a (k.length + 1))

def kvNat (args : List String) (k : String) : Option Nat := (kv args k).bind String.toNat?

def listItems (s : String) : List String :=
  let inner := (s.drop 1).dropEnd 1 |>.toString
  if inner.isEmpty then [] else inner.splitOn ","

def parseKer (s : String) : Option PKer :=
  match s.splitOn ":" with
  | [k, "cb"] => (idOf k).map fun kid => { kid, ker := .cb }
  | [k, "p", f, sh] => do
    let kid ← idOf k; let f ← f.toNat?; let sh ← sh.toNat?
    pure { kid, ker := .plain f, shift := sh }
  | [k, "hl", f, sh, l] => do
    let kid ← idOf k; let f ← f.toNat?; let sh ← sh.toNat?; let l ← l.toNat?
    pure { kid, ker := .hl f l, shift := sh }
  | [k, "nrd", f, sh, r, ex] => do
    let kid ← idOf k; let f ← f.toNat?; let sh ← sh.toNat?; let r ← r.toNat?
    pure { kid, ker := .nrd f r ex, shift := sh }
  | _ => none

def parseUtxo (s : String) : Option (Nat × Nat × Bool) :=
  match s.splitOn ":" with
  | [o, h, cb] => do let o ← idOf o; let h ← h.toNat?; pure (o, h, cb == "1")
  | _ => none

/-- `<excess>:<height>`: an NRD kernel excess on the chain path of the head, most recent first -/
def parseNrd (s : String) : Option (String × Nat) :=
  match s.splitOn ":" with
  | [ex, h] => h.toNat?.map fun h => (ex, h)
  | _ => none

def parseSrc (s : String) : Option Src :=
  match s with
  | "P" => some .pushApi | "B" => some .broadcast | "F" => some .fluff
  | "E" => some .embargoExpired | "D" => some .deaggregate | _ => none

def srcLetter : Src → String
  | .pushApi => "P" | .broadcast => "B" | .fluff => "F" | .embargoExpired => "E" | .deaggregate => "D"

/-- `stemepoch=0|1 expired=0|1 always=0|1 relay=none|ok|fail` -/
def parseEpoch (args : List String) : Option Epoch :=
  match kv args "stemepoch", kv args "expired", kv args "always", kv args "relay" with
  | some s, some e, some a, some r =>
    let relay : Option (Option Bool) := match r with
      | "none" => some none | "ok" => some (some true) | "fail" => some (some false) | _ => none
    relay.map fun rl => { isStem := s == "1", expired := e == "1", alwaysStemOurs := a == "1", relay := rl }
  | _, _, _, _ => none

def sortNat (l : List Nat) : List Nat := (l.toArray.qsort (· < ·)).toList

def showIds (pfx : String) (l : List Nat) : String :=
  ".".intercalate ((sortNat l).map fun i => s!"{pfx}{i}")

def txSig (t : Tx) : String :=
  s!"{showIds "k" (t.kers.map (·.kid))}/{showIds "o" t.ins}/{showIds "o" t.outs}"

def entrySig (e : Entry) : String := s!"{txSig e.tx}:{srcLetter e.src}"

def showList (l : List String) : String := "[" ++ ",".intercalate l ++ "]"

def okBad (b : Bool) : String := if b then "ok" else "bad"

/-- inputs that exist nowhere, as `<tx>@<output>` in pool order -/
def showOrphans (utxo : List Nat) (txs : List Tx) : String :=
  showList ((orphans utxo txs).map fun (t, i) => s!"{txSig t}@o{i}")

/-- the submitted form of a registered transaction: `v3` commit-only; `v2` features-and-commit
with the features of the spent outputs; `v2x` the same with every claimed feature wrong; `v2u`
features-and-commit left in commitment order where the `Input` order differs -/
def subTxOf (c : Ctx) (tx : Tx) (form : String) : Option SubTx :=
  let isCb (i : Nat) : Bool := match c.outs.find? (·.id == i) with | some d => d.cb | none => false
  let base (inputs : Inputs) (sorted : Bool) : SubTx :=
    { inputs, sorted, outs := tx.outs, kers := tx.kers, tags := tx.tags }
  match form with
  | "v3" => some (base (.commitOnly tx.ins) true)
  | "v2" => some (base (.featuresAndCommit (tx.ins.map fun i => (isCb i, i))) true)
  | "v2x" => some (base (.featuresAndCommit (tx.ins.map fun i => (!isCb i, i))) true)
  | "v2u" => some (base (.featuresAndCommit (tx.ins.map fun i => (isCb i, i))) false)
  | _ => none

def kvInt (args : List String) (k : String) : Option Int := (kv args k).bind String.toInt?

/-- `ats=[t5:1700000000123,...]`: the `tx_at` (ms) of the stem entries, by registered transaction -/
def parseClock (st : St) (s : String) : Option Clock :=
  (listItems s).mapM fun it =>
    match it.splitOn ":" with
    | [t, a] => do
      let i ← idOf t
      let tx ← (st.txs.find? (·.1 == i)).map (·.2)
      let a ← a.toInt?
      pure (tx, a)
    | _ => none

def showObs (st : St) : String :=
  let c := st.ctx
  let u := utxoIds c
  let tp := st.pool.txpool.txs
  let jv := jointlyValidB c.outs u tp
  let jvs := jointlyValidB c.outs u (st.pool.stempool.txs ++ tp)
  let mine := match st.pool.prepareMineable c with
    | .error e => s!"err:{e}"
    | .ok txs => s!"{showList (txs.map txSig)}:{if mineVerdict c txs then "ok" else "rejected"}"
  s!"tx={showList (st.pool.txpool.map entrySig)} stem={showList (st.pool.stempool.map entrySig)} cache={showList (st.pool.cache.map entrySig)} jv={okBad jv} jvs={okBad jvs} av={showOrphans u tp} avs={showOrphans u (st.pool.stempool.txs ++ tp)} mine={mine}"

/-- The property fixes refusal of low-fee / over-weight / standalone-invalid transactions: if the
model refuses for one of those reasons and the implementation admits, the line is a failing
input. Everything else (error class, acceptance the property does not prescribe) is internal. -/
def cmpSubmit (model impl : String) : Verdict :=
  if model = impl then .ok
  else if impl = "ok" ∧ (model = "err:LowFee" ∨ model.startsWith "err:InvalidTx") then .fail model
  else .diff model

def handle (st : St) (args : List String) (impl : String) : St × Verdict :=
  match args with
  | "reset" :: _ => ({}, .ok)
  | "cfg" :: rest =>
    match kvNat rest "max_pool", kvNat rest "max_stem", kvNat rest "mine_w", kvNat rest "fee_base",
          kvNat rest "max_tx_w", kvNat rest "max_block_w", kvNat rest "maturity" with
    | some maxPool, some maxStem, some mineW, some feeBase, some maxTxW, some maxBlockW, some maturity =>
      -- `nrd=0|1`: `global::is_nrd_enabled()` (absent: on, as every run but `nrd-disabled` has it)
      let nrdEnabled := (kv rest "nrd").getD "1" == "1"
      ({ st with ctx := { st.ctx with cfg := { maxPool, maxStem, mineW, feeBase, maxTxW, maxBlockW, maturity, nrdEnabled } } }, .ok)
    | _, _, _, _, _, _, _ => (st, .unknown)
  | "out" :: o :: rest =>
    match idOf o, kv rest "cb", kvNat rest "v" with
    | some id, some cb, some v =>
      ({ st with ctx := { st.ctx with outs := st.ctx.outs ++ [{ id, cb := cb == "1", v }] } }, .ok)
    | _, _, _ => (st, .unknown)
  | "head" :: _ :: rest =>
    match kvNat rest "h", kvNat rest "ver", (kv rest "utxo").bind (fun s => (listItems s).mapM parseUtxo),
          ((kv rest "nrd").getD "[]" |> listItems).mapM parseNrd with
    | some h, some ver, some utxo, some nrd =>
      ({ st with ctx := { st.ctx with head := { utxo, nrd, height := h }, ver } }, .ok)
    | _, _, _, _ => (st, .unknown)
  | "tx" :: t :: rest =>
    match idOf t, (kv rest "ins").bind (fun s => (listItems s).mapM idOf),
          (kv rest "outs").bind (fun s => (listItems s).mapM idOf),
          (kv rest "kers").bind (fun s => (listItems s).mapM parseKer), kv rest "tags" with
    | some id, some ins, some outs, some kers, some tags =>
      ({ st with txs := (id, { ins, outs, kers, tags := listItems tags }) :: st.txs }, .ok)
    | _, _, _, _, _ => (st, .unknown)
  | "submit" :: t :: rest =>
    match (idOf t).bind (fun i => st.txs.find? (·.1 == i)), (kv rest "src").bind parseSrc, kv rest "stem", kv rest "stemok" with
    | some (_, tx), some src, some stem, some stemOk =>
      match subTxOf st.ctx tx ((kv rest "form").getD "v3") with
      | some sub =>
        let (p, r) := st.pool.submit st.ctx src sub (stem == "1") (stemOk == "1")
        -- the victim of an eviction at capacity: the same submission without a capacity limit keeps it
        let big : Ctx := { st.ctx with cfg := { st.ctx.cfg with maxPool := 1000000000 } }
        let (q, _) := st.pool.submit big src sub (stem == "1") (stemOk == "1")
        let victim := if p.txpool.length < q.txpool.length then q.txpool.txs.find? (fun t => !p.txpool.txs.contains t) else none
        ({ st with pool := p, lastEvicted := victim }, cmpSubmit (showRes r) impl)
      | none => (st, .unknown)
    | _, _, _, _ => (st, .unknown)
  | ["stored", t] =>
    -- the stored input vector of an admitted transaction (`convert_tx_v2`): looked-up features
    match (idOf t).bind (fun i => st.txs.find? (·.1 == i)) with
    | some (_, tx) =>
      let m := showList ((sortNat tx.ins).map fun i => s!"{if featureOf st.ctx i then 1 else 0}:o{i}")
      (st, cmpModel m impl)
    | none => (st, .unknown)
  | ["obs"] => (st, cmpModel (showObs st) impl)
  | ["mine_weight", _] =>
    -- The weight of the aggregate of the set offered for mining.  The property fixes an upper
    -- bound: min(max_block_weight, mineable_max_weight) minus one output and one kernel for the
    -- coinbase (proved for the model: `mineable_ok`); above it the line is a failing input.
    -- Below it the value is compared with the model's own selection.
    let c := st.ctx
    let bound := min c.cfg.maxBlockW c.cfg.mineW - 24
    match impl.toNat? with
    | none => (st, .unknown)
    | some w =>
      if w > bound then (st, .fail s!"at most {bound}")
      else
        let mw := match st.pool.prepareMineable c with
          | .ok txs => (match aggregate txs with | .ok a => a.weight | .error _ => 0)
          | .error _ => 0
        (st, cmpModel (toString mw) impl)
  | "reconcile_block" :: _ :: rest =>
    match (kv rest "ins").bind (fun s => (listItems s).mapM idOf), (kv rest "kers").bind (fun s => (listItems s).mapM idOf) with
    | some ins, some kers =>
      let (p, r) := st.pool.reconcileBlock st.ctx ins kers
      ({ st with pool := p }, cmpModel (showRes r) impl)
    | _, _ => (st, .unknown)
  | ["reconcile_reorg_cache", _] =>
    ({ st with pool := st.pool.reconcileReorgCache st.ctx }, cmpModel "ok" impl)
  -- the callers of the pool in a running node (Model/PoolNode.lean)
  | "recv" :: t :: rest =>
    match (idOf t).bind (fun i => st.txs.find? (·.1 == i)), kv rest "syncing", kv rest "stem", parseEpoch rest with
    | some (_, tx), some syncing, some stem, some ep =>
      match subTxOf st.ctx tx ((kv rest "form").getD "v3") with
      | some sub =>
        let (p, r) := st.pool.transactionReceived st.ctx (syncing == "1") ep sub.tx (stem == "1")
        ({ st with pool := p }, cmpModel (toString r) impl)
      | none => (st, .unknown)
    | _, _, _, _ => (st, .unknown)
  | "push" :: t :: rest =>
    -- `add_to_pool` with the real net adapter: whether the relay takes a stem transaction is the
    -- model's `stemTxAccepted` on the epoch the harness observed
    match (idOf t).bind (fun i => st.txs.find? (·.1 == i)), (kv rest "src").bind parseSrc, kv rest "stem", parseEpoch rest with
    | some (_, tx), some src, some stem, some ep =>
      match subTxOf st.ctx tx ((kv rest "form").getD "v3") with
      | some sub =>
        let (p, r) := st.pool.submit st.ctx src sub (stem == "1") (stemTxAccepted ep src)
        ({ st with pool := p }, cmpSubmit (showRes r) impl)
      | none => (st, .unknown)
    | _, _, _, _ => (st, .unknown)
  | "stem_accepted" :: rest =>
    match (kv rest "src").bind parseSrc, parseEpoch rest with
    | some src, some ep => (st, cmpModel (toString (stemTxAccepted ep src)) impl)
    | _, _ => (st, .unknown)
  | "fluff_phase" :: rest =>
    match kv rest "expired", kv rest "anyold" with
    | some e, some a =>
      let (p, r) := st.pool.fluffPhase st.ctx (e == "1") (a == "1")
      ({ st with pool := p }, cmpModel (showRes r) impl)
    | _, _ => (st, .unknown)
  | "expire" :: rest =>
    match (kv rest "old").bind (fun s => (listItems s).mapM fun t => (idOf t).bind fun i => (st.txs.find? (·.1 == i)).map (·.2)) with
    | some old => ({ st with pool := st.pool.expireEntries st.ctx old }, cmpModel "ok" impl)
    | none => (st, .unknown)
  | "monitor" :: rest =>
    let txsOf (k : String) : Option (List Tx) :=
      (kv rest k).bind (fun s => (listItems s).mapM fun t => (idOf t).bind fun i => (st.txs.find? (·.1 == i)).map (·.2))
    match parseEpoch rest, txsOf "oldagg", txsOf "oldemb" with
    | some ep, some oa, some oe =>
      ({ st with pool := st.pool.monitorPass st.ctx ep oa oe }, cmpModel "ok" impl)
    | _, _, _ => (st, .unknown)
  | ["build_block"] =>
    -- what `mine_block::get_block` built: the transactions in the block and whether a chain takes it
    let m := match st.pool.buildBlock st.ctx with
      | some txs => s!"{showList (txs.map txSig)}:ok"
      | none => s!"{showList ((st.pool.blockTxs st.ctx).map txSig)}:rejected"
    (st, cmpModel m impl)
  | ["evict"] =>
    ({ st with pool := st.pool.evictFromTxpool st.ctx, lastEvicted := st.pool.txpool.evictee st.ctx }, cmpModel "ok" impl)
  | ["evicted"] =>
    -- WHICH transaction the eviction removed: the last one of the `Weighting::NoLimit` bucket order
    -- (`Pool.evictee`; `evict_keeps_joint_validity_iff` says when that keeps the pool jointly valid).
    -- The choice is what the property's finding is about: a different victim is a failing input.
    let m := match st.lastEvicted with | some t => txSig t | none => "none"
    (st, if m = impl then .ok else .fail m)
  | ["truncate_cache", n] =>
    match n.toNat? with
    | some n => ({ st with pool := st.pool.truncateCache n }, cmpModel "ok" impl)
    | none => (st, .unknown)
  -- the Dandelion relay peer (Model/PoolTime.lean, `relayPeer` / `stemTxAcceptedR`)
  | "rworld" :: rest =>
    let parseP (it : String) : Option RPeer :=
      match it.splitOn ":" with
      | [i, b, a, o, m] => i.toNat?.map fun id =>
          { id, banned := b == "1", alive := a == "1", outbound := o == "1", member := m == "1" }
      | _ => none
    match (kv rest "peers").bind (fun s => (listItems s).mapM parseP) with
    | some ps => ({ st with rpeers := ps }, .ok)
    | none => (st, .unknown)
  | "rpush" :: t :: rest =>
    -- `add_to_pool` with the real net adapter and real peers: whether the relay takes the stem
    -- transaction is computed from the peer objects; the epoch's relay moves iff the relay step ran
    match (idOf t).bind (fun i => st.txs.find? (·.1 == i)), (kv rest "src").bind parseSrc, kv rest "stem",
          kv rest "stemepoch", kv rest "always" with
    | some (_, tx), some src, some stem, some se, some al =>
      match subTxOf st.ctx tx ((kv rest "form").getD "v3") with
      | some sub =>
        -- the random choice among SEVERAL candidates is not computed: the specification is "any outbound,
        -- unbanned member" - the set stays pending until the socket that received the frame is reported
        let asks := se == "1" || (src.isPushed && al == "1")
        let cands := (st.rpeers.filter fun p => p.member && p.outbound && !p.banned).map (·.id)
        let keeps := match st.rcur.bind (peerById st.rpeers) with | some p => !p.banned | none => false
        let pend : List Nat :=
          if st.rpending != [] then st.rpending else if asks && !keeps && cands.length > 1 then cands else []
        let (acc, cur') :=
          if pend != [] then
            ((!asks) || pend.all (fun i => match peerById st.rpeers i with | some p => p.alive | none => false), none)
          else stemTxAcceptedR (se == "1") (al == "1") src st.rcur st.rpeers 0
        let (p, r) := st.pool.submit st.ctx src sub (stem == "1") acc
        let (p', r') := st.pool.submit st.ctx src sub (stem == "1") (!acc)
        let reached := p != p' || r != r'
        ({ st with pool := p, rcur := if reached then cur' else st.rcur,
                   rpending := if reached || st.rpending != [] then pend else [] }, cmpSubmit (showRes r) impl)
      | none => (st, .unknown)
    | _, _, _, _, _ => (st, .unknown)
  | ["rcur"] =>
    -- which peer received the last stem transaction (observed on the sockets of the fake peers)
    if st.rpending != [] then
      -- specification: ANY of the candidates (`chosen_relay_is_outbound_member_unbanned`,
      -- `every_candidate_can_be_chosen`); the observed one becomes the relay
      match (idOf impl) with
      | some k =>
        if st.rpending.contains k then ({ st with rcur := some k, rpending := [] }, .ok)
        else (st, .fail s!"one of {showIds "p" st.rpending}")
      | none => (st, .fail s!"one of {showIds "p" st.rpending}")
    else (st, cmpModel (match st.rcur with | some i => s!"p{i}" | none => "none") impl)
  -- the clock-dependent glue (Model/PoolTime.lean); clock readings in milliseconds
  | "dcfg" :: rest =>
    match kvNat rest "epoch", kvNat rest "embargo", kvNat rest "agg", kvNat rest "prob", kv rest "always" with
    | some epochSecs, some embargoSecs, some aggSecs, some stemProb, some a =>
      ({ st with dcfg := { epochSecs, embargoSecs, aggSecs, stemProb, alwaysStemOurs := a == "1" }, tep := TEpoch.new }, .ok)
    | _, _, _, _, _ => (st, .unknown)
  | "tepoch_expired" :: rest =>
    match kvInt rest "now" with
    | some now => (st, cmpModel (toString (st.tep.isExpired st.dcfg now)) impl)
    | none => (st, .unknown)
  | "tepoch_next" :: rest =>
    -- `next_epoch` at reading `now`; the draw is not observable: where the outcome depends on it
    -- (0 < stem_probability < 100) the implementation's answer is adopted
    match kvInt rest "now" with
    | some now =>
      let lo := st.tep.nextEpoch st.dcfg now 0 none
      let hi := st.tep.nextEpoch st.dcfg now 99 none
      -- `next_epoch` also chooses the relay among the outbound connected peers (run `poolrelay`
      -- keeps at most one candidate; no peers: none)
      let cands := (st.rpeers.filter fun p => p.member && p.outbound && !p.banned).map (·.id)
      let rc := if cands.length > 1 then none else chooseRelay st.rpeers 0
      let pend := if cands.length > 1 then cands else []
      if lo.isStem == hi.isStem then
        ({ st with tep := lo, rcur := rc, rpending := pend }, cmpModel s!"stem={if lo.isStem then 1 else 0}" impl)
      else
        ({ st with tep := { lo with isStem := impl == "stem=1" }, rcur := rc, rpending := pend }, .ok)
    | none => (st, .unknown)
  | "tfluff_phase" :: rest =>
    match kvInt rest "now", (kv rest "ats").bind (parseClock st) with
    | some now, some m =>
      let (p, r) := st.pool.fluffPhaseT st.ctx st.dcfg st.tep m now
      ({ st with pool := p }, cmpModel (showRes r) impl)
    | _, _ => (st, .unknown)
  | "texpire" :: rest =>
    -- the draw `gen_range(0, 31)` is not observable: the harness places entries outside the band,
    -- both ends of the band must give the same pool
    match kvInt rest "now", (kv rest "ats").bind (parseClock st) with
    | some now, some m =>
      let p0 := st.pool.expireEntriesT st.ctx st.dcfg m now 0
      let p30 := st.pool.expireEntriesT st.ctx st.dcfg m now 30
      if p0 == p30 then ({ st with pool := p0 }, cmpModel "ok" impl)
      else (st, .diff "outcome-depends-on-the-draw")
    | _, _ => (st, .unknown)
  | "tmonitor" :: rest =>
    -- one pass of the real monitor thread, all its readings within the second of `now`
    match kvInt rest "now", (kv rest "ats").bind (parseClock st) with
    | some now, some m =>
      let i0 : PassIn := { nowF := now, nowE := now, nowN := now, rollEmbargo := 0, rollStem := 0 }
      let i1 : PassIn := { i0 with rollEmbargo := 30, rollStem := 99 }
      let (p0, e0) := st.pool.monitorPassT st.ctx st.dcfg st.tep m i0
      let (p1, e1) := st.pool.monitorPassT st.ctx st.dcfg st.tep m i1
      if p0 == p1 && e0 == e1 then
        ({ st with pool := p0, tep := e0 },
          cmpModel s!"stem={if e0.isStem then 1 else 0},expired={e0.isExpired st.dcfg now}" impl)
      else (st, .diff "outcome-depends-on-the-draws")
    | _, _ => (st, .unknown)
  | "tblock_truncate" :: rest =>
    match kvInt rest "now", kvNat rest "period", (kv rest "ats").bind (fun s => (listItems s).mapM String.toInt?) with
    | some now, some period, some ats =>
      ({ st with pool := st.pool.blockTruncate ats now period }, cmpModel "ok" impl)
    | _, _, _ => (st, .unknown)
  | _ => (st, .unknown)

end GV.Drv.PoolD
