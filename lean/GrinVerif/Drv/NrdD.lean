import GrinVerif.Drv.Common
import GrinVerif.Model.NrdIndex
/-! Driver glue for the `nrd` domain (property C13, clause "relative locks on every fork"): folds
the model of the NRD recent-kernel index (`Model/NrdIndex.lean`, a transliteration of
chain/src/linked_list.rs and its callers in txhashset.rs) *and* the per-excess list specification
over the op lines of `harness/src/bin/nrd.rs`.

Batches: `nrd new` starts a fresh store; `begin` opens a top-level batch on the committed store,
`child` a nested one, `commit` / `rollback` close the innermost.  Every other op works on the
innermost open batch.

Ops on the real `MultiIndex<CommitPos>`: `push e pos height`, `pop e`, `popback e`, `rewind e pos`,
`prune e cutoff` (`unimplemented!()` in the Rust: `panic`), `pruneback e cutoff` (the harness's loop
over the real `pop_pos_back`), `clear`; `raw-put-entry e pos H|T|M p h next prev`, `raw-put-list e S|M a b`, `raw-del-entry e pos`,
`raw-del-list e` (run `corrupt`: records written / deleted behind the index's back, after which
only the model of the code is compared — its error branches); `block-apply height prevSize size [e:rel:pos,…]` /
`rebuild-walk [h:size,…] [e:rel:pos,…]` (`verify_kernel_pos_index` from the first header: what
the real `Chain::init` ran at a restart; model `verifyKernelPosIndexWalk` with the header walk,
specification: every kernel at the height of the first header whose size reaches it);
`block-rewind …` (the loops of `apply_kernels`+`apply_kernel_rules` / `rewind_single_block`; run
`ops`: transliterated in the harness over the real primitives; run `chain`: what the real
`Chain::process_block` did, reconstructed from the head movement).

Observations: `peek e`, `list e` (walk from the head along `next`), `back e` (walk from the tail
along `prev`) are values the property fixes — the occurrences of the excess on this fork, most
recent first — and are compared with the specification state (`cmpSpec`), then with the model;
`wrapper e` and `raw` (every record of both key spaces, stale ones included) are internal
(`cmpModel`).  Results of operations are compared with the specification's result first, then
with the model's. -/
namespace GV.Drv.NrdD
open GV GV.Drv GV.Nrd

abbrev Ex := String

structure Layer where
  kv : KV Ex := {}
  sp : Spec Ex := fun _ => []
  /-- records were written behind the index's back (`raw-*` ops of run `corrupt`): the list
  specification no longer applies, only the model of the code is compared -/
  corrupt : Bool := false

structure St where
  committed : Layer := {}
  stack : List Layer := []

instance : Inhabited St := ⟨{}⟩

def showCP (p : CommitPos) : String := s!"{p.pos}:{p.height}"

def showOptCP : Option CommitPos → String
  | none => "none"
  | some p => showCP p

def showCPList (l : List CommitPos) : String := "[" ++ ",".intercalate (l.map showCP) ++ "]"

def showRes {α : Type} (f : α → String) : Except Err α → String
  | .ok a => f a
  | .error e => if e == .panicUnimplemented then "panic" else "err:" ++ e.name

def showWrapper : Option ListWrapper → String
  | none => "none"
  | some (.single p) => s!"S({showCP p})"
  | some (.multi h t) => s!"M({h},{t})"

def showEntry : ListEntry → String
  | .head p n => s!"H({showCP p},{n})"
  | .tail p v => s!"T({showCP p},{v})"
  | .middle p n v => s!"M({showCP p},{n},{v})"

def showRaw (kv : KV Ex) : String :=
  let ls := kv.lists.mergeSort (fun a b => decide (a.1 ≤ b.1))
  let es := kv.entries.mergeSort (fun a b => decide (a.1.1 < b.1.1) || (a.1.1 == b.1.1 && decide (a.1.2 ≤ b.1.2)))
  "K{" ++ ";".intercalate (ls.map fun (e, w) => s!"{e}={showWrapper (some w)}") ++ "} k{" ++
    ";".intercalate (es.map fun ((e, p), en) => s!"{e}@{p}={showEntry en}") ++ "}"

/-- `abs` with the walk capped at 1000 steps (as the harness caps its walk over the real store) -/
def absShow (kv : KV Ex) (e : Ex) : List CommitPos :=
  match kv.getList e with
  | none => []
  | some (.single pos) => [pos]
  | some (.multi head _) => walkFrom kv e 1000 head

/-- `e:rel:pos` (`rel` = `-` for a kernel that is not NRD) -/
def parseKernel (s : String) : Option (Kernel Ex × Nat) :=
  match s.splitOn ":" with
  | [e, r, p] =>
    match nat? p with
    | none => none
    | some pos =>
      if r = "-" then some (⟨e, none⟩, pos)
      else (nat? r).map fun rel => (⟨e, some rel⟩, pos)
  | _ => none

def parseKernels (s : String) : Option (List (Kernel Ex × Nat)) :=
  let inner := (s.drop 1).dropEnd 1 |>.toString
  if inner.isEmpty then some [] else (inner.splitOn ",").mapM parseKernel

/-- `[h:size,h:size,…]` -/
def parseHdrs (s : String) : Option (List (Nat × Nat)) :=
  let inner := (s.drop 1).dropEnd 1 |>.toString
  if inner.isEmpty then some [] else (inner.splitOn ",").mapM fun t =>
    match t.splitOn ":" with
    | [h, z] => match nat? h, nat? z with
      | some h, some z => some (h, z)
      | _, _ => none
    | _ => none

/-- the specification of a rebuild, formulated independently of the walk: every NRD kernel at the
height of the first header whose kernel MMR size reaches its position -/
def sRebuild (hdrs : List (Nat × Nat)) : Spec Ex → List (Kernel Ex × Nat) → SOut Ex Unit
  | S, [] => ⟨S, .ok ()⟩
  | S, (k, pos) :: rest =>
    match k.nrd with
    | none => sRebuild hdrs S rest
    | some _ =>
      match hdrs.find? (fun h => decide (pos ≤ h.2)) with
      | none => ⟨S, .error .headerNotFound⟩
      | some h =>
        match sApplyKernelRules S k ⟨pos, h.1⟩ with
        | ⟨S', .error err⟩ => ⟨S', .error err⟩
        | ⟨S', .ok _⟩ => sRebuild hdrs S' rest

/-- spec answer first (a deviation from it is a failing input), then the model's -/
def verdict2 (spec model impl : String) : Verdict :=
  if spec ≠ impl then .fail spec else if model ≠ impl then .diff model else .ok

def unitStr (_ : Unit) : String := "ok"

/-- replace the innermost open batch -/
def setTop (st : St) (l : Layer) : St :=
  match st.stack with
  | [] => st
  | _ :: r => { st with stack := l :: r }

def handle (st : St) (args : List String) (impl : String) : St × Verdict :=
  match args with
  | ["new"] => ({}, cmpModel "ok" impl)
  | ["begin"] =>
    match st.stack with
    | [] => ({ st with stack := [st.committed] }, cmpModel "ok" impl)
    | _ => (st, .unknown)
  | ["child"] =>
    match st.stack with
    | [] => (st, .unknown)
    | t :: r => ({ st with stack := t :: t :: r }, cmpModel "ok" impl)
  | ["commit"] =>
    match st.stack with
    | [] => (st, .unknown)
    | [t] => ({ committed := t, stack := [] }, cmpSpec "ok" impl)
    | t :: _ :: r => ({ st with stack := t :: r }, cmpSpec "ok" impl)
  | ["rollback"] =>
    match st.stack with
    | [] => (st, .unknown)
    | _ :: r => ({ st with stack := r }, cmpSpec "ok" impl)
  | _ =>
  match st.stack with
  | [] => (st, .unknown)
  | top :: _ =>
  let kv := top.kv
  let sp := top.sp
  let mk (kv' : KV Ex) (sp' : Spec Ex) : Layer := ⟨kv', sp', top.corrupt⟩
  let verdict2 (spec model impl : String) : Verdict :=
    if top.corrupt then cmpModel model impl else verdict2 spec model impl
  match args with
  | ["raw-put-entry", e, p, kind, cp, ch, a, b] =>
    match nat? p, nat? cp, nat? ch, nat? a, nat? b with
    | some p, some cp, some ch, some a, some b =>
      let en : Option ListEntry :=
        if kind = "H" then some (.head ⟨cp, ch⟩ a) else if kind = "T" then some (.tail ⟨cp, ch⟩ b)
        else if kind = "M" then some (.middle ⟨cp, ch⟩ a b) else none
      match en with
      | some en => (setTop st ⟨kv.putEntry e p en, sp, true⟩, cmpModel "ok" impl)
      | none => (st, .unknown)
    | _, _, _, _, _ => (st, .unknown)
  | ["raw-put-list", e, kind, a, b] =>
    match nat? a, nat? b with
    | some a, some b =>
      let w : Option ListWrapper :=
        if kind = "S" then some (.single ⟨a, b⟩) else if kind = "M" then some (.multi a b) else none
      match w with
      | some w => (setTop st ⟨kv.putList e w, sp, true⟩, cmpModel "ok" impl)
      | none => (st, .unknown)
    | _, _ => (st, .unknown)
  | ["raw-del-entry", e, p] =>
    match nat? p with
    | some p => (setTop st ⟨kv.delEntry e p, sp, true⟩, cmpModel "ok" impl)
    | none => (st, .unknown)
  | ["raw-del-list", e] => (setTop st ⟨kv.delList e, sp, true⟩, cmpModel "ok" impl)
  | ["push", e, p, h] =>
    match nat? p, nat? h with
    | some p, some h =>
      let o := pushPos kv e ⟨p, h⟩
      let s := sPush sp e ⟨p, h⟩
      (setTop st (mk o.kv s.st), verdict2 (showRes unitStr s.res) (showRes unitStr o.res) impl)
    | _, _ => (st, .unknown)
  | ["pop", e] =>
    let o := popPos kv e
    let s := sPop sp e
    (setTop st (mk o.kv s.st), verdict2 (showRes showOptCP s.res) (showRes showOptCP o.res) impl)
  | ["popback", e] =>
    let o := popPosBack kv e
    let s := sPopBack sp e
    (setTop st (mk o.kv s.st), verdict2 (showRes showOptCP s.res) (showRes showOptCP o.res) impl)
  | ["rewind", e, r] =>
    match nat? r with
    | some r =>
      let o := rewind kv e r
      let s := sRewind sp e r
      (setTop st (mk o.kv s.st), verdict2 (showRes unitStr s.res) (showRes unitStr o.res) impl)
    | none => (st, .unknown)
  | ["pruneback", e, c] =>
    match nat? c with
    | some c =>
      let o := pruneBack kv e c
      let s := sPruneBack sp e c
      (setTop st (mk o.kv s.st), verdict2 (showRes unitStr s.res) (showRes unitStr o.res) impl)
    | none => (st, .unknown)
  | ["prune", e, c] =>
    match nat? c with
    | some c =>
      let o := prune kv e c
      (setTop st (mk o.kv sp), cmpModel (showRes unitStr o.res) impl)
    | none => (st, .unknown)
  | ["clear"] =>
    let o := clear kv
    let s := sClear sp
    (setTop st (mk o.kv s.st), verdict2 (showRes unitStr s.res) (showRes unitStr o.res) impl)
  | ["block-apply", h, ps, sz, ks] =>
    match nat? h, nat? ps, nat? sz, parseKernels ks with
    | some h, some ps, some sz, some ks =>
      let b : Blk Ex := ⟨h, ps, sz, ks⟩
      let o := applyBlock kv b
      let s := sApplyBlock sp b
      (setTop st (mk o.kv s.st), verdict2 (showRes unitStr s.res) (showRes unitStr o.res) impl)
    | _, _, _, _ => (st, .unknown)
  | ["block-rewind", h, ps, sz, ks] =>
    match nat? h, nat? ps, nat? sz, parseKernels ks with
    | some h, some ps, some sz, some ks =>
      let b : Blk Ex := ⟨h, ps, sz, ks⟩
      let o := rewindSingleBlock kv b
      let s := sRewindSingleBlock sp b
      (setTop st (mk o.kv s), verdict2 "ok" (showRes unitStr o.res) impl)
    | _, _, _, _ => (st, .unknown)
  | ["rebuild-walk", hs, ks] =>
    match parseHdrs hs, parseKernels ks with
    | some (h0 :: later), some ks =>
      let o := verifyKernelPosIndexWalk kv h0 later ks
      let s := sRebuild (h0 :: later) (fun _ => []) ks
      (setTop st (mk o.kv s.st), verdict2 (showRes unitStr s.res) (showRes unitStr o.res) impl)
    | _, _ => (st, .unknown)
  | ["peek", e] =>
    (st, verdict2 (showOptCP (sPeek sp e)) (showRes showOptCP (peekPos kv e)) impl)
  | ["list", e] =>
    (st, verdict2 (showCPList (sp e)) (showCPList (absShow kv e)) impl)
  | ["back", e] =>
    (st, verdict2 (showCPList (sp e).reverse) (showCPList (absBack kv e 1000)) impl)
  | ["wrapper", e] => (st, cmpModel (showWrapper (kv.getList e)) impl)
  | ["raw"] => (st, cmpModel (showRaw kv) impl)
  | _ => (st, .unknown)

end GV.Drv.NrdD
