import GrinVerif.Drv.Common
/-! Driver glue for the `nrd` domain (stub; the domain's owner fills it in). -/
namespace GV.Drv.NrdD
open GV GV.Drv

structure St where
  dummy : Nat := 0

def handle (st : St) (_args : List String) (_impl : String) : St × Verdict := (st, .unknown)

end GV.Drv.NrdD
