import GrinVerif.Drv.Common
import GrinVerif.Model.Conc
import GrinVerif.Model.TxCount
import GrinVerif.Gen.Locks
import GrinVerif.Model.ConcNode
import GrinVerif.Gen.LocksNode
/-! Driver glue for the `conc` domain (C17). The tie of this property to the code is mostly the
regenerated lock table; the lines handled here connect the harness to that table:

* `conc opclass <op> => <class>`: the lock class the harness assumes for an op it drives
  (`lockfree` / `read-hp` / `read-ts` / `write`) against the class computed from the table;
* `conc views <op> => <n>`: how many separate views of the chain state the op combines according to
  the regenerated table (`GV.Conc.views`): the harness states the count for every op it applies a
  one-view oracle to (must be 1) and for the multi-view readers it only classifies;
* `conc resets round=… phase=… top=… => ok`: run `resets` (reset_chain_head / the PIBD-failure sequence
  under one-view readers);
* `conc sim seed=<n> progs=<op+op+…,op+…,…> => finished`: the per-thread op sequences the harness
  really ran, replayed as lock-event programs from the table on the model's transition system
  under strict writer preference with 3 pseudo-random schedules: the real threads finished, the
  model must not get stuck either (and the programs must pass `respectsOrder`);
* `conc pair seed=<n> progs=<opsA>,<opsB> => finished`: run `matrix` — one line per pair of public ops run
  against each other on the real Chain (each op twice per thread); replayed like `conc sim`;
  `conc matrix ops=… pairs=… => ok`: the node is where it was after all pairs and validates;
* `conc selftest <which> => hang|finished`: tiny two-thread programs run by the harness on the real
  parking_lot lock objects of a Chain (inversion, ordered control, read-after-read with and without a
  writer arriving in between) against exhaustive exploration of the model — this is the check that
  the lock semantics assumed by the model (non re-entrant, waiting writer blocks readers) are the
  real ones;
* `conc tablecheck => ok`: names the ops violating the decided table obligations, if any;
* `conc txcount threads=<n> reads=<k> seed=<s> => completed|stalled…`: the watchdog run on the
  store's open-transaction counter (n threads × k short read transactions concurrently with a
  writer, all joined, then a writer that crosses the resize threshold twice): the model
  (`Model/TxCount.lean`, atomic alphabet, a seeded interleaving of n × min(k, 48) enter/leave pairs
  with a resize falling due) predicts `completed` — the counter is back to 0 and the resize runs
  (`count_eq_open`); a stall of the real store is a `#ORACLE-FAIL` of the harness and a DIFF here;
* `conc nestread outer=<iter|batch|child> nested=<get|exists|iter> n=<k> pending=<before|between|after>
  sched=<e0,e0,l0,q,…> => completed:resizes=1`: run `nestread` — a thread holding an outer store
  transaction performs k consecutive nested reads while another thread's `batch()` has scheduled a
  resize; `sched` is the enter/leave/request/resize sequence the harness went through (every
  operation returned, watchdog); replayed on the counter model with per-thread depth
  (`Model/TxCount.lean`, `nested_reads_keep_registered`): the model must take every step;
* `conc segcache round=… archive_height=… fork_from=… top=… => ok`: run `segcache` — after a reorg
  rooted below the archive header (same archive height, other archive header) a fresh node was
  state-synced from the segments `Chain::segmenter()` serves; the expected answer is `ok` (every
  segment validated against the current archive header, the assembled state has its roots); the
  tree and the deliveries of that run also go through the `chain` domain;
* `conc pibd round=… episode=… archive_height=… top=… fork_headers=… heights=b/o/r/k => ok`: run `pibd` —
  a node received its state through `Chain::desegmenter()` from a sync thread and two peer threads
  (genuine, duplicate and malformed segments) while a header-gossip thread and readers used the same
  Chain; expected `ok`; the `conc sim` line of the episode replays the `Desegmenter::…` entries of
  the regenerated table (each under the caller's `pibd_desegmenter.write()`) together with the
  chain ops of the other threads; the final state goes through the `chain` domain;
* (session 9, node level) `conc nodeclass <entry> => <lock.mode,…>`: the set of locks (with modes, in
  first-acquisition order) the harness run `node` assumes an entry point of the NODE-level table takes
  (`Gen/LocksNode.lean`, regenerated from servers/src/common/adapters.rs, pool/src, chain/src/types.rs,
  mine_block.rs, dandelion_monitor.rs) against `locksTaken` over the table;
  `conc nodesim seed=<n> progs=<entry+entry+…,…> => finished`: the per-thread sequences of node-level
  entry points the harness really ran on ONE node (real `ServerTxPool`, real adapters, real Chain),
  replayed as lock programs over the node alphabet on the generic transition system under strict writer
  preference (3 schedules); the programs must be well bracketed and their order graph must pass the
  acyclicity certificate (`acyclicB`);
  `conc nodetablecheck => ok`: the whole node table is well bracketed and its order graph certified
  (names the offending entries / prints the graph otherwise);
  `conc node round=… => ok`: the run's verdict (no stall, no panic, pool consistent with the chain);
* `conc torn round=… overtakes=… => ok`, `conc hdrmono round=… light=… => ok`: runs of binary `conctorn`
  (increment 2): verdicts of the torn-read history and of the lighter-fork header sync;
* the final (head, unspent set) of a concurrent run is compared by the `chain` domain
  (`chain obs <twin> => …`), not here. -/
namespace GV.Drv.ConcD
open GV GV.Drv GV.Conc

structure St where
  sims : Nat := 0

def kvArg (args : List String) (k : String) : Option String :=
  (args.find? (·.startsWith (k ++ "="))).map (fun a => (a.drop (k.length + 1)).toString)

def progOf (names : List String) : Option (List LockEv) :=
  (names.mapM (fun n => GV.Gen.lockTable.lookup n)).map List.flatten

def simAll (progs : List (List LockEv)) (seed : Nat) : String :=
  if !(progs.all respectsOrder) then "order-violated"
  else
    let total := (progs.map List.length).sum
    let s0 : State Lock := init progs
    let r := [seed, seed + 7919, seed * 31 + 1].filterMap (fun sd => simulate (total + 1) sd s0)
    match r with
    | [] => "finished"
    | i :: _ => s!"model-stuck-thread-{i}"

/-- names of the ops of the regenerated table that violate one of the decided obligations
(the same predicates as the `table_*` theorems of Props/C17; here only to NAME the offending
function in the check's report when such a theorem stops checking) -/
def tableViolations : String :=
  let bad (f : List LockEv → Bool) := (GV.Gen.lockTable.filter (fun e => !f e.2)).map (·.1)
  let o := bad respectsOrder
  -- the one named exception (Props/C17 `desegmenter_check_progress_commits_unlocked`): a batch
  -- holding `pibd_head` only, committed under the caller's pibd_desegmenter guard
  let c := (bad commitsUnderWriteLock).filter (fun n => n != "Desegmenter::check_progress")
  let k := bad callbacksUnlocked
  if o.isEmpty && c.isEmpty && k.isEmpty then "ok"
  else s!"violations:order{o};commit-outside-write-lock{c};callback-under-lock{k}"

/-- everything a node thread can run (the same list as `Props/C17Node.fullNodeTable`) -/
def nodeAll : List (String × List NodeEv) := GV.Gen.nodeTable ++ GV.Gen.chainTableN

def nodeProgOf (names : List String) : Option (List NodeEv) :=
  (names.mapM (fun n => nodeAll.lookup n)).map List.flatten

def nodeSimAll (progs : List (List NodeEv)) (seed : Nat) : String :=
  if !(progs.all (bracketedFrom [])) then "not-bracketed"
  else if !(acyclicB (dedup (progs.flatMap (edgesFrom [])))) then "order-graph-cyclic"
  else
    let total := (progs.map List.length).sum
    let s0 : State NLock := init progs
    let r := [seed, seed + 7919, seed * 31 + 1].filterMap (fun sd => simulateG (total + 1) sd s0)
    match r with
    | [] => "finished"
    | i :: _ => s!"model-stuck-thread-{i}"

def nodeTableViolations : String :=
  let nb := (nodeAll.filter (fun e => !bracketedFrom [] e.2)).map (·.1)
  let g := orderGraph nodeAll
  if nb.isEmpty && acyclicB g then "ok"
  else s!"violations:not-bracketed{nb};graph{g.map (fun e => e.1.name ++ ">" ++ e.2.name)}"

def handle (st : St) (args : List String) (impl : String) : St × Verdict :=
  match args with
  | ["nodetablecheck"] => (st, cmpModel nodeTableViolations impl)
  | ["nodeclass", op] =>
    match nodeAll.lookup op with
    | some p => (st, cmpModel (",".intercalate (locksTaken p)) (if impl == "-" then "" else impl))
    | none => (st, .diff "entry-not-in-node-table")
  | "nodesim" :: rest =>
    match (kvArg rest "seed").bind String.toNat?, kvArg rest "progs" with
    | some seed, some ps =>
      let threads := (ps.splitOn ",").map (fun t => (t.splitOn "+").filter (fun x => !x.isEmpty))
      match threads.mapM nodeProgOf with
      | some progs => ({ st with sims := st.sims + 1 }, cmpModel (nodeSimAll progs seed) impl)
      | none => (st, .diff "entry-not-in-node-table")
    | _, _ => (st, .unknown)
  | "torn" :: rest =>
    -- run `torn` (conctorn): same commitments at different MMR positions on two forks overtaking each other,
    -- readers polling; the answer demanded by the property is `ok` (every answer is the answer in some
    -- committed state); the ops polled are checked against the table by `conc views` lines and by
    -- Props/C17Lookups.polled_readers_one_hold_nothing_outside
    match kvArg rest "round", kvArg rest "overtakes" with
    | some _, some _ => (st, cmpModel "ok" impl)
    | _, _ => (st, .unknown)
  | "hdrmono" :: rest =>
    -- run `hdrmono`: header-sync chunks of a lighter fork racing readers; header head work monotone
    match kvArg rest "round", kvArg rest "light" with
    | some _, some _ => (st, cmpModel "ok" impl)
    | _, _ => (st, .unknown)
  | "node" :: rest =>
    match kvArg rest "round", kvArg rest "threads" with
    | some _, some _ => (st, cmpModel "ok" impl)
    | _, _ => (st, .unknown)
  | ["tablecheck"] => (st, cmpModel tableViolations impl)
  | ["selftest", which] =>
    -- the harness ran these tiny programs on the REAL lock objects of a Chain (through the Arcs of
    -- Chain::txhashset()/header_pmmr()); the model says whether a deadlock is reachable
    let progs : Option (List (List LockEv)) := match which with
      | "inversion" => some [[.acq .ts .W, .acq .hp .W, .rel .hp, .rel .ts], [.acq .hp .W, .acq .ts .W, .rel .ts, .rel .hp]]
      | "ordered" => some [[.acq .hp .W, .acq .ts .W, .rel .ts, .rel .hp], [.acq .hp .W, .acq .ts .W, .rel .ts, .rel .hp]]
      | "reread" => some [[.acq .ts .R, .acq .ts .R, .rel .ts], [.mark .callback, .acq .ts .W, .rel .ts]]
      | "reread-nowriter" => some [[.acq .ts .R, .acq .ts .R, .rel .ts], [.acq .hp .W, .rel .hp]]
      | _ => none
    match progs with
    | some ps => (st, cmpModel (if deadlockReachable 64 (init ps) then "hang" else "finished") impl)
    | none => (st, .unknown)
  | ["views", op] =>
    -- the number of separate views of the chain state the op combines (`GV.Conc.views` over the table)
    match GV.Gen.lockTable.lookup op with
    | some p => (st, cmpModel (toString (views p)) impl)
    | none => (st, .diff "op-not-in-lock-table")
  | "resets" :: rest =>
    match kvArg rest "round", kvArg rest "phase" with
    | some _, some _ => (st, cmpModel "ok" impl)
    | _, _ => (st, .unknown)
  | ["opclass", op] =>
    match GV.Gen.lockTable.lookup op with
    | some p => (st, cmpModel (opClass p) impl)
    | none => (st, .diff "op-not-in-lock-table")
  | "orphans" :: rest =>
    -- orphan pool beyond MAX_ORPHAN_SIZE under concurrent deliveries: bound, conservation, cascade,
    -- final state (the state itself goes through the `chain` domain)
    match kvArg rest "round", kvArg rest "blocks" with
    | some _, some _ => (st, cmpModel "ok" impl)
    | _, _ => (st, .unknown)
  | "matrix" :: rest =>
    match kvArg rest "ops", kvArg rest "pairs" with
    | some _, some _ => (st, cmpModel "ok" impl)
    | _, _ => (st, .unknown)
  | "sim" :: rest | "pair" :: rest =>
    match (kvArg rest "seed").bind String.toNat?, kvArg rest "progs" with
    | some seed, some ps =>
      let threads := (ps.splitOn ",").map (fun t => (t.splitOn "+").filter (fun x => !x.isEmpty))
      match threads.mapM progOf with
      | some progs => ({ st with sims := st.sims + 1 }, cmpModel (simAll progs seed) impl)
      | none => (st, .diff "op-not-in-lock-table")
    | _, _ => (st, .unknown)
  | "nestread" :: rest =>
    match (rest.find? (·.startsWith "sched=")).map (fun a => (a.drop 6).toString) with
    | some sc => match (sc.splitOn ",").mapM GV.TxCount.parseAct with
      | some acts => (st, cmpModel (GV.TxCount.replay 2 acts) impl)
      | none => (st, .unknown)
    | none => (st, .unknown)
  | "segcache" :: rest =>
    match kvArg rest "archive_height", kvArg rest "fork_from" with
    | some _, some _ => (st, cmpModel "ok" impl)
    | _, _ => (st, .unknown)
  | "tie" :: rest =>
    -- equal-work headers / blocks delivered header-first (run `tie`): the answer demanded by the
    -- property is `ok` (every one-view read of the header MMR consistent with the db header head,
    -- state = sequential twin, restart and validation pass); the twin's deliveries, the states and
    -- the restart go through the `chain` domain (`chain hdr` / `deliver` / `obs` / `reopen`)
    match kvArg rest "round", kvArg rest "pairs" with
    | some _, some _ => (st, cmpModel "ok" impl)
    | _, _ => (st, .unknown)
  | "zipwin" :: rest =>
    -- install of a zipped state (`Chain::txhashset_write`) while readers hold one-view reads: the
    -- answer demanded by the property is `ok` (install replaced the state, every view consistent)
    match kvArg rest "archive_height", kvArg rest "top" with
    | some _, some _ => (st, cmpModel "ok" impl)
    | _, _ => (st, .unknown)
  | "pibd" :: rest =>
    -- the expected answer is `ok` (the sync completed, the received state validated, and after the
    -- body sync the node is where the source node is); the state itself is compared by the `chain`
    -- domain (`chain obs pb<round> => <state of the state-synced node>`)
    match kvArg rest "archive_height", kvArg rest "heights" with
    | some _, some _ => (st, cmpModel "ok" impl)
    | _, _ => (st, .unknown)
  | "txcount" :: rest =>
    match (kvArg rest "threads").bind String.toNat?, (kvArg rest "reads").bind String.toNat?,
          (kvArg rest "seed").bind String.toNat? with
    | some n, some k, some seed =>
      if n = 0 || k = 0 then (st, .unknown)
      else (st, cmpModel (GV.TxCount.predict n (min k 48) seed) impl)
    | _, _, _ => (st, .unknown)
  | _ => (st, .unknown)

end GV.Drv.ConcD
