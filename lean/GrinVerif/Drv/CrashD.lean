import GrinVerif.Drv.Common
import GrinVerif.Model.Crash
import GrinVerif.Model.CrashCompact
import GrinVerif.Model.CrashRecov
import GrinVerif.Model.CrashZip
import GrinVerif.Model.CrashKernel
import GrinVerif.Model.CrashAof
import GrinVerif.Model.CrashMulti
import GrinVerif.Model.CrashGenesis
/-! Driver glue for the `crash` domain (C09): the real step labels of a scenario are interpreted
as model steps, the durable state at each crash point is computed by the model and `recover`
predicts how the node reopens. -/
namespace GV.Drv.CrashD
open GV GV.Drv GV.Crash

structure Scn where
  name : String
  kind : String
  input : Option Nat
  oldHead : Nat
  labels : List String := []
  /-- all inputs (header batches, orphan chains) -/
  inputs : List Nat := []
  /-- header head of the base state (ahead of the body head when headers were delivered first) -/
  oldHHead : Nat := 0
  /-- the restart's crash-point labels, per first crash point -/
  rlabels : List (Nat × List String) := []
  /-- head height at which the base state was compacted (scenarios on a compacted node) -/
  compactedAt : Option Nat := none

structure St where
  tbl : List BlkInfo := []
  scns : List Scn := []
  /-- `crash aof`: element kind (`var` / `fix<n>`), durable content of the file pair, the open file -/
  akind : String := "var"
  /-- `crash startup`: crash-point labels of the first start on an empty directory -/
  glabels : List String := []
  adisk : CrashAof.Disk := { size := [], data := [] }
  aof : Option CrashAof.Aof := none

def stripPfx (s : String) (n : Nat) : String := (s.drop n).toString
def idOf (s : String) : Option Nat := (((stripPfx s 1).splitOn ":").headD "").toNat?
def kv (args : List String) (k : String) : Option String :=
  (args.find? (·.startsWith (k ++ "="))).map (fun a => stripPfx a (k.length + 1))
def listItems (s : String) : List String :=
  let inner := (s.drop 1).dropEnd 1 |>.toString
  if inner.isEmpty then [] else inner.splitOn ","

def parseBlk (id : String) (args : List String) : Option BlkInfo := do
  let bid ← idOf id
  let parS ← kv args "parent"
  let parent := if parS == "-" then none else idOf parS
  let work ← (← kv args "work").toNat?
  let ins ← (listItems (← kv args "ins")).mapM idOf
  let outs ← (listItems (← kv args "outs")).mapM idOf
  pure { id := bid, parent, work, outs, ins }

/-- model step(s) a real label has completed -/
def stepOfLabel (l : String) : Option Step :=
  if l.startsWith "aof.flush:after-truncate[header_head/pmmr_hash.bin]" then some .hdrHashTrunc
  else if l.startsWith "aof.flush:after-append[header_head/pmmr_hash.bin]" then some .hdrHashApp
  else if l.startsWith "aof.flush:after-truncate[header_head/pmmr_data.bin]" then some .hdrDataTrunc
  else if l.startsWith "aof.flush:after-append[header_head/pmmr_data.bin]" then some .hdrDataApp
  else if l.startsWith "aof.flush:after-truncate[output/pmmr_hash.bin]" then some .outHashTrunc
  else if l.startsWith "aof.flush:after-append[output/pmmr_hash.bin]" then some .outHashApp
  else if l.startsWith "aof.flush:after-truncate[output/pmmr_data.bin]" then some .outDataTrunc
  else if l.startsWith "aof.flush:after-append[output/pmmr_data.bin]" then some .outDataApp
  else if l.startsWith "tmpfile:after-rename[output/pmmr_leaf.bin]" then some .leafRename
  else if l.startsWith "aof.flush:after-truncate[kernel/pmmr_hash.bin]" then some .kerHashTrunc
  else if l.startsWith "aof.flush:after-append[kernel/pmmr_hash.bin]" then some .kerHashApp
  else if l.startsWith "aof.flush:after-truncate[kernel/pmmr_data.bin]" then some .kerDataTrunc
  else if l.startsWith "aof.flush:after-append[kernel/pmmr_data.bin]" then some .kerDataApp
  else none

/-- the LMDB commits of one acceptance, in order: nested child, header commit, nested child,
final commit (a header-only input stops after the second) -/
def commitStep (k : Nat) : Step :=
  match k with
  | 1 => .hdrCommit
  | 3 => .finalCommit
  | _ => .childCommit

/-- interpret the first `n` labels -/
def stepsOfLabels (labels : List String) (n : Nat) : List Step :=
  let rec go : List String → Nat → List Step → List Step
    | [], _, acc => acc.reverse
    | l :: ls, commits, acc =>
      if l.startsWith "lmdb:after-commit" then go ls (commits + 1) (commitStep commits :: acc)
      else match stepOfLabel l with
        | some s => go ls commits (s :: acc)
        | none => go ls commits acc
  go (labels.take n) 0 []

def commonPrefixLen : List BlkInfo → List BlkInfo → Nat
  | a :: as, b :: bs => if a.id == b.id then 1 + commonPrefixLen as bs else 0
  | _, _ => 0

def predict (st : St) (sc : Scn) (n : Nat) : Option String := do
  let input ← sc.input
  let oldPath ← pathOf st.tbl (st.tbl.length + 1) sc.oldHead []
  let newPath ← pathOf st.tbl (st.tbl.length + 1) input []
  let b ← st.tbl.find? (·.id == input)
  let oldWork := ((st.tbl.find? (·.id == sc.oldHead)).map (·.work)).getD 0
  let moves := b.work > oldWork
  let t : Target := { newPath, forkLen := commonPrefixLen oldPath newPath, movesHHead := moves,
                      movesHead := moves && sc.kind == "block" }
  let d := (stepsOfLabels sc.labels n).foldl (applyStep t) (consistent oldPath)
  -- AutomatedTesting: a hard fork every 3 blocks, header version 3 from height 6
  match recover (fun h => decide (h ≥ 6)) st.tbl d with
  | .openFail why => pure s!"open=err:{why.toString}"
  | .ok h => pure s!"open=ok head=b{h}"

/-- block acceptance on a node that has just been compacted (scenario compaction-then-block) -/
def predictCompacted (st : St) (sc : Scn) (n : Nat) : Option String := do
  let input ← sc.input
  let oldPath ← pathOf st.tbl (st.tbl.length + 1) sc.oldHead []
  let newPath ← pathOf st.tbl (st.tbl.length + 1) input []
  let b ← st.tbl.find? (·.id == input)
  let oldWork := ((st.tbl.find? (·.id == sc.oldHead)).map (·.work)).getD 0
  let moves := b.work > oldWork
  let t : Target := { newPath, forkLen := commonPrefixLen oldPath newPath, movesHHead := moves,
                      movesHead := moves && sc.kind == "block" }
  let hh := oldPath.length - 1
  let start := consistentC oldPath (prunedAt oldPath (hh - 20)) (compactTail hh 20 20 10)
  let base := (stepsOfLabels sc.labels n).foldl (applyStep t) start.base
  match recoverC (fun h => decide (h ≥ 6)) st.tbl { start with base := base } with
  | .openFail why => pure s!"open=err:{why.toString}"
  | .ok h => pure s!"open=ok head=b{h}"

/-! ### new scenarios: several acceptances in one input, headers known in advance, head reset -/

def workOf (st : St) (id : Nat) : Nat := ((st.tbl.find? (·.id == id)).map (·.work)).getD 0

/-- base state of a scenario: body on `oldHead`, header chain on `oldHHead` -/
def baseState (st : St) (sc : Scn) : Option Durable := do
  let oldPath ← pathOf st.tbl (st.tbl.length + 1) sc.oldHead []
  let hhPath ← pathOf st.tbl (st.tbl.length + 1) sc.oldHHead []
  pure { consistent oldPath with dbHHead := sc.oldHHead, hdrHash := hhPath.map (·.id), hdrData := hhPath.map (·.id) }

def isTxStep : Step → Bool
  | .outHashTrunc | .outHashApp | .outDataTrunc | .outDataApp | .leafRename
  | .kerHashTrunc | .kerHashApp | .kerDataTrunc | .kerDataApp => true
  | _ => false

def isHdrStep : Step → Bool
  | .hdrHashTrunc | .hdrHashApp | .hdrDataTrunc | .hdrDataApp => true
  | _ => false

/-- the steps of a sequence of acceptances: an LMDB commit that follows txhashset file steps is the
final commit of the current acceptance (the next acceptance starts), one that follows header MMR
file steps is the header commit, any other commit changes nothing the model holds -/
def stepsMulti (labels : List String) (n : Nat) : List (Nat × Step) :=
  let rec go : List String → Nat → Bool → Bool → List (Nat × Step) → List (Nat × Step)
    | [], _, _, _, acc => acc.reverse
    | l :: ls, idx, sawTx, sawHdr, acc =>
      if l.startsWith "lmdb:after-commit" then
        if sawTx then go ls (idx + 1) false false ((idx, .finalCommit) :: acc)
        else if sawHdr then go ls idx false false ((idx, .hdrCommit) :: acc)
        else go ls idx false false acc
      else match stepOfLabel l with
        | some s => go ls idx (sawTx || isTxStep s) (sawHdr || isHdrStep s) ((idx, s) :: acc)
        | none => go ls idx sawTx sawHdr acc
  go (labels.take n) 0 false false []

/-- targets of the successive acceptances of `inputs` (blocks), starting from head / header head -/
def targetsOf (st : St) : List Nat → Nat → Nat → List Target
  | [], _, _ => []
  | b :: bs, head, hhead =>
    match pathOf st.tbl (st.tbl.length + 1) head [], pathOf st.tbl (st.tbl.length + 1) b [] with
    | some oldPath, some newPath =>
      let mvHH := workOf st b > workOf st hhead
      let mvH := workOf st b > workOf st head
      { newPath, forkLen := commonPrefixLen oldPath newPath, movesHHead := mvHH, movesHead := mvH }
        :: targetsOf st bs (if mvH then b else head) (if mvHH then b else hhead)
    | _, _ => []

/-- durable state at the `n`-th crash point of a scenario made of block acceptances -/
def stateMulti (st : St) (sc : Scn) (n : Nat) : Option Durable := do
  let d0 ← baseState st sc
  let ts := targetsOf st sc.inputs sc.oldHead sc.oldHHead
  (stepsMulti sc.labels n).foldlM (fun d (p : Nat × Step) =>
    match ts[p.1]? with
    | some t => some (applyStep t d p.2)
    | none => none) d0

/-- `Chain::reset_chain_head(target, true)` (chain/src/chain.rs): `extending` rewinds the txhashset
to the target and syncs the three backends, `header_extending` rewinds and syncs the header MMR,
then ONE commit stores both heads -/
def stateReset (st : St) (sc : Scn) (n : Nat) : Option Durable := do
  let d0 ← baseState st sc
  let tgt ← sc.inputs.head?
  let newPath ← pathOf st.tbl (st.tbl.length + 1) tgt []
  let t : Target := { newPath, forkLen := newPath.length, movesHHead := true, movesHead := true }
  let total := (sc.labels.filter (·.startsWith "lmdb:after-commit")).length
  let rec go : List String → Nat → Durable → Durable
    | [], _, d => d
    | l :: ls, commits, d =>
      if l.startsWith "lmdb:after-commit" then
        if commits + 1 == total then go ls (commits + 1) (applyStep t (applyStep t d .hdrCommit) .finalCommit)
        else go ls (commits + 1) d
      else match stepOfLabel l with
        | some s => go ls commits (applyStep t d s)
        | none => go ls commits d
  pure (go (sc.labels.take n) 0 d0)

/-- durable state at the `n`-th crash point (scenarios without compaction) -/
def stateAt (st : St) (sc : Scn) (n : Nat) : Option Durable :=
  if sc.kind == "reset" then stateReset st sc n
  else if sc.kind == "orphans" || sc.oldHHead != sc.oldHead then stateMulti st sc n
  else do
    let input ← sc.inputs.getLast?
    let oldPath ← pathOf st.tbl (st.tbl.length + 1) sc.oldHead []
    let newPath ← pathOf st.tbl (st.tbl.length + 1) input []
    let moves := workOf st input > workOf st sc.oldHead
    let t : Target := { newPath, forkLen := commonPrefixLen oldPath newPath, movesHHead := moves,
                        movesHead := moves && sc.kind == "block" }
    pure ((stepsOfLabels sc.labels n).foldl (applyStep t) (consistent oldPath))

def bcAT : Nat → Bool := fun h => decide (h ≥ 6)

def showRec : Rec → String
  | .openFail why => s!"open=err:{why.toString}"
  | .ok h => s!"open=ok head=b{h}"

/-- number of durable model steps the first `n` labels of a head reset have completed (the last
LMDB commit is the single commit of both heads; the others are nested) -/
def resetDone (labels : List String) (n : Nat) : Nat :=
  let total := (labels.filter (·.startsWith "lmdb:after-commit")).length
  let rec go : List String → Nat → Nat → Nat
    | [], _, j => j
    | l :: ls, commits, j =>
      if l.startsWith "lmdb:after-commit" then
        go ls (commits + 1) (if commits + 1 == total then j + 1 else j)
      else match stepOfLabel l with
        | some _ => go ls commits (j + 1)
        | none => go ls commits j
  go (labels.take n) 0 0

/-- the same crash point through the step lists of `Model/CrashMulti.lean` (the lists the theorems of
`Props/C09Multi.lean` are about): `resetCrashAfter`, `multiCrashAfter .. bodySteps` -/
def stateModelMulti (st : St) (sc : Scn) (n : Nat) : Option Durable := do
  if sc.kind == "reset" then
    let oldPath ← pathOf st.tbl (st.tbl.length + 1) sc.oldHead []
    let tgt ← sc.inputs.head?
    let newPath ← pathOf st.tbl (st.tbl.length + 1) tgt []
    if sc.oldHHead != sc.oldHead then none else
    pure (resetCrashAfter (resetTarget newPath) (consistent oldPath) (resetDone sc.labels n))
  else
    let oldPath ← pathOf st.tbl (st.tbl.length + 1) sc.oldHead []
    let hhPath ← pathOf st.tbl (st.tbl.length + 1) sc.oldHHead []
    let ts := targetsOf st sc.inputs sc.oldHead sc.oldHHead
    let steps := stepsMulti sc.labels n
    -- only acceptances of blocks whose header is known run `bodySteps`
    if steps.any (fun p => isHdrStep p.2 || p.2 == .hdrCommit) then none else
    pure (multiCrashAfter ts (hdrFirst oldPath hhPath) bodySteps steps.length)

def predictAt (st : St) (sc : Scn) (n : Nat) : Option String := do
  let d ← stateAt st sc n
  -- scenarios whose steps `Model/CrashMulti.lean` lists: the state reached through the real labels must
  -- be the state of the model's step list at the same number of completed steps
  let tied := sc.kind == "reset" || ((sc.kind == "orphans" || sc.kind == "block") && sc.oldHHead != sc.oldHead
    && (sc.inputs.all fun b => workOf st b ≤ workOf st sc.oldHHead))
  if tied then
    match stateModelMulti st sc n with
    | some dm => if dm != d then pure "steps-differ-from-model-step-list" else pure (showRec (recover bcAT st.tbl d))
    | none => pure "steps-differ-from-model-step-list"
  else
  pure (showRec (recover bcAT st.tbl d))

/-- kernels per block as the crash harness builds blocks: the coinbase kernel, and one kernel for
the block's single transaction when it spends -/
def kcH (b : BlkInfo) : Nat := if b.ins.isEmpty then 1 else 2

/-- kernel size / data file at the `n`-th crash point (`Model/CrashKernel.lean`); scenarios with one
acceptance and the head reset; elsewhere the files are taken to hold what the kernel data file holds -/
def kAt (st : St) (sc : Scn) (n : Nat) : Option KFiles := do
  let oldPath ← pathOf st.tbl (st.tbl.length + 1) sc.oldHead []
  let input ← sc.inputs.getLast?
  let newPath ← pathOf st.tbl (st.tbl.length + 1) input []
  let single := sc.kind == "reset" || !(sc.kind == "orphans" || sc.oldHHead != sc.oldHead)
  if !single then none else
  let t : Target := { newPath, forkLen := if sc.kind == "reset" then newPath.length else commonPrefixLen oldPath newPath,
                      movesHHead := false, movesHead := false }
  pure ((sc.labels.take n).foldl (fun k l => match kstepOfLabel l with
    | some s => applyKStep kcH t k s
    | none => k) (kOfPath kcH oldPath))

/-- a second process death at the `m`-th crash point of the restart that follows the `n`-th crash
point: the model's recovery lists its durable writes, the real labels are walked along them; the
kernel size / data files are followed through both restarts (a rewind beyond the end of the size
file empties the data file: the next start fails in `TxHashSet::open`) -/
def predictSecond (st : St) (sc : Scn) (n m : Nat) : Option String := do
  let d ← stateAt st sc n
  let rl ← (sc.rlabels.find? (·.1 == n)).map (·.2)
  let ins := (recoverS bcAT st.tbl d).1
  let commits := (rl.filter (·.startsWith "lmdb:after-commit")).length
  let k1 := kOpen ((kAt st sc n).getD (kOfPath kcH (d.kerData.filterMap fun id => st.tbl.find? (·.id == id))))
  match walkLabels (rl.take m) commits ins d with
  | none => pure "recovery-steps-differ-from-model"
  | some d2 =>
    let k2 := walkK kcH (rl.take m) ins k1
    if !kReadable d2.kerHash.length (kOpen k2) then pure "open=err:TxHashSetErr"
    else pure (showRec (recover bcAT st.tbl d2))

/-! ### state-sync install (`Model/CrashZip.lean`) -/

def showRecZ : RecZ → String
  | .openFail why => s!"open=err:{why.toString}"
  | .ok h => s!"open=ok head=b{h}"

def predictZip (st : St) (sc : Scn) (n : Nat) : Option String := do
  let a ← sc.inputs.head?
  let P ← pathOf st.tbl (st.tbl.length + 1) a []
  let H ← pathOf st.tbl (st.tbl.length + 1) sc.oldHHead []
  let g ← P.head?
  let d0 := zipStart g H
  -- the commit of txhashset_write: the last LMDB commit that follows the sandbox's kernel sync
  let idx := (sc.labels.zipIdx.filter (fun p => p.1.startsWith "lmdb:after-commit(after:kernel/pmmr_prun.bin)")).getLast?.map (·.2 + 1)
  let ic := idx.getD (sc.labels.length + 1)
  let lab := (sc.labels[n - 1]?).getD ""
  -- real crash points inside txhashset_replace (after the removal of the old directory, after the
  -- rename of the sandbox); the half-removed directory is an emulated state
  let ir := ((sc.labels.zipIdx.filter (fun p => p.1.startsWith "txhashset_replace:after-rename")).head?.map (·.2 + 1)).getD (ic + 1)
  let icl := ((sc.labels.zipIdx.filter (fun p => p.1.startsWith "txhashset_replace:after-clean")).head?.map (·.2 + 1)).getD (ic + 1)
  let steps : List ZStep :=
    if lab.startsWith "emu.replace:clean-partial" then [.commit, .cleanPartial]
    else if n < ic then []
    else if n < icl then [.commit]
    else if n < ir then [.commit, .clean]
    else [.commit, .clean, .rename]
  pure (showRecZ (recoverZ bcAT st.tbl (steps.foldl (applyZStep P) d0)))

/-- compare on the reopen class and head only -/
def implClass (impl : String) : String :=
  match splitWs impl with
  | a :: b :: _ => if a == "open=ok" then s!"{a} {b}" else a
  | [a] => a
  | [] => ""


/-! ### `crash aof`: the real `DataFile<T>` / `AppendOnlyFile<T>` against `Model/CrashAof.lean` -/

def aofParse (kind : String) : Bytes → Option Nat :=
  if kind.startsWith "fix" then CrashAof.fixParse ((stripPfx kind 3).toNat?.getD 4) else CrashAof.blobParse

def hexOrDash (b : Bytes) : String := if b.isEmpty then "-" else toHex b

def showDisk (d : CrashAof.Disk) : String := s!"size={hexOrDash d.size} data={hexOrDash d.data}"

def showSteps (t : CrashAof.Trace) : String := "[" ++ ",".intercalate (t.map (·.1)) ++ "]"

/-- `open` of the current durable content -/
def aofOpen (st : St) : CrashAof.Trace × Option CrashAof.Aof :=
  if st.akind.startsWith "fix" then
    ([], some (CrashAof.openFixed ((stripPfx st.akind 3).toNat?.getD 4) st.adisk.data))
  else CrashAof.openVar (aofParse st.akind) st.adisk

def handleAof (st : St) (args0 : List String) (impl : String) : St × Verdict :=
  -- a leading `@session.op` tag only makes the cases distinct
  let args := match args0 with
    | t :: rest => if t.startsWith "@" then rest else args0
    | [] => args0
  match args with
  | ["new", kind] => ({ st with akind := kind, adisk := { size := [], data := [] }, aof := none }, cmpModel "ok" impl)
  | ["open"] =>
    match aofOpen st with
    | (t, some a) =>
      ({ st with aof := some a, adisk := a.disk },
       cmpModel s!"ok steps={showSteps t} n={a.sizeInElmts} {showDisk a.disk}" impl)
    | (t, none) => ({ st with aof := none }, cmpModel s!"err steps={showSteps t}" impl)
  | ["killopen", k] =>
    match k.toNat? with
    | none => (st, .unknown)
    | some k =>
      let (t, a) := aofOpen st
      match CrashAof.crashAt t k with
      | some d => ({ st with aof := none, adisk := d }, cmpModel s!"killed {showDisk d}" impl)
      | none =>
        let d := (a.map (·.disk)).getD st.adisk
        ({ st with aof := none, adisk := d }, cmpModel s!"done {showDisk d}" impl)
  | _ =>
  match st.aof with
  | none => (st, .unknown)
  | some a =>
    match args with
    | ["append", h] =>
      match parseHex h with
      | none => (st, .unknown)
      | some b =>
        match a.append b with
        | some a' => ({ st with aof := some a' }, cmpModel "ok" impl)
        | none => (st, cmpModel "err" impl)
    | ["rewind", p] =>
      match p.toNat? with
      | some p => ({ st with aof := some (a.rewind p) }, cmpModel "ok" impl)
      | none => (st, .unknown)
    | ["discard"] => ({ st with aof := some a.discard }, cmpModel "ok" impl)
    | ["flush"] =>
      let (t, a', ok) := a.flush
      ({ st with aof := some a', adisk := a'.disk },
       cmpModel s!"{if ok then "ok" else "err"} steps={showSteps t} n={a'.sizeInElmts} {showDisk a'.disk}" impl)
    | ["kill", k] =>
      match k.toNat? with
      | none => (st, .unknown)
      | some k =>
        let (t, a', _) := a.flush
        match CrashAof.crashAt t k with
        | some d => ({ st with aof := none, adisk := d }, cmpModel s!"killed {showDisk d}" impl)
        | none => ({ st with aof := none, adisk := a'.disk }, cmpModel s!"done {showDisk a'.disk}" impl)
    | ["readall", n] =>
      match n.toNat? with
      | none => (st, .unknown)
      | some n =>
        let es := (CrashAof.dfReadAll (aofParse st.akind) a n).map fun
          | some b => hexOrDash b
          | none => "none"
        (st, cmpModel ("[" ++ ",".intercalate es ++ "]") impl)
    | _ => (st, .unknown)


/-! ### `crash startup`: start-up paths that no crash left (`Model/CrashGenesis.lean`) -/

def handleStartup (st : St) (args : List String) (impl : String) : St × Verdict :=
  match args with
  | ["steps", labels] => ({ st with glabels := labels.splitOn "," }, .ok)
  -- an empty directory: genesis is installed; started again: still genesis
  | ["empty", _] => (st, cmpModel "open=ok head=b0" (implClass impl))
  -- database on `head`, no txhashset directory: no candidate validates on empty files
  | ["no-txhashset", head] =>
    match idOf head >>= fun h => pathOf st.tbl (st.tbl.length + 1) h [] with
    | some path => (st, cmpModel (showRec (recover bcAT st.tbl (emptyFiles (consistent path)))) (implClass impl))
    | none => (st, .unknown)
  -- PIBD head marker above the body head: no rewind, no validation
  | ["pibd-marker", head, pibd] =>
    match idOf head, idOf pibd with
    | some h, some p =>
      let hh := ((pathOf st.tbl (st.tbl.length + 1) h []).map (·.length)).getD 0
      let ph := ((pathOf st.tbl (st.tbl.length + 1) p []).map (·.length)).getD 0
      (st, cmpModel (showRec (recoverPibd h hh ph (.openFail .other))) (implClass impl))
    | _, _ => (st, .unknown)
  -- killed at the n-th crash point of the first start, reopened, a chain delivered: coinbase-only
  -- (`empty-killed`) or one whose fifth block spends the genesis coinbase (`empty-killed-spend`): the
  -- chain is followed unless the genesis output was lost by a second installation of genesis
  | [variant, n, _label] =>
    if variant != "empty-killed" && variant != "empty-killed-spend" then (st, .unknown) else
    match n.toNat? with
    | none => (st, .unknown)
    | some n =>
      let g := (gstepsOfLabels st.glabels n).foldl applyGStep {}
      let chainTok := ((splitWs impl).find? (·.startsWith "chain=")).getD ""
      match recoverG g with
      | none =>
        let follows := variant == "empty-killed" || genesisOutputSpendable g
        (st, cmpModel s!"open=ok head=b0 chain={if follows then "ok" else "refused"}" s!"{implClass impl} {chainTok}")
      | some why => (st, cmpModel s!"open=err:{why.toString}" (implClass impl))
  | _ => (st, .unknown)

def handle (st : St) (args : List String) (impl : String) : St × Verdict :=
  match args with
  | "reset" :: _ => ({}, .ok)
  | "startup" :: rest => handleStartup st rest impl
  | "aof" :: rest => handleAof st rest impl
  | "blk" :: b :: rest =>
    match parseBlk b rest with
    | some blk => ({ st with tbl := st.tbl ++ [blk] }, .ok)
    | none => (st, .unknown)
  | "scenario" :: name :: rest =>
    let kind := (kv rest "kind").getD ""
    let inputs := (((kv rest "input").getD "-").splitOn ",").filterMap idOf
    let input := inputs.getLast?
    let old := ((kv (splitWs impl) "old").bind idOf).getD 0
    let oldhh := ((kv (splitWs impl) "oldhh").bind idOf).getD old
    let cat := (kv (splitWs impl) "compacted_at").bind (·.toNat?)
    ({ st with scns := { name, kind, input, oldHead := old, inputs, oldHHead := oldhh, compactedAt := cat } :: st.scns.filter (·.name != name) }, .ok)
  | ["steps", name, labels] =>
    match st.scns.find? (·.name == name) with
    | some sc => ({ st with scns := { sc with labels := labels.splitOn "," } :: st.scns.filter (·.name != name) }, .ok)
    | none => (st, .unknown)
  | ["rsteps", name, n, labels] =>
    match st.scns.find? (·.name == name), n.toNat? with
    | some sc, some n =>
      ({ st with scns := { sc with rlabels := (n, labels.splitOn ",") :: sc.rlabels } :: st.scns.filter (·.name != name) }, .ok)
    | _, _ => (st, .unknown)
  | ["case2", name, n, m, _label, _label2] =>
    match st.scns.find? (·.name == name), n.toNat?, m.toNat? with
    | some sc, some n, some m =>
      if sc.kind == "zip" then
        -- the restart's own writes are not modelled for this scenario: the second restart must end
        -- where the model's recovery of the first durable state ends
        match predictZip st sc n with
        | some p => (st, cmpModel p (implClass impl))
        | none => (st, .unknown)
      else if sc.kind == "compact" then
        -- compaction scenarios: the restart after a death inside the recovery must end where the
        -- model's recovery of the first durable state ends (the recovery's own writes are not
        -- modelled for the compaction files)
        match pathOf st.tbl (st.tbl.length + 1) sc.oldHead [] with
        | some oldPath =>
          match sc.compactedAt with
          | some c => (st, cmpModel (predictCompactAgain (fun h => decide (h ≥ 6)) st.tbl oldPath 20 20 10 c sc.labels n) (implClass impl))
          | none => (st, cmpModel (predictCompact (fun h => decide (h ≥ 6)) st.tbl oldPath 20 20 10 sc.labels n) (implClass impl))
        | none => (st, .unknown)
      else if name.startsWith "compaction" then
        match predictCompacted st sc n with
        | some p => (st, cmpModel p (implClass impl))
        | none => (st, .unknown)
      else match predictSecond st sc n m with
        | some p => (st, cmpModel p (implClass impl))
        | none => (st, .unknown)
    | _, _, _ => (st, .unknown)
  | ["case", name, n, _label] =>
    match st.scns.find? (·.name == name), n.toNat? with
    | some sc, some n =>
      if sc.kind == "zip" then
        match predictZip st sc n with
        | some p => (st, cmpModel p (implClass impl))
        | none => (st, .unknown)
      else if sc.kind == "compact" then
        -- compaction model (Model/CrashCompact.lean); AutomatedTesting: horizon 20, state sync
        -- threshold 20, archive interval 10
        match pathOf st.tbl (st.tbl.length + 1) sc.oldHead [] with
        | some oldPath =>
          match sc.compactedAt with
          | some c => (st, cmpModel (predictCompactAgain (fun h => decide (h ≥ 6)) st.tbl oldPath 20 20 10 c sc.labels n) (implClass impl))
          | none => (st, cmpModel (predictCompact (fun h => decide (h ≥ 6)) st.tbl oldPath 20 20 10 sc.labels n) (implClass impl))
        | none => (st, .unknown)
      else if name.startsWith "compaction" then
        match predictCompacted st sc n with
        | some m => (st, cmpModel m (implClass impl))
        | none => (st, .unknown)
      else if sc.kind == "orphans" || sc.kind == "reset" || sc.oldHHead != sc.oldHead then
        match predictAt st sc n with
        | some m => (st, cmpModel m (implClass impl))
        | none => (st, .unknown)
      else match predict st sc n with
        | some m => (st, cmpModel m (implClass impl))
        | none => (st, .unknown)
    | _, _ => (st, .unknown)
  | _ => (st, .unknown)

end GV.Drv.CrashD
