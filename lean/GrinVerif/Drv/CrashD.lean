import GrinVerif.Drv.Common
import GrinVerif.Model.Crash
import GrinVerif.Model.CrashCompact
/-! Driver glue for the `crash` domain (C09): the real step labels of a scenario are interpreted
as model steps, the durable state at each crash point is computed by the model and `recover`
predicts how the node reopens. -/
namespace GV.Drv.CrashD
open GV GV.Drv GV.Crash

structure Scn where
  name : String
  kind : String
  input : Option Nat
  oldHead : Nat
  labels : List String := []

structure St where
  tbl : List BlkInfo := []
  scns : List Scn := []

def stripPfx (s : String) (n : Nat) : String := (s.drop n).toString
def idOf (s : String) : Option Nat := (((stripPfx s 1).splitOn ":").headD "").toNat?
def kv (args : List String) (k : String) : Option String :=
  (args.find? (·.startsWith (k ++ "="))).map (fun a => stripPfx a (k.length + 1))
def listItems (s : String) : List String :=
  let inner := (s.drop 1).dropEnd 1 |>.toString
  if inner.isEmpty then [] else inner.splitOn ","

def parseBlk (id : String) (args : List String) : Option BlkInfo := do
  let bid ← idOf id
  let parS ← kv args "parent"
  let parent := if parS == "-" then none else idOf parS
  let work ← (← kv args "work").toNat?
  let ins ← (listItems (← kv args "ins")).mapM idOf
  let outs ← (listItems (← kv args "outs")).mapM idOf
  pure { id := bid, parent, work, outs, ins }

/-- model step(s) a real label has completed -/
def stepOfLabel (l : String) : Option Step :=
  if l.startsWith "aof.flush:after-truncate[header_head/pmmr_hash.bin]" then some .hdrHashTrunc
  else if l.startsWith "aof.flush:after-append[header_head/pmmr_hash.bin]" then some .hdrHashApp
  else if l.startsWith "aof.flush:after-truncate[header_head/pmmr_data.bin]" then some .hdrDataTrunc
  else if l.startsWith "aof.flush:after-append[header_head/pmmr_data.bin]" then some .hdrDataApp
  else if l.startsWith "aof.flush:after-truncate[output/pmmr_hash.bin]" then some .outHashTrunc
  else if l.startsWith "aof.flush:after-append[output/pmmr_hash.bin]" then some .outHashApp
  else if l.startsWith "aof.flush:after-truncate[output/pmmr_data.bin]" then some .outDataTrunc
  else if l.startsWith "aof.flush:after-append[output/pmmr_data.bin]" then some .outDataApp
  else if l.startsWith "tmpfile:after-rename[output/pmmr_leaf.bin]" then some .leafRename
  else if l.startsWith "aof.flush:after-truncate[kernel/pmmr_hash.bin]" then some .kerHashTrunc
  else if l.startsWith "aof.flush:after-append[kernel/pmmr_hash.bin]" then some .kerHashApp
  else if l.startsWith "aof.flush:after-truncate[kernel/pmmr_data.bin]" then some .kerDataTrunc
  else if l.startsWith "aof.flush:after-append[kernel/pmmr_data.bin]" then some .kerDataApp
  else none

/-- the LMDB commits of one acceptance, in order: nested child, header commit, nested child,
final commit (a header-only input stops after the second) -/
def commitStep (k : Nat) : Step :=
  match k with
  | 1 => .hdrCommit
  | 3 => .finalCommit
  | _ => .childCommit

/-- interpret the first `n` labels -/
def stepsOfLabels (labels : List String) (n : Nat) : List Step :=
  let rec go : List String → Nat → List Step → List Step
    | [], _, acc => acc.reverse
    | l :: ls, commits, acc =>
      if l.startsWith "lmdb:after-commit" then go ls (commits + 1) (commitStep commits :: acc)
      else match stepOfLabel l with
        | some s => go ls commits (s :: acc)
        | none => go ls commits acc
  go (labels.take n) 0 []

def commonPrefixLen : List BlkInfo → List BlkInfo → Nat
  | a :: as, b :: bs => if a.id == b.id then 1 + commonPrefixLen as bs else 0
  | _, _ => 0

def predict (st : St) (sc : Scn) (n : Nat) : Option String := do
  let input ← sc.input
  let oldPath ← pathOf st.tbl (st.tbl.length + 1) sc.oldHead []
  let newPath ← pathOf st.tbl (st.tbl.length + 1) input []
  let b ← st.tbl.find? (·.id == input)
  let oldWork := ((st.tbl.find? (·.id == sc.oldHead)).map (·.work)).getD 0
  let moves := b.work > oldWork
  let t : Target := { newPath, forkLen := commonPrefixLen oldPath newPath, movesHHead := moves,
                      movesHead := moves && sc.kind == "block" }
  let d := (stepsOfLabels sc.labels n).foldl (applyStep t) (consistent oldPath)
  -- AutomatedTesting: a hard fork every 3 blocks, header version 3 from height 6
  match recover (fun h => decide (h ≥ 6)) st.tbl d with
  | .openFail why => pure s!"open=err:{why.toString}"
  | .ok h => pure s!"open=ok head=b{h}"

/-- block acceptance on a node that has just been compacted (scenario compaction-then-block) -/
def predictCompacted (st : St) (sc : Scn) (n : Nat) : Option String := do
  let input ← sc.input
  let oldPath ← pathOf st.tbl (st.tbl.length + 1) sc.oldHead []
  let newPath ← pathOf st.tbl (st.tbl.length + 1) input []
  let b ← st.tbl.find? (·.id == input)
  let oldWork := ((st.tbl.find? (·.id == sc.oldHead)).map (·.work)).getD 0
  let moves := b.work > oldWork
  let t : Target := { newPath, forkLen := commonPrefixLen oldPath newPath, movesHHead := moves,
                      movesHead := moves && sc.kind == "block" }
  let hh := oldPath.length - 1
  let start := consistentC oldPath (prunedAt oldPath (hh - 20)) (compactTail hh 20 20 10)
  let base := (stepsOfLabels sc.labels n).foldl (applyStep t) start.base
  match recoverC (fun h => decide (h ≥ 6)) st.tbl { start with base := base } with
  | .openFail why => pure s!"open=err:{why.toString}"
  | .ok h => pure s!"open=ok head=b{h}"

/-- compare on the reopen class and head only -/
def implClass (impl : String) : String :=
  match splitWs impl with
  | a :: b :: _ => if a == "open=ok" then s!"{a} {b}" else a
  | [a] => a
  | [] => ""

def handle (st : St) (args : List String) (impl : String) : St × Verdict :=
  match args with
  | "reset" :: _ => ({}, .ok)
  | "blk" :: b :: rest =>
    match parseBlk b rest with
    | some blk => ({ st with tbl := st.tbl ++ [blk] }, .ok)
    | none => (st, .unknown)
  | "scenario" :: name :: rest =>
    let kind := (kv rest "kind").getD ""
    let input := (kv rest "input").bind idOf
    let old := ((kv (splitWs impl) "old").bind idOf).getD 0
    ({ st with scns := { name, kind, input, oldHead := old } :: st.scns.filter (·.name != name) }, .ok)
  | ["steps", name, labels] =>
    match st.scns.find? (·.name == name) with
    | some sc => ({ st with scns := { sc with labels := labels.splitOn "," } :: st.scns.filter (·.name != name) }, .ok)
    | none => (st, .unknown)
  | ["case", name, n, _label] =>
    match st.scns.find? (·.name == name), n.toNat? with
    | some sc, some n =>
      if sc.kind == "compact" then
        -- compaction model (Model/CrashCompact.lean); AutomatedTesting: horizon 20, state sync
        -- threshold 20, archive interval 10
        match pathOf st.tbl (st.tbl.length + 1) sc.oldHead [] with
        | some oldPath =>
          (st, cmpModel (predictCompact (fun h => decide (h ≥ 6)) st.tbl oldPath 20 20 10 sc.labels n) (implClass impl))
        | none => (st, .unknown)
      else if name.startsWith "compaction" then
        match predictCompacted st sc n with
        | some m => (st, cmpModel m (implClass impl))
        | none => (st, .unknown)
      else match predict st sc n with
        | some m => (st, cmpModel m (implClass impl))
        | none => (st, .unknown)
    | _, _ => (st, .unknown)
  | _ => (st, .unknown)

end GV.Drv.CrashD
