import GrinVerif.Drv.Common
import GrinVerif.Model.Codec
import GrinVerif.Model.CodecConn
import GrinVerif.Model.CodecGlue
import GrinVerif.Model.CodecSend
import GrinVerif.Model.CodecPeers
import GrinVerif.Model.SerBlock
import GrinVerif.Model.DecSer
/-! Driver glue for the `codec` domain (line protocol handler): C11 decoder lines and C19 framing lines.

    codec dec <D> <bin|buf> <ver> <hex>  => ok <consumed> <canon> <maxreq> | err <E> <maxreq> | panic <maxreq>
    codec hex <utf8-hex>                 => ok <bytes> <maxreq> | err <maxreq> | panic <maxreq>
    codec bound <D> <k> <len>            => <ok|err> <maxreq>        (random / count-mutated inputs of the payload
                                                                   types: only the allocation bound 16·len + k)
    codec decs <D> <bin|buf> <ver> <extra> <hex> => ok <consumed> <canon> <maxreq> <peak> | err <E> <maxreq> <peak>
                                                    | panic <maxreq> <peak>
                                          (the decoders of the consensus objects, `Model/DecSer.lean`; `extra` = `-` or
                                           `<now>:<ftl>:<pow>` = clock, future time limit, verdict of `verify_size`;
                                           `max maxreq peak ≤ alloc + 1024`, no slack proportional to the input)
    codec memsize <T>                    => <size_of::<T>()>
    codec rdr <method> <bin|buf|stream> <arg> <hex> => ok <value> <consumed> | err <E> | panic
                                          (`Reader` methods called directly on each concrete reader)

    codec run <ver> <[frag,frag,…]>      => [ev;ev;…;end:<E>:<bytes_read>[:<maxreq>]]   (C19, real `Codec`)
    codec hs accept|initiate <genesis> <stream> => ok <version> | err <E>              (C19, real `Handshake`)
    codec hs self                        => err PeerWithSelf
    codec hs other                       => ok <version>   (another node - a different `Handshake`, so a nonce that
                                          is not in our ring - behind the same address pair as a self connection)
    codec timed <ver> <[ms:frag,ms:frag,…]> => [ev;…;pongs:<n>;closed:<0|1>]   (C19, real `conn::listen` reader thread:
                                          fragments written after real pauses of `ms` milliseconds; model = `runT`)
    codec peer <ver> <now> <[ms:frag,…]> => [ev;…;pongs:<n>;closed:<0|1>]   (C19, a real `Peer::accept` after a real
                                          Hand/Shake: Protocol + TrackingAdapter + a recording NetAdapter; events
                                          ping:<height> | getpeeraddrs:<caps> | payload:<t>:<len>)
    codec hsthen <accept|connect> <ver> <now> <[frag,…]> => [ev;…;pongs:<n>;closed:<0|1>]   (C19, spec: the remote side
                                          writes its Hand (`accept`) / Shake (`connect`) and further messages in the
                                          same writes; real `Peer::accept` / `Peer::connect`; every message behind the
                                          handshake message is delivered exactly once, in order)
    codec rmsgv <hand|shake|peeraddrs> <[frag,…]> => ok <canon> | err <E>   (C19, `msg::read_message` on a fragmented
                                          TCP stream: the value read, re-serialised)
    codec ring new                       => ok            (C19, ONE long-lived real `Handshake`)
    codec ring push <nonce>              => <outcome of that `initiate()`>   (nonce read off the wire)
    codec ring self <nonce>              => err PeerWithSelf   (the same `Handshake` dials its own `accept`)
    codec ring replay <nonce>            => err PeerWithSelf | ok <version>  (a `Hand` replaying an older nonce)
    codec duplex <ver> <[t:body:att,…]>  => [ev;…]|[ev;…]   (C19, spec: two real `conn::listen` ends; end A is handed the
                                          messages through `ConnHandle::send` (writer thread, `write_message`, attachments
                                          from files), end B's handler records them and answers Pings; left = seen at B,
                                          right = the Pongs seen at A.  Model: `writeOps` as the fragments, `connLoop`)
    codec dtrack <ver> <[t:body:att,…]>  => sent:<bytes>:<count>;recv:<bytes>:<count>   (the two `Tracker`s afterwards)
    codec chan fill                      => accepted:<n>;extra:ok;received:<n>;inorder:1;extraseen:0   (the send channel filled to
                                          SEND_CHANNEL_CAP with the writer thread parked on the tracker lock, one more offered)
    codec hconn <ver> <[frag,…]>         => [ev;…;pongs:<n>;closed:<0|1>]   (C19: the reader thread with a handler whose
                                          answer to a Ping is scripted by `height % 16`: `connLoop`, `try_break!` table)
    codec hsw hand <genesis> <caps> <td> <self addr> <peer addr> <ua> <nonce> => <frame>   (the `Hand` the real `initiate` writes)
    codec hsw accept <genesis> <caps> <td> <ua> <deny> <peer ip:port> <ring nonce> <addrs before> <stream>
                                         => <ok caps:ua:ip:port:ver:td:in | err E>|<frame written | ->|<addrs after>
    codec hsw initiate <genesis> <deny> <peer ip:port> <stream> => ok caps:ua:ip:port:ver:td:out | err E
    codec hsw accepts … / initiates …    as accept / initiate, compared as SPEC values: handshake messages of a NEWER peer
                                          (any announced version, capability words with bits outside the defined flags)
                                          must be accepted with min(version) and the known capability bits
    codec glue new <dir> <remote ver> <remote caps> <peer ip:port> <our td> <our height> => ok <negotiated version>   (C19, spec:
                                          a real `Peer::accept` / `Peer::connect` + `Protocol` + `TrackingAdapter` against a raw socket)
    codec glue ctl ban|ready <0|1>       => ok
    codec glue recv <kind> <args…>       => [<adapter calls>]|<response frame | ->|closed:<0|1>   (`consumeGlue`)
    codec glue send <kind> <args…> <[body@1,body@2,body@3,body@1000]> => <ret>|<frame | ->        (`sendGlue`)

`canon` = the decoded value re-encoded (`-` where the model carries no value); `maxreq` = largest single
allocation request the real decoder made, checked against the model's requested allocation
(`maxreq ≤ alloc + 16·len + 1024`). -/
namespace GV.Drv.CodecD
open GV GV.Drv GV.Ser GV.Dec GV.Msg GV.Codec GV.DecSer

structure St where
  dummy : Unit := ()
  /-- the nonce ring of the long-lived `Handshake` of the `ring` lines -/
  ring : List Nat := []
  /-- the `Peer` of the current `glue` conversation -/
  glue : Option GV.Codec.Glue := none

def realKey (b : Bytes) : Nat := ofBE (h256 b)

def mkCfg (ver : Nat) : Cfg :=
  { ver := ver, nrd := false, maxWeight := GV.Gen.TESTING_MAX_BLOCK_WEIGHT,
    proofSize := GV.Gen.AUTOMATED_TESTING_PROOF_SIZE, key := realKey }

/-- a plain `Ser` parser as a `Dec` (allocation charged = bytes consumed; only used for segment leaves) -/
def liftA {α : Type} (q : Parser α) : Dec α := fun bs =>
  match q bs with
  | .ok (a, r) => .ok a r (bs.length - r.length)
  | .error e => .err e 0

def parseRdr : String → Option Rdr
  | "bin" => some .bin
  | "buf" => some .buf
  | _ => none

def parseNet : String → Option NetCfg
  | "A" => some netAutomatedTesting
  | "M" => some netMainnet
  | "T" => some netTestnet
  | _ => none

/-- outcome → `(class text, alloc)` -/
def render {α : Type} (canon : α → String) (len : Nat) : Outcome α → String × Nat
  | .ok a r n => (s!"ok {len - r.length} {canon a}", n)
  | .err e n => ("err " ++ e.name, n)
  | .panic _ n => ("panic", n)

def showHdr : HdrW → String
  | .known t len => s!"known:{t}:{len}"
  | .unknown len t => s!"unknown:{len}:{t}"

def encSegCommon {α : Type} (encLeaf : α → Bytes) (s : Segment α) : Bytes :=
  encSegmentId s.id ++ writeU64 s.hashes.length ++ (s.hashPos.map fun p => writeU64 (p + 1)).flatten ++
  s.hashes.flatten ++ writeU64 s.leafData.length ++ (s.leafPos.map fun p => writeU64 (p + 1)).flatten ++
  (s.leafData.map encLeaf).flatten ++ writeU64 s.proof.length ++ s.proof.flatten

def noPayload : Payload Unit := fun _ _ => .err .corrupted 0

/-- run decoder `d` of the table; `none` = unknown decoder name -/
def runDec (d : String) (rd : Rdr) (ver : Nat) (bs : Bytes) : Option (String × Nat) :=
  let len := bs.length
  let body (t : Nat) : Option (String × Nat) :=
    some (render (fun b => toHex (encBody (fun _ => []) b)) len (decBody noPayload rd t bs))
  match d.splitOn ":" with
  | ["hdr", net] => (parseNet net).map fun c => render showHdr len (decHeader c bs)
  | ["hand"] => some (render (fun h => toHex (encHand h)) len (decHand rd bs))
  | ["shake"] => some (render (fun h => toHex (encShake h)) len (decShake rd bs))
  | ["peeraddr"] => some (render (fun a => toHex (encPeerAddr a)) len (decPeerAddr rd bs))
  | ["peererror"] => some (render (fun (p : Nat × Bytes) => toHex (writeU32 p.1 ++ writeBytes p.2)) len (decPeerError rd bs))
  | ["segid"] => some (render (fun s => toHex (encSegmentId s)) len (segmentId bs))
  | ["body", t] => (nat? t).bind body
  | ["merkle"] => some (render (fun p => toHex (encMerkleProof p)) len (merkleProof rd bs))
  | ["segproof"] => some (render (fun (hs : List Bytes) => toHex (writeU64 hs.length ++ hs.flatten)) len (segmentProof rd bs))
  | ["seg", "outid"] =>
    some (render (fun s => toHex (encSegCommon encOutputId s)) len (segment rd (liftA decOutputId) 40 bs))
  | ["seg", "kernel"] =>
    some (render (fun s => toHex (encSegCommon (encTxKernel ver .full) s)) len
      (segment rd (liftA (decTxKernel (mkCfg ver))) 128 bs))
  | ["seg", "rproof"] =>
    some (render (fun s => toHex (encSegCommon encRangeProof s)) len (segment rd (liftA decRangeProof) 688 bs))
  | _ => none

def showHexRes : HexRes → String
  | .ok b => "ok " ++ toHex b
  | .err => "err"
  | .panic _ => "panic"

/-- split `"<class…> <maxreq>"` -/
def splitLast (impl : String) : Option (String × Nat) :=
  match (impl.splitOn " ").reverse with
  | m :: rest => (nat? m).map fun n => (" ".intercalate rest.reverse, n)
  | [] => none

/-- compare the class text exactly and the real peak request against the model's allocation.
`refusalIsSpec`: the line is about a frame header, where the property itself fixes the refusal
(`msg_len` above the limit ⇒ `TooLargeReadErr` before anything is allocated): "model refuses,
implementation does not" is then a concrete failing input (`fail`), not a model disagreement -/
def judge (cls : String) (alloc len : Nat) (impl : String) (refusalIsSpec : Bool := false) : Verdict :=
  match splitLast impl with
  | none => .unknown
  | some (icls, maxreq) =>
    if icls ≠ cls then
      if refusalIsSpec && (cls.endsWith "TooLargeReadErr") then
        .fail s!"{cls} alloc={alloc} (the announced length is above the limit for this type: the frame must be refused at the header)"
      else .diff s!"{cls} alloc={alloc}"
    else if maxreq > alloc + 16 * len + 1024 then .fail s!"{cls} alloc={alloc} (real request {maxreq} exceeds alloc+16*len+1024)"
    else .ok

/-! ### the decoders of the consensus objects (`Model/DecSer.lean`) -/

/-- the `BitVec` of a decoded block -/
def blockBitsArray (b : GV.DecSer.BitmapBlock) : Array Bool :=
  match b.bits with
  | .raw bytes =>
    bytes.foldl (fun acc byte => (List.range 8).foldl (fun a i => a.push (byte / 2^(7 - i) % 2 == 1)) acc) #[]
  | .flips fill ps => ps.foldl (fun a p => a.setIfInBounds p (!fill)) (Array.replicate b.nBits fill)

def packBitsMsb : List Bool → Bytes
  | b0 :: b1 :: b2 :: b3 :: b4 :: b5 :: b6 :: b7 :: r =>
    let v (b : Bool) (w : Nat) : Nat := if b then w else 0
    (v b0 128 + v b1 64 + v b2 32 + v b3 16 + v b4 8 + v b5 4 + v b6 2 + v b7 1) :: packBitsMsb r
  | _ => []

/-- `Writeable for BitmapBlock`: positive / negative index list below 4096 entries, raw bytes otherwise -/
def encBitmapBlock (b : GV.DecSer.BitmapBlock) : Bytes :=
  let bits := blockBitsArray b
  let len := bits.size
  let idx := List.range len
  let pos := idx.filter fun i => bits[i]!
  let neg := idx.filter fun i => !bits[i]!
  writeU8 (len / 1024 % 256) ++
    (if pos.length < 4096 then writeU8 1 ++ writeU16 pos.length ++ (pos.map writeU16).flatten
     else if neg.length < 4096 then writeU8 2 ++ writeU16 neg.length ++ (neg.map writeU16).flatten
     else writeU8 0 ++ packBitsMsb bits.toList)

def encBitmapSegment (s : GV.DecSer.BitmapSegment) : Bytes :=
  encSegmentId s.id ++ writeU16 s.blocks.length ++ (s.blocks.map encBitmapBlock).flatten ++
  writeU64 s.proof.length ++ s.proof.flatten

def showE : Except SerErr Bytes → String
  | .ok b => toHex b
  | .error _ => "E"

/-- `-` or `<now>:<ftl>:<pow>` -/
def parseExtra (s : String) : Option (Int × Nat × Bool) :=
  if s = "-" then some (0, 0, false) else
  match s.splitOn ":" with
  | [a, b, c] => match a.toInt?, b.toNat? with
    | some now, some ftl => some (now, ftl, c == "1")
    | _, _ => none
  | _ => none

def runDecS (d : String) (rd : Rdr) (ver : Nat) (ex : Int × Nat × Bool) (bs : Bytes) : Option (String × Nat) :=
  let len := bs.length
  let c := mkCfg ver
  let ps := c.proofSize
  let e : Env := { cfg := c, ct := .automatedTesting, now := ex.1, ftl := ex.2.1, powOk := fun _ => ex.2.2 }
  match d with
  | "output" => some (render (fun o => toHex (encOutput o)) len (rOutput rd bs))
  | "rproof" => some (render (fun o => toHex (encRangeProof o)) len (rRangeProof rd bs))
  | "kernel" => some (render (fun k => toHex (encTxKernel ver .full k)) len (rTxKernel rd c bs))
  | "kernel:nrd" => some (render (fun k => toHex (encTxKernel ver .full k)) len (rTxKernel rd { c with nrd := true } bs))
  | "input" => some (render (fun i => toHex (encInput i)) len (rInput rd bs))
  | "outid" => some (render (fun i => toHex (encOutputId i)) len (rOutputId rd bs))
  | "tx" => some (render (fun t => showE (encTransaction c.key ver .full t)) len (rTransaction rd c bs))
  | "proof42" => some (render (fun p => toHex (encProof 42 .full p)) len (rProof rd { c with proofSize := 42 } bs))
  | "header" => some (render (fun h => toHex (encBlockHeader ps .full h)) len (rBlockHeader rd c bs))
  | "uheader" => some (render (fun h => toHex (encBlockHeader ps .full h)) len (rUntrustedHeader rd e bs))
  | "ublock" => some (render (fun b => showE (encBlock c.key ps ver .full b)) len (rUntrustedBlock rd e bs))
  | "ucblock" => some (render (fun b => toHex (encCompactBlock ps ver .full b)) len (rUntrustedCompactBlock rd e bs))
  | "bitmapseg" => some (render (fun s => toHex (encBitmapSegment s)) len (rBitmapSegment rd bs))
  | "resp:22" =>
    some (render (fun (p : Bytes × GV.DecSer.BitmapSegment × Bytes) => toHex (p.1 ++ encBitmapSegment p.2.1 ++ p.2.2)) len
      (rBitmapSegmentResponse rd bs))
  | "resp:24" =>
    some (render (fun (p : Bytes × Segment OutputId × Bytes) => toHex (p.1 ++ encSegCommon encOutputId p.2.1 ++ p.2.2)) len
      (rOutputSegmentResponse rd bs))
  | "resp:26" =>
    some (render (fun (p : Bytes × Segment RangeProof) => toHex (p.1 ++ encSegCommon encRangeProof p.2)) len
      (rSegmentResponse rd (rRangeProof rd) RANGE_PROOF_MEM bs))
  | "resp:28" =>
    some (render (fun (p : Bytes × Segment TxKernel) => toHex (p.1 ++ encSegCommon (encTxKernel ver .full) p.2)) len
      (rSegmentResponse rd (rTxKernel rd c) KERNEL_MEM bs))
  | _ => none

/-- `"<class…> <maxreq> <peak>"` -/
def judgeS (cls : String) (alloc : Nat) (impl : String) : Verdict :=
  match (impl.splitOn " ").reverse with
  | pk :: mr :: rest =>
    match nat? pk, nat? mr with
    | some peak, some maxreq =>
      let icls := " ".intercalate rest.reverse
      if icls ≠ cls then .diff s!"{cls} alloc={alloc}"
      else if max maxreq peak > alloc + 1024 then
        .fail s!"{cls} alloc={alloc} (real request {maxreq} / live peak {peak} exceeds the model's requested allocation + 1024)"
      else .ok
    | _, _ => .unknown
  | _ => .unknown

/-- a `Reader` method called directly: `ok <value> <consumed>` / `err <E>` / `panic`.  `StreamingReader`
(`stream`) reads like the `BinReader` for the lengths used here (it has no 100 000 cap). -/
def runRdr (m : String) (rd : Rdr) (arg : Nat) (bs : Bytes) : Option String :=
  let sh (o : Outcome String) : String :=
    match o with
    | .ok v r _ => s!"ok {v} {bs.length - r.length}"
    | .err e _ => "err " ++ e.name
    | .panic _ _ => "panic"
  let i32 (u : Nat) : Int := if u < 2^31 then (u : Int) else (u : Int) - 2^32
  match m with
  | "u8" => some (sh ((rU8 bs).map toString))
  | "u16" => some (sh ((rU16 bs).map toString))
  | "u32" => some (sh ((rU32 bs).map toString))
  | "u64" => some (sh ((rU64 bs).map toString))
  | "i64" => some (sh ((rI64 bs).map toString))
  | "i32" => some (sh ((rU32 bs).map fun u => toString (i32 u)))
  | "fixed" => some (sh ((rFixed rd arg bs).map toHex))
  | "lenprefix" => some (sh ((rBytesLenPrefix rd bs).map toHex))
  | "empty" => some (sh ((rEmpty arg bs).map fun _ => "-"))
  | "expect" => some (sh ((rExpectU8 arg bs).map toString))
  | _ => none

def memSize : String → Option Nat
  | "commitment" => some COMMIT_MEM
  | "input" => some INPUT_MEM
  | "outputid" => some OUTPUT_ID_MEM
  | "rangeproof" => some RANGE_PROOF_MEM
  | "output" => some OUTPUT_MEM
  | "kernel" => some KERNEL_MEM
  | "shortid" => some SHORT_ID_MEM
  | _ => none

/-! ### C19: the codec over fragments -/

/-- `header_size_bytes(63)` for a proof of `proofSize` nonces -/
def headerSizeMax (proofSize : Nat) : Nat :=
  2 + 2 * 8 + 5 * 32 + 32 + 2 * 8 + (8 + 4 + 8 + 1 + packLen proofSize 63)

abbrev DB := Body Unit
abbrev DH := BlockHeader

def drvEnv (ver : Nat) : Env DB DH :=
  { net := netAutomatedTesting
    hdrMax := headerSizeMax GV.Gen.AUTOMATED_TESTING_PROOF_SIZE
    hdrMem := 400
    decBody := fun t raw => match decBody noPayload .buf t raw with
      | .ok v _ _ => .ok v
      | .err e _ => .error e
      | .panic _ _ => .error .corrupted
    decItem := decBlockHeader (mkCfg ver) }

/-- `Protocol::consume` answers `Consumed::Attachment` (size = `bytes`) to a `TxHashSetArchive` -/
def drvAttach : Message DB DH → Option Nat
  | .body _ (.txHashSetArchive _ _ bytes) => some bytes
  | _ => none

def checksumLoop : Bytes → Nat → Nat → Nat
  | [], _, s => s
  | x :: r, i, s => checksumLoop r (i + 1) ((s + x * (i % 251 + 1)) % 4294967291)

/-- the `run` loop with the per-read byte counts the harness prints (same recursion as `Codec.run`) -/
def runEvents (env : Env DB DH) : Nat → Codec DH → List Bytes → List String
  | 0, _, _ => ["hang"]
  | fuel+1, c, s =>
    let o := read env fragOps c s
    match o.res with
    | .msg m =>
      let ev := match m with
        | .unknown t => s!"unknown:{t}:{o.bytesRead}"
        | .body t v => s!"body:{t}:{toHex (encBody (fun _ => []) v)}:{o.bytesRead}"
        | .headers hs rem =>
          s!"headers:{hs.length}:{rem}:{toHex (hs.map (encBlockHeader GV.Gen.AUTOMATED_TESTING_PROOF_SIZE .full)).flatten}:{o.bytesRead}"
        | .attachment rd left bytes => s!"att:{rd}:{left}:{checksumLoop bytes 0 0}:{o.bytesRead}"
      let c' := match drvAttach m with
        | some size => expectAttachment o.codec size
        | none => some o.codec
      match c' with
      | none => [ev, "panic"]
      | some c' => ev :: runEvents env fuel c' o.sock
    | .err e => [s!"end:{e.name}:{o.bytesRead}"]
    | .panic _ => ["panic"]
    | .hang => ["hang"]

/-! ### C19: the reader thread over a stream with real pauses (`runT`) -/

abbrev DBT := Body Bytes

/-- the large payload bodies are opaque byte strings here (their decoders belong to C10/C11) -/
def opaquePayload : Payload Bytes := fun _ bs => .ok bs [] 0

def drvEnvT (ver : Nat) : Env DBT DH :=
  { net := netAutomatedTesting
    hdrMax := headerSizeMax GV.Gen.AUTOMATED_TESTING_PROOF_SIZE
    hdrMem := 400
    decBody := fun t raw => match decBody opaquePayload .buf t raw with
      | .ok v _ _ => .ok v
      | .err e _ => .error e
      | .panic _ _ => .error .corrupted
    decItem := decBlockHeader (mkCfg ver) }

def drvAttachT : Message DBT DH → Option Nat
  | .body _ (.txHashSetArchive _ _ bytes) => some bytes
  | _ => none

/-- `[ms:hex,ms:hex,…]` -/
def parseSched (s : String) : Option Sched :=
  let inner := (s.drop 1).dropEnd 1 |>.toString
  if inner.isEmpty then some [] else
  (inner.splitOn ",").mapM fun item =>
    match item.splitOn ":" with
    | [d, h] => match d.toNat?, parseHex h with
      | some d, some b => if b.isEmpty then none else some (d, b)
      | _, _ => none
    | _ => none

/-- what the `MessageHandler` of the harness sees of the `runT` loop (same recursion as `Codec.runT`):
`Unknown` messages are swallowed by `conn.rs`, attachment bytes go to the file (summed at the end),
a `Ping` is answered with a `Pong`; a read that timed out is retried.  Ends with the number of
`Pong`s due and whether the reader thread closed the connection before the stream ended. -/
def runEventsT (env : Env DBT DH) : Nat → Codec DH → TStream → Bytes → Nat → List String
  | 0, _, _, _, _ => ["hang"]
  | fuel+1, c, s, att, pongs =>
    let o := readT env c s
    match o.res with
    | .msg m =>
      let c' := match drvAttachT m with
        | some size => expectAttachment o.codec size
        | none => some o.codec
      match c' with
      | none => ["panic"]
      | some c' =>
        match m with
        | .unknown _ => runEventsT env fuel c' o.sock att pongs
        | .body t v =>
          s!"body:{t}:{toHex (encBody id v)}" ::
            runEventsT env fuel c' o.sock att (if t = GV.Gen.Msg.T_Ping then pongs + 1 else pongs)
        | .headers hs rem =>
          s!"headers:{hs.length}:{rem}:{toHex (hs.map (encBlockHeader GV.Gen.AUTOMATED_TESTING_PROOF_SIZE .full)).flatten}" ::
            runEventsT env fuel c' o.sock att pongs
        | .attachment rd left bytes =>
          let att' := att ++ bytes
          if left = 0 then
            s!"att:{rd}:{left}" :: s!"attsum:{att'.length}:{checksumLoop att' 0 0}" :: runEventsT env fuel c' o.sock [] pongs
          else s!"att:{rd}:{left}" :: runEventsT env fuel c' o.sock att' pongs
    | .err e =>
      if e = .timedOut then runEventsT env fuel o.codec o.sock att pongs
      else
        -- end of stream while idle: the connection is still up; anything else: the reader thread left
        let closed := if e = .conn ∧ o.sock.isEmpty ∧ o.codec.state = .none ∧ o.codec.buffer.isEmpty then 0 else 1
        [s!"pongs:{pongs}", s!"closed:{closed}"]
    | .panic _ => ["panic"]
    | .hang => ["hang"]

/-! ### C19: the real `Peer` (Protocol + TrackingAdapter) behind the reader thread -/

/-- bodies as the node decodes them: transactions, blocks and compact blocks through the decoders of
`Model/DecSer.lean` (value kept as the raw body), everything else as in `drvEnvT` -/
def drvEnvP (ver : Nat) (now : Int) : Env DBT DH :=
  let c := mkCfg ver
  let e : GV.DecSer.Env := { cfg := c, ct := .automatedTesting, now := now, ftl := GV.Gen.DEFAULT_FUTURE_TIME_LIMIT,
                             powOk := fun _ => true }
  let viaDec {α : Type} (d : Dec α) (raw : Bytes) : Except SerErr DBT :=
    match d raw with
    | .ok _ _ _ => .ok (.payload raw)
    | .err er _ => .error er
    | .panic _ _ => .error .corrupted
  { (drvEnvT ver) with
    decBody := fun t raw =>
      if t = GV.Gen.Msg.T_Transaction ∨ t = GV.Gen.Msg.T_StemTransaction then viaDec (rTransaction .buf c) raw
      else if t = GV.Gen.Msg.T_Block then viaDec (rUntrustedBlock .buf e) raw
      else if t = GV.Gen.Msg.T_CompactBlock then viaDec (rUntrustedCompactBlock .buf e) raw
      else (drvEnvT ver).decBody t raw }

/-- what the recording `NetAdapter` behind `Protocol` + `TrackingAdapter` sees of the `runT` loop -/
def runEventsP (env : Env DBT DH) : Nat → Codec DH → TStream → Nat → List String
  | 0, _, _, _ => ["hang"]
  | fuel+1, c, s, pongs =>
    let o := readT env c s
    match o.res with
    | .msg m =>
      match m with
      | .body t (.pingPong _ h) =>
        if t = GV.Gen.Msg.T_Ping then s!"ping:{h}" :: runEventsP env fuel o.codec o.sock (pongs + 1)
        else s!"pong:{h}" :: runEventsP env fuel o.codec o.sock pongs
      | .body _ (.getPeerAddrs caps) => s!"getpeeraddrs:{caps}" :: runEventsP env fuel o.codec o.sock pongs
      | .body t (.payload raw) => s!"payload:{t}:{raw.length}" :: runEventsP env fuel o.codec o.sock pongs
      | .body t _ => s!"other:{t}" :: runEventsP env fuel o.codec o.sock pongs
      | .headers hs _ =>
        s!"headers:{hs.length}:{toHex (hs.map (encBlockHeader GV.Gen.AUTOMATED_TESTING_PROOF_SIZE .full)).flatten}" ::
          runEventsP env fuel o.codec o.sock pongs
      | _ => runEventsP env fuel o.codec o.sock pongs
    | .err e =>
      match tryBreak (B := DBT) (H := DH) (.err e) with
      | .retry => runEventsP env fuel o.codec o.sock pongs
      | _ =>
        let closed := if e = .conn ∧ o.sock.isEmpty ∧ o.codec.state = .none ∧ o.codec.buffer.isEmpty then 0 else 1
        [s!"pongs:{pongs}", s!"closed:{closed}"]
    | .panic _ => ["panic"]
    | .hang => ["hang"]

/-- the `run` loop over the opaque-payload environment (`drvEnvT`): as `runEvents`, and the bodies of the
payload kinds (Header, Block, CompactBlock, Transaction, StemTransaction, the four segment responses) are
delivered as their raw bytes - their decoders belong to C10 / C11; the harness sends canonical encodings and
prints the value re-serialised -/
def runEventsO (env : Env DBT DH) : Nat → Codec DH → List Bytes → List String
  | 0, _, _ => ["hang"]
  | fuel+1, c, s =>
    let o := read env fragOps c s
    match o.res with
    | .msg m =>
      let ev := match m with
        | .unknown t => s!"unknown:{t}:{o.bytesRead}"
        | .body t v => s!"body:{t}:{toHex (encBody id v)}:{o.bytesRead}"
        | .headers hs rem =>
          s!"headers:{hs.length}:{rem}:{toHex (hs.map (encBlockHeader GV.Gen.AUTOMATED_TESTING_PROOF_SIZE .full)).flatten}:{o.bytesRead}"
        | .attachment rd left bytes => s!"att:{rd}:{left}:{checksumLoop bytes 0 0}:{o.bytesRead}"
      let c' := match drvAttachT m with
        | some size => expectAttachment o.codec size
        | none => some o.codec
      match c' with
      | none => [ev, "panic"]
      | some c' => ev :: runEventsO env fuel c' o.sock
    | .err e => [s!"end:{e.name}:{o.bytesRead}"]
    | .panic _ => ["panic"]
    | .hang => ["hang"]

def LOCAL_PROTOCOL_VERSION' : Nat := 1000

/-- the decision of `accept` for a `Hand` with our genesis carrying `nonce`, against the ring -/
def ringDecision (ring : List Nat) (nonce : Nat) : String :=
  let h : Hand := { version := 1000, capabilities := 0, nonce := nonce, genesis := [1], totalDifficulty := 0,
                    senderAddr := .v4 [0, 0, 0, 0] 0, receiverAddr := .v4 [0, 0, 0, 0] 0, userAgent := [] }
  match acceptDecision [1] LOCAL_PROTOCOL_VERSION' ring false h with
  | .ok v => s!"ok {v}"
  | .error .genesisMismatch => "err GenesisMismatch"
  | .error .peerWithSelf => "err PeerWithSelf"
  | .error .connectionClose => "err ConnectionClose"

def showHs : Except HsErr Nat → String
  | .ok v => s!"ok {v}"
  | .error .genesisMismatch => "err GenesisMismatch"
  | .error .peerWithSelf => "err PeerWithSelf"
  | .error .connectionClose => "err ConnectionClose"

def LOCAL_PROTOCOL_VERSION : Nat := 1000

/-! ### C19: connection level — writer thread, handler results, handshake messages on the wire -/

/-- `[t:bodyhex:att,…]` (`att`: `-` none, `e` empty, else hex) -/
def parsePlan (s : String) : Option (List OutMsg) :=
  let inner := (s.drop 1).dropEnd 1 |>.toString
  if inner.isEmpty then some [] else
  (inner.splitOn ",").mapM fun item =>
    match item.splitOn ":" with
    | [t, b, a] =>
      match t.toNat?, parseHex b with
      | some t, some b =>
        if a = "-" then some { t := t, body := b, att := none }
        else if a = "e" then some { t := t, body := b, att := some [] }
        else (parseHex a).map fun a => { t := t, body := b, att := some a }
      | _, _ => none
    | _ => none

/-- the recording handler of the harness: a Ping is answered with the Pong of the same body, a
`TxHashSetArchive` with `Consumed::Attachment(size = bytes)` -/
def recHandler : Message DBT DH → Consumed
  | .body t (.pingPong td h) =>
    if t = GV.Gen.Msg.T_Ping then .response { t := GV.Gen.Msg.T_Pong, body := writeU64 td ++ writeU64 h, att := none } else .none
  | .body _ (.txHashSetArchive _ _ bytes) => .attachment bytes
  | _ => .none

def SCRIPT_NAMES : List String :=
  ["None", "Response", "Internal", "NoDandelionRelay", "Store", "Chain", "BadMessage", "Send", "Timeout", "PeerException",
   "Connection:TimedOut", "Connection:WouldBlock", "Connection:Other", "Disconnect", "Banned", "Serialization"]

/-- the scripted handler: the answer to a Ping is selected by `height % 16`; the error classes come
from the regenerated `try_break!` table -/
def scriptHandler : Message DBT DH → Consumed
  | .body t (.pingPong td h) =>
    if t = GV.Gen.Msg.T_Ping then
      let name := SCRIPT_NAMES.getD (h % 16) "?"
      if name = "None" then .none
      else if name = "Response" then .response { t := GV.Gen.Msg.T_Pong, body := writeU64 td ++ writeU64 h, att := none }
      else if name = "Disconnect" then .disconnect
      else if name.startsWith "Connection:" then .err (GV.Gen.CodecConn.toleratedIoKinds.contains (name.drop 11).toString)
      else .err (errTolerated name)
    else .none
  | .body _ (.txHashSetArchive _ _ bytes) => .attachment bytes
  | _ => .none

/-- the events the recording handler prints for what it was handed (completed attachment files are
summed right after the update with `left == 0`) -/
def renderHanded : List (Message DBT DH) → List Bytes → List String
  | [], _ => []
  | .unknown _ :: ms, fs => renderHanded ms fs
  | .body t v :: ms, fs => s!"body:{t}:{toHex (encBody id v)}" :: renderHanded ms fs
  | .headers hs rem :: ms, fs =>
    s!"headers:{hs.length}:{rem}:{toHex (hs.map (encBlockHeader GV.Gen.AUTOMATED_TESTING_PROOF_SIZE .full)).flatten}" :: renderHanded ms fs
  | .attachment rd left _ :: ms, fs =>
    if left = 0 then
      match fs with
      | f :: fs' => s!"att:{rd}:{left}" :: s!"attsum:{f.length}:{checksumLoop f 0 0}" :: renderHanded ms fs'
      | [] => s!"att:{rd}:{left}" :: "attsum:?" :: renderHanded ms []
    else s!"att:{rd}:{left}" :: renderHanded ms fs

/-- did the reader thread close the connection? (end of stream while idle = still up) -/
def connClosed (o : ConnOut DBT DH (List Bytes)) : Nat :=
  match o.view.stop with
  | some (.codec (.err .conn)) => if o.sock.flatten.isEmpty ∧ o.codec.state = .none ∧ o.codec.buffer.isEmpty then 0 else 1
  | _ => 1

def duplexModel (ver : Nat) (plan : List OutMsg) : String × String :=
  let net := netAutomatedTesting
  -- the `write_all`s of A's writer thread are the fragments B's reader sees
  let fragsAB := (plan.map (writeOps net [])).flatten
  let ob := connLoop (read (drvEnvT ver) fragOps) false recHandler 1000000 Codec.new fragsAB none
  let evB := renderHanded ob.view.handed ob.view.files
  -- B's writer thread sends the responses back; A's handler answers nothing
  let fragsBA := (ob.view.sent.map (writeOps net [])).flatten
  let oa := connLoop (read (drvEnvT ver) fragOps) false (fun _ => Consumed.none) 1000000 Codec.new fragsBA none
  let evA := renderHanded oa.view.handed oa.view.files
  (s!"[{";".intercalate evB}]|[{";".intercalate evA}]",
   -- the trackers: A's `sent_bytes`, B's `received_bytes` without the read that is still blocked at the end
   let se := rcOf (plan.flatMap (sentEntries net []))
   let re := rcOf ob.tracker.dropLast
   s!"sent:{trackedBytes se}:{trackedCount se};recv:{trackedBytes re}:{trackedCount re}")

def parseSockAddr (s : String) : Option SockAddr :=
  match s.splitOn ":" with
  | [ip, port] => match parseHex ip, port.toNat? with
    | some ip, some port => some { ip := ip, port := port }
    | _, _ => none
  | _ => none

def parseAddrList (s : String) : Option (List SockAddr) :=
  if s.isEmpty then some [] else (s.splitOn "+").mapM parseSockAddr

/-- `-` | `d=<list>` | `a=<list>` | `da=<list>/<list>` -/
def parseDeny (s : String) : Option (Option (List SockAddr) × Option (List SockAddr)) :=
  if s = "-" then some (none, none)
  else if s.startsWith "da=" then
    match (s.drop 3).toString.splitOn "/" with
    | [d, a] => match parseAddrList d, parseAddrList a with
      | some d, some a => some (some d, some a)
      | _, _ => none
    | _ => none
  else if s.startsWith "d=" then (parseAddrList (s.drop 2).toString).map fun d => (some d, none)
  else if s.startsWith "a=" then (parseAddrList (s.drop 2).toString).map fun a => (none, some a)
  else none

def parseAddrRing (s : String) : Option (List SockAddr) :=
  let inner := (s.drop 1).dropEnd 1 |>.toString
  if inner.isEmpty then some [] else (inner.splitOn ",").mapM parseSockAddr

def sockOfPeerAddr : GV.Msg.PeerAddr → SockAddr
  | .v4 ip port => { ip := ip, port := port }
  | .v6 segs port => { ip := (segs.map writeU16).flatten, port := port }

def showSock (a : SockAddr) : String := s!"{toHex a.ip}:{a.port}"
def showRing (l : List SockAddr) : String := "[" ++ ",".intercalate (l.map showSock) ++ "]"

def showHsErr : HsErr → String
  | .genesisMismatch => "err GenesisMismatch"
  | .peerWithSelf => "err PeerWithSelf"
  | .connectionClose => "err ConnectionClose"

def showInfo : Except HsErr Info → String
  | .error e => showHsErr e
  | .ok i =>
    let ua := if i.userAgent.isEmpty then "-" else toHex i.userAgent
    let dir := if i.inbound then "in" else "out"
    s!"ok {i.capabilities}:{ua}:{toHex i.addr.ip}:{i.addr.port}:{i.version}:{i.totalDifficulty}:{dir}"

def decOne {α : Type} (d : Dec α) (bs : Bytes) : Option α :=
  match d bs with
  | .ok v _ _ => some v
  | _ => none

def handleConn (args : List String) (impl : String) : Option Verdict :=
  match args with
  | ["duplex", ver, plan] =>
    match nat? ver, parsePlan plan with
    | some ver, some pl => some (cmpSpec (duplexModel ver pl).1 impl)
    | _, _ => some .unknown
  | ["dtrack", ver, plan] =>
    match nat? ver, parsePlan plan with
    | some ver, some pl => some (cmpModel (duplexModel ver pl).2 impl)
    | _, _ => some .unknown
  | ["chan", "fill"] =>
    -- the writer thread holds the first message (parked before it writes), every further one goes through
    -- `chanSend`; then one more through `ConnHandle::send`
    let offered := List.range (GV.Gen.CodecConn.SEND_CHANNEL_CAP + 7)
    let mk (i : Nat) : OutMsg := { t := GV.Gen.Msg.T_Ping, body := writeU64 7 ++ writeU64 i, att := none }
    let q := (offered.drop 1).foldl (fun q i => chanSend q (mk i)) []
    let accepted := 1 + q.length
    let q' := chanSend q (mk 999999)
    let extraSeen := if q'.length = q.length then 0 else 1
    -- drained in order by the writer thread (`writer_thread_in_order`)
    let received := 1 + q'.length
    some (cmpModel s!"accepted:{accepted};extra:ok;received:{received};inorder:1;extraseen:{extraSeen}" impl)
  | ["hconn", ver, frags] =>
    match nat? ver, parseHexList frags with
    | some ver, some fr =>
      let o := connLoop (read (drvEnvT ver) fragOps) false scriptHandler 1000000 Codec.new fr none
      let evs := renderHanded o.view.handed o.view.files ++ [s!"pongs:{o.view.sent.length}", s!"closed:{connClosed o}"]
      some (cmpModel s!"[{";".intercalate evs}]" impl)
    | _, _ => some .unknown
  | ["hsw", "hand", g, caps, td, selfA, peerA, ua, nonce] =>
    match parseHex g, nat? caps, nat? td, (parseHex selfA).bind (decOne (decPeerAddr .bin)),
          (parseHex peerA).bind (decOne (decPeerAddr .bin)), parseHex ua, nat? nonce with
    | some g, some caps, some td, some sa, some pa, some ua, some nonce =>
      let n : Node := { genesis := g, version := LOCAL_PROTOCOL_VERSION', capabilities := caps, totalDifficulty := td,
                        userAgent := ua, deny := none, allow := none }
      some (cmpModel (toHex (initiateWrites netAutomatedTesting n nonce sa pa)) impl)
    | _, _, _, _, _, _, _ => some .unknown
  | ["hsw", acc, g, caps, td, ua, deny, peer, ringNonce, before, stream] =>
    if acc ≠ "accept" ∧ acc ≠ "accepts" then none else
    let cmp := if acc = "accepts" then cmpSpec else cmpModel
    match parseHex g, nat? caps, nat? td, parseHex ua, parseDeny deny, parseSockAddr peer, nat? ringNonce,
          parseAddrRing before, parseHex stream with
    | some g, some caps, some td, some ua, some (d, a), some peer, some rn, some before, some bs =>
      let n : Node := { genesis := g, version := LOCAL_PROTOCOL_VERSION', capabilities := caps, totalDifficulty := td,
                        userAgent := ua, deny := d, allow := a }
      let o := readMessage netAutomatedTesting GV.Gen.Msg.T_Hand (decHand .bin) bs
      match o.res with
      | .ok h =>
        let r := acceptFull netAutomatedTesting n [rn] before (some peer) (sockOfPeerAddr h.senderAddr) h
        let wrote := match r.wrote with | some w => toHex w | none => "-"
        some (cmp s!"{showInfo r.res}|{wrote}|{showRing r.addrs}" impl)
      | .error e => some (cmp s!"err {e.name}|-|{showRing before}" impl)
    | _, _, _, _, _, _, _, _, _ => some .unknown
  | ["hsw", ini, g, deny, peer, stream] =>
    if ini ≠ "initiate" ∧ ini ≠ "initiates" then none else
    let cmp := if ini = "initiates" then cmpSpec else cmpModel
    match parseHex g, parseDeny deny, parseSockAddr peer, parseHex stream with
    | some g, some (d, a), some peer, some bs =>
      let n : Node := { genesis := g, version := LOCAL_PROTOCOL_VERSION', capabilities := 0, totalDifficulty := 0,
                        userAgent := [], deny := d, allow := a }
      let o := readMessage netAutomatedTesting GV.Gen.Msg.T_Shake (decShake .bin) bs
      match o.res with
      | .ok sh => some (cmp (showInfo (initiateFull n peer sh)) impl)
      | .error e => some (cmp s!"err {e.name}" impl)
    | _, _, _, _ => some .unknown
  | _ => none

/-- strip a trailing `:<maxreq>` of the `end:` event (refusal lines) -/
def splitEndMaxreq (impl : String) : String × Option Nat :=
  let inner := (impl.drop 1).dropEnd 1 |>.toString
  let evs := inner.splitOn ";"
  match evs.reverse with
  | last :: rest =>
    match last.splitOn ":" with
    | ["end", e1, e2, br, mr] =>
      (s!"[{";".intercalate (rest.reverse ++ [s!"end:{e1}:{e2}:{br}"])}]", mr.toNat?)
    | ["end", e1, br, mr] =>
      -- `end:BadMessage:11:77` (error name without a colon) vs `end:Ser:X:11` (no maxreq)
      if e1 = "Ser" then (impl, none)
      else (s!"[{";".intercalate (rest.reverse ++ [s!"end:{e1}:{br}"])}]", mr.toNat?)
    | _ => (impl, none)
  | [] => (impl, none)


/-! ### C19: the glue above `conn` (`peer.rs`, `protocol.rs`) -/

def showSeg : SegKind → String
  | .bitmap => "bitmap" | .output => "output" | .rangeproof => "rproof" | .kernel => "kernel"

def parseSeg : String → Option SegKind
  | "bitmap" => some .bitmap | "output" => some .output | "rproof" => some .rangeproof | "kernel" => some .kernel
  | _ => none

/-- an adapter call as the recording adapter of the harness logs it (`size`, `extra`: length and checksum
of the archive file handed to `txhashset_write`) -/
def showCall (size : Nat) (extra : String) : Call → String
  | .peerDifficulty a td h => s!"pdiff:{showSock a}:{td}:{h}"
  | .totalDifficulty => "td"
  | .totalHeight => "height"
  | .kernel h => s!"kernel:{toHex h}"
  | .tx k0 stem => s!"tx:{toHex k0}:{if stem then 1 else 0}"
  | .block h o => s!"block:{toHex h}:{o}"
  | .cblock h => s!"cblock:{toHex h}"
  | .header h => s!"header:{toHex h}"
  | .headers n => s!"headers:{n}"
  | .peerAddrs n => s!"peeraddrs:{n}"
  | .getBlock h => s!"getblock:{toHex h}"
  | .getTx h => s!"gettx:{toHex h}"
  | .findPeers c => s!"findpeers:{c}"
  | .locate n => s!"locate:{n}"
  | .archiveHeader => "archhdr"
  | .txhashsetRead => "tzread"
  | .receiveReady => "ready"
  | .downloadUpdate d t => s!"dl:{d}:{t}"
  | .tmpfile => "tmpfile"
  | .txhashsetWrite h => s!"archive:{toHex h}:{size}:{extra}"
  | .getSegment k => s!"getseg:{showSeg k}"
  | .recvSegment k => s!"seg:{showSeg k}"

/-- the serialisation of the harness' value at the negotiated version: `[body@1,body@2,body@3,body@1000]` -/
def bodyAt (ver : Nat) (bodies : List Bytes) : Option Bytes :=
  let i := if ver ≤ 1 then 0 else if ver = 2 then 1 else if ver = 3 then 2 else 3
  bodies[i]?

/-- `left` after each chunk the codec hands over for an attachment of `n` bytes (`Codec::next_len`:
`min(left, 48_000)`; an empty attachment is one empty chunk) -/
def attLefts : Nat → Nat → List Nat
  | 0, _ => []
  | fuel+1, left =>
    let l := left - min left GV.Gen.Msg.ATTACHMENT_CHUNK
    if l = 0 then [0] else l :: attLefts fuel l

/-- the batches the streaming codec hands over for a `Headers` message of `n` items -/
def hdrBatches : Nat → Nat → List Nat
  | 0, _ => []
  | fuel+1, n => if n ≤ GV.Gen.Msg.HEADER_BATCH_SIZE then [n] else GV.Gen.Msg.HEADER_BATCH_SIZE :: hdrBatches fuel (n - GV.Gen.Msg.HEADER_BATCH_SIZE)

/-- the messages `Protocol::consume` is handed for one frame on the wire -/
def parseIn (args : List String) : Option (List In × List Bytes × String) :=
  match args with
  | ["ping", td, h] => do some ([.ping (← td.toNat?) (← h.toNat?)], [], "")
  | ["pong", td, h] => do some ([.pong (← td.toNat?) (← h.toNat?)], [], "")
  | ["banreason"] => some ([.banReason], [], "")
  | ["kernel", h] => do some ([.kernel (← parseHex h)], [], "")
  | ["tx", k] => do some ([.tx (← parseHex k) false], [], "")
  | ["stem", k] => do some ([.tx (← parseHex k) true], [], "")
  | ["block", h] => do some ([.block (← parseHex h)], [], "")
  | ["cblock", h] => do some ([.cblock (← parseHex h)], [], "")
  | ["header", h] => do some ([.header (← parseHex h)], [], "")
  | ["getblock", h, f, b] => do some ([.getBlock (← parseHex h) (f = "1")], (← parseHexList b), "")
  | ["getcblock", h, f, b] => do some ([.getCompactBlock (← parseHex h) (f = "1")], (← parseHexList b), "")
  | ["gettx", h, f, b] => do some ([.getTx (← parseHex h) (f = "1")], (← parseHexList b), "")
  | ["getpeers", c, b] => do some ([.getPeerAddrs (← c.toNat?)], (← parseHexList b), "")
  | ["getheaders", n, b] => do some ([.getHeaders (← n.toNat?)], (← parseHexList b), "")
  | ["archive", h, len, sum] => do some ([.archive (← parseHex h) (← len.toNat?)], [], sum)
  | ["peeraddrs", n] => do some ([.peerAddrs (← n.toNat?)], [], "")
  | ["headers", n] => do
    let n ← n.toNat?
    some ((hdrBatches (n + 1) n).map .headers, [], "")
  | ["txhashsetreq", ho, f, att, b] => do some ([.txhashsetReq (ho = "1") (f = "1")], (← parseHexList b), att)
  | ["getseg", k, f, b] => do some ([.getSegment (← parseSeg k) (f = "1")], (← parseHexList b), "")
  | ["seg", k] => do some ([.segment (← parseSeg k)], [], "")
  | _ => none

/-- fold `Protocol::consume` over the messages of one frame (a refusal / disconnect ends it); an accepted
archive is followed by its attachment chunks -/
def consumeAll : Nat → Glue → List In → Glue × List Call × GOut
  | 0, g, _ => (g, [], .none)
  | _, g, [] => (g, [], .none)
  | fuel+1, g, m :: ms =>
    let (g1, calls, out) := consumeGlue g m
    match out, m with
    | .attachment n, .archive h _ =>
      let chunks := (attLefts (n / GV.Gen.Msg.ATTACHMENT_CHUNK + 2) n).map fun l => In.attachment h n l
      let (g2, c2, _) := consumeAll fuel g1 (chunks ++ ms)
      (g2, calls ++ c2, out)
    | .disconnect, _ => (g1, calls, out)
    | .badMessage, _ => (g1, calls, out)
    | _, _ =>
      if ms.isEmpty then (g1, calls, out)
      else
        let (g2, c2, o2) := consumeAll fuel g1 ms
        (g2, calls ++ c2, o2)

def handleGlue (st : St) (args : List String) (impl : String) : Option (St × Verdict) :=
  let net := netAutomatedTesting
  match args with
  | ["glue", "new", _dir, rv, caps, addr, td, height] =>
    match nat? rv, nat? caps, parseSockAddr addr, nat? td, nat? height with
    | some rv, some caps, some addr, some td, some height =>
      let g := Glue.new LOCAL_PROTOCOL_VERSION' rv caps addr td height
      some ({ st with glue := some g }, cmpSpec s!"ok {min LOCAL_PROTOCOL_VERSION' rv}" impl)
    | _, _, _, _, _ => some (st, .unknown)
  | ["glue", "ctl", what, b] =>
    match st.glue with
    | some g =>
      let g' := if what = "ban" then { g with banned := b = "1" } else if what = "ready" then { g with ready := b = "1" } else g
      some ({ st with glue := some g' }, cmpModel "ok" impl)
    | none => some (st, .unknown)
  | "glue" :: "recv" :: rest =>
    match st.glue, parseIn rest with
    | some g, some (ms, bodies, extra) =>
      let (g', calls, out) := consumeAll 1000 g ms
      let size := match ms with | .archive _ n :: _ => n | _ => 0
      let log := calls.map (showCall size extra)
      let resp : Option String := match out with
        | .pong td h => some (toHex (writeMessage net GV.Gen.Msg.T_Pong (writeU64 td ++ writeU64 h) []))
        | .stored t => (bodyAt g.ver bodies).map fun b =>
            -- a compact block is derived from the stored block with a fresh random nonce: type and length
            if t = GV.Gen.Msg.T_CompactBlock then s!"len:{t}:{(writeMessage net t b []).length}"
            else toHex (writeMessage net t b [])
        | .storedAtt t => (bodyAt g.ver bodies).map fun b => toHex (writeMessage net t b []) ++ ":att:" ++ extra
        | _ => some "-"
      let closed := match out with | .disconnect => 1 | .badMessage => 1 | _ => 0
      match resp with
      | some r => some ({ st with glue := some g' }, cmpModel s!"[{";".intercalate log}]|{r}|closed:{closed}" impl)
      | none => some (st, .unknown)
    | _, _ => some (st, .unknown)
  | "glue" :: "recvio" :: rest =>
    -- the io point of the arm fails (the temporary file of an accepted archive cannot be created)
    match st.glue, parseIn rest with
    | some g, some ([m], _, _) =>
      let (g', calls, out) := consumeGlueIo g m
      let closed := match out with | .disconnect => 1 | .badMessage => 1 | .ioErr => 1 | _ => 0
      some ({ st with glue := some g' }, cmpModel s!"[{";".intercalate (calls.map (showCall 0 ""))}]|-|closed:{closed}" impl)
    | _, _ => some (st, .unknown)
  | "glue" :: "recvf" :: f :: rest =>
    -- the underlying adapter fails (chain error) in method `f`
    match st.glue, parseIn rest with
    | some g, some ([m], bodies, _) =>
      let (g', calls, out) := consumeGlueF g m f
      let log := calls.map (showCall 0 "")
      let resp : Option String := match out with
        | .pong td h => some (toHex (writeMessage net GV.Gen.Msg.T_Pong (writeU64 td ++ writeU64 h) []))
        | .stored t => (bodyAt g.ver bodies).map fun b => toHex (writeMessage net t b [])
        | .storedAtt _ => none
        | _ => some "-"
      let closed := match out with | .disconnect => 1 | .badMessage => 1 | _ => 0
      match resp with
      | some r => some ({ st with glue := some g' }, cmpModel s!"[{";".intercalate log}]|{r}|closed:{closed}" impl)
      | none => some (st, .unknown)
    | _, _ => some (st, .unknown)
  | "glue" :: "send" :: rest =>
    match st.glue with
    | none => some (st, .unknown)
    | some g =>
      let parsed : Option (Out × Bool × List Bytes) := match rest with
        | ["ping", td, h, b] => do some (.ping (← td.toNat?) (← h.toNat?), false, (← parseHexList b))
        | ["header", h, b] => do some (.header (← parseHex h), true, (← parseHexList b))
        | ["cblock", h, b] => do some (.cblock (← parseHex h), true, (← parseHexList b))
        | ["kernel", h, b] => do some (.kernel (← parseHex h), true, (← parseHexList b))
        | ["tx", k, b] => do some (.tx (← parseHex k), true, (← parseHexList b))
        | ["stem", _k, b] => do some (.stem, false, (← parseHexList b))
        | ["blockreq", h, o, b] => do some (.blockReq (← parseHex h) (← o.toNat?), false, (← parseHexList b))
        | ["txhashsetreq", b] => do some (.txhashsetReq, false, (← parseHexList b))
        | ["banreason", b] => do some (.banReason, false, (← parseHexList b))
        | ["headerreq", b] => do some (.headerReq, false, (← parseHexList b))
        | ["txreq", b] => do some (.txReq, false, (← parseHexList b))
        | ["cblockreq", b] => do some (.cblockReq, false, (← parseHexList b))
        | ["peerreq", b] => do some (.peerReq, false, (← parseHexList b))
        | ["segreq", k, b] => do some (.segReq (← parseSeg k), false, (← parseHexList b))
        | _ => none
      match parsed with
      | none => some (st, .unknown)
      | some (o, guarded, bodies) =>
        let (g', t) := sendGlue g o
        let ret := if guarded then (if t.isSome then "Some(true)" else "Some(false)") else "ok"
        let frame : Option String := match t, o with
          | none, _ => some "-"
          | some t, .tx k0 =>
            if t = GV.Gen.Msg.T_TransactionKernel then some (toHex (writeMessage net t k0 []))
            else (bodyAt g.ver bodies).map fun b => toHex (writeMessage net t b [])
          | some t, _ => (bodyAt g.ver bodies).map fun b => toHex (writeMessage net t b [])
        match frame with
        | some f => some ({ st with glue := some g' }, cmpModel s!"{ret}|{f}" impl)
        | none => some (st, .unknown)
  | _ => none

/-! ### C19: concurrent senders, handshake read timeouts (`Model/CodecSend.lean`) -/

def handleMore (args : List String) (impl : String) : Option Verdict :=
  match args with
  | "csend" :: _ver :: k :: rest =>
    match nat? k with
    | some k =>
      if rest.length ≠ k + 1 then some .unknown else
      match (rest.take k).mapM parseHexList, parseHex (rest.getD k "") with
      | some lists, some stream =>
        -- the property fixes the answer; the driver evaluates it on the stream with the model's own header
        -- decoder and the `fromSender` projection of `Props/C19Send`
        let okModel := match splitFrames netAutomatedTesting (stream.length + 1) stream with
          | some frames => isInterleaving lists frames
          | none => false
        if okModel then some (cmpSpec "merge" impl)
        else if impl = "merge" then some (.fail "merge (the driver's evaluation of the received stream: NOT an interleaving of whole frames)")
        else some (cmpSpec "merge" impl)
      | _, _ => some .unknown
    | none => some .unknown
  | "cover" :: _ver :: k :: rest =>
    -- the send channel overflowing while the writer is held: whole frames, no foreign frame, per sender a SUBSEQUENCE
    -- of what it offered in order (`Props/C19Send.per_sender_order_kept`, every schedule; a prefix only while no slot
    -- is freed: `stalled_writer_accepts_prefixes`),
    -- `SEND_CHANNEL_CAP` frames, or one more (taken by the writer before it stalled)
    match nat? k with
    | some k =>
      if rest.length ≠ k + 1 then some .unknown else
      match (rest.take k).mapM parseHexList, parseHex (rest.getD k "") with
      | some lists, some stream =>
        let okModel := match splitFrames netAutomatedTesting (stream.length + 1) stream with
          | some frames =>
            (tagFramesSub lists frames).isSome &&
              (frames.length == GV.Gen.CodecConn.SEND_CHANNEL_CAP || frames.length == GV.Gen.CodecConn.SEND_CHANNEL_CAP + 1)
          | none => false
        if okModel then some (cmpSpec "subsequences" impl)
        else if impl = "subsequences" then some (.fail "subsequences (the driver's evaluation of the received stream disagrees)")
        else some (cmpSpec "subsequences" impl)
      | _, _ => some .unknown
    | none => some .unknown
  | ["wtime", dir, stalled] =>
    -- the remote never reads (`stalled` = 1) or behaves (0); both ends announce version 1000, same genesis
    let stall : Option Nat := if stalled = "1" then none else some 0
    let o := if dir = "accept" then acceptWithWrite stall (.ok (negotiate LOCAL_PROTOCOL_VERSION 1000))
             else initiateWithWrite stall (.ok (negotiate LOCAL_PROTOCOL_VERSION 1000))
    let m := match o with
      | .ok v => s!"ok {v}"
      | .refused e => showHs (.error e)
      | .writeTimeout => "err Timeout"
    if dir = "accept" ∨ dir = "initiate" then some (cmpModel m impl) else some .unknown
  | ["bcast", plan] =>
    -- `Peers::broadcast_header` over the connected peers: s = send goes out, x = suppressed (the source), f = fails
    let cs := if plan = "-" then [] else plan.toList
    let rs : List (Nat × SendRes) := cs.zipIdx.map fun (c, i) =>
      (i, if c = 's' then SendRes.sent else if c = 'x' then .suppressed else .failed)
    let (_, removed) := broadcast rs
    let recv := String.ofList (cs.map fun c => if c = 's' then '1' else '0')
    some (cmpModel s!"before:{cs.length};received:{if cs.isEmpty then "-" else recv};after:{cs.length - removed.length}" impl)
  | ["pstore", "seq"] =>
    let now : Int := 1000
    let showE : Except PeersErr Unit → String
      | .ok _ => "ok" | .error .notFound => "StoreNotFound" | .error .notBanned => "PeerNotBanned" | .error .peerNotFound => "PeerNotFound"
    let showU : Except PeersErr PData → String
      | .ok _ => "ok" | .error .notFound => "StoreNotFound" | .error .notBanned => "PeerNotBanned" | .error .peerNotFound => "PeerNotFound"
    let b : Bool → String := fun x => if x then "1" else "0"
    -- the connected peer: a fresh `Healthy` record
    let c0 : Option PData := some { flags := .healthy, lastBanned := 0, lastAttempt := now }
    let (c1, steps, r1) := banPeer now c0 true
    let u1 := unbanPeer now c1
    let c2 : Option PData := match u1 with | .ok d => some d | .error _ => c1
    -- the address known from the store only (added as banned, then unbanned): `Healthy`
    let s0 : Option PData := some { flags := .healthy, lastBanned := now, lastAttempt := now }
    let (s1, _, r2) := banPeer now s0 false
    let (n1, _, r3) := banPeer now none false
    let out := [b (storeIsBanned c0), showU (unbanPeer now c0), showE r1,
                (if steps.contains "send_ban_reason" then s!"frame:{GV.Gen.Msg.T_BanReason}" else "frame:-"), b (storeIsBanned c1),
                (if steps.contains "remove" then "map:0" else "map:1"), s!"peerbanned:{b (steps.contains "set_banned")}",
                showU u1, b (storeIsBanned c2), showU (unbanPeer now c2),
                showE r2, b (storeIsBanned s1), showE r3, b (storeIsBanned n1), showU (unbanPeer now n1)]
    some (cmpModel (";".intercalate out) impl)
  | ["server", "limit", maxIn, buffer, n] =>
    -- a real `Server::listen`: connection i arrives when the i earlier ACCEPTED ones are connected inbound peers
    match nat? maxIn, nat? buffer, nat? n with
    | some maxIn, some buffer, some n =>
      let step : Nat × List Char → Nat → Nat × List Char := fun (acc, out) _ =>
        if checkUndesirable acc maxIn buffer true false (some false) then (acc, out ++ ['0']) else (acc + 1, out ++ ['1'])
      let (_, out) := (List.range n).foldl step (0, [])
      some (cmpModel (String.ofList out) impl)
    | _, _, _ => some .unknown
  | ["wclosed"] =>
    -- the remote closed behind its Pings: the response's write fails (not a timeout): the writer leaves without a retry,
    -- the reader ends at end of stream - both threads gone without `stop`; the channel is disconnected afterwards
    some (cmpModel "ended:1;send:Send" impl)
  | ["wstall", n, len, j, k, total] =>
    -- (thorough only) the writer's 60 s write timeout: message j re-sent from byte 0 after k of its bytes
    match nat? n, nat? len, nat? j, nat? k, nat? total with
    | some n, some len, some j, some k, some total =>
      let msgs : List OutMsg := List.replicate n { t := GV.Gen.Msg.T_Block, body := List.replicate len 0, att := none }
      let oc : List (Option Nat) := if k = 0 ∧ j = n then [] else List.replicate j none ++ [some k]
      let written := (writerLoop netAutomatedTesting (n + 2) msgs oc).foldl (fun a b => a + b.length) 0
      let m := if k = 0 ∧ j = n then "in-order" else "resent-from-byte-0"
      if written = total then some (cmpModel m impl) else some (.diff s!"{m} with {written} bytes on the wire")
    | _, _, _, _, _ => some .unknown
  | ["clean", maxIn, maxOut, td, spec] =>
    -- `Peers::clean_peers` over real peers: the removals with a definite reason must be exactly there; of the inbound
    -- candidates (not preferred) the code takes `excess` in map order - any choice of that size is accepted
    match nat? maxIn, nat? maxOut, nat? td with
    | some maxIn, some maxOut, some td =>
      let items := if spec = "-" then [] else spec.splitOn ","
      let parsed : Option (List CP) := items.zipIdx.mapM fun (it, i) =>
        match it.splitOn ":" with
        | [hd, d] => d.toNat?.map fun d =>
          ({ id := i, outbound := hd.startsWith "o", banned := hd.contains 'b', abusive := hd.contains 'a',
             stuck := hd.contains 's', diff := d, preferred := hd.contains 'p' } : CP)
        | _ => none
      match parsed with
      | none => some .unknown
      | some ps =>
        let det := cleanDefinite maxOut (some td) ps
        let (m, cand) := excessInbound maxIn ps
        let candIds := cand.map (·.id)
        let bits := if impl = "-" then [] else impl.toList
        if bits.length ≠ ps.length then some (.diff "one bit per peer") else
        let removed := (bits.zipIdx.filter fun (c, _) => c = '1').map (·.2)
        let extras := removed.filter fun i => !det.contains i
        let okDet := det.all fun i => removed.contains i
        let okExtra := extras.all fun i => candIds.contains i
        let overlap := (candIds.filter fun i => det.contains i).length
        let okCount := decide (extras.length ≤ m) && decide (m ≤ extras.length + overlap)
        if okDet && okExtra && okCount then some .ok
        else some (.diff s!"definite removals {det}, {m} of the inbound candidates {candIds}")
    | _, _, _ => some .unknown
  | ["stoprace", _k] => some (cmpSpec "finished" impl)
  | ["stopmid"] =>
    -- the `stopped` flag is read at the top of the reader loop only: the frame in flight is completed and handed
    -- over, nothing after it; `Peer::is_connected` is not touched by `stop`
    some (cmpModel s!"inflight:1;after:0;connected:{if peerIsConnected false true true true then 1 else 0}" impl)
  | ["deadconn"] =>
    -- the reader refused a frame and closed; the Peer's state is untouched, the writer thread and its channel live on
    some (cmpModel s!"closed:1;is_connected:{if peerIsConnected false true false false then 1 else 0};send:ok" impl)
  | ["hstime", dir, g, sched] =>
    match parseHex g, parseSched sched with
    | some g, some sc =>
      let ts := tagSched sc
      let model : Option String := match dir with
        | "accept" =>
          some (match readMessageT handReadTimeout netAutomatedTesting GV.Gen.Msg.T_Hand (decHand .bin) ts with
            | .timedOut => "err Timeout"
            | .done o => match o.res with
              | .ok h => showHs (acceptDecision g LOCAL_PROTOCOL_VERSION [] false h)
              | .error e => "err " ++ e.name)
        | "initiate" =>
          some (match readMessageT shakeReadTimeout netAutomatedTesting GV.Gen.Msg.T_Shake (decShake .bin) ts with
            | .timedOut => "err Timeout"
            | .done o => match o.res with
              | .ok h => showHs (initiateDecision g LOCAL_PROTOCOL_VERSION false h)
              | .error e => "err " ++ e.name)
        | _ => none
      match model with
      | some m => some (cmpModel m impl)
      | none => some .unknown
    | _, _ => some .unknown
  | _ => none

def handle (st : St) (args : List String) (impl : String) : St × Verdict :=
  match handleGlue st args impl with
  | some r => r
  | none =>
  match handleConn args impl with
  | some v => (st, v)
  | none =>
  match handleMore args impl with
  | some v => (st, v)
  | none =>
  match args with
  | ["run", ver, frags] =>
    match nat? ver, parseHexList frags with
    | some ver, some fr =>
      let evs := runEventsO (drvEnvT ver) 100000 Codec.new fr
      let model := s!"[{";".intercalate evs}]"
      let (implCore, maxreq) := splitEndMaxreq impl
      if implCore ≠ model then (st, .diff model)
      else match maxreq with
        | some m => if m ≤ 65536 then (st, .ok) else (st, .fail s!"{model} with at most 65536 bytes requested")
        | none => (st, .ok)
    | _, _ => (st, .unknown)
  | ["timed", ver, sched] =>
    match nat? ver, parseSched sched with
    | some ver, some sc =>
      let evs := runEventsT (drvEnvT ver) 1000000 Codec.new (tagSched sc) [] 0
      (st, cmpModel s!"[{";".intercalate evs}]" impl)
    | _, _ => (st, .unknown)
  | ["peer", ver, now, sched] =>
    match nat? ver, now.toInt?, parseSched sched with
    | some ver, some now, some sc =>
      let evs := runEventsP (drvEnvP ver now) 1000000 Codec.new (tagSched sc) 0
      (st, cmpModel s!"[{";".intercalate evs}]" impl)
    | _, _, _ => (st, .unknown)
  | ["hsthen", dir, ver, now, frags] =>
    match nat? ver, now.toInt?, parseHexList frags with
    | some ver, some now, some fr =>
      let bs := fr.flatten
      -- `read_message` of the handshake takes exactly the 11 header bytes and the announced body off the socket
      let consumed : Option Nat := match dir with
        | "accept" =>
          let o := readMessage netAutomatedTesting GV.Gen.Msg.T_Hand (decHand .bin) bs
          (match o.res with | .ok _ => some o.consumed | .error _ => none)
        | "connect" =>
          let o := readMessage netAutomatedTesting GV.Gen.Msg.T_Shake (decShake .bin) bs
          (match o.res with | .ok _ => some o.consumed | .error _ => none)
        | _ => none
      match consumed with
      | some k =>
        let evs := runEventsP (drvEnvP ver now) 1000000 Codec.new (tagSched [(0, bs.drop k)]) 0
        (st, cmpSpec s!"[{";".intercalate evs}]" impl)
      | none => (st, cmpSpec "[handshake-failed]" impl)
    | _, _, _ => (st, .unknown)
  | ["rmsgv", kind, frags] =>
    match parseHexList frags with
    | some fr =>
      let bs := fr.flatten
      let model : Option String := match kind with
        | "hand" =>
          let o := readMessage netAutomatedTesting GV.Gen.Msg.T_Hand (decHand .bin) bs
          some (match o.res with | .ok h => "ok " ++ toHex (encHand h) | .error e => "err " ++ e.name)
        | "shake" =>
          let o := readMessage netAutomatedTesting GV.Gen.Msg.T_Shake (decShake .bin) bs
          some (match o.res with | .ok h => "ok " ++ toHex (encShake h) | .error e => "err " ++ e.name)
        | "peeraddrs" =>
          let o := readMessage netAutomatedTesting GV.Gen.Msg.T_PeerAddrs (decPeerAddrs (P := Unit) .bin) bs
          some (match o.res with | .ok b => "ok " ++ toHex (encBody (fun _ => []) b) | .error e => "err " ++ e.name)
        | _ => none
      match model with
      | some m => (st, cmpModel m impl)
      | none => (st, .unknown)
    | none => (st, .unknown)
  | ["ring", "new"] => ({ st with ring := [] }, cmpModel "ok" impl)
  | ["ring", "push", nonce] =>
    match nat? nonce with
    | some n => ({ st with ring := pushNonce st.ring n }, .ok)
    | none => (st, .unknown)
  | ["ring", "self", nonce] =>
    -- `initiate` draws the nonce (`next_nonce`), the `Hand` carrying it arrives at our own `accept`:
    -- the property fixes the answer
    match nat? nonce with
    | some n =>
      let ring := pushNonce st.ring n
      let m := ringDecision ring n
      if m ≠ "err PeerWithSelf" then
        ({ st with ring := ring }, .diff s!"{m} (the model itself contradicts self_connect_refused)")
      else ({ st with ring := ring }, cmpSpec m impl)
    | none => (st, .unknown)
  | ["ring", "replay", nonce] =>
    match nat? nonce with
    | some n => (st, cmpModel (ringDecision st.ring n) impl)
    | none => (st, .unknown)
  | ["hs", "self"] =>
    let h : Hand := { version := 1000, capabilities := 0, nonce := 42, genesis := [1], totalDifficulty := 0,
                      senderAddr := .v4 [0, 0, 0, 0] 0, receiverAddr := .v4 [0, 0, 0, 0] 0, userAgent := [] }
    (st, cmpSpec (showHs (acceptDecision [1] LOCAL_PROTOCOL_VERSION (pushNonce [] 42) false h)) impl)
  | ["hs", "other"] =>
    -- the verdict depends on the nonce ring only: the same `Hand`, but the ring is another node's
    let h : Hand := { version := 1000, capabilities := 0, nonce := 42, genesis := [1], totalDifficulty := 0,
                      senderAddr := .v4 [127, 0, 0, 1] 0, receiverAddr := .v4 [127, 0, 0, 2] 0, userAgent := [] }
    (st, cmpSpec (showHs (acceptDecision [1] LOCAL_PROTOCOL_VERSION (pushNonce [] 43) false h)) impl)
  | ["hs", "accept", g, stream] =>
    match parseHex g, parseHex stream with
    | some g, some bs =>
      let o := readMessage netAutomatedTesting GV.Gen.Msg.T_Hand (decHand .bin) bs
      let model := match o.res with
        | .ok h => showHs (acceptDecision g LOCAL_PROTOCOL_VERSION [] false h)
        | .error e => "err " ++ e.name
      (st, cmpSpec model impl)
    | _, _ => (st, .unknown)
  | ["hs", "initiate", g, stream] =>
    match parseHex g, parseHex stream with
    | some g, some bs =>
      let o := readMessage netAutomatedTesting GV.Gen.Msg.T_Shake (decShake .bin) bs
      let model := match o.res with
        | .ok h => showHs (initiateDecision g LOCAL_PROTOCOL_VERSION false h)
        | .error e => "err " ++ e.name
      (st, cmpSpec model impl)
    | _, _ => (st, .unknown)
  | ["dec", d, rd, ver, hex] =>
    match parseRdr rd, nat? ver, parseHex hex with
    | some rd, some ver, some bs =>
      match runDec d rd ver bs with
      | some (cls, alloc) => (st, judge cls alloc bs.length impl (d.startsWith "hdr"))
      | none => (st, .unknown)
    | _, _, _ => (st, .unknown)
  | ["decs", d, rd, ver, extra, hex] =>
    match parseRdr rd, nat? ver, parseExtra extra, parseHex hex with
    | some rd, some ver, some ex, some bs =>
      match runDecS d rd ver ex bs with
      | some (cls, alloc) => (st, judgeS cls alloc impl)
      | none => (st, .unknown)
    | _, _, _, _ => (st, .unknown)
  | ["rdr", m, rd, arg, hex] =>
    let rd' := if rd = "stream" then some Rdr.bin else parseRdr rd
    match rd', nat? arg, parseHex hex with
    | some rd, some arg, some bs =>
      match runRdr m rd arg bs with
      | some model => (st, cmpModel model impl)
      | none => (st, .unknown)
    | _, _, _ => (st, .unknown)
  | ["memsize", t] =>
    match memSize t with
    | some n => (st, cmpModel (toString n) impl)
    | none => (st, .unknown)
  | ["hex", s] =>
    match parseHex s with
    | some bs => (st, judge (showHexRes (utilFromHex bs)) (utilFromHexAlloc bs) bs.length impl)
    | none => (st, .unknown)
  | ["merklehex", s] =>
    match parseHex s with
    | some bs =>
      -- `from_hex` returns the proof only: `ok <canon>` / `err` / `panic`
      let o := merkleProofFromHex bs
      let cls := match o with
        | .ok p _ _ => "ok " ++ toHex (encMerkleProof p)
        | .err _ _ => "err"
        | .panic _ _ => "panic"
      (st, judge cls o.alloc bs.length impl)
    | none => (st, .unknown)
  | ["rmsg", "hand", stream] =>
    -- `msg::read_message::<Hand>` straight on the stream (handshake path, `read_discard` for unknown types)
    match parseHex stream with
    | some bs =>
      let o := readMessage netAutomatedTesting GV.Gen.Msg.T_Hand (decHand .bin) bs
      let cls := match o.res with
        | .ok _ => "ok"
        | .error e => "err " ++ e.name
      (st, judge cls o.alloc bs.length impl true)
    | none => (st, .unknown)
  | ["bound", _d, k, len] =>
    match nat? k, nat? len, splitLast impl with
    | some k, some len, some (_, maxreq) =>
      if maxreq ≤ 16 * len + k then (st, .ok)
      else (st, .fail s!"alloc ≤ {16 * len + k}")
    | _, _, _ => (st, .unknown)
  | _ => (st, .unknown)

end GV.Drv.CodecD
