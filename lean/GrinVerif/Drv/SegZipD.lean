import GrinVerif.Drv.Common
import GrinVerif.Model.SegZip
/-! Driver glue for the `seg zip …` lines (property C16, state-archive path): `Model/SegZip.lean`
recomputes what `util/src/zip.rs` and `txhashset::zip_read` did.

    seg zip mk <dir> <files>              => <entries>          create_zip over a source directory
    seg zip x <entries> <files>           => <dir> | err        extract_files into an empty directory
    seg zip archive <hash> <present>      => <names>            entry names of the archive zip_read built
    seg zip write <needed> <known> <honest> => replaced|ban|notneeded|failed   Chain::txhashset_write

`<dir>` = `[path=content,…]` sorted by path, `<entries>` = `[name=content=crcok,…]` in central
directory order, `<files>` / `<names>` / `<present>` = `[name,…]`; contents are hex (`-` = empty). -/
namespace GV.Drv.SegZipD
open GV GV.Drv GV.SegZip

/-- unix `Path::components` / `mangled_name`: split at `/` (`\` turned into `/` for entry names) -/
def names : Names where
  comps := fun s => s.splitOn "/"
  entryComps := fun s => (s.replace "\\" "/").splitOn "/"
  join := fun l => "/".intercalate l

def inner (s : String) : List String :=
  let i := (s.drop 1).dropEnd 1 |>.toString
  if i.isEmpty then [] else i.splitOn ","

def parseDir (s : String) : Option Dir :=
  (inner s).mapM fun t => match t.splitOn "=" with
    | [p, c] => some (p.splitOn "/", c)
    | _ => none

def parseEntries (s : String) : Option (List Entry) :=
  (inner s).mapM fun t => match t.splitOn "=" with
    | [n, c, k] => some ⟨n, c, k != "0"⟩
    | _ => none

def insertSorted (x : String × String) : List (String × String) → List (String × String)
  | [] => [x]
  | y :: ys => if x.1 < y.1 then x :: y :: ys else y :: insertSorted x ys

/-- sorted by path (as the harness lists the directory) -/
def showDir (d : Dir) : String :=
  let l := (d.map fun pc => ("/".intercalate pc.1, pc.2)).foldl (fun acc x => insertSorted x acc) []
  "[" ++ ",".intercalate (l.map fun x => x.1 ++ "=" ++ x.2) ++ "]"

def showEntries (l : List Entry) : String :=
  "[" ++ ",".intercalate (l.map fun e => e.name ++ "=" ++ e.content ++ "=" ++ (if e.crcOk then "1" else "0")) ++ "]"

def showWrite : WriteRes → String
  | .notNeeded => "notneeded"
  | .ban => "ban"
  | .failed => "failed"
  | .replaced => "replaced"

def handle (args : List String) (impl : String) : Verdict :=
  match args with
  | ["mk", dir, files] =>
    match parseDir dir with
    | some d => cmpModel (showEntries (createZip names d (inner files))) impl
    | none => .unknown
  | ["x", entries, files] =>
    match parseEntries entries with
    | some a =>
      match extractFiles names a (inner files) [] with
      | .ok d => cmpModel (showDir d) impl
      | .err => cmpModel "err" impl
    | none => .unknown
  -- the archive `zip_read` builds holds exactly the files of `file_list(header)` that exist
  | ["archive", hash, present] =>
    let d : Dir := (inner present).map fun n => (n.splitOn "/", "")
    cmpSpec ("[" ++ ",".intercalate ((createZip names d (fileList hash)).map (·.name)) ++ "]") impl
  | ["write", needed, known, honest] =>
    let b := fun (s : String) => s != "0"
    -- an honest archive: opens, kernel history fine, commits to the header, everything validates
    let hdr : Commit Nat := ⟨0, 0, 0, 0, 0⟩
    let st : Commit Nat := if b honest then hdr else ⟨1, 0, 0, 0, 0⟩
    cmpSpec (showWrite (txhashsetWrite (b needed) (b known) true true st hdr true)) impl
  | _ => .unknown

end GV.Drv.SegZipD
