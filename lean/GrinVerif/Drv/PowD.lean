import GrinVerif.Drv.Common
import GrinVerif.Model.Pow
import GrinVerif.Model.PowSpec
import GrinVerif.Model.PowPack
import GrinVerif.Model.PowSelect
import GrinVerif.Model.PowCtx
import GrinVerif.Model.PowDiff
import GrinVerif.Model.PowSize
import GrinVerif.Model.PowEntry
/-! Driver glue for the `pow` domain (line protocol handler), property C05.

ops (see harness/src/bin/pow.rs):
* `sip24 k0 k1 k2 k3 nonce => h`, `sipblock k0 k1 k2 k3 nonce rot xorall => h`
* `keys <hdrhex> <nonce|none> => k0 k1 k2 k3` (blake2b of the header, 4 LE words)
* `ep <variant> eb k0 k1 k2 k3 nonce => u v`
* `verify <variant> eb proofsize ctxps k0 k1 k2 k3 [nonces] => ok|<err>`: FAIL when accept/reject
  differs from the rule as decided by the verifier model (proved ⟺ the declarative rule:
  `Props.C05Entry.verifyOf_iff`), DIFF when the independent graph oracle disagrees with that decision
  or only the error kind differs
* `exh <variant> eb proofsize k0 k1 k2 k3 => <one verdict char per ascending tuple>`
* `select <chain> height eb [avail] => [accepted]|err` (variant selection of `create_pow_context`)
* `pack w proofsize [nonces] => hex|panic`, `unpack w proofsize <hex> => [nonces]|err`, `diff scale <packedhex> => n`
* context histories (ONE context object; the model state `St.ctx` is folded over the lines):
  `hnew <variant> eb proofsize ctxps => ok`,
  `hseed <hdrhex> <nonce|none> <solve> => k0 k1 k2 k3 | -` (`set_header_nonce`; keys observed on the
  very object where the API shows them), `hfind => [[..],..]|nosol|err|panic` (`find_cycles`),
  `hverify <tag> [nonces] => ok|<err>`: the model verdict is a function of the keys of the LAST
  `hseed` only; FAIL when accept/reject differs from the independent oracle on that header's graph
* the node's entry point: `vsize <chain> height eb <pre_pow hex> [nonces] => ok|noctx|<err>|panic`
  (`pow::verify_size` on a header with these fields under that chain type): FAIL when accept/reject
  differs from the rule (a context exists for (chain, height, eb), exactly proofsize nonces,
  ascending, in range, one simple cycle of the pre_pow-seeded graph), DIFF on the error kind
* the same entry point over the WHOLE `u8` range of `edge_bits` in release arithmetic:
  `entry <chain> height eb <pre_pow hex> [nonces] => ok|noctx|toobiggraph|<err>|panic` against
  `verifySizeEntry` (Model/PowEntry.lean): FAIL when accept/reject differs from the model — by
  `Props.C05Entry.verify_size_accepts_exactly_cycles` the model accepts exactly what the property's
  rule accepts; DIFF when the independent graph oracle disagrees with that proved decision, or on
  the error kind
* difficulty over the full parameter space: `gw <chain> height eb => weight` (`graph_weight`),
  `todiff <chain> height eb secondary_scaling <packedhex> => n` (`ProofOfWork::to_difficulty`),
  `undiff <packedhex> => n` (`to_unscaled_difficulty`)
-/
namespace GV.Drv.PowD
open GV GV.Drv GV.Pow

structure St where
  /-- the one context object of a history run -/
  ctx : Option Ctx := none
  /-- number of calls made on it (for messages) -/
  calls : Nat := 0

def resName : Except Err Unit → String
  | .ok _ => "ok"
  | .error e => e.name

def resChar : Except Err Unit → Char
  | .ok _ => 'A'
  | .error .wrongLen => 'L' | .error .tooBig => 'B' | .error .notAscending => 'N'
  | .error .notBalanced => 'U' | .error .noMatch => 'X' | .error .branch => 'R'
  | .error .deadEnd => 'D' | .error .tooShort => 'S' | .error .noClose => 'C' | .error .hang => 'H'

/-- endpoint table for nonces `0 … n-1` -/
def epTable (ep : Nat → Nat × Nat) (n : Nat) : Array (Nat × Nat) :=
  (List.range n).foldl (fun a i => a.push (ep i)) #[]

/-- fold over all ascending `k`-tuples of `start … N-1` in lexicographic order -/
def foldTup {σ : Type} (N : Nat) (f : σ → List Nat → σ) : Nat → Nat → List Nat → σ → σ
  | 0, _, pre, acc => f acc pre.reverse
  | k+1, start, pre, acc =>
    (List.range (N - start)).foldl (fun acc d =>
      let x := start + d
      if x + k < N then foldTup N f k (x+1) (x :: pre) acc else acc) acc

/-- what went wrong first on an `exh` line -/
structure ExhBad where
  specBad : Option String := none     -- implementation ≠ proved decision of the rule (spec failure)
  oracleBad : Option String := none   -- independent oracle ≠ proved decision (the oracle / the reading of the spec is off)
  modelBad : Option String := none    -- accept/reject agree, the error kind does not

/-- Every ascending tuple.  The rule of the property (count / ascending / range / one simple cycle)
is decided by the verifier model: `Props.C05Entry.verifyOf_iff` proves `verifyOf … = ok` ⟺ the
rule, for the parameters used here (`ctx.proof_size = proofsize`, the real bucket mask).  FIRST the
implementation's accept/reject is compared with that proved decision — a difference is a spec
failure and names the first offending tuple.  The independent graph oracle (`oracleAccept`: degree
counting + connectivity, written without reference to the verifiers) is evaluated on every tuple
as well: a difference between it and the proved decision is reported as a disagreement (the
oracle's reading of "one simple cycle" would differ from `IsProofCycle*`).  Last the error kind. -/
def exhaustive (v : Variant) (eb ps : Nat) (k : Keys) (impl : String) : Verdict :=
  let N := 2^eb
  let tbl := epTable (epOf v k eb) N
  let ep := fun n => tbl.getD n (0, 0)
  let P := mkParams eb ps ps
  let implChars := impl.toList.toArray
  let (idx, bad) := foldTup N (fun (acc : Nat × ExhBad) t =>
      let (i, bad) := acc
      let r := verifyOf v P ep t
      let m := resChar r == 'A'
      let o := oracleAccept v ps (2^eb - 1) ep t
      let ic := implChars.getD i '?'
      let bad :=
        if bad.specBad.isNone && (ic == 'A') != m then
          let what := if ic == 'A' then "ACCEPTS a non-cycle" else s!"REJECTS ({ic}) a cycle"
          let oa := if o then "accept" else "reject"
          let msg := s!"tuple #{i} nonces={showNatList t}: implementation {what}; rule (proved decision)={resName r} independent oracle={oa} impl={ic}"
          { bad with specBad := some msg }
        else bad
      let bad :=
        if bad.oracleBad.isNone && o != m then
          let oa := if o then "accept" else "reject"
          let msg := s!"tuple #{i} nonces={showNatList t}: independent oracle={oa} but the proved decision of the rule={resName r} (impl={ic})"
          { bad with oracleBad := some msg }
        else bad
      let bad :=
        if bad.modelBad.isNone && ic != resChar r then
          let oa := if o then "accept" else "reject"
          let msg := s!"tuple #{i} nonces={showNatList t}: model={resChar r} impl={ic} (oracle={oa})"
          { bad with modelBad := some msg }
        else bad
      (i+1, bad)) ps 0 [] (0, {})
  match bad.specBad with
  | some b => .fail b
  | none =>
    if idx != implChars.size then .diff s!"tuples={idx} but {implChars.size} verdict characters"
    else match bad.oracleBad with
      | some b => .diff b
      | none => match bad.modelBad with
        | some b => .diff b
        | none => .ok

def keysStr (k : Keys) : String := s!"{k.k0.toNat} {k.k1.toNat} {k.k2.toNat} {k.k3.toNat}"

/-- one `verify` observation on context `c`.  In the production configuration (`ctx.proof_size =
proofsize`) the model's accept/reject IS the property's rule (`Props.C05Entry.verifyOf_iff`):
FIRST implementation vs that proved decision — a difference is a concrete failing input; then the
independent graph oracle vs the proved decision (a difference there means the oracle's reading of
"one simple cycle" is not `IsProofCycle*`); then the error kind. -/
def verifyVerdict (c : Ctx) (ns : List Nat) (impl : String) (note : String) : Verdict :=
  let ep := epOf c.variant c.keys c.edgeBits
  let r := c.verify ns
  let m := resName r == "ok"
  let o := oracleAccept c.variant c.proofsize (2^c.edgeBits - 1) ep ns
  let oa := if o then "accept" else "reject"
  if c.ctxProofSize == c.proofsize && (impl == "ok") != m then
    let what := if impl == "ok" then "ACCEPTS a non-cycle" else s!"REJECTS ({impl}) a cycle"
    .fail s!"nonces={showNatList ns}: implementation {what}; rule (proved decision)={resName r} independent oracle={oa}{note}"
  else if c.ctxProofSize == c.proofsize && o != m then
    .diff s!"{resName r} (the independent graph oracle says {oa} for nonces={showNatList ns}: it disagrees with the proved decision){note}"
  else cmpModel (resName r) impl

def handle (st : St) (args : List String) (impl : String) : St × Verdict :=
  match args with
  | ["sip24", a, b, c, d, n] =>
    match nat? a, nat? b, nat? c, nat? d, nat? n with
    | some a, some b, some c, some d, some n =>
      (st, cmpModel (toString (siphash24 (mkKeys a b c d) n.toUInt64).toNat) impl)
    | _, _, _, _, _ => (st, .unknown)
  -- the same values as spec values (run `order`: one thread, many keys / blocks / rotations)
  | ["sip24spec", a, b, c, d, n] =>
    match nat? a, nat? b, nat? c, nat? d, nat? n with
    | some a, some b, some c, some d, some n =>
      (st, cmpSpec (toString (siphash24 (mkKeys a b c d) n.toUInt64).toNat) impl)
    | _, _, _, _, _ => (st, .unknown)
  | ["sipblockspec", a, b, c, d, n, rot, xa] =>
    match nat? a, nat? b, nat? c, nat? d, nat? n, nat? rot with
    | some a, some b, some c, some d, some n, some rot =>
      (st, cmpSpec (toString (siphashBlock (mkKeys a b c d) n.toUInt64 rot.toUInt64 (xa == "true")).toNat) impl)
    | _, _, _, _, _, _ => (st, .unknown)
  | ["sipblock", a, b, c, d, n, rot, xa] =>
    match nat? a, nat? b, nat? c, nat? d, nat? n, nat? rot with
    | some a, some b, some c, some d, some n, some rot =>
      (st, cmpModel (toString (siphashBlock (mkKeys a b c d) n.toUInt64 rot.toUInt64 (xa == "true")).toNat) impl)
    | _, _, _, _, _, _ => (st, .unknown)
  -- the graph is seeded by the header with the nonce spliced in (for every nonce, 0 included) resp.
  -- by the unmodified header for `none`: fixed by the property, compared as a spec value
  | ["keysspec", hdr, nonce] =>
    match parseHex hdr with
    | some hb =>
      let k := match nat? nonce with
        | some n => keysOfHeader (spliceNonce hb n) none
        | none => keysOfHeader hb none
      (st, cmpSpec (keysStr k) impl)
    | none => (st, .unknown)
  | ["keys", hdr, nonce] =>
    match parseHex hdr with
    | some hb => (st, cmpModel (keysStr (keysOfHeader hb (nat? nonce))) impl)
    | none => (st, .unknown)
  | ["ep", v, eb, a, b, c, d, n] =>
    match Variant.ofString? v, nat? eb, nat? a, nat? b, nat? c, nat? d, nat? n with
    | some v, some eb, some a, some b, some c, some d, some n =>
      let r := epOf v (mkKeys a b c d) eb n
      (st, cmpModel s!"{r.1} {r.2}" impl)
    | _, _, _, _, _, _, _ => (st, .unknown)
  | ["verify", v, eb, ps, cps, a, b, c, d, ns] =>
    match Variant.ofString? v, nat? eb, nat? ps, nat? cps, nat? a, nat? b, nat? c, nat? d, parseNatList ns with
    | some v, some eb, some ps, some cps, some a, some b, some c, some d, some ns =>
      (st, verifyVerdict { Ctx.new v eb ps cps with keys := mkKeys a b c d } ns impl "")
    | _, _, _, _, _, _, _, _, _ => (st, .unknown)
  | ["hnew", v, eb, ps, cps] =>
    match Variant.ofString? v, nat? eb, nat? ps, nat? cps with
    | some v, some eb, some ps, some cps => ({ ctx := some (Ctx.new v eb ps cps), calls := 0 }, cmpModel "ok" impl)
    | _, _, _, _ => (st, .unknown)
  | ["hseed", hdr, nonce, solve] =>
    match st.ctx, parseHex hdr with
    | some c, some hb =>
      let c := c.step (.seed hb (nat? nonce) (solve == "true"))
      ({ ctx := some c, calls := st.calls + 1 },
        if impl == "-" then .ok else cmpModel (keysStr c.keys) impl)
    | _, _ => (st, .unknown)
  | ["hfind"] =>
    match st.ctx with
    | some c =>
      let st' := fun sols => { ctx := some (c.step (.find sols)), calls := st.calls + 1 }
      if c.variant != .cuckatoo then (st' [], cmpModel "panic" impl)        -- unimplemented!()
      else if !c.graphReset then (st' [], cmpModel "panic" impl)           -- adj_list is empty: index panic
      else if impl == "nosol" || impl == "err" || impl == "panic" then (st' [], .ok)
      else match (impl.splitOn ";").mapM parseNatList with
        | none => (st, .unknown)
        | some sols =>
          -- the solver is not modelled; what it reports must be cycles of the current header
          match sols.find? (fun s => resName (c.verify s) != "ok") with
          | some s => (st' sols, .diff s!"solver reported {showNatList s}, which the model refuses ({resName (c.verify s)})")
          | none => (st' sols, .ok)
    | none => (st, .unknown)
  | ["hverify", _tag, ns] =>
    match st.ctx, parseNatList ns with
    | some c, some ns =>
      ({ st with calls := st.calls + 1 }, verifyVerdict c ns impl s!" (call #{st.calls + 1} on this context object)")
    | _, _ => (st, .unknown)
  | ["exh", v, eb, ps, a, b, c, d] =>
    match Variant.ofString? v, nat? eb, nat? ps, nat? a, nat? b, nat? c, nat? d with
    | some v, some eb, some ps, some a, some b, some c, some d =>
      (st, exhaustive v eb ps (mkKeys a b c d) impl)
    | _, _, _, _, _, _, _ => (st, .unknown)
  | ["select", chain, h, eb, avail] =>
    -- `avail` = variants for which the harness holds an accepted proof at this edge_bits; the
    -- observation is the subset the context returned by `create_pow_context` accepts
    match ChainType.ofString? chain, nat? h, nat? eb with
    | some c, some h, some eb =>
      let av := (((avail.drop 1).dropEnd 1).toString.splitOn ",")
      match selectVariant c h eb with
      | none => (st, cmpSpec "err" impl)
      | some v => (st, cmpSpec (if av.contains v.name then s!"[{v.name}]" else "[]") impl)
    | _, _, _ => (st, .unknown)
  | ["pack", w, ps, ns] =>
    match nat? w, nat? ps, parseNatList ns with
    | some w, some ps, some ns =>
      match packNonces w ps ns with
      | some bs => (st, cmpSpec (toHex bs) impl)
      | none => (st, cmpSpec "panic" impl)
    | _, _, _ => (st, .unknown)
  | ["unpack", w, ps, hx] =>
    match nat? w, nat? ps, parseHex hx with
    | some w, some ps, some bs =>
      match readProof w ps bs with
      | some ns => (st, cmpSpec (showNatList ns) impl)
      | none => (st, cmpSpec "err" impl)
    | _, _, _ => (st, .unknown)
  -- `Proof::read` on a whole byte stream (edge-bits byte first): truncated, exact, over-long
  | ["readstream", ps, hx] =>
    match nat? ps, parseHex hx with
    | some ps, some bs =>
      match readProofStream ps bs with
      | some (w, ns, r) => (st, cmpSpec s!"{w} {showNatList ns} {r}" impl)
      | none => (st, cmpSpec "err" impl)
    | _, _ => (st, .unknown)
  | ["diff", scale, hx] =>
    match nat? scale, parseHex hx with
    | some sc, some bs => (st, cmpSpec (toString (scaledDifficulty sc bs)) impl)
    | _, _ => (st, .unknown)
  | ["vsize", chain, h, eb, pre, ns] =>
    match ChainType.ofString? chain, nat? h, nat? eb, parseHex pre, parseNatList ns with
    | some c, some h, some eb, some pre, some ns =>
      let name := match verifySize c h eb pre ns with
        | .ok _ => "ok"
        | .error e => e.name
      let o := match selectVariant c h eb with
        | none => false
        | some v =>
          -- the count first: the keys / endpoints are only needed for a full-length proof
          ns.length == proofsizeOf c &&
            oracleAccept v (proofsizeOf c) (2^eb - 1) (epOf v (keysOfHeader pre none) eb) ns
      -- `name == "ok"` is the rule itself (Props.C05Entry.verify_size_accepts_exactly_cycles with
      -- entry_eq_verifySize for the sizes this run uses); the oracle is cross-checked against it
      let oa := if o then "accept" else "refuse"
      if (impl == "ok") != (name == "ok") then
        let what := if impl == "ok" then "ACCEPTS" else s!"REFUSES ({impl})"
        (st, .fail s!"verify_size {what} a header with {ns.length} nonces (proofsize {proofsizeOf c}); rule (proved decision)={name} independent oracle={oa}")
      else if o != (name == "ok") then
        (st, .diff s!"{name} (the independent graph oracle says {oa}: it disagrees with the proved decision)")
      else (st, cmpModel name impl)
    | _, _, _, _, _ => (st, .unknown)
  | ["entry", chain, h, eb, pre, ns] =>
    match ChainType.ofString? chain, nat? h, nat? eb, parseHex pre, parseNatList ns with
    | some c, some h, some eb, some pre, some ns =>
      let name := match verifySizeEntry c h eb pre ns with
        | .ok _ => "ok"
        | .error e => e.name
      let o := match selectVariant c h eb with
        | none => false
        | some v =>
          !(v == Variant.cuckatoo && graphTooBig eb) && ns.length == proofsizeOf c &&
            oracleAccept v (proofsizeOf c) (edgeMaskRel eb)
              (epNode v (keysOfHeader pre none) (nodeBitsOf v eb)) ns
      if (impl == "ok") != (name == "ok") then
        let what := if impl == "ok" then "ACCEPTS" else s!"REFUSES ({impl})"
        (st, .fail s!"verify_size {what} a header with edge_bits {eb} and {ns.length} nonces (proofsize {proofsizeOf c}); rule (proved decision)={name} independent oracle={o}")
      else if o != (name == "ok") then
        (st, .diff s!"{name} (the independent graph oracle says accept={o}: it disagrees with the proved decision)")
      else (st, cmpModel name impl)
    | _, _, _, _, _ => (st, .unknown)
  | ["gw", chain, h, eb] =>
    match ChainType.ofString? chain, nat? h, nat? eb with
    | some c, some h, some eb => (st, cmpModel (toString (graphWeight c h eb)) impl)
    | _, _, _ => (st, .unknown)
  | ["todiff", chain, h, eb, sec, hx] =>
    -- `toDifficulty` is the u128 arithmetic as written; `Props.C05.toDifficulty_exact` proves it equal
    -- to the exact rational definition, so a difference is a concrete failing input
    match ChainType.ofString? chain, nat? h, nat? eb, nat? sec, parseHex hx with
    | some c, some h, some eb, some sec, some bs => (st, cmpSpec (toString (toDifficulty c h eb sec bs)) impl)
    | _, _, _, _, _ => (st, .unknown)
  | ["undiff", hx] =>
    match parseHex hx with
    | some bs => (st, cmpSpec (toString (toUnscaledDifficulty bs)) impl)
    | none => (st, .unknown)
  | _ => (st, .unknown)

end GV.Drv.PowD
