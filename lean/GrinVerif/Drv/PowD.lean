import GrinVerif.Drv.Common
import GrinVerif.Model.Pow
import GrinVerif.Model.PowSpec
import GrinVerif.Model.PowPack
import GrinVerif.Model.PowSelect
/-! Driver glue for the `pow` domain (line protocol handler), property C05.

ops (see harness/src/bin/pow.rs):
* `sip24 k0 k1 k2 k3 nonce => h`, `sipblock k0 k1 k2 k3 nonce rot xorall => h`
* `keys <hdrhex> <nonce|none> => k0 k1 k2 k3` (blake2b of the header, 4 LE words)
* `ep <variant> eb k0 k1 k2 k3 nonce => u v`
* `verify <variant> eb proofsize ctxps k0 k1 k2 k3 [nonces] => ok|<err>`: FAIL when accept/reject
  differs from the independent graph oracle, DIFF when only the error kind / transliteration differs
* `exh <variant> eb proofsize k0 k1 k2 k3 => <one verdict char per ascending tuple>`
* `select <chain> height eb [avail] => [accepted]|err` (variant selection of `create_pow_context`)
* `pack w proofsize [nonces] => hex|panic`, `unpack w proofsize <hex> => [nonces]|err`, `diff scale <hashhex> => n`
-/
namespace GV.Drv.PowD
open GV GV.Drv GV.Pow

structure St where
  dummy : Unit := ()

def mkKeys (a b c d : Nat) : Keys := ⟨a.toUInt64, b.toUInt64, c.toUInt64, d.toUInt64⟩

def epOf (v : Variant) (k : Keys) (eb : Nat) : Nat → Nat × Nat :=
  match v with
  | .cuckatoo => epCuckatoo k eb
  | .cuckaroo => epCuckaroo k eb
  | .cuckarood => epCuckarood k eb
  | .cuckaroom => epCuckaroom k eb
  | .cuckarooz => epCuckarooz k eb

def verifyOf (v : Variant) : Params → (Nat → Nat × Nat) → List Nat → Except Err Unit :=
  match v with
  | .cuckatoo => verifyCuckatoo
  | .cuckaroo => verifyCuckaroo
  | .cuckarood => verifyCuckarood
  | .cuckaroom => verifyCuckaroom
  | .cuckarooz => verifyCuckarooz

def mkParams (eb ps ctxps : Nat) : Params :=
  let m := bucketMask ps
  { proofsize := ps, edgeMask := 2^eb - 1, ctxProofSize := ctxps, bk := fun x => x &&& m }

def resName : Except Err Unit → String
  | .ok _ => "ok"
  | .error e => e.name

def resChar : Except Err Unit → Char
  | .ok _ => 'A'
  | .error .wrongLen => 'L' | .error .tooBig => 'B' | .error .notAscending => 'N'
  | .error .notBalanced => 'U' | .error .noMatch => 'X' | .error .branch => 'R'
  | .error .deadEnd => 'D' | .error .tooShort => 'S' | .error .noClose => 'C' | .error .hang => 'H'

/-- endpoint table for nonces `0 … n-1` -/
def epTable (ep : Nat → Nat × Nat) (n : Nat) : Array (Nat × Nat) :=
  (List.range n).foldl (fun a i => a.push (ep i)) #[]

/-- fold over all ascending `k`-tuples of `start … N-1` in lexicographic order -/
def foldTup {σ : Type} (N : Nat) (f : σ → List Nat → σ) : Nat → Nat → List Nat → σ → σ
  | 0, _, pre, acc => f acc pre.reverse
  | k+1, start, pre, acc =>
    (List.range (N - start)).foldl (fun acc d =>
      let x := start + d
      if x + k < N then foldTup N f k (x+1) (x :: pre) acc else acc) acc

/-- what went wrong first on an `exh` line -/
structure ExhBad where
  oracleBad : Option String := none   -- implementation ≠ independent oracle (spec failure)
  modelBad : Option String := none    -- implementation = oracle but ≠ transliterated model

/-- Every ascending tuple: FIRST the implementation's accept/reject is compared with the independent
oracle (`oracleAccept`: count / ascending / range rules + `oracleCycle`) — a difference is a spec
failure and names the first offending tuple; only when implementation = oracle everywhere is the
transliterated model compared (accept/reject and error kind) — a difference there is a model
disagreement. -/
def exhaustive (v : Variant) (eb ps : Nat) (k : Keys) (impl : String) : Verdict :=
  let N := 2^eb
  let tbl := epTable (epOf v k eb) N
  let ep := fun n => tbl.getD n (0, 0)
  let P := mkParams eb ps ps
  let implChars := impl.toList.toArray
  let (idx, bad) := foldTup N (fun (acc : Nat × ExhBad) t =>
      let (i, bad) := acc
      let r := verifyOf v P ep t
      let o := oracleAccept v ps (2^eb - 1) ep t
      let ic := implChars.getD i '?'
      let bad :=
        if bad.oracleBad.isNone && (ic == 'A') != o then
          let what := if ic == 'A' then "ACCEPTS a non-cycle" else s!"REJECTS ({ic}) a cycle"
          let oa := if o then "accept" else "reject"
          let msg := s!"tuple #{i} nonces={showNatList t}: implementation {what}; oracle={oa} model={resName r} impl={ic}"
          { bad with oracleBad := some msg }
        else bad
      let bad :=
        if bad.modelBad.isNone && ic != resChar r then
          let oa := if o then "accept" else "reject"
          let msg := s!"tuple #{i} nonces={showNatList t}: model={resChar r} impl={ic} (oracle={oa})"
          { bad with modelBad := some msg }
        else bad
      (i+1, bad)) ps 0 [] (0, {})
  match bad.oracleBad with
  | some b => .fail b
  | none =>
    if idx != implChars.size then .diff s!"tuples={idx} but {implChars.size} verdict characters"
    else match bad.modelBad with
      | some b => .diff b
      | none => .ok

def handle (st : St) (args : List String) (impl : String) : St × Verdict :=
  match args with
  | ["sip24", a, b, c, d, n] =>
    match nat? a, nat? b, nat? c, nat? d, nat? n with
    | some a, some b, some c, some d, some n =>
      (st, cmpModel (toString (siphash24 (mkKeys a b c d) n.toUInt64).toNat) impl)
    | _, _, _, _, _ => (st, .unknown)
  | ["sipblock", a, b, c, d, n, rot, xa] =>
    match nat? a, nat? b, nat? c, nat? d, nat? n, nat? rot with
    | some a, some b, some c, some d, some n, some rot =>
      (st, cmpModel (toString (siphashBlock (mkKeys a b c d) n.toUInt64 rot.toUInt64 (xa == "true")).toNat) impl)
    | _, _, _, _, _, _ => (st, .unknown)
  | ["keys", hdr, nonce] =>
    match parseHex hdr with
    | some hb =>
      let hb := match nat? nonce with
        | some n => hb.take (hb.length - 4) ++ leBytes 4 n
        | none => hb
      let h := h256 hb
      let w := fun i => ofLE ((h.drop (8*i)).take 8)
      (st, cmpModel s!"{w 0} {w 1} {w 2} {w 3}" impl)
    | none => (st, .unknown)
  | ["ep", v, eb, a, b, c, d, n] =>
    match Variant.ofString? v, nat? eb, nat? a, nat? b, nat? c, nat? d, nat? n with
    | some v, some eb, some a, some b, some c, some d, some n =>
      let r := epOf v (mkKeys a b c d) eb n
      (st, cmpModel s!"{r.1} {r.2}" impl)
    | _, _, _, _, _, _, _ => (st, .unknown)
  | ["verify", v, eb, ps, cps, a, b, c, d, ns] =>
    match Variant.ofString? v, nat? eb, nat? ps, nat? cps, nat? a, nat? b, nat? c, nat? d, parseNatList ns with
    | some v, some eb, some ps, some cps, some a, some b, some c, some d, some ns =>
      let ep := epOf v (mkKeys a b c d) eb
      let r := verifyOf v (mkParams eb ps cps) ep ns
      let o := oracleAccept v ps (2^eb - 1) ep ns
      -- FIRST implementation vs independent oracle (production configuration
      -- ctx.proof_size = proofsize): a difference is a concrete failing input
      if cps == ps && (impl == "ok") != o then
        let what := if impl == "ok" then "ACCEPTS a non-cycle" else s!"REJECTS ({impl}) a cycle"
        let oa := if o then "accept" else "reject"
        (st, .fail s!"nonces={showNatList ns}: implementation {what}; oracle={oa} model={resName r}")
      -- then the transliterated model (accept/reject and error kind)
      else (st, cmpModel (resName r) impl)
    | _, _, _, _, _, _, _, _, _ => (st, .unknown)
  | ["exh", v, eb, ps, a, b, c, d] =>
    match Variant.ofString? v, nat? eb, nat? ps, nat? a, nat? b, nat? c, nat? d with
    | some v, some eb, some ps, some a, some b, some c, some d =>
      (st, exhaustive v eb ps (mkKeys a b c d) impl)
    | _, _, _, _, _, _, _ => (st, .unknown)
  | ["select", chain, h, eb, avail] =>
    -- `avail` = variants for which the harness holds an accepted proof at this edge_bits; the
    -- observation is the subset the context returned by `create_pow_context` accepts
    match ChainType.ofString? chain, nat? h, nat? eb with
    | some c, some h, some eb =>
      let av := (((avail.drop 1).dropEnd 1).toString.splitOn ",")
      match selectVariant c h eb with
      | none => (st, cmpSpec "err" impl)
      | some v => (st, cmpSpec (if av.contains v.name then s!"[{v.name}]" else "[]") impl)
    | _, _, _ => (st, .unknown)
  | ["pack", w, ps, ns] =>
    match nat? w, nat? ps, parseNatList ns with
    | some w, some ps, some ns =>
      match packNonces w ps ns with
      | some bs => (st, cmpSpec (toHex bs) impl)
      | none => (st, cmpSpec "panic" impl)
    | _, _, _ => (st, .unknown)
  | ["unpack", w, ps, hx] =>
    match nat? w, nat? ps, parseHex hx with
    | some w, some ps, some bs =>
      match readProof w ps bs with
      | some ns => (st, cmpSpec (showNatList ns) impl)
      | none => (st, cmpSpec "err" impl)
    | _, _, _ => (st, .unknown)
  | ["diff", scale, hx] =>
    match nat? scale, parseHex hx with
    | some sc, some bs => (st, cmpSpec (toString (scaledDifficulty sc bs)) impl)
    | _, _ => (st, .unknown)
  | _ => (st, .unknown)

end GV.Drv.PowD
