import GrinVerif.Drv.Common
import GrinVerif.Model.Tx
/-! Driver glue for the `tx` domain (C12): aggregation, cut-through, de-aggregation,
block → compact block → hydrate.  Lines (see `harness/src/bin/tx.rs`):

    (every op carries the case number as first argument; it only makes lines distinct)
    tx keys [ik…] [okp…] [okc…]            -- hash-order tables of a case, indexed by commitment id
    tx def <i> <offset-hex> <c|f> [ins] [outs] [kers]
    tx vread <i>                            => ok | err:<VErr>
    tx agg [i,j,…]                          => ok <off> <c|f> [ins] [outs] [kers] | err:<E>
    tx aggg g1;g2;…                         => same, or inner-err:<E>
    tx deagg [mk…] [sub…]                   => same, or mk-err:<E>
    tx cut [ins] [outs]                     => ok [ins] [outs] [cutins] [cutouts] | err:CutThrough
    tx cutio [ins] [outcodes]               => same
    tx block <prevoff-hex> <rout> <rkern> [i,j,…]  => ok <off> <c|f> [ins] [outs] [kers] | err:<E>
    tx compact <nonce>                      => [outfull] [kernfull] [kernids sorted]
    tx hydrate <nonce> g1;g2;…              => ok same|diff <off> c [ins] [outs] [kers] | err:<E>
-/
namespace GV.Drv.TxD
open GV GV.Drv GV.Tx

structure St where
  ik : Array Nat := #[]
  okp : Array Nat := #[]
  okc : Array Nat := #[]
  txs : Array Tx := #[]
  block : Option Block := none

def St.keys (st : St) : Keys where
  ik := fun c => st.ik.getD c c
  ok := fun o => if o % 2 == 0 then st.okp.getD (o / 2) o else st.okc.getD (o / 2) o
  kk := fun k => k / 2

def showErr : Err → String
  | .cutThrough => "CutThrough"
  | .secp => "Secp"

def showVErr : VErr → String
  | .sort => "Sort"
  | .dup => "Dup"
  | .cutThrough => "CutThrough"
  | .outputFeatures => "OutputFeatures"
  | .kernelFeatures => "KernelFeatures"

def offHex (n : Nat) : String := toHex (beBytes 32 n)

/-- features-and-commit inputs are printed in commitment order (the `Input` hash order is not
modelled) -/
def showIns (v2 : Bool) (ins : List Nat) : String :=
  if v2 then "f " ++ showNatList (sortBy id ins) else "c " ++ showNatList ins

def showTx (t : Tx) : String :=
  s!"{offHex t.offset} {showIns t.v2 t.inputs} {showNatList t.outputs} {showNatList t.kernels}"

def showBlock (b : Block) : String :=
  s!"{offHex b.totalOffset} {showIns b.v2 b.inputs} {showNatList b.outputs} {showNatList b.kernels}"

def showRes : Except Err Tx → String
  | .ok t => "ok " ++ showTx t
  | .error e => "err:" ++ showErr e

/-- `g1;g2;…` with each group a list literal -/
def parseGroups (s : String) : Option (List (List Nat)) :=
  if s == "-" then some [] else (s.splitOn ";").mapM parseNatList

def St.getTxs (st : St) (idx : List Nat) : Option (List Tx) :=
  idx.mapM (fun i => st.txs[i]?)

/-- aggregate every group; first failing group's error -/
def aggGroups (K : Keys) : List (List Tx) → Except Err (List Tx)
  | [] => .ok []
  | g :: gs =>
    match aggregate K g with
    | .error e => .error e
    | .ok t => match aggGroups K gs with
      | .error e => .error e
      | .ok ts => .ok (t :: ts)

def sameBlock (K : Keys) (a b : Block) : Bool :=
  a.totalOffset == b.totalOffset
    && (if a.v2 then sortBy K.ik a.inputs else a.inputs) == (if b.v2 then sortBy K.ik b.inputs else b.inputs)
    && a.outputs == b.outputs && a.kernels == b.kernels

def handle (st : St) (args : List String) (impl : String) : St × Verdict :=
  let K := st.keys
  match args with
  | ["keys", _, a, b, c] =>
    match parseNatList a, parseNatList b, parseNatList c with
    | some a, some b, some c =>
      ({ ik := a.toArray, okp := b.toArray, okc := c.toArray, txs := #[], block := none }, .ok)
    | _, _, _ => (st, .unknown)
  | ["def", _, i, off, v, ins, outs, kers] =>
    match nat? i, parseHex off, parseNatList ins, parseNatList outs, parseNatList kers with
    | some i, some off, some ins, some outs, some kers =>
      if i == st.txs.size && (v == "c" || v == "f") then
        ({ st with txs := st.txs.push ⟨ofBE off, v == "f", ins, outs, kers⟩ }, .ok)
      else (st, .unknown)
    | _, _, _, _, _ => (st, .unknown)
  | ["vread", _, i] =>
    match (nat? i).bind (fun i => st.txs[i]?) with
    | some t =>
      let r := match validateRead K t with
        | none => "ok"
        | some e => "err:" ++ showVErr e
      (st, cmpModel r impl)
    | none => (st, .unknown)
  | ["agg", _, idx] =>
    match (parseNatList idx).bind st.getTxs with
    | some txs => (st, cmpSpec (showRes (aggregate K txs)) impl)
    | none => (st, .unknown)
  | ["aggg", _, gs] =>
    match (parseGroups gs).bind (fun gs => gs.mapM st.getTxs) with
    | some groups =>
      let r := match aggGroups K groups with
        | .error e => "inner-err:" ++ showErr e
        | .ok ts => showRes (aggregate K ts)
      (st, cmpSpec r impl)
    | none => (st, .unknown)
  | ["deagg", _, mk, sub] =>
    match (parseNatList mk).bind st.getTxs, (parseNatList sub).bind st.getTxs with
    | some mk, some sub =>
      let r := match aggregate K mk with
        | .error e => "mk-err:" ++ showErr e
        | .ok m => showRes (deaggregate K m sub)
      (st, cmpModel r impl)
    | _, _ => (st, .unknown)
  | ["cut", _, ins, outs] =>
    match parseNatList ins, parseNatList outs with
    | some ins, some outs =>
      let r := match cutThrough id id K.ik K.ik ins outs with
        | .error e => "err:" ++ showErr e
        | .ok r => s!"ok {showNatList r.ins} {showNatList r.outs} {showNatList r.cutIns} {showNatList r.cutOuts}"
      (st, cmpSpec r impl)
    | _, _ => (st, .unknown)
  | ["cutio", _, ins, outs] =>
    match parseNatList ins, parseNatList outs with
    | some ins, some outs =>
      let r := match cutThrough id outCommit K.ik K.ok ins outs with
        | .error e => "err:" ++ showErr e
        | .ok r => s!"ok {showNatList r.ins} {showNatList r.outs} {showNatList r.cutIns} {showNatList r.cutOuts}"
      (st, cmpSpec r impl)
    | _, _ => (st, .unknown)
  | ["block", _, prev, rout, rkern, idx] =>
    match parseHex prev, nat? rout, nat? rkern, (parseNatList idx).bind st.getTxs with
    | some prev, some rout, some rkern, some txs =>
      match fromReward K (ofBE prev) txs rout rkern with
      | .error e => ({ st with block := none }, cmpModel ("err:" ++ showErr e) impl)
      | .ok b => ({ st with block := some b }, cmpModel ("ok " ++ showBlock b) impl)
    | _, _, _, _ => (st, .unknown)
  | ["compact", _, nonce] =>
    match nat? nonce, st.block with
    | some nonce, some b =>
      let cb := compact K nonce b
      (st, cmpModel s!"{showNatList cb.outFull} {showNatList cb.kernFull} {showNatList (sortBy id cb.kernIds)}" impl)
    | _, _ => (st, .unknown)
  -- the block built from the same transactions handed over in groups (aggregated operands)
  -- must be the block built from the flat list
  | ["blockg", _, prev, rout, rkern, gs] =>
    match parseHex prev, nat? rout, nat? rkern, st.block, (parseGroups gs).bind (fun gs => gs.mapM st.getTxs) with
    | some prev, some rout, some rkern, some b, some groups =>
      let r := match aggGroups K groups with
        | .error e => "inner-err:" ++ showErr e
        | .ok ts => match fromReward K (ofBE prev) ts rout rkern with
          | .error e => "err:" ++ showErr e
          | .ok gb => if sameBlock K gb b then "same" else "diff"
      (st, cmpSpec r impl)
    | _, _, _, _, _ => (st, .unknown)
  | ["hydrate", _, nonce, gs] =>
    match nat? nonce, st.block, (parseGroups gs).bind (fun gs => gs.mapM st.getTxs) with
    | some nonce, some b, some groups =>
      let r := match aggGroups K groups with
        | .error e => "inner-err:" ++ showErr e
        | .ok ts => match hydrateFrom K (compact K nonce b) ts with
          | .error e => "err:" ++ showErr e
          | .ok hb => s!"ok {if sameBlock K hb b then "same" else "diff"} {showBlock hb}"
      (st, cmpSpec r impl)
    | _, _, _ => (st, .unknown)
  | _ => (st, .unknown)

end GV.Drv.TxD
