import GrinVerif.Drv.Common
import GrinVerif.Model.TxBlock
import GrinVerif.Model.TxOverage
/-! Driver glue for the `tx` domain (C12): aggregation, cut-through, de-aggregation,
block → compact block → hydrate.  Lines (see `harness/src/bin/tx.rs`):

    (every op carries the case number as first argument; it only makes lines distinct)
    tx keys [ik…] [okp…] [okc…]            -- hash-order tables of a case, indexed by commitment id
    tx def <i> <offset-hex> <c|f> [ins] [outs] [kers]
    tx vread <i>                            => ok | err:<VErr>
    tx agg [i,j,…]                          => ok <off> <c|f> [ins] [outs] [kers] | err:<E>
    tx aggg g1;g2;…                         => same, or inner-err:<E>
    tx deagg [mk…] [sub…]                   => same, or mk-err:<E>
    tx cut [ins] [outs]                     => ok [ins] [outs] [cutins] [cutouts] | err:CutThrough
    tx cutio [ins] [outcodes]               => same
    tx block <prevoff-hex> <rout> <rkern> [i,j,…]  => ok <off> <c|f> [ins] [outs] [kers] | err:<E>
    tx compact <nonce>                      => [outfull] [kernfull] [kernids sorted]
    tx hydrate <nonce> g1;g2;…              => ok same|diff <off> c [ins] [outs] [kers] | err:<E>
    tx kmeta [feat…] [lock…] [fee…] [excess…] [shift…]  -- per kernel rank: what the validation gates read
    tx feeof <what> [kers]                  => <fee> <fee_shift> <shifted_fee> <lock_height>
    tx blockhdr <prev height> <prev total difficulty> <difficulty> => <height> <version> <total difficulty>
    tx bval <prevoff-hex> <height> <version> <claimed fees> => ok | err:<E>   (Block::validate)
    tx bvread <height>                      => ok | err:<E>                    (Block::validate_read)
    tx cbids <block-hash> <nonce> [kernel hashes] => [short ids in kern_ids order]
    tx retr <shape> [sid number per kernel rank] tag:k,k;tag:k… [ids asked for] => [tags returned] [ids missing]
    tx retrhyd <shape>                      => hydrated-same    (run `retr`)
-/
namespace GV.Drv.TxD
open GV GV.Drv GV.Tx

structure St where
  ik : Array Nat := #[]
  okp : Array Nat := #[]
  okc : Array Nat := #[]
  txs : Array Tx := #[]
  block : Option Block := none
  /-- per kernel rank -/
  feat : Array Nat := #[]
  lock : Array Nat := #[]
  fee : Array Nat := #[]
  exc : Array Nat := #[]
  shift : Array Nat := #[]
  /-- sum of the (valid) offsets of the transactions the current block was built from -/
  bodyOff : Nat := 0

def St.keys (st : St) : Keys where
  ik := fun c => st.ik.getD c c
  ok := fun o => if o % 2 == 0 then st.okp.getD (o / 2) o else st.okc.getD (o / 2) o
  kk := fun k => k / 2

def St.kmeta (st : St) : KMeta where
  feat := fun k => st.feat.getD (k / 2) 0
  lock := fun k => st.lock.getD (k / 2) 0
  fee := fun k => st.fee.getD (k / 2) 0
  excess := fun k => st.exc.getD (k / 2) 0
  shift := fun k => st.shift.getD (k / 2) 0

def showBErr : BErr → String
  | .tooHeavy => "TooHeavy"
  | .nrdDup => "NrdDup"
  | .sort => "Sort"
  | .dup => "Dup"
  | .cutThrough => "CutThrough"
  | .outputFeatures => "OutputFeatures"
  | .kernelFeatures => "KernelFeatures"
  | .kernelLockHeight h => s!"KernelLockHeight({h})"
  | .nrdNotEnabled => "NRDKernelNotEnabled"
  | .nrdPreHF3 => "NRDKernelPreHF3"
  | .coinbaseSum => "CoinbaseSumMismatch"
  | .kernelSum => "KernelSumMismatch"
  | .secp => "Secp"

def showBRes : Option BErr → String
  | none => "ok"
  | some e => "err:" ++ showBErr e

/-- the harness runs on the testing chain with the NRD feature flag on -/
def CT : Cons.ChainType := .automatedTesting

/-- `(hash, nonce).hash()`: blake2b of the 32 hash bytes and the big-endian nonce; `k0`, `k1` are
the first two little-endian words -/
def sipKeys (blockHash : Bytes) (nonce : Nat) : Nat × Nat :=
  let d := h256 (blockHash ++ beBytes 8 nonce)
  (ofLE (d.take 8), ofLE ((d.drop 8).take 8))

def showErr : Err → String
  | .cutThrough => "CutThrough"
  | .secp => "Secp"

def showVErr : VErr → String
  | .sort => "Sort"
  | .dup => "Dup"
  | .cutThrough => "CutThrough"
  | .outputFeatures => "OutputFeatures"
  | .kernelFeatures => "KernelFeatures"

def offHex (n : Nat) : String := toHex (beBytes 32 n)

/-- features-and-commit inputs are printed in commitment order (the `Input` hash order is not
modelled) -/
def showIns (v2 : Bool) (ins : List Nat) : String :=
  if v2 then "f " ++ showNatList (sortBy id ins) else "c " ++ showNatList ins

def showTx (t : Tx) : String :=
  s!"{offHex t.offset} {showIns t.v2 t.inputs} {showNatList t.outputs} {showNatList t.kernels}"

def showBlock (b : Block) : String :=
  s!"{offHex b.totalOffset} {showIns b.v2 b.inputs} {showNatList b.outputs} {showNatList b.kernels}"

def showRes : Except Err Tx → String
  | .ok t => "ok " ++ showTx t
  | .error e => "err:" ++ showErr e

/-- `g1;g2;…` with each group a list literal -/
def parseGroups (s : String) : Option (List (List Nat)) :=
  if s == "-" then some [] else (s.splitOn ";").mapM parseNatList

/-- `tag:k1,k2;tag:-;…` : pool entries by equality class and kernel codes (`-` for an empty pool) -/
def parsePool (s : String) : Option (List Tx) :=
  if s == "-" then some [] else
  (s.splitOn ";").mapM fun e =>
    match e.splitOn ":" with
    | [tag, ks] =>
      match tag.toNat?, (if ks == "-" then some [] else (ks.splitOn ",").mapM (·.toNat?)) with
      | some tag, some ks => some ⟨tag, false, [], [], ks⟩
      | _, _ => none
    | _ => none

def St.getTxs (st : St) (idx : List Nat) : Option (List Tx) :=
  idx.mapM (fun i => st.txs[i]?)

/-- aggregate every group; first failing group's error -/
def aggGroups (K : Keys) : List (List Tx) → Except Err (List Tx)
  | [] => .ok []
  | g :: gs =>
    match aggregate K g with
    | .error e => .error e
    | .ok t => match aggGroups K gs with
      | .error e => .error e
      | .ok ts => .ok (t :: ts)

def sameBlock (K : Keys) (a b : Block) : Bool :=
  a.totalOffset == b.totalOffset
    && (if a.v2 then sortBy K.ik a.inputs else a.inputs) == (if b.v2 then sortBy K.ik b.inputs else b.inputs)
    && a.outputs == b.outputs && a.kernels == b.kernels

def handle (st : St) (args : List String) (impl : String) : St × Verdict :=
  let K := st.keys
  match args with
  | ["keys", _, a, b, c] =>
    match parseNatList a, parseNatList b, parseNatList c with
    | some a, some b, some c =>
      ({ ik := a.toArray, okp := b.toArray, okc := c.toArray, txs := #[], block := none }, .ok)
    | _, _, _ => (st, .unknown)
  | ["kmeta", _, a, b, c, d, e] =>
    match parseNatList a, parseNatList b, parseNatList c, parseNatList d, parseNatList e with
    | some a, some b, some c, some d, some e =>
      ({ st with feat := a.toArray, lock := b.toArray, fee := c.toArray, exc := d.toArray, shift := e.toArray }, .ok)
    | _, _, _, _, _ => (st, .unknown)
  -- fee(), fee_shift(), shifted_fee(), lock_height() of a body with the given kernels: fixed by
  -- the kernels alone (the aggregate's are those of the union)
  | ["feeof", _, _, ks] =>
    match parseNatList ks with
    | some ks =>
      let M := st.kmeta
      (st, cmpSpec s!"{totalFees M ks} {bodyFeeShift M ks} {shiftedFee M ks} {lockHeight M ks}" impl)
    | none => (st, .unknown)
  | ["blockhdr", _, ph, ptd, d] =>
    match nat? ph, nat? ptd, nat? d with
    | some ph, some ptd, some d =>
      let h := fromRewardHeader CT ph ptd d
      (st, cmpModel s!"{h.height} {h.version} {h.totalDifficulty}" impl)
    | _, _, _ => (st, .unknown)
  | ["bval", _, prev, height, version, fees] =>
    match parseHex prev, nat? height, nat? version, nat? fees, st.block with
    | some prev, some height, some version, some fees, some b =>
      (st, cmpModel (showBRes (blockValidate K st.kmeta CT true b ⟨height, version, 0⟩ (ofBE prev) fees st.bodyOff)) impl)
    | _, _, _, _, _ => (st, .unknown)
  | ["bvread", _, height] =>
    match nat? height, st.block with
    | some height, some b =>
      (st, cmpModel (showBRes (blockValidateRead K st.kmeta CT true b ⟨height, 0, 0⟩)) impl)
    | _, _ => (st, .unknown)
  -- Pool::retrieve_transactions on a real pool: short-id numbers per kernel rank, pool entries as
  -- `tag:kernels` (equal tags = equal transactions), the ids asked for
  | ["retr", _, _, table, pool, ids] =>
    match parseNatList table, parsePool pool, parseNatList ids with
    | some table, some pool, some ids =>
      let sid := fun k => table.getD (k / 2) 0
      let (txs, missing) := retrieveTransactions sid pool ids
      (st, cmpSpec s!"{showNatList (txs.map (·.offset))} {showNatList missing}" impl)
    | _, _, _ => (st, .unknown)
  -- a pool holding the block's transactions in some grouping (plus unrelated ones) hydrates the block
  | ["retrhyd", _, _] => (st, cmpSpec "hydrated-same" impl)
  | ["cbids", _, bh, nonce, khs] =>
    match parseHex bh, nat? nonce, parseHexList khs with
    | some bh, some nonce, some khs =>
      let (k0, k1) := sipKeys bh nonce
      (st, cmpSpec (showHexList (kernIdsOf h256 k0 k1 khs)) impl)
    | _, _, _ => (st, .unknown)
  -- run `collide`: what both compact-block readers answer on the short ids `From<Block>` would
  -- write under this nonce: refused iff two of the (sorted) ids are equal
  | ["cbread", _, bh, nonce, khs] =>
    match parseHex bh, nat? nonce, parseHexList khs with
    | some bh, some nonce, some khs =>
      let (k0, k1) := sipKeys bh nonce
      let ids := (kernIdsOf h256 k0 k1 khs).map ofBE
      -- the ids are in their hash order by construction (`sort` cannot come up); equal ids have
      -- equal hashes and stand next to each other: `compactReadIds` on the order keys = `adjDup` here
      let r := if adjDup ids then "refused" else "accepted"
      (st, cmpModel r impl)
    | _, _, _ => (st, .unknown)
  -- two coinbase outputs and kernels: both in the full vectors, ids = the transaction kernels
  | ["cbtwo", nk] => (st, cmpModel s!"2 2 {nk} true true" impl)
  -- run `zeroout` (child processes): VALID bodies without outputs / without transactions validate
  -- under every weighting (rule-fixed); the empty transaction passes the gates and fails in the sums
  -- (`commit_sum` of nothing)
  | ["zval", name, what, _, _, _] =>
    if name.startsWith "valid-" then (st, cmpSpec "ok" impl)
    else if name == "empty-tx" then (st, cmpModel (if what == "validate_read" then "ok" else "err:Secp") impl)
    else (st, .unknown)
  | ["def", _, i, off, v, ins, outs, kers] =>
    match nat? i, parseHex off, parseNatList ins, parseNatList outs, parseNatList kers with
    | some i, some off, some ins, some outs, some kers =>
      if i == st.txs.size && (v == "c" || v == "f") then
        ({ st with txs := st.txs.push ⟨ofBE off, v == "f", ins, outs, kers⟩ }, .ok)
      else (st, .unknown)
    | _, _, _, _, _ => (st, .unknown)
  | ["vread", _, i] =>
    match (nat? i).bind (fun i => st.txs[i]?) with
    | some t =>
      (st, cmpModel (showBRes (validateReadFull K st.kmeta CT true t)) impl)
    | none => (st, .unknown)
  -- `Transaction::validate(AsTransaction)`: the gates in the code's order (features first); the
  -- harness answers `later` when the error comes from range proofs / signatures / kernel sums
  | ["val", _, i] =>
    match (nat? i).bind (fun i => st.txs[i]?) with
    | some t =>
      match txValidateGates K st.kmeta CT true .asTransaction t none with
      | some e => (st, cmpModel (showBRes (some e)) impl)
      | none => (st, cmpModel (if impl == "later" then "later" else "ok") impl)
    | none => (st, .unknown)
  -- `Committed::verify_kernel_sums(overage, offset)` called directly on a real transaction whose
  -- blinding part balances: the value part with a chosen signed overage (run `overage`)
  | ["ksum", sumIn, sumOut, ov] =>
    let ovI : Option Int := if ov.startsWith "-" then (ov.drop 1).toString.toNat?.map (fun n => -(n : Int)) else ov.toNat?.map (fun n => (n : Int))
    match nat? sumIn, nat? sumOut, ovI with
    | some i, some o, some v => (st, cmpModel (kernelSumsValues i o v).show impl)
    | _, _, _ => (st, .unknown)
  -- `x as i64` as the code computes the overage from a fee
  | ["asi64", x] => match nat? x with
    | some x => (st, cmpModel (toString (asI64 x)) impl)
    | none => (st, .unknown)
  | ["agg", _, idx] =>
    match (parseNatList idx).bind st.getTxs with
    | some txs => (st, cmpSpec (showRes (aggregate K txs)) impl)
    | none => (st, .unknown)
  | ["aggg", _, gs] =>
    match (parseGroups gs).bind (fun gs => gs.mapM st.getTxs) with
    | some groups =>
      let r := match aggGroups K groups with
        | .error e => "inner-err:" ++ showErr e
        | .ok ts => showRes (aggregate K ts)
      (st, cmpSpec r impl)
    | none => (st, .unknown)
  | ["deagg", _, mk, sub] =>
    match (parseNatList mk).bind st.getTxs, (parseNatList sub).bind st.getTxs with
    | some mk, some sub =>
      let r := match aggregate K mk with
        | .error e => "mk-err:" ++ showErr e
        | .ok m => showRes (deaggregate K m sub)
      (st, cmpModel r impl)
    | _, _ => (st, .unknown)
  | ["cut", _, ins, outs] =>
    match parseNatList ins, parseNatList outs with
    | some ins, some outs =>
      let r := match cutThrough id id K.ik K.ik ins outs with
        | .error e => "err:" ++ showErr e
        | .ok r => s!"ok {showNatList r.ins} {showNatList r.outs} {showNatList r.cutIns} {showNatList r.cutOuts}"
      (st, cmpSpec r impl)
    | _, _ => (st, .unknown)
  | ["cutio", _, ins, outs] =>
    match parseNatList ins, parseNatList outs with
    | some ins, some outs =>
      let r := match cutThrough id outCommit K.ik K.ok ins outs with
        | .error e => "err:" ++ showErr e
        | .ok r => s!"ok {showNatList r.ins} {showNatList r.outs} {showNatList r.cutIns} {showNatList r.cutOuts}"
      (st, cmpSpec r impl)
    | _, _ => (st, .unknown)
  | ["block", _, prev, rout, rkern, idx] =>
    match parseHex prev, nat? rout, nat? rkern, (parseNatList idx).bind st.getTxs with
    | some prev, some rout, some rkern, some txs =>
      match fromReward K (ofBE prev) txs rout rkern with
      | .error e => ({ st with block := none }, cmpModel ("err:" ++ showErr e) impl)
      | .ok b =>
        ({ st with block := some b, bodyOff := scalarSum (toSecrets (txs.map (·.offset))) [] },
          cmpModel ("ok " ++ showBlock b) impl)
    | _, _, _, _ => (st, .unknown)
  | ["compact", _, nonce] =>
    match nat? nonce, st.block with
    | some nonce, some b =>
      let cb := compact K nonce b
      (st, cmpModel s!"{showNatList cb.outFull} {showNatList cb.kernFull} {showNatList (sortBy id cb.kernIds)}" impl)
    | _, _ => (st, .unknown)
  -- the block built from the same transactions handed over in groups (aggregated operands)
  -- must be the block built from the flat list
  | ["blockg", _, prev, rout, rkern, gs] =>
    match parseHex prev, nat? rout, nat? rkern, st.block, (parseGroups gs).bind (fun gs => gs.mapM st.getTxs) with
    | some prev, some rout, some rkern, some b, some groups =>
      let r := match aggGroups K groups with
        | .error e => "inner-err:" ++ showErr e
        | .ok ts => match fromReward K (ofBE prev) ts rout rkern with
          | .error e => "err:" ++ showErr e
          | .ok gb => if sameBlock K gb b then "same" else "diff"
      (st, cmpSpec r impl)
    | _, _, _, _, _ => (st, .unknown)
  | ["hydrate", _, nonce, gs] =>
    match nat? nonce, st.block, (parseGroups gs).bind (fun gs => gs.mapM st.getTxs) with
    | some nonce, some b, some groups =>
      let r := match aggGroups K groups with
        | .error e => "inner-err:" ++ showErr e
        | .ok ts => match hydrateFrom K (compact K nonce b) ts with
          | .error e => "err:" ++ showErr e
          | .ok hb => s!"ok {if sameBlock K hb b then "same" else "diff"} {showBlock hb}"
      (st, cmpSpec r impl)
    | _, _, _ => (st, .unknown)
  | _ => (st, .unknown)

end GV.Drv.TxD
