import GrinVerif.Drv.Common
import GrinVerif.Model.Seg
import GrinVerif.Drv.SegZipD
/-! Driver glue for the `seg` domain (property C16): the model of `segment.rs` run with the real
hash shapes (BLAKE2b in the driver) on the views / segments / bitmaps the harness prints.

Lines:
* `seg new`, `seg view <size> [pos:data,…] [pos:hash,…] [pos:hash,…]` (the `get_data_from_file`,
  `get_from_file`, `get_hash` answers of the `ReadonlyPMMR` being served);
* `seg from <height> <idx> <prunable> => <segment> | err:… | panic`;
* `seg range <height> <idx> <size> => first last`;
* `seg root|fup <size> <bitmap> <segment> => …`;
* `seg validate <size> <bitmap> <root> <segment> => ok | err:… | panic`;
* `seg validatewith <size> <bitmap> <root> <hash_last_pos> <other> <left> <segment> => …`
where `<segment>` = `height idx hash_pos hashes leaf_pos leaf_data proof` and `<bitmap>` is
`none` or a list of leaf indices. All comparisons are model-vs-implementation (`DIFF`); the
property's oracle is evaluated by the harness (`#ORACLE-FAIL`). -/
namespace GV.Drv.SegD
open GV GV.Pmmr GV.Seg GV.Drv

/-- the real hash shapes: `(idx, elem).hash()` and `(idx, (l, r)).hash()` -/
def realHF : HashFn Bytes Bytes where
  leaf := fun i e => h256 (beBytes 8 i ++ e)
  node := fun i l r => h256 (beBytes 8 i ++ l ++ r)

structure St where
  size : Nat := 0
  data : Array (Option Bytes) := #[]
  fromFile : Array (Option Bytes) := #[]
  hash : Array (Option Bytes) := #[]
  /-- the desegmenter bookkeeping model being folded over `seg dsg …` lines -/
  dsg : Option Dsg.State := none

def St.view (st : St) : View Bytes Bytes where
  size := st.size
  dataFromFile := fun p => (st.data.getD p none)
  fromFile := fun p => (st.fromFile.getD p none)
  hash := fun p => (st.hash.getD p none)

/-- `[pos:hex,pos:hex]` into an array indexed by position -/
def parsePosHex (n : Nat) (s : String) : Option (Array (Option Bytes)) :=
  let inner := (s.drop 1).dropEnd 1 |>.toString
  if inner.isEmpty then some (Array.replicate n none) else
  (inner.splitOn ",").foldlM (init := Array.replicate n none) fun acc t =>
    match t.splitOn ":" with
    | [p, h] => match p.toNat?, parseHex h with
      | some p, some b => some (acc.setIfInBounds p (some b))
      | _, _ => none
    | _ => none

def showErr : SegErr → String
  | .missingLeaf p => s!"err:missingleaf:{p}"
  | .missingHash p => s!"err:missinghash:{p}"
  | .nonExistent => "err:nonexistent"
  | .mismatch => "err:mismatch"

def showRes {β : Type} (f : β → String) : Res β → String
  | .ok v => f v
  | .err e => showErr e
  | .panic => "panic"

def showSeg (s : Segment Bytes Bytes) : String :=
  s!"{s.id.height} {s.id.idx} {showNatList s.hashPos} {showHexList s.hashes} {showNatList s.leafPos} {showHexList s.leafData} {showHexList s.proof}"

def parseSeg : List String → Option (Segment Bytes Bytes)
  | [h, idx, hp, hs, lp, ld, pr] =>
    match nat? h, nat? idx, parseNatList hp, parseHexList hs, parseNatList lp, parseHexList ld, parseHexList pr with
    | some h, some idx, some hp, some hs, some lp, some ld, some pr =>
      some { id := { height := h, idx := idx }, hashPos := hp, hashes := hs, leafPos := lp,
             leafData := ld, proof := pr }
    | _, _, _, _, _, _, _ => none
  | _ => none

/-- `none` or a list of leaf indices -/
def parseBm (s : String) : Option (Option (Nat → Bool)) :=
  if s = "none" then some none else
  match parseNatList s with
  | none => none
  | some l =>
    let m := l.foldl max 0
    let bits := l.foldl (fun (a : Array Bool) i => a.setIfInBounds i true) (Array.replicate (m + 1) false)
    some (some fun i => bits.getD i false)

def handle (st : St) (args : List String) (impl : String) : St × Verdict :=
  match args with
  | ["new"] => ({}, .ok)
  | ["view", size, d, ff, hs] =>
    match nat? size with
    | some size =>
      match parsePosHex (size + 2) d, parsePosHex (size + 2) ff, parsePosHex (size + 2) hs with
      | some d, some ff, some hs => ({ size := size, data := d, fromFile := ff, hash := hs }, .ok)
      | _, _, _ => (st, .unknown)
    | none => (st, .unknown)
  | ["from", h, idx, pr] =>
    match nat? h, nat? idx, nat? pr with
    | some h, some idx, some pr =>
      (st, cmpModel (showRes showSeg (fromPmmr realHF st.view { height := h, idx := idx } (pr != 0))) impl)
    | _, _, _ => (st, .unknown)
  | ["range", h, idx, size] =>
    match nat? h, nat? idx, nat? size with
    | some h, some idx, some size =>
      let r := Ident.posRange { height := h, idx := idx } size
      (st, cmpModel s!"{r.1} {r.2}" impl)
    | _, _, _ => (st, .unknown)
  | "root" :: size :: bm :: seg =>
    match nat? size, parseBm bm, parseSeg seg with
    | some size, some bm, some s =>
      let show' : Option Bytes → String := fun o => match o with
        | some h => toHex h
        | none => "none"
      (st, cmpModel (showRes show' (s.root realHF size bm)) impl)
    | _, _, _ => (st, .unknown)
  | "fup" :: size :: bm :: seg =>
    match nat? size, parseBm bm, parseSeg seg with
    | some size, some bm, some s =>
      (st, cmpModel (showRes (fun (x : Bytes × Nat) => s!"{toHex x.1} {x.2}") (s.firstUnprunedParent realHF size bm)) impl)
    | _, _, _ => (st, .unknown)
  | "validate" :: size :: bm :: root :: seg =>
    match nat? size, parseBm bm, parseHex root, parseSeg seg with
    | some size, some bm, some root, some s =>
      (st, cmpModel (showRes (fun _ => "ok") (s.validate realHF size bm root)) impl)
    | _, _, _, _ => (st, .unknown)
  | "validatewith" :: size :: bm :: root :: hlp :: other :: left :: seg =>
    match nat? size, parseBm bm, parseHex root, nat? hlp, parseHex other, nat? left, parseSeg seg with
    | some size, some bm, some root, some hlp, some other, some left, some s =>
      (st, cmpModel (showRes (fun _ => "ok") (s.validateWith realHF size bm root hlp other (left != 0))) impl)
    | _, _, _, _, _, _, _ => (st, .unknown)
  -- desegmenter bookkeeping (`Model/Seg.lean`, namespace `Dsg`)
  | ["dsg", "new", hb, ho, hr, hk, chunks, outs, kers] =>
    match nat? hb, nat? ho, nat? hr, nat? hk, nat? chunks, nat? outs, nat? kers with
    | some hb, some ho, some hr, some hk, some c, some o, some k =>
      ({ st with dsg := some (Dsg.State.new hb ho hr hk c o k) }, cmpModel "ok" impl)
    | _, _, _, _, _, _, _ => (st, .unknown)
  -- the desegmenter made for an archive header with `outs` output leaves: the model computes the
  -- chunk count itself (`calc_bitmap_mmr_sizes`)
  | ["dsg", "newh", hb, ho, hr, hk, outs, kers] =>
    match nat? hb, nat? ho, nat? hr, nat? hk, nat? outs, nat? kers with
    | some hb, some ho, some hr, some hk, some o, some k =>
      ({ st with dsg := some (Dsg.State.ofHeader hb ho hr hk o k) }, cmpModel "ok" impl)
    | _, _, _, _, _, _ => (st, .unknown)
  -- `expected_bitmap_mmr_size()` and its leaf count: ⌈n/1024⌉ chunks, the MMR size of that many leaves
  | ["bmsize", outs] =>
    match nat? outs with
    | some o => (st, cmpSpec s!"{Dsg.expectedChunks o} {Dsg.expectedBitmapSize o}" impl)
    | none => (st, .unknown)
  -- chunks of the accumulator `BitmapAccumulator::init` builds over a leaf set
  | ["accchunks", size, idxs] =>
    match nat? size, parseNatList idxs with
    | some n, some l => (st, cmpModel (toString (Dsg.accChunkCount l n)) impl)
    | _, _ => (st, .unknown)
  | ["dsg", "add", tree, h, idx, acc] =>
    match st.dsg, nat? tree, nat? h, nat? idx, nat? acc with
    | some d, some tree, some h, some idx, some acc =>
      -- whether the segment validates is an input (content); a segment of another height is
      -- refused whatever its content
      let id : Ident := ⟨h, idx⟩
      let valid := acc != 0
      match tree with
      | 0 => let r := d.bitmap.receive id valid
             ({ st with dsg := some { d with bitmap := r.1 } }, cmpModel (if r.2 then "cached" else "refused") impl)
      | 1 => let r := d.output.receive id valid
             ({ st with dsg := some { d with output := r.1 } }, cmpModel (if r.2 then "cached" else "refused") impl)
      | 2 => let r := d.rproof.receive id valid
             ({ st with dsg := some { d with rproof := r.1 } }, cmpModel (if r.2 then "cached" else "refused") impl)
      | _ => let r := d.kernel.receive id valid
             ({ st with dsg := some { d with kernel := r.1 } }, cmpModel (if r.2 then "cached" else "refused") impl)
    | _, _, _, _, _ => (st, .unknown)
  | ["dsg", "apply"] =>
    match st.dsg, (impl.splitOn " ").map String.toNat? with
    | some d, [some so, some sr, some sk, some c] =>
      let d' := d.apply
      -- kernel tree: exact.  Prunable trees: a completely pruned segment may push the hash of a
      -- parent above its own root, so the local MMR may be further than the leaf-count model says:
      -- never behind it, never beyond the archive size; the model continues from the observed size
      let lo := nLeaves so
      let lr := nLeaves sr
      let okO := Dsg.sizeOf lo = so && d'.output.leaves ≤ lo && lo ≤ d'.output.total
      let okR := Dsg.sizeOf lr = sr && d'.rproof.leaves ≤ lr && lr ≤ d'.rproof.total
      let okK := Dsg.sizeOf d'.kernel.leaves = sk
      let d'' : Dsg.State := { d' with output := { d'.output with leaves := lo }, rproof := { d'.rproof with leaves := lr } }
      let okC := (if d''.complete then 1 else 0) = c
      if okO && okR && okK && okC then ({ st with dsg := some d'' }, .ok)
      else ({ st with dsg := some d'' },
        .diff s!"output>={Dsg.sizeOf d'.output.leaves} rangeproof>={Dsg.sizeOf d'.rproof.leaves} kernel={Dsg.sizeOf d'.kernel.leaves} complete={if d''.complete then 1 else 0}")
    | _, _ => (st, .unknown)
  | ["dsg", "want"] =>
    match st.dsg with
    | some d =>
      let toks := (d.want 15).map fun x => s!"{x.1}:{x.2.height}:{x.2.idx}"
      (st, cmpModel ("[" ++ ",".intercalate toks ++ "]") impl)
    | none => (st, .unknown)
  -- the state-archive path (`Model/SegZip.lean`, glue in `Drv/SegZipD.lean`)
  | "zip" :: rest => (st, SegZipD.handle rest impl)
  | _ => (st, .unknown)

end GV.Drv.SegD
