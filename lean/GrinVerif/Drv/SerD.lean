import GrinVerif.Drv.Common
import GrinVerif.Model.SerBlock
import GrinVerif.Model.SerMsg
import GrinVerif.Model.SerStore
import GrinVerif.Model.DecVerify
import GrinVerif.Model.SerIds
import GrinVerif.Model.SerDb
import GrinVerif.Model.SerImpls
import GrinVerif.Model.SerJson
/-! Driver glue for the `ser` domain (line protocol handler).

    ser const <name>                                   => <value>
    ser prim <u8|u16|u32|u64|i64|bytes|fixed:N|empty:N|expect:N> <hex> => ok <value> <consumed> | err <E>
    ser dec <Type> <ver> <nrd 0|1> <chain A|M> <hex>   => ok <consumed> <enc@1> <enc@2> <enc@3> <hash|none> | err <E>
    ser enc <Type> <ver> <chain A|M> <value tokens…>   => <enc|E:err> <hash|none>
    ser hdr <chain A|M> <hex>                          => known <type> <len> <consumed> | unknown <type> <len> <consumed> | err <E>
    ser elmt <chain A|M> <header tokens…>              => <enc of as_elmt()> <Hashed::hash of the entry>
    ser skip <chain A|M> <ver> <hex>                   => ok <consumed> <enc of the header read under SkipPow> <#nonces> | err <E>
    ser fromvec <hex>                                  => <Hash::from_vec>
    ser sigmsg <kernel features tokens>                => <kernel_sig_msg, 32 bytes>
    ser prepow <chain A|M> <header tokens…>            => <BlockHeader::pre_pow()>
    ser shortid <item hash> <block hash> <nonce>       => <short_id, 6 bytes>
    ser mvlive <path hashes> <mmr_size> <live peak>    => as-model | differs:model=<bytes>   (MerkleProof::verify)
    ser implcodecs                                     => ok | unknown-codec-names:<n,…>
    ser jhex <commit|blind|proof|sig> <utf-8 of the JSON string> [<0|1 compact sig valid>] => ok <bytes> | err | panic
    ser jnum <utf-8 of the JSON string>                => ok <u64> | err      (FeeFields from a string)
    ser jhex <hashid|excessid> <utf-8 of the id>       => ok <bytes> | err     (the API handlers' id parsers)
    ser jopfin <8 flags: keys of an OutputPrintable object> => ok | err | panic
    ser jrp <utf-8 of the proof string | none>         => ok <bytes> | err | panic   (OutputPrintable::range_proof)

`dec` lines of `PeerData` carry the clock value the decoder used as `PeerData@<now>`.

`enc@v` is the model's re-encoding of the decoded value at protocol version v (`E:<err>` when the
writer refuses), `hash` the blake2b-256 of the hash-mode bytes for types that have a hash. -/
namespace GV.Drv.SerD
open GV GV.Drv GV.Ser GV.SerSeg GV.SerMsg GV.SerDb

structure St where
  dummy : Unit := ()

/-- the real sort key: blake2b-256 of the hash-mode bytes, compared as `[u8; 32]` -/
def realKey (b : Bytes) : Nat := ofBE (h256 b)

def mkCfg (ver : Nat) (nrd : Bool) (chain : String) : Option Cfg :=
  match chain with
  | "A" => some { ver := ver, nrd := nrd, maxWeight := GV.Gen.TESTING_MAX_BLOCK_WEIGHT,
                  proofSize := GV.Gen.AUTOMATED_TESTING_PROOF_SIZE, key := realKey }
  | "M" => some { ver := ver, nrd := nrd, maxWeight := GV.Gen.MAX_BLOCK_WEIGHT,
                  proofSize := GV.Gen.PROOFSIZE, key := realKey }
  | _ => none

/-- one serialisable type as the driver sees it -/
structure Codec (α : Type) where
  dec : Cfg → Parser α
  /-- full-mode encoding at the given version (`Cfg` supplies key / proof size only) -/
  enc : Cfg → Nat → α → Except SerErr Bytes
  /-- hash-mode bytes, if the type has an identity hash -/
  hashB : Cfg → α → Option Bytes
  /-- parse a value from line tokens (for `enc` lines) -/
  parse : List String → Option (α × List String)

def showEnc : Except SerErr Bytes → String
  | .ok b => toHex b
  | .error e => "E:" ++ e.name

def showHash : Option Bytes → String
  | some b => toHex (h256 b)
  | none => "none"

def runDec {α : Type} (cd : Codec α) (c : Cfg) (bs : Bytes) : String :=
  match cd.dec c bs with
  | .error e => "err " ++ e.name
  | .ok (x, r) =>
    s!"ok {bs.length - r.length} {showEnc (cd.enc c 1 x)} {showEnc (cd.enc c 2 x)} {showEnc (cd.enc c 3 x)} {showHash (cd.hashB c x)}"

def runEnc {α : Type} (cd : Codec α) (c : Cfg) (toks : List String) : Option String :=
  match cd.parse toks with
  | some (x, []) => some s!"{showEnc (cd.enc c c.ver x)} {showHash (cd.hashB c x)}"
  | _ => none

/-! ### token parsers for values -/

abbrev TokP (α : Type) := List String → Option (α × List String)

def tNat : TokP Nat
  | t :: r => (t.toNat?).map (·, r)
  | [] => none
def tInt : TokP Int
  | t :: r => (t.toInt?).map (·, r)
  | [] => none
def tHex : TokP Bytes
  | t :: r => (parseHex t).map (·, r)
  | [] => none
def tNatList : TokP (List Nat)
  | t :: r => (parseNatList t).map (·, r)
  | [] => none

def tMany {α : Type} (p : TokP α) : Nat → TokP (List α)
  | 0, ts => some ([], ts)
  | n+1, ts => do
    let (x, ts) ← p ts
    let (xs, ts) ← tMany p n ts
    pure (x :: xs, ts)

/-- `<n> item…` -/
def tCounted {α : Type} (p : TokP α) : TokP (List α) := fun ts => do
  let (n, ts) ← tNat ts
  tMany p n ts

def tKernelFeatures : TokP KernelFeatures
  | "P" :: ts => do let (f, ts) ← tNat ts; pure (.plain f, ts)
  | "C" :: ts => some (.coinbase, ts)
  | "H" :: ts => do let (f, ts) ← tNat ts; let (l, ts) ← tNat ts; pure (.heightLocked f l, ts)
  | "N" :: ts => do let (f, ts) ← tNat ts; let (l, ts) ← tNat ts; pure (.noRecentDuplicate f l, ts)
  | _ => none

def tTxKernel : TokP TxKernel := fun ts => do
  let (f, ts) ← tKernelFeatures ts
  let (e, ts) ← tHex ts
  let (s, ts) ← tHex ts
  pure ({ features := f, excess := e, excessSig := s }, ts)

def tOutputFeatures : TokP OutputFeatures
  | "0" :: ts => some (.plain, ts)
  | "1" :: ts => some (.coinbase, ts)
  | _ => none

def tInput : TokP Input := fun ts => do
  let (f, ts) ← tOutputFeatures ts
  let (c, ts) ← tHex ts
  pure ({ features := f, commit := c }, ts)

def tOutputId : TokP OutputId := fun ts => do
  let (f, ts) ← tOutputFeatures ts
  let (c, ts) ← tHex ts
  pure ({ features := f, commit := c }, ts)

def tRangeProof : TokP RangeProof := fun ts => do
  let (n, ts) ← tNat ts
  let (p, ts) ← tHex ts
  pure ({ plen := n, proof := p }, ts)

def tOutput : TokP Output := fun ts => do
  let (i, ts) ← tOutputId ts
  let (p, ts) ← tRangeProof ts
  pure ({ id := i, proof := p }, ts)

def tInputs : TokP Inputs
  | "CO" :: ts => do let (l, ts) ← tCounted tHex ts; pure (.commitOnly l, ts)
  | "FC" :: ts => do let (l, ts) ← tCounted tInput ts; pure (.featuresAndCommit l, ts)
  | _ => none

def tTxBody : TokP TxBody := fun ts => do
  let (i, ts) ← tInputs ts
  let (o, ts) ← tCounted tOutput ts
  let (k, ts) ← tCounted tTxKernel ts
  pure ({ inputs := i, outputs := o, kernels := k }, ts)

def tTransaction : TokP Transaction := fun ts => do
  let (off, ts) ← tHex ts
  let (b, ts) ← tTxBody ts
  pure ({ offset := off, body := b }, ts)

def tProof : TokP Proof := fun ts => do
  let (eb, ts) ← tNat ts
  let (ns, ts) ← tNatList ts
  pure ({ edgeBits := eb, nonces := ns }, ts)

def tProofOfWork : TokP ProofOfWork := fun ts => do
  let (td, ts) ← tNat ts
  let (ss, ts) ← tNat ts
  let (n, ts) ← tNat ts
  let (p, ts) ← tProof ts
  pure ({ totalDifficulty := td, secondaryScaling := ss, nonce := n, proof := p }, ts)

def tBlockHeader : TokP BlockHeader := fun ts => do
  let (version, ts) ← tNat ts
  let (height, ts) ← tNat ts
  let (timestamp, ts) ← tInt ts
  let (prevHash, ts) ← tHex ts
  let (prevRoot, ts) ← tHex ts
  let (outputRoot, ts) ← tHex ts
  let (rangeProofRoot, ts) ← tHex ts
  let (kernelRoot, ts) ← tHex ts
  let (tko, ts) ← tHex ts
  let (oms, ts) ← tNat ts
  let (kms, ts) ← tNat ts
  let (pow, ts) ← tProofOfWork ts
  pure ({ version := version, height := height, prevHash := prevHash, prevRoot := prevRoot,
          timestamp := timestamp, outputRoot := outputRoot, rangeProofRoot := rangeProofRoot,
          kernelRoot := kernelRoot, totalKernelOffset := tko, outputMmrSize := oms,
          kernelMmrSize := kms, pow := pow }, ts)

def tBlock : TokP Block := fun ts => do
  let (h, ts) ← tBlockHeader ts
  let (b, ts) ← tTxBody ts
  pure ({ header := h, body := b }, ts)

def tCompactBlock : TokP CompactBlock := fun ts => do
  let (h, ts) ← tBlockHeader ts
  let (n, ts) ← tNat ts
  let (o, ts) ← tCounted tOutput ts
  let (k, ts) ← tCounted tTxKernel ts
  let (i, ts) ← tCounted tHex ts
  pure ({ header := h, nonce := n, body := { outFull := o, kernFull := k, kernIds := i } }, ts)

def tTip : TokP Tip := fun ts => do
  let (h, ts) ← tNat ts
  let (l, ts) ← tHex ts
  let (p, ts) ← tHex ts
  let (d, ts) ← tNat ts
  pure ({ height := h, lastBlockH := l, prevBlockH := p, totalDifficulty := d }, ts)

/-! ### segments and p2p messages (`Model/SerSeg.lean`, `Model/SerMsg.lean`) -/

def tSegId : TokP SegId := fun ts => do
  let (h, ts) ← tNat ts
  let (i, ts) ← tNat ts
  pure ({ height := h, idx := i }, ts)

/-- `<h> <idx> [hashPos] <n> hash… [leafPos] <n> item… <n> proofHash…` -/
def tSegment {α : Type} (p : TokP α) : TokP (Segment α) := fun ts => do
  let (id, ts) ← tSegId ts
  let (hp, ts) ← tNatList ts
  let (hs, ts) ← tCounted tHex ts
  let (lp, ts) ← tNatList ts
  let (ld, ts) ← tCounted p ts
  let (pf, ts) ← tCounted tHex ts
  pure ({ id := id, hashPos := hp, hashes := hs, leafPos := lp, leafData := ld, proof := pf }, ts)

/-- `<nChunks> <hex of BitVec::to_bytes()>` -/
def tBitmapBlock : TokP BitmapBlock := fun ts => do
  let (n, ts) ← tNat ts
  let (b, ts) ← tHex ts
  pure ({ nChunks := n, v := ofBE b }, ts)

def tBitmapSegment : TokP BitmapSegment := fun ts => do
  let (id, ts) ← tSegId ts
  let (bl, ts) ← tCounted tBitmapBlock ts
  let (pf, ts) ← tCounted tHex ts
  pure ({ id := id, blocks := bl, proof := pf }, ts)

def tPeerAddr : TokP PeerAddr
  | "4" :: ts => do let (ip, ts) ← tHex ts; let (p, ts) ← tNat ts; pure (.v4 ip p, ts)
  | "6" :: ts => do
    let (sg, ts) ← tNatList ts
    let (p, ts) ← tNat ts
    let (f, ts) ← tNat ts
    let (sc, ts) ← tNat ts
    pure (.v6 sg p f sc, ts)
  | _ => none

def tHand : TokP Hand := fun ts => do
  let (version, ts) ← tNat ts
  let (caps, ts) ← tNat ts
  let (nonce, ts) ← tNat ts
  let (genesis, ts) ← tHex ts
  let (td, ts) ← tNat ts
  let (sa, ts) ← tPeerAddr ts
  let (ra, ts) ← tPeerAddr ts
  let (ua, ts) ← tHex ts
  pure ({ version := version, capabilities := caps, nonce := nonce, genesis := genesis,
          totalDifficulty := td, senderAddr := sa, receiverAddr := ra, userAgent := ua }, ts)

def tShake : TokP Shake := fun ts => do
  let (version, ts) ← tNat ts
  let (caps, ts) ← tNat ts
  let (genesis, ts) ← tHex ts
  let (td, ts) ← tNat ts
  let (ua, ts) ← tHex ts
  pure ({ version := version, capabilities := caps, genesis := genesis, totalDifficulty := td,
          userAgent := ua }, ts)

def tPingPong : TokP PingPong := fun ts => do
  let (td, ts) ← tNat ts
  let (h, ts) ← tNat ts
  pure ({ totalDifficulty := td, height := h }, ts)

def tPeerError : TokP PeerError := fun ts => do
  let (c, ts) ← tNat ts
  let (m, ts) ← tHex ts
  pure ({ code := c, message := m }, ts)

def tTxHashSetRequest : TokP TxHashSetRequest := fun ts => do
  let (h, ts) ← tHex ts
  let (n, ts) ← tNat ts
  pure ({ hash := h, height := n }, ts)

def tTxHashSetArchive : TokP TxHashSetArchive := fun ts => do
  let (h, ts) ← tHex ts
  let (n, ts) ← tNat ts
  let (b, ts) ← tNat ts
  pure ({ hash := h, height := n, bytes := b }, ts)

def tSegmentRequest : TokP SegmentRequest := fun ts => do
  let (h, ts) ← tHex ts
  let (id, ts) ← tSegId ts
  pure ({ blockHash := h, id := id }, ts)

def tSegmentResponse {α : Type} (p : TokP α) : TokP (SegmentResponse α) := fun ts => do
  let (h, ts) ← tHex ts
  let (s, ts) ← tSegment p ts
  pure ({ blockHash := h, segment := s }, ts)

def tOutputSegmentResponse : TokP OutputSegmentResponse := fun ts => do
  let (r, ts) ← tSegmentResponse tOutputId ts
  let (h, ts) ← tHex ts
  pure ({ response := r, outputBitmapRoot := h }, ts)

def tOutputBitmapSegmentResponse : TokP OutputBitmapSegmentResponse := fun ts => do
  let (h, ts) ← tHex ts
  let (s, ts) ← tBitmapSegment ts
  let (o, ts) ← tHex ts
  pure ({ blockHash := h, segment := s, outputRoot := o }, ts)

/-! ### the codec table -/

def okE (b : Bytes) : Except SerErr Bytes := .ok b

def exceptToOption {α : Type} : Except SerErr α → Option α
  | .ok x => some x
  | .error _ => none

def cKernelFeatures : Codec KernelFeatures :=
  { dec := decKernelFeatures, enc := fun _ v x => okE (encKernelFeatures v .full x),
    hashB := fun _ _ => none, parse := tKernelFeatures }
def cTxKernel : Codec TxKernel :=
  { dec := decTxKernel, enc := fun _ v x => okE (encTxKernel v .full x),
    hashB := fun _ x => some x.hashBytes, parse := tTxKernel }
def cNrdHeight : Codec Nat :=
  { dec := fun _ => decNrdHeight, enc := fun _ _ x => okE (writeU16 x),
    hashB := fun _ x => some (writeU16 x), parse := tNat }
def cOutputFeatures : Codec OutputFeatures :=
  { dec := fun _ => decOutputFeatures, enc := fun _ _ x => okE (encOutputFeatures x),
    hashB := fun _ _ => none, parse := tOutputFeatures }
def cInput : Codec Input :=
  { dec := fun _ => decInput, enc := fun _ _ x => okE (encInput x),
    hashB := fun _ x => some x.hashBytes, parse := tInput }
def cCommitWrapper : Codec Bytes :=
  { dec := fun _ => decCommitWrapper, enc := fun _ _ x => okE (encCommitWrapper x),
    hashB := fun _ x => some (encCommitWrapper x), parse := tHex }
def cOutputId : Codec OutputId :=
  { dec := fun _ => decOutputId, enc := fun _ _ x => okE (encOutputId x),
    hashB := fun _ x => some x.hashBytes, parse := tOutputId }
def cRangeProof : Codec RangeProof :=
  { dec := fun _ => decRangeProof, enc := fun _ _ x => okE (encRangeProof x),
    hashB := fun _ x => some (encRangeProof x), parse := tRangeProof }
def cOutput : Codec Output :=
  { dec := fun _ => decOutput, enc := fun _ _ x => okE (encOutput x),
    hashB := fun _ x => some x.hashBytes, parse := tOutput }
def cTxBody : Codec TxBody :=
  { dec := decTxBody, enc := fun c v x => encTxBody c.key v .full x,
    hashB := fun _ _ => none, parse := tTxBody }
def cTransaction : Codec Transaction :=
  { dec := decTransaction, enc := fun c v x => encTransaction c.key v .full x,
    hashB := fun c x => exceptToOption (x.hashBytes c.key), parse := tTransaction }
def cProof : Codec Proof :=
  { dec := decProof, enc := fun c _ x => okE (encProof c.proofSize .full x),
    hashB := fun c x => some (x.hashBytes c.proofSize), parse := tProof }
def cProofOfWork : Codec ProofOfWork :=
  { dec := decProofOfWork, enc := fun c _ x => okE (encProofOfWork c.proofSize .full x),
    hashB := fun _ _ => none, parse := tProofOfWork }
def cBlockHeader : Codec BlockHeader :=
  { dec := decBlockHeader, enc := fun c _ x => okE (encBlockHeader c.proofSize .full x),
    hashB := fun c x => some (x.hashBytes c.proofSize), parse := tBlockHeader }
def cBlock : Codec Block :=
  { dec := decBlock, enc := fun c v x => encBlock c.key c.proofSize v .full x,
    hashB := fun c x => some (x.hashBytes c.proofSize), parse := tBlock }
def cShortId : Codec Bytes :=
  { dec := fun _ => decShortId, enc := fun _ _ x => okE (encShortId x),
    hashB := fun _ x => some (encShortId x), parse := tHex }
def cCompactBlock : Codec CompactBlock :=
  { dec := decCompactBlock, enc := fun c v x => okE (encCompactBlock c.proofSize v .full x),
    hashB := fun c x => some (x.hashBytes c.proofSize), parse := tCompactBlock }
def cTip : Codec Tip :=
  { dec := fun _ => decTip, enc := fun _ _ x => okE (encTip x),
    hashB := fun _ _ => none, parse := tTip }

/-- a codec without version dependence and without identity hash -/
def plain {α : Type} (dec : Parser α) (enc : α → Bytes) (parse : TokP α) : Codec α :=
  { dec := fun _ => dec, enc := fun _ _ x => okE (enc x), hashB := fun _ _ => none, parse := parse }

def cSegId : Codec SegId := plain decSegId encSegId tSegId
def cSegProof : Codec (List Bytes) := plain decSegProof encSegProof (tCounted tHex)
def cOutputSegment : Codec (Segment OutputId) :=
  plain (decSegment decOutputId) (encSegment encOutputId) (tSegment tOutputId)
def cRangeProofSegment : Codec (Segment RangeProof) :=
  plain (decSegment decRangeProof) (encSegment encRangeProof) (tSegment tRangeProof)
def cKernelSegment : Codec (Segment TxKernel) :=
  { dec := fun c => decSegment (decTxKernel c), enc := fun _ v x => okE (encSegment (encTxKernel v .full) x),
    hashB := fun _ _ => none, parse := tSegment tTxKernel }
def cBitmapSegment : Codec BitmapSegment := plain decBitmapSegment encBitmapSegment tBitmapSegment
def cPeerAddr : Codec PeerAddr := plain decPeerAddr encPeerAddr tPeerAddr
def cHand : Codec Hand := plain decHand encHand tHand
def cShake : Codec Shake := plain decShake encShake tShake
def cPingPong : Codec PingPong := plain decPingPong encPingPong tPingPong
def cGetPeerAddrs : Codec Nat := plain decGetPeerAddrs encGetPeerAddrs tNat
def cPeerAddrs : Codec (List PeerAddr) := plain decPeerAddrs encPeerAddrs (tCounted tPeerAddr)
def cPeerError : Codec PeerError := plain decPeerError encPeerError tPeerError
def cLocator : Codec (List Bytes) := plain decLocator encLocator (tCounted tHex)
def cBanReason : Codec Nat := plain decBanReason encBanReason tNat
def cTxHashSetRequest : Codec TxHashSetRequest := plain decTxHashSetRequest encTxHashSetRequest tTxHashSetRequest
def cTxHashSetArchive : Codec TxHashSetArchive := plain decTxHashSetArchive encTxHashSetArchive tTxHashSetArchive
def cSegmentRequest : Codec SegmentRequest := plain decSegmentRequest encSegmentRequest tSegmentRequest
def cRangeProofSegmentResponse : Codec (SegmentResponse RangeProof) :=
  plain (decSegmentResponse decRangeProof) (encSegmentResponse encRangeProof) (tSegmentResponse tRangeProof)
def cKernelSegmentResponse : Codec (SegmentResponse TxKernel) :=
  { dec := fun c => decSegmentResponse (decTxKernel c),
    enc := fun _ v x => okE (encSegmentResponse (encTxKernel v .full) x),
    hashB := fun _ _ => none, parse := tSegmentResponse tTxKernel }
def cOutputSegmentResponse : Codec OutputSegmentResponse :=
  plain decOutputSegmentResponse encOutputSegmentResponse tOutputSegmentResponse
def cOutputBitmapSegmentResponse : Codec OutputBitmapSegmentResponse :=
  plain decOutputBitmapSegmentResponse encOutputBitmapSegmentResponse tOutputBitmapSegmentResponse
def tHeaderEntry : TokP HeaderEntry := fun ts => do
  let (h, ts) ← tHex ts
  let (t, ts) ← tNat ts
  let (d, ts) ← tNat ts
  let (s, ts) ← tNat ts
  let (f, ts) ← tNat ts
  pure ({ hash := h, timestamp := t, totalDifficulty := d, secondaryScaling := s, isSecondary := f != 0 }, ts)

def tCommitPos : TokP CommitPos := fun ts => do
  let (p, ts) ← tNat ts
  let (h, ts) ← tNat ts
  pure ({ pos := p, height := h }, ts)

def tMerkleProof : TokP MerkleProof := fun ts => do
  let (s, ts) ← tNat ts
  let (l, ts) ← tCounted tHex ts
  pure ({ mmrSize := s, path := l }, ts)

/-- store-side encodings (`Model/SerStore.lean`); the identity hash of a `HeaderEntry` is the stored
hash itself (`Hashed for HeaderEntry`), so `hashB` is not used for it (see `runDecEntry`) -/
def cHeaderEntry : Codec HeaderEntry := plain decHeaderEntry encHeaderEntry tHeaderEntry
def cCommitPos : Codec CommitPos := plain decCommitPos encCommitPos tCommitPos
def cSpentIndex : Codec (List CommitPos) := plain decSpentIndex encSpentIndex (tCounted tCommitPos)
def cMerkleProof : Codec MerkleProof := plain decMerkleProof encMerkleProof tMerkleProof
/-- `Vec<OutputIdentifier>` through the generic `impl Readable for Vec<T>`: an item type whose
reader can fail with something else than `UnexpectedEof` -/
def cOutputIdVec : Codec (List OutputId) := plain (decVec decOutputId) (writeMulti encOutputId) (tCounted tOutputId)
/-- `Headers` has a writer only (`dec` refuses everything; no `dec` line is ever printed for it) -/
def cHeaders : Codec (List BlockHeader) :=
  { dec := fun _ _ => .error .corrupted,
    enc := fun c _ x => okE (encHeaders (encBlockHeader c.proofSize .full) x),
    hashB := fun _ _ => none, parse := tCounted tBlockHeader }
/-- `MsgHeader` as a writer (`enc` line: `<type> <len>`); reading is the `hdr` op -/
def cMsgHeader (net : NetCfg) : Codec (Nat × Nat) :=
  { dec := fun _ _ => .error .corrupted,
    enc := fun _ _ x => okE (encMsgHeader net x.1 x.2),
    hashB := fun _ _ => none,
    parse := fun ts => do let (t, ts) ← tNat ts; let (l, ts) ← tNat ts; pure ((t, l), ts) }

/-! ### database values and small wrappers (`Model/SerDb.lean`) -/

def tNrdList : TokP (ListWrapper CommitPos)
  | "S" :: ts => do let (c, ts) ← tCommitPos ts; pure (.single c, ts)
  | "M" :: ts => do let (h, ts) ← tNat ts; let (t, ts) ← tNat ts; pure (.multi h t, ts)
  | _ => none

def tNrdEntry : TokP (ListEntry CommitPos)
  | "H" :: ts => do let (c, ts) ← tCommitPos ts; let (n, ts) ← tNat ts; pure (.head c n, ts)
  | "T" :: ts => do let (c, ts) ← tCommitPos ts; let (p, ts) ← tNat ts; pure (.tail c p, ts)
  | "Mid" :: ts => do
    let (c, ts) ← tCommitPos ts
    let (n, ts) ← tNat ts
    let (p, ts) ← tNat ts
    pure (.middle c n p, ts)
  | _ => none

def tBlockSums : TokP BlockSums := fun ts => do
  let (u, ts) ← tHex ts
  let (k, ts) ← tHex ts
  pure ({ utxoSum := u, kernelSum := k }, ts)

def tSizeEntry : TokP SizeEntry := fun ts => do
  let (o, ts) ← tNat ts
  let (s, ts) ← tNat ts
  pure ({ offset := o, size := s }, ts)

def tPeerData : TokP PeerData := fun ts => do
  let (a, ts) ← tPeerAddr ts
  let (c, ts) ← tNat ts
  let (ua, ts) ← tHex ts
  let (fl, ts) ← tNat ts
  let (lb, ts) ← tInt ts
  let (br, ts) ← tNat ts
  let (lc, ts) ← tInt ts
  let (la, ts) ← tInt ts
  pure ({ addr := a, capabilities := c, userAgent := ua, flags := fl, lastBanned := lb, banReason := br,
          lastConnected := lc, lastAttempt := la }, ts)

def cNrdList : Codec (ListWrapper CommitPos) := plain decNrdList encNrdList tNrdList
def cNrdEntry : Codec (ListEntry CommitPos) := plain decNrdEntry encNrdEntry tNrdEntry
def cBlockSums : Codec BlockSums := plain decBlockSums encBlockSums tBlockSums
def cSizeEntry : Codec SizeEntry := plain decSizeEntry encSizeEntry tSizeEntry
def cProtocolVersion : Codec Nat := plain decProtocolVersion encProtocolVersion tNat
def cI32 : Codec Int := plain readI32 writeI32 tInt
def cFixed (n : Nat) : Codec Bytes := plain (decFixedN n) encFixedN tHex
def cTuple2 : Codec (Nat × Nat) :=
  plain (decPair readU64 readU32) (encPair writeU64 writeU32)
    (fun ts => do let (a, ts) ← tNat ts; let (b, ts) ← tNat ts; pure ((a, b), ts))
def cTuple3 : Codec (Nat × Nat × Nat) :=
  plain (decTriple readU64 readU32 readU16) (encTriple writeU64 writeU32 writeU16)
    (fun ts => do let (a, ts) ← tNat ts; let (b, ts) ← tNat ts; let (c, ts) ← tNat ts; pure ((a, b, c), ts))
def cTuple4 : Codec (Nat × Nat × Nat × Nat) :=
  plain (decQuad readU64 readU32 readU16 readU8) (encQuad writeU64 writeU32 writeU16 writeU8)
    (fun ts => do
      let (a, ts) ← tNat ts; let (b, ts) ← tNat ts; let (c, ts) ← tNat ts; let (d, ts) ← tNat ts
      pure ((a, b, c, d), ts))
/-- `now` = the clock value `PeerData::read` substitutes for a missing `last_connected` -/
def cPeerData (now : Int) : Codec PeerData := plain (decPeerData now) encPeerData tPeerData

def netOf (chain : String) : NetCfg :=
  if chain == "M" then { magic := GV.Gen.Msg.MAINNET_MAGIC, mbw := GV.Gen.MAX_BLOCK_WEIGHT }
  else { magic := GV.Gen.Msg.OTHER_MAGIC, mbw := GV.Gen.TESTING_MAX_BLOCK_WEIGHT }

/-- dispatch on the type name; `k` receives the codec -/
def withCodec (ty : String) (k : {α : Type} → Codec α → Option String) : Option String :=
  match ty with
  | "KernelFeatures" => k cKernelFeatures
  | "TxKernel" => k cTxKernel
  | "NRDRelativeHeight" => k cNrdHeight
  | "OutputFeatures" => k cOutputFeatures
  | "Input" => k cInput
  | "CommitWrapper" => k cCommitWrapper
  | "OutputIdentifier" => k cOutputId
  | "RangeProof" => k cRangeProof
  | "Output" => k cOutput
  | "TransactionBody" => k cTxBody
  | "Transaction" => k cTransaction
  | "Proof" => k cProof
  | "ProofOfWork" => k cProofOfWork
  | "BlockHeader" => k cBlockHeader
  | "Block" => k cBlock
  | "ShortId" => k cShortId
  | "CompactBlock" => k cCompactBlock
  | "Tip" => k cTip
  | "SegmentIdentifier" => k cSegId
  | "SegmentProof" => k cSegProof
  | "OutputSegment" => k cOutputSegment
  | "RangeProofSegment" => k cRangeProofSegment
  | "KernelSegment" => k cKernelSegment
  | "BitmapSegment" => k cBitmapSegment
  | "PeerAddr" => k cPeerAddr
  | "Hand" => k cHand
  | "Shake" => k cShake
  | "Ping" => k cPingPong
  | "Pong" => k cPingPong
  | "GetPeerAddrs" => k cGetPeerAddrs
  | "PeerAddrs" => k cPeerAddrs
  | "PeerError" => k cPeerError
  | "Locator" => k cLocator
  | "BanReason" => k cBanReason
  | "TxHashSetRequest" => k cTxHashSetRequest
  | "TxHashSetArchive" => k cTxHashSetArchive
  | "SegmentRequest" => k cSegmentRequest
  | "RangeProofSegmentResponse" => k cRangeProofSegmentResponse
  | "KernelSegmentResponse" => k cKernelSegmentResponse
  | "OutputSegmentResponse" => k cOutputSegmentResponse
  | "OutputBitmapSegmentResponse" => k cOutputBitmapSegmentResponse
  | "Headers" => k cHeaders
  | "HeaderEntry" => k cHeaderEntry
  | "CommitPos" => k cCommitPos
  | "SpentIndex" => k cSpentIndex
  | "MerkleProof" => k cMerkleProof
  | "OutputIdVec" => k cOutputIdVec
  | "MsgHeaderA" => k (cMsgHeader (netOf "A"))
  | "MsgHeaderM" => k (cMsgHeader (netOf "M"))
  | "NrdList" => k cNrdList
  | "NrdEntry" => k cNrdEntry
  | "BlockSums" => k cBlockSums
  | "SizeEntry" => k cSizeEntry
  | "ProtocolVersion" => k cProtocolVersion
  | "I32" => k cI32
  | "TupleU64U32" => k cTuple2
  | "TupleU64U32U16" => k cTuple3
  | "TupleU64U32U16U8" => k cTuple4
  | "Commitment" => k (cFixed COMMIT_SIZE)
  | "BlindingFactor" => k (cFixed SECRET_KEY_SIZE)
  | "Identifier" => k (cFixed IDENTIFIER_SIZE)
  | "Signature" => k (cFixed SIGNATURE_SIZE)
  | "Hash" => k (cFixed HASH_SIZE)
  | "PublicKey" => k (plain decPublicKeyReal encFixedN tHex)
  | "PeerData" => k (cPeerData 0)
  | other =>
    match other.splitOn "@" with
    | ["PeerData", now] => now.toInt?.bind fun n => k (cPeerData n)
    | _ => none

/-- does the dispatch know this type name? -/
def hasCodec (n : String) : Bool := (withCodec n fun _ => some "").isSome

/-- `ser implcodecs`: every codec name the inventory (`Model/SerImpls.lean`) refers to is one the
dispatch knows -/
def runImplCodecs : String :=
  match GV.SerImpls.codecNames.filter (fun n => !hasCodec n) with
  | [] => "ok"
  | l => "unknown-codec-names:" ++ String.intercalate "," l

def showPrim {α : Type} (sh : α → String) (bs : Bytes) : Except SerErr (α × Bytes) → String
  | .ok (x, r) => s!"ok {sh x} {bs.length - r.length}"
  | .error e => "err " ++ e.name

def runPrim (name : String) (bs : Bytes) : Option String :=
  match name.splitOn ":" with
  | ["u8"] => some (showPrim toString bs (readU8 bs))
  | ["u16"] => some (showPrim toString bs (readU16 bs))
  | ["u32"] => some (showPrim toString bs (readU32 bs))
  | ["u64"] => some (showPrim toString bs (readU64 bs))
  | ["i64"] => some (showPrim toString bs (readI64 bs))
  | ["bytes"] => some (showPrim toHex bs (readBytesLenPrefix bs))
  | ["fixed", n] => n.toNat?.map fun n => showPrim toHex bs (readFixed n bs)
  | ["empty", n] => n.toNat?.map fun n => showPrim (fun _ => "unit") bs (readEmpty n bs)
  | ["expect", n] => n.toNat?.map fun n => showPrim toString bs (expectU8 n bs)
  | _ => none

def constVal : String → Option String
  | "ts_max" => some (toString TS_MAX)
  | "ts_min" => some (toString TS_MIN)
  | "max_proof_size" => some (toString MAX_PROOF_SIZE)
  | "nrd_max" => some (toString NRD_MAX)
  | "local_version" => some (toString LOCAL_VERSION)
  | "db_version" => some (toString DB_VERSION)
  | "max_block_weight_A" => some (toString GV.Gen.TESTING_MAX_BLOCK_WEIGHT)
  | "max_block_weight_M" => some (toString GV.Gen.MAX_BLOCK_WEIGHT)
  | "proofsize_A" => some (toString GV.Gen.AUTOMATED_TESTING_PROOF_SIZE)
  | "proofsize_M" => some (toString GV.Gen.PROOFSIZE)
  | "max_segment_read_items" => some (toString MAX_SEGMENT_READ_ITEMS)
  | "max_peer_addrs" => some (toString GV.Gen.MAX_PEER_ADDRS)
  | "max_locators" => some (toString GV.Gen.MAX_LOCATORS)
  | "capabilities_all" => some (toString GV.Gen.Msg.CAPABILITIES_ALL)
  | "msg_header_len" => some (toString GV.Gen.Msg.MSG_HEADER_LEN)
  | "elmt_size_BlockHeader" => some (toString HEADER_ENTRY_SIZE)
  | "elmt_size_OutputIdentifier" => some (toString OUTPUT_ID_SIZE)
  | "elmt_size_RangeProof" => some (toString RANGE_PROOF_ELMT_SIZE)
  | "elmt_size_BitmapChunk" => some (toString BITMAP_CHUNK_SIZE)
  | "elmt_size_TxKernel" => some "none"
  | "second_pow_edge_bits" => some (toString GV.Gen.SECOND_POW_EDGE_BITS)
  | _ => none

def runHdr (chain : String) (bs : Bytes) : String :=
  match decMsgHeader (netOf chain) bs with
  | .error e => "err " ++ e.name
  | .ok (.known t len, r) => s!"known {t} {len} {bs.length - r.length}"
  | .ok (.unknown len t, r) => s!"unknown {t} {len} {bs.length - r.length}"

/-- `ser elmt`: `BlockHeader::as_elmt()` written out, and the entry's `Hashed::hash()` -/
def runElmt (c : Cfg) (toks : List String) : Option String :=
  match tBlockHeader toks with
  | some (h, []) =>
    let e := h.asElmt h256 c.proofSize
    some s!"{toHex (encHeaderEntry e)} {toHex e.identityHash}"
  | _ => none

/-- `ser skip`: a header read with `DeserializationMode::SkipPow` -/
def runSkip (c : Cfg) (bs : Bytes) : String :=
  match decBlockHeaderSkip bs with
  | .error e => "err " ++ e.name
  | .ok (h, r) =>
    s!"ok {bs.length - r.length} {toHex (encBlockHeader c.proofSize .full h)} {h.pow.proof.nonces.length}"

/-- `ser mvlive`: the live peak measured around one real `MerkleProof::verify` call against the
instrumented model (`Model/DecVerify.lean`): at least the model's `32·n + 8·p` (the one clone of the
path and the peak vector), at most that with the peak vector at the capacity a growing `Vec<u64>`
gets (4 or the next doubling) plus 8 KiB for temporaries -/
def runMvLive (n size peak : Nat) : String :=
  let p := (GV.Pmmr.peaks size).length
  let lo := GV.DecVerify.HASH_BYTES * n + 8 * p
  let hi := GV.DecVerify.HASH_BYTES * n + 8 * (max 4 (2 * p)) + 8192
  if lo ≤ peak ∧ peak ≤ hi then "as-model" else s!"differs:model={lo}"

def showField : GV.SerJson.FieldRes → String
  | .ok v => "ok " ++ toHex v
  | .err => "err"
  | .panic => "panic"

/-- `ser jhex`: the string-field readers of `secp_ser.rs` -/
def runJHex (kind : String) (s : Bytes) (sigValid : Bool) : Option String :=
  match kind with
  | "commit" => some (showField (GV.SerJson.commitFromHex s))
  | "blind" => some (showField (GV.SerJson.blindFromHex s))
  | "proof" => some (showField (GV.SerJson.proofFromHex s))
  | "sig" => some (showField (GV.SerJson.sigFromHex (fun _ => sigValid) s))
  | "hashid" => some (showField (GV.SerJson.hashIdFromHex s))
  | "excessid" => some (showField (GV.SerJson.excessIdFromHex s))
  | _ => none

def showFin3 : GV.SerJson.Fin3 → String
  | .ok => "ok"
  | .err => "err"
  | .panic => "panic"

def ofOpt (impl : String) : Option String → Verdict
  | some m => cmpModel m impl
  | none => .unknown

/-- for values that ARE the definition every node must share (signature message, pre-pow bytes, short
id, the header MMR entry of a header): a deviation is a concrete failing input, not a model disagreement -/
def ofOptSpec (impl : String) : Option String → Verdict
  | some m => cmpSpec m impl
  | none => .unknown

def handle (st : St) (args : List String) (impl : String) : St × Verdict :=
  match args with
  | ["const", name] => (st, ofOpt impl (constVal name))
  | ["prim", name, hex] =>
    (st, ofOpt impl ((parseHex hex).bind fun bs => runPrim name bs))
  | ["dec", ty, ver, nrd, chain, hex] =>
    (st, ofOpt impl (do
      let v ← ver.toNat?
      let c ← mkCfg v (nrd == "1") chain
      let bs ← parseHex hex
      withCodec ty fun cd => some (runDec cd c bs)))
  | ["hdr", chain, hex] =>
    (st, ofOpt impl ((parseHex hex).map fun bs => runHdr chain bs))
  | "enc" :: ty :: ver :: chain :: toks =>
    (st, ofOpt impl (do
      let v ← ver.toNat?
      let c ← mkCfg v true chain
      withCodec ty fun cd => runEnc cd c toks))
  | "elmt" :: chain :: toks =>
    (st, ofOptSpec impl (do
      let c ← mkCfg 1 true chain
      runElmt c toks))
  | ["skip", chain, ver, hex] =>
    (st, ofOpt impl (do
      let v ← ver.toNat?
      let c ← mkCfg v true chain
      let bs ← parseHex hex
      some (runSkip c bs)))
  | ["mvlive", n, size, peak] =>
    (st, ofOpt impl (do
      let n ← n.toNat?
      let size ← size.toNat?
      let peak ← peak.toNat?
      some (runMvLive n size peak)))
  | "sigmsg" :: toks =>
    (st, ofOptSpec impl (match tKernelFeatures toks with
      | some (f, []) => some (toHex (h256 f.sigMsgBytes))
      | _ => none))
  | "prepow" :: _chain :: toks =>
    (st, ofOptSpec impl (match tBlockHeader toks with
      | some (h, []) => some (toHex (prePow h))
      | _ => none))
  | ["shortid", item, blk, nonce] =>
    (st, ofOptSpec impl (do
      let i ← parseHex item
      let b ← parseHex blk
      let n ← nonce.toNat?
      some (toHex (shortId h256 i b n))))
  | ["jhex", kind, hex] =>
    (st, ofOpt impl ((parseHex hex).bind fun s => runJHex kind s false))
  | ["jhex", kind, hex, flag] =>
    (st, ofOpt impl ((parseHex hex).bind fun s => runJHex kind s (flag == "1")))
  | ["jopfin", a, b, c, d, e, f, g, h] =>
    (st, ofOpt impl (some (showFin3 (GV.SerJson.outputPrintableFinish
      ⟨a == "1", b == "1", c == "1", d == "1", e == "1", f == "1", g == "1", h == "1"⟩))))
  | ["jrp", "none"] => (st, ofOpt impl (some (showField (GV.SerJson.rangeProofHelper none))))
  | ["jrp", hex] =>
    (st, ofOpt impl ((parseHex hex).map fun s => showField (GV.SerJson.rangeProofHelper (some s))))
  | ["jnum", hex] =>
    (st, ofOpt impl ((parseHex hex).map fun s => match GV.SerJson.parseU64 s with
      | some n => s!"ok {n}"
      | none => "err"))
  | ["implcodecs"] => (st, ofOpt impl (some runImplCodecs))
  | ["fromvec", hex] =>
    (st, ofOpt impl ((parseHex hex).map fun bs => toHex (hashFromVec bs)))
  | _ => (st, .unknown)

end GV.Drv.SerD
