import GrinVerif.Drv.Common
import GrinVerif.Model.Kv
/-! Driver glue for the `kv` domain (property C18): folds the model `GV.Kv.St` over the op lines
of `harness/src/bin/kv.rs` and recomputes every answer.

Reads (`get`, `exists`, `iter`, `read-outside …`, `it-next`, `obs`) and the success of writes /
commits are values the property itself fixes (textbook nested-transaction map; the model's read
functions are proven equal to that specification in `Props/C18.lean`), so they are compared with
`cmpSpec`.  Error answers on malformed keys / unknown databases are internal observables
(`cmpModel`). -/
namespace GV.Drv.KvD
open GV GV.Drv GV.Kv

structure St where
  m : Kv.St := {}
  /-- registered databases (model ids: 0 = default, p+1 = `Some(p)`) -/
  dbs : List Nat := []
  /-- remaining items of the snapshot iterator held by the other thread -/
  held : Option (List (Bytes × Val)) := none

def parseDb (s : String) : Option Nat :=
  if s = "def" then some 0 else (nat? s).map (· + 1)

def showDb (d : Nat) : String := if d = 0 then "def" else toString (d - 1)

def fnv32 (b : Bytes) : Nat :=
  b.foldl (fun h x => ((h ^^^ x) * 16777619) % 4294967296) 0x811c9dc5

def hex8 (n : Nat) : String :=
  String.ofList ((List.range 8).map fun i => hexChar (n / 16^(7 - i) % 16))

/-- values longer than 48 bytes are shown as length + FNV-1a-32 -/
def showVal (v : Bytes) : String :=
  if v.length > 48 then s!"L{v.length}:{hex8 (fnv32 v)}" else toHex v

/-- value token: hex, or `r<byte>x<len>` for a run of one byte -/
def parseVal (s : String) : Option Bytes :=
  if s.startsWith "r" then
    match ((s.drop 1).toString.splitOn "x") with
    | [b, n] => match parseHex b, nat? n with
      | some [x], some n => some (List.replicate n x)
      | _, _ => none
    | _ => none
  else parseHex s

def showItems (l : List (Bytes × Val)) : String :=
  "[" ++ ",".intercalate (l.map fun e => toHex e.1 ++ "=" ++ showVal e.2) ++ "]"

def showGet : Option Val → String
  | some v => "some:" ++ showVal v
  | none => "none"

def showRec (o : Option Val) : String :=
  match o with
  | none => "none"
  | some b => match decRec b with
    | some (tag, body) => s!"rec:{tag}:{showVal body}"
    | none => "err"

def showDump (t : Tbl) : String :=
  "[" ++ ",".intercalate (t.map fun e => showDb e.1.1 ++ ":" ++ toHex e.1.2 ++ "=" ++ showVal e.2) ++ "]"

/-- `Store::get_db`: unknown db key → `OtherErr`; LMDB: empty key → `MDB_BAD_VALSIZE` -/
def readOk (st : St) (k : Key) : Bool := st.dbs.contains k.1 && 0 < k.2.length
/-- puts additionally refuse keys longer than 511 bytes -/
def writeOk (st : St) (k : Key) : Bool := st.dbs.contains k.1 && validKey k.2

def verdictErr (impl : String) : Verdict := cmpModel "err" impl

/-- `DatabaseIterator` over table `t`.  Small tables run the paged loop of the model
(`iterPaged PAGE`, one `tget` per key like the Rust `db.get` per key - quadratic on lists);
big tables use `iterSpec`, which `GV.Kv.iterPaged_eq_spec` proves equal on sorted tables
(sortedness is the invariant `GV.Props.C18.wf_run`). -/
def iterOf (t : Tbl) (db : Nat) : List (Bytes × Val) :=
  if t.length ≤ 2500 then iterPaged PAGE t db else iterSpec t db

def doWrite (st : St) (k : Key) (v : Option Val) (impl : String) : St × Verdict :=
  let ok := match v with | some _ => writeOk st k | none => readOk st k
  if !ok then (st, verdictErr impl)
  else if st.m.stack.isEmpty then (st, .unknown)
  else
    let op := match v with | some v => Op.put k v | none => Op.del k
    ({ st with m := step st.m op }, cmpSpec "ok" impl)

def handle (st : St) (args : List String) (impl : String) : St × Verdict :=
  match args with
  | ["new", dbs] =>
    let inner := ((dbs.drop 1).dropEnd 1).toString
    match (inner.splitOn ",").mapM parseDb with
    | some l => ({ m := {}, dbs := l, held := none }, .ok)
    | none => (st, .unknown)
  | ["begin"] =>
    if st.m.stack.isEmpty then ({ st with m := step st.m .begin }, cmpSpec "ok" impl) else (st, .unknown)
  | ["child"] =>
    if st.m.stack.isEmpty then (st, .unknown) else ({ st with m := step st.m .child }, cmpSpec "ok" impl)
  | ["commit"] =>
    if st.m.stack.isEmpty then (st, .unknown) else ({ st with m := step st.m .commit }, cmpSpec "ok" impl)
  | ["drop"] =>
    if st.m.stack.isEmpty then (st, .unknown) else ({ st with m := step st.m .drop }, cmpSpec "ok" impl)
  | ["crash", _] => ({ st with m := crash st.m, held := none }, .ok)
  | ["reopen"] =>
    if st.m.stack.isEmpty then ({ st with held := none }, cmpSpec "ok" impl) else (st, .unknown)
  | ["put", db, k, v] => match parseDb db, parseHex k, parseVal v with
    | some db, some k, some v => doWrite st (db, k) (some v) impl
    | _, _, _ => (st, .unknown)
  | ["putser", db, k, tag, body] => match parseDb db, parseHex k, nat? tag, parseHex body with
    | some db, some k, some tag, some body => doWrite st (db, k) (some (encRec tag body)) impl
    | _, _, _, _ => (st, .unknown)
  | ["del", db, k] => match parseDb db, parseHex k with
    | some db, some k => doWrite st (db, k) none impl
    | _, _ => (st, .unknown)
  | ["get", db, k] => match parseDb db, parseHex k with
    | some db, some k =>
      if readOk st (db, k) then (st, cmpSpec (showGet (bget st.m (db, k))) impl) else (st, verdictErr impl)
    | _, _ => (st, .unknown)
  | ["getrec", db, k] => match parseDb db, parseHex k with
    | some db, some k =>
      if readOk st (db, k) then (st, cmpModel (showRec (bget st.m (db, k))) impl) else (st, verdictErr impl)
    | _, _ => (st, .unknown)
  | ["exists", db, k] => match parseDb db, parseHex k with
    | some db, some k =>
      if readOk st (db, k) then (st, cmpSpec (showBool (bexists st.m (db, k))) impl) else (st, verdictErr impl)
    | _, _ => (st, .unknown)
  | ["iter", db] => match parseDb db with
    | some db =>
      if st.dbs.contains db then (st, cmpSpec (showItems (iterOf (view st.m) db)) impl) else (st, verdictErr impl)
    | none => (st, .unknown)
  | ["read-outside", _who, "get", db, k] => match parseDb db, parseHex k with
    | some db, some k =>
      if readOk st (db, k) then (st, cmpSpec (showGet (sget st.m (db, k))) impl) else (st, verdictErr impl)
    | _, _ => (st, .unknown)
  | ["read-outside", _who, "getrec", db, k] => match parseDb db, parseHex k with
    | some db, some k =>
      if readOk st (db, k) then (st, cmpModel (showRec (sget st.m (db, k))) impl) else (st, verdictErr impl)
    | _, _ => (st, .unknown)
  | ["read-outside", _who, "exists", db, k] => match parseDb db, parseHex k with
    | some db, some k =>
      if readOk st (db, k) then (st, cmpSpec (showBool (sexists st.m (db, k))) impl) else (st, verdictErr impl)
    | _, _ => (st, .unknown)
  | ["read-outside", _who, "iter", db] => match parseDb db with
    | some db =>
      if st.dbs.contains db then (st, cmpSpec (showItems (iterOf st.m.committed db)) impl) else (st, verdictErr impl)
    | none => (st, .unknown)
  | ["it-open", _who, db] => match parseDb db with
    | some db =>
      if st.dbs.contains db then ({ st with held := some (iterOf st.m.committed db) }, cmpSpec "ok" impl)
      else (st, verdictErr impl)
    | none => (st, .unknown)
  | ["it-next", _who, n] => match nat? n, st.held with
    | some n, some l => ({ st with held := some (l.drop n) }, cmpSpec (showItems (l.take n)) impl)
    | _, _ => (st, .unknown)
  | ["it-close", _who] => ({ st with held := none }, cmpSpec "ok" impl)
  | ["needs-resize", m, u, c] => match nat? m, nat? u, nat? c with
    | some m, some u, some c =>
      let r := needsResize m u c
      (st, cmpModel s!"{showBool r.1} {r.2}" impl)
    | _, _, _ => (st, .unknown)
  | ["obs"] => (st, cmpSpec (showDump st.m.committed) impl)
  | _ => (st, .unknown)

end GV.Drv.KvD
