import GrinVerif.Drv.Common
import GrinVerif.Model.Kv
import GrinVerif.Model.KvSpace
import GrinVerif.Model.KvResize
import GrinVerif.Model.TxCount
import GrinVerif.Model.KvGate
import GrinVerif.Model.ChainStore
import GrinVerif.Model.KvMigrate
import GrinVerif.Model.KvF32
/-! Driver glue for the `kv` domain (property C18): folds the model `GV.Kv.St` over the op lines
of `harness/src/bin/kv.rs` and recomputes every answer.

Reads (`get`, `exists`, `iter`, `read-outside …`, `it-next`, `obs`) and the success of writes /
commits are values the property itself fixes (textbook nested-transaction map; the model's read
functions are proven equal to that specification in `Props/C18.lean`), so they are compared with
`cmpSpec`.  Error answers on malformed keys / unknown databases are internal observables
(`cmpModel`).

Typed layer (`kv cs-new`, `kv cs-obj`, `kv cs …`, `kv cs-out …`; run `cstore` of the harness):
`chain::store::ChainStore` and its `Batch` on the same model state through the typed functions
of `Model/ChainStore.lean` (each a get/put on a determined key, `typed_getters_refine_kv`).  A
typed object is declared once (`cs-obj name key aux value`: the real hash, for headers the real
`prev_hash`, the real serialisation) and referred to by name afterwards.

`kv rz-new <map> <chunk>` / `kv rz-batch same=<k> other=<j> settled=<0|1> used=<bytes> => <map>`:
run `selfiter` — one `Store::batch()` … commit, issued while the calling thread holds `k` iterators
of its own and the other thread `j`; `settled=1`: everything had been closed and the waiter thread
given time before the call.  The driver folds the resize protocol model with its guard flags
(`Model/KvResize.lean`, `resize_guard_released`, `postponed_resize_happens`) over these lines
and predicts the map size the meta page shows after the commit (`dropped`: the batch was dropped,
nothing observable).  With `settled=0` the call races with a pending waiter thread: both orders
are computed and, when they differ, either is accepted.

`kv txseq <threads> <e0,e0,l0,q,…> => completed:resizes=<k>`: run `selfiter`, nesting cases — the
sequence of `enter_tx` / `TxCounter::drop` per thread (`e<t>` / `l<t>`), resize request (`q`) and
resize (`w`) the harness really went through, every operation having returned; replayed on the
counter model with per-thread nesting depth (`Model/TxCount.lean`, `nested_depth_tracks_open`,
`holder_never_waits`): the model must be able to take every step and end with nothing open.

`kv g-new` / `g-put key r<bb>x<len>` / `g-del key` / `g-get who key` / `g-iter`: run `growth` — a
store growing through many resizes (tens of MiB); the values are runs of one byte and are kept
by the driver only as their fingerprint (length + FNV-1a-32, computed without materialising the
value), in a table sorted by key bytes: every sampled read and the final full iteration are
compared; the map sizes of that run go through `rz-batch` (resize protocol model,
`unbounded_growth_stays_aligned_and_sufficient`) and `needs-resize`.

`kv gate-op <who> <kind> nested=<0|1> pending=<0|1> => ok|err:<kind>` and `kv gate-wait … =>
blocked|direct|early|failed`: run `slowreader` — an operation (`exists`, `get_ser`, `iter`, `batch`) issued by
a thread that is (`nested=1`) / is not inside a transaction of its own while a resize is / is not
pending behind a transaction held open for seconds.  The model answer is one evaluation of the gate
of the demanded shape (`GV.KvGate.gateOpOutcome enterExits`; `Props/C18.lean` `gate_has_no_failure_exit`
pins the exits regenerated from the source to `enterExits`): the operation returns its sequential
answer (`ok`, property-fixed: `cmpSpec`), after waiting for the release iff it is outside and the
resize pending (`cmpModel`).  `rz-batch … => unobserved`: the meta page was not read after this batch.

`kv rh-trigger <variant> reader=<0|1> used=<bytes> map=<bytes> chunk=<bytes> => waited|direct` and
`kv rh-map … => <map size>`: run `rehandle` — a `Store` handle opened on an environment that is
already registered while another handle's iterator is open; the batch through the new handle that
finds the resize due must wait for the reader (`Model/KvResize.lean` `storeNewEnv` / `rehandleTrigger`,
`Props/C18Handles.lean`).

`kv space <map> <last_pg> <need> <chunk>`: run `frag` — the batch just executed could allocate at
most `need` pages; if they fit behind the last page of the map `needs_resize` leaves, the batch
must have succeeded (`tail_fit_never_fails`), whatever the fragmentation. -/
namespace GV.Drv.KvD
open GV GV.Drv GV.Kv

structure St where
  m : Kv.St := {}
  /-- registered databases (model ids: 0 = default, p+1 = `Some(p)`) -/
  dbs : List Nat := []
  /-- remaining items of the snapshot iterator held by the other thread -/
  held : Option (List (Bytes × Val)) := none
  /-- typed objects declared by `cs-obj`: name ↦ (key, aux, serialisation) -/
  objs : List (String × (Bytes × Bytes × Val)) := []
  /-- serialised `Tip` of the genesis header (`ChainStore::pibd_head` falls back to it) -/
  genTip : Bytes := []
  /-- run `growth`: key bytes ↦ fingerprint of the committed value, sorted by key -/
  gtab : List (Bytes × String) := []
  /-- resize protocol state of run `selfiter` -/
  rz : Kv.REnv := { mapSize := 0, chunk := 1 }
  /-- run `migrate`: records of the old environment directory (`none` = no such directory) -/
  old : Option (List (Bytes × Val)) := none
  /-- run `shared`: digest of what the OTHER store handle of the environment holds -/
  other : String := ""

def parseDb (s : String) : Option Nat :=
  if s = "def" then some 0 else (nat? s).map (· + 1)

def showDb (d : Nat) : String := if d = 0 then "def" else toString (d - 1)

def fnv32 (b : Bytes) : Nat :=
  b.foldl (fun h x => ((h ^^^ x) * 16777619) % 4294967296) 0x811c9dc5

def hex8 (n : Nat) : String :=
  String.ofList ((List.range 8).map fun i => hexChar (n / 16^(7 - i) % 16))

/-- values longer than 48 bytes are shown as length + FNV-1a-32 -/
def showVal (v : Bytes) : String :=
  if v.length > 48 then s!"L{v.length}:{hex8 (fnv32 v)}" else toHex v

/-- value token: hex, or `r<byte>x<len>` for a run of one byte -/
def parseVal (s : String) : Option Bytes :=
  if s.startsWith "r" then
    match ((s.drop 1).toString.splitOn "x") with
    | [b, n] => match parseHex b, nat? n with
      | some [x], some n => some (List.replicate n x)
      | _, _ => none
    | _ => none
  else parseHex s

def showItems (l : List (Bytes × Val)) : String :=
  "[" ++ ",".intercalate (l.map fun e => toHex e.1 ++ "=" ++ showVal e.2) ++ "]"

def showGet : Option Val → String
  | some v => "some:" ++ showVal v
  | none => "none"

def showRec (o : Option Val) : String :=
  match o with
  | none => "none"
  | some b => match decRec b with
    | some (tag, body) => s!"rec:{tag}:{showVal body}"
    | none => "err"

def showDump (t : Tbl) : String :=
  "[" ++ ",".intercalate (t.map fun e => showDb e.1.1 ++ ":" ++ toHex e.1.2 ++ "=" ++ showVal e.2) ++ "]"

/-- `Store::get_db`: unknown db key → `OtherErr`; LMDB: empty key → `MDB_BAD_VALSIZE` -/
def readOk (st : St) (k : Key) : Bool := st.dbs.contains k.1 && 0 < k.2.length
/-- puts additionally refuse keys longer than 511 bytes -/
def writeOk (st : St) (k : Key) : Bool := st.dbs.contains k.1 && validKey k.2

def verdictErr (impl : String) : Verdict := cmpModel "err" impl

/-- `DatabaseIterator` over table `t`.  Small tables run the paged loop of the model
(`iterPaged PAGE`, one `tget` per key like the Rust `db.get` per key - quadratic on lists);
big tables use `iterSpec`, which `GV.Kv.iterPaged_eq_spec` proves equal on sorted tables
(sortedness is the invariant `GV.Props.C18.wf_run`). -/
def iterOf (t : Tbl) (db : Nat) : List (Bytes × Val) :=
  if t.length ≤ 2500 then iterPaged PAGE t db else iterSpec t db

def doWrite (st : St) (k : Key) (v : Option Val) (impl : String) : St × Verdict :=
  let ok := match v with | some _ => writeOk st k | none => readOk st k
  if !ok then (st, verdictErr impl)
  else if st.m.stack.isEmpty then (st, .unknown)
  else
    let op := match v with | some v => Op.put k v | none => Op.del k
    ({ st with m := step st.m op }, cmpSpec "ok" impl)


/-! ### typed layer -/
open ChainStore in
def showR : R → String
  | .notFound => "none"
  | .err => "err"
  | .val v => "some:" ++ showVal v
  | .num n => s!"some:{n}"

open ChainStore in
/-- typed key of a `cs get/save <kind> <key>` line -/
def tkeyOf (kind : String) (k : Bytes) : Option TKey :=
  match kind with
  | "head" => some .head
  | "tail" => some .tail
  | "header-head" => some .headerHead
  | "pibd-head" => some .pibdHead
  | "header" => some (.header k)
  | "block" => some (.block k)
  | "sums" => some (.sums k)
  | "spent" => some (.spent k)
  | "outpos-height" => some (.outPos k)
  | _ => none

def showKeys (l : List (Bytes × Val)) : String := "[" ++ ",".intercalate (l.map fun e => toHex e.1) ++ "]"

open ChainStore in
/-- typed getters; `inb` = through the innermost open batch, else through the plain `ChainStore` -/
def csRead (st : St) (inb : Bool) (args : List String) : Option String :=
  let get (k : TKey) : R := if inb then getB st.m k else getS st.m k
  match args with
  | ["get", kind, k] => match parseHex k with
    | some kb => (tkeyOf kind kb).map (fun tk => showR (get tk))
    | none => none
  | ["head-header"] => some (showR (if inb then headHeaderB st.m else headHeaderS st.m))
  | ["prev", name] => (st.objs.lookup name).map fun o =>
      showR (if inb then prevHeaderB st.m o.2.1 else prevHeaderS st.m o.2.1)
  | ["prev-skip", name] => (st.objs.lookup name).map fun o =>
      match (if inb then prevHeaderB st.m o.2.1 else prevHeaderS st.m o.2.1) with
      | .val v => (match headerHeight v with | some h => s!"some:h{h}" | none => "err")
      | r => showR r
  | ["header-skip", k] => (parseHex k).map fun kb =>
      match get (.header kb) with
      | .val v => (match headerHeight v with | some h => s!"some:h{h}" | none => "err")
      | r => showR r
  | ["block-exists", k] => (parseHex k).map fun kb =>
      showBool (if inb then blockExistsB st.m kb else blockExistsS st.m kb)
  | ["outpos", k] => (parseHex k).map fun kb =>
      showR (if inb then outputPosB st.m kb else outputPosS st.m kb)
  | ["pibd-head"] => if inb then none else some (showR (pibdHeadS st.m st.genTip))
  | ["blocks-iter"] => if inb then some (showKeys (iterOf (view st.m) DB_BLOCK)) else none
  | ["outpos-iter"] => if inb then some (showItems (iterOf (view st.m) DB_OUTPOS)) else none
  | _ => none

open ChainStore in
/-- typed savers / deleters on the innermost open batch -/
def csWrite (st : St) (args : List String) : Option TOp :=
  match args with
  | ["save", kind, k, name] => match parseHex k, st.objs.lookup name with
    | some kb, some o =>
      -- headers and blocks are stored under their own hash, whatever the line says
      let kb := if kind = "header" || kind = "block" then o.1 else kb
      (tkeyOf kind kb).map (fun tk => TOp.save tk o.2.2)
    | _, _ => none
  | ["delete-block", k] => (parseHex k).map TOp.deleteBlock
  | ["delete-outpos", k] => (parseHex k).map TOp.deleteOutPos
  | ["delete-raw", db, k] => match parseDb db, parseHex k with
    | some db, some kb => if st.dbs.contains db && 0 < kb.length then some (TOp.deleteRaw (db, kb)) else none
    | _, _ => none
  | _ => none

def handleCs (st : St) (args : List String) (impl : String) : St × Verdict :=
  match csWrite st args with
  | some op =>
    if st.m.stack.isEmpty then (st, .unknown)
    else ({ st with m := ChainStore.tstep st.m op }, cmpSpec "ok" impl)
  | none =>
    if st.m.stack.isEmpty then (st, .unknown)
    else match csRead st true args with
      | some r => (st, cmpSpec r impl)
      | none => (st, .unknown)

/-- FNV-1a-32 of `len` copies of byte `b` without building the list -/
def fnvRun (b : Nat) : Nat → Nat → Nat
  | 0, h => h
  | n+1, h => fnvRun b n (((h ^^^ b) * 16777619) % 4294967296)

/-- fingerprint (what `showVal` prints) of a value token -/
def fpOfTok (s : String) : Option String :=
  if s.startsWith "r" then
    match ((s.drop 1).toString.splitOn "x") with
    | [b, n] => match parseHex b, nat? n with
      | some [x], some n =>
        if n > 48 then some s!"L{n}:{hex8 (fnvRun x n 0x811c9dc5)}" else some (toHex (List.replicate n x))
      | _, _ => none
    | _ => none
  else (parseHex s).map showVal

def gInsert (k : Bytes) (v : String) : List (Bytes × String) → List (Bytes × String)
  | [] => [(k, v)]
  | (k', v') :: r =>
    if bytesLt k k' then (k, v) :: (k', v') :: r
    else if k = k' then (k, v) :: r
    else (k', v') :: gInsert k v r

def kvArg (args : List String) (k : String) : Option Nat :=
  ((args.find? (·.startsWith (k ++ "="))).map (fun a => (a.drop (k.length + 1)).toString)).bind String.toNat?

def handle (st : St) (args : List String) (impl : String) : St × Verdict :=
  match args with
  | ["g-new"] => ({ st with gtab := [] }, .ok)
  | ["g-put", k, v] => match parseHex k, fpOfTok v with
    | some kb, some fp => ({ st with gtab := gInsert kb fp st.gtab }, cmpSpec "ok" impl)
    | _, _ => (st, .unknown)
  | ["g-del", k] => match parseHex k with
    | some kb => ({ st with gtab := st.gtab.filter (fun e => e.1 != kb) }, cmpSpec "ok" impl)
    | none => (st, .unknown)
  | ["g-get", _who, k] => match parseHex k with
    | some kb => (st, cmpSpec (match st.gtab.lookup kb with | some fp => "some:" ++ fp | none => "none") impl)
    | none => (st, .unknown)
  | ["g-iter"] =>
    (st, cmpSpec ("[" ++ ",".intercalate (st.gtab.map fun e => toHex e.1 ++ "=" ++ e.2) ++ "]") impl)
  | ["txseq", n, toks] => match nat? n, (toks.splitOn ",").mapM GV.TxCount.parseAct with
    | some n, some acts => (st, cmpModel (GV.TxCount.replay n acts) impl)
    | _, _ => (st, .unknown)
  | ["rz-new", m, c] => match nat? m, nat? c with
    | some m, some c => ({ st with rz := rinit m c }, .ok)
    | _, _ => (st, .unknown)
  | "rz-batch" :: rest =>
    match kvArg rest "same", kvArg rest "other", kvArg rest "settled", kvArg rest "used" with
    | some same, some other, some settled, some used =>
      -- before the call everything of the previous batch is closed
      let e0 := { st.rz with openTxs := 0 }
      -- the waiter (if pending) polls before the call ...
      let a := batchStart (waiterStep e0) used same other
      -- ... or the call finds the guard busy and `enter_tx` waits for the waiter (only foreign or no
      -- transactions open), or proceeds nested on the old map (own iterator open)
      let b := if settled = 1 then a else
        let r := batchStart e0 used same other
        if same = 0 then waiterStep { r with openTxs := 0 } else r
      if impl = "dropped" || impl = "unobserved" then ({ st with rz := a }, .ok)
      else if toString a.mapSize = impl then ({ st with rz := a }, .ok)
      else if toString b.mapSize = impl then ({ st with rz := b }, .ok)
      else ({ st with rz := a }, .diff (toString a.mapSize))
    | _, _, _, _ => (st, .unknown)
  -- run `rehandle`: a handle opened on the registered environment while `reader` read transactions
  -- of another handle are open; then `Store::batch()` through the NEW handle at usage `used`.
  -- `waited` iff the resize is due and a reader is open (`Props/C18Handles.lean`
  -- `new_handle_defers_under_reader` / `new_handle_resizes_at_once_when_idle`): the value the
  -- property fixes (no resize under an open transaction) - `cmpSpec`
  -- run `envkeys`: one environment registered under key 0 / directory 0; `Store::new` on a spelling
  -- with the same / another key that resolves to the same / another directory
  | "envkey" :: _name :: rest => match kvArg rest "samekey", kvArg rest "samedir" with
    | some sk, some sd =>
      let m : EnvMapD := if _name = "after-close" then [] else [(0, 0, { gate := rinit 0 0 })]
      let o := storeNewOutcome m (if sk = 1 then 0 else 1) (if sd = 1 then 0 else 1)
      (st, cmpModel (match o with | .shared => "shared" | .refused => "refused" | .separate => "separate") impl)
    | _, _ => (st, .unknown)
  | "rh-trigger" :: _variant :: rest =>
    match kvArg rest "reader", kvArg rest "used", kvArg rest "map", kvArg rest "chunk" with
    | some reader, some used, some map, some chunk =>
      let m : EnvMap := [(0, { gate := { mapSize := map, chunk := chunk, openTxs := reader }, stores := 1 })]
      (st, cmpSpec (if rehandleTrigger m 0 used then "waited" else "direct") impl)
    | _, _, _, _ => (st, .unknown)
  | "rh-map" :: _variant :: rest =>
    match kvArg rest "reader", kvArg rest "used", kvArg rest "map", kvArg rest "chunk" with
    | some reader, some used, some map, some chunk =>
      let m : EnvMap := [(0, { gate := { mapSize := map, chunk := chunk, openTxs := reader }, stores := 1 })]
      -- the trigger's own commit and the parked writers come after the resize: the meta page shows
      -- the planned size unless one of them already found the next resize due (not in this run)
      (st, cmpModel (toString (rehandleMap m 0 used)) impl)
    | _, _, _, _ => (st, .unknown)
  | "gate-op" :: _who :: _kind :: rest => match kvArg rest "nested", kvArg rest "pending" with
    | some n, some p => (st, cmpSpec (GV.KvGate.gateOpOutcome GV.KvGate.enterExits (n = 1) (p = 1)).1 impl)
    | _, _ => (st, .unknown)
  | "gate-wait" :: _who :: _kind :: rest => match kvArg rest "nested", kvArg rest "pending" with
    | some n, some p => (st, cmpModel (GV.KvGate.gateOpOutcome GV.KvGate.enterExits (n = 1) (p = 1)).2 impl)
    | _, _ => (st, .unknown)
  | ["cs-new", tip] => match parseHex tip with
    | some t => ({ m := {}, dbs := ChainStore.chainDbs, held := none, objs := [], genTip := t }, cmpSpec "ok" impl)
    | none => (st, .unknown)
  | ["cs-obj", name, k, aux, v] => match parseHex k, parseHex aux, parseHex v with
    | some kb, some ab, some vb => ({ st with objs := (name, (kb, ab, vb)) :: st.objs }, .ok)
    | _, _, _ => (st, .unknown)
  | "cs" :: rest => handleCs st rest impl
  | "cs-out" :: _who :: rest => match csRead st false rest with
    | some r => (st, cmpSpec r impl)
    | none => (st, .unknown)
  | ["space", m, lp, need, c] => match nat? m, nat? lp, nat? need, nat? c with
    | some m, some lp, some need, some c =>
      if spaceOk m lp need c then (st, cmpSpec "ok" impl) else (st, .ok)
    | _, _, _, _ => (st, .unknown)
  -- run `migrate` (Model/KvMigrate.lean): the one-time migration inside `Store::new`
  | ["mig_old", recs] =>
    let inner := ((recs.drop 1).dropEnd 1).toString
    let items := if inner = "" then [] else inner.splitOn ","
    let parsed := items.mapM fun it => match it.splitOn "=" with
      | [k, v] => match parseHex k, parseVal v with
        | some k, some v => some (k, v)
        | _, _ => none
      | _ => none
    match parsed with
    | some l => ({ st with old := some l }, .ok)
    | none => (st, .unknown)
  | ["mig_run"] =>
    let prefixes := (st.dbs.filter (· > 0)).map (· - 1)
    let (e, ok) := Kv.storeNew prefixes { tbl := st.m.committed, old := st.old }
    ({ st with m := { committed := e.tbl, stack := [] }, old := e.old }, cmpSpec (if ok then "ok" else "err") impl)
  | ["mig_crash", pt] =>
    let prefixes := (st.dbs.filter (· > 0)).map (· - 1)
    let c? : Option Kv.CrashAt := match pt with
      | "afterClear" => some .afterClear
      | "afterCommit" => some .afterCommit
      | "afterDelete" => some .afterDelete
      | _ => none
    match c? with
    | some c =>
      let e := Kv.storeNewCrash prefixes { tbl := st.m.committed, old := st.old } c
      ({ st with m := { committed := e.tbl, stack := [] }, old := e.old }, .ok)
    | none => (st, .unknown)
  -- run `deferred`: a resize that fell due at `(map, used)` and was deferred; whatever happened during
  -- the wait, afterwards the map is at least the planned size (`deferred_resize_sets_planned_size`),
  -- a whole number of chunks, and nothing failed
  | ["deferred", _holder, _n, mb, ub, c] => match nat? mb, nat? ub, nat? c with
    | some mb, some ub, some c =>
      let r := needsResize mb ub c
      match (impl.splitOn " ").map nat? with
      | [some after, some fails] =>
        if !r.1 then (st, .ok)
        else if after ≥ r.2 && after % c == 0 && fails == 0 then (st, .ok)
        else (st, .fail s!"map >= {r.2}, a multiple of {c}, 0 failures")
      | _ => (st, .unknown)
    | _, _, _ => (st, .unknown)
  -- run `shared`: the other handle's data must be what it wrote, whatever the migrating store does
  | ["other_set", d] => ({ st with other := d }, .ok)
  | ["other_obs"] => (st, cmpSpec st.other impl)
  | ["mig_olddir"] => (st, cmpSpec (if st.old.isSome then "present" else "gone") impl)
  | ["mig_size", tu, fu, c, mb] => match nat? tu, nat? fu, nat? c, nat? mb with
    | some tu, some fu, some c, some mb =>
      -- `to_used` is read by the harness before `Store::new` re-creates the databases and clears them:
      -- a few pages of slack; compared only when the slack cannot change the answer
      let lo := Kv.migrationMapSize tu fu c mb
      let hi := Kv.migrationMapSize (tu + 65536) fu c mb
      if lo = hi then (st, cmpModel (toString lo) impl) else (st, .ok)
    | _, _, _, _ => (st, .unknown)
  | ["new", dbs] =>
    let inner := ((dbs.drop 1).dropEnd 1).toString
    match (inner.splitOn ",").mapM parseDb with
    | some l => ({ m := {}, dbs := l, held := none }, .ok)
    | none => (st, .unknown)
  | ["begin"] =>
    if st.m.stack.isEmpty then ({ st with m := step st.m .begin }, cmpSpec "ok" impl) else (st, .unknown)
  | ["child"] =>
    if st.m.stack.isEmpty then (st, .unknown) else ({ st with m := step st.m .child }, cmpSpec "ok" impl)
  | ["commit"] =>
    if st.m.stack.isEmpty then (st, .unknown) else ({ st with m := step st.m .commit }, cmpSpec "ok" impl)
  | ["drop"] =>
    if st.m.stack.isEmpty then (st, .unknown) else ({ st with m := step st.m .drop }, cmpSpec "ok" impl)
  | ["crash", _] => ({ st with m := crash st.m, held := none }, .ok)
  | ["reopen"] =>
    if st.m.stack.isEmpty then ({ st with held := none }, cmpSpec "ok" impl) else (st, .unknown)
  | ["put", db, k, v] => match parseDb db, parseHex k, parseVal v with
    | some db, some k, some v => doWrite st (db, k) (some v) impl
    | _, _, _ => (st, .unknown)
  | ["putser", db, k, tag, body] => match parseDb db, parseHex k, nat? tag, parseHex body with
    | some db, some k, some tag, some body => doWrite st (db, k) (some (encRec tag body)) impl
    | _, _, _, _ => (st, .unknown)
  | ["del", db, k] => match parseDb db, parseHex k with
    | some db, some k => doWrite st (db, k) none impl
    | _, _ => (st, .unknown)
  | ["get", db, k] => match parseDb db, parseHex k with
    | some db, some k =>
      if readOk st (db, k) then (st, cmpSpec (showGet (bget st.m (db, k))) impl) else (st, verdictErr impl)
    | _, _ => (st, .unknown)
  | ["getrec", db, k] => match parseDb db, parseHex k with
    | some db, some k =>
      if readOk st (db, k) then (st, cmpModel (showRec (bget st.m (db, k))) impl) else (st, verdictErr impl)
    | _, _ => (st, .unknown)
  | ["exists", db, k] => match parseDb db, parseHex k with
    | some db, some k =>
      if readOk st (db, k) then (st, cmpSpec (showBool (bexists st.m (db, k))) impl) else (st, verdictErr impl)
    | _, _ => (st, .unknown)
  | ["iter", db] => match parseDb db with
    | some db =>
      if st.dbs.contains db then (st, cmpSpec (showItems (iterOf (view st.m) db)) impl) else (st, verdictErr impl)
    | none => (st, .unknown)
  | ["read-outside", _who, "get", db, k] => match parseDb db, parseHex k with
    | some db, some k =>
      if readOk st (db, k) then (st, cmpSpec (showGet (sget st.m (db, k))) impl) else (st, verdictErr impl)
    | _, _ => (st, .unknown)
  | ["read-outside", _who, "getrec", db, k] => match parseDb db, parseHex k with
    | some db, some k =>
      if readOk st (db, k) then (st, cmpModel (showRec (sget st.m (db, k))) impl) else (st, verdictErr impl)
    | _, _ => (st, .unknown)
  | ["read-outside", _who, "exists", db, k] => match parseDb db, parseHex k with
    | some db, some k =>
      if readOk st (db, k) then (st, cmpSpec (showBool (sexists st.m (db, k))) impl) else (st, verdictErr impl)
    | _, _ => (st, .unknown)
  | ["read-outside", _who, "iter", db] => match parseDb db with
    | some db =>
      if st.dbs.contains db then (st, cmpSpec (showItems (iterOf st.m.committed db)) impl) else (st, verdictErr impl)
    | none => (st, .unknown)
  | ["it-open", _who, db] => match parseDb db with
    | some db =>
      if st.dbs.contains db then ({ st with held := some (iterOf st.m.committed db) }, cmpSpec "ok" impl)
      else (st, verdictErr impl)
    | none => (st, .unknown)
  | ["it-next", _who, n] => match nat? n, st.held with
    | some n, some l => ({ st with held := some (l.drop n) }, cmpSpec (showItems (l.take n)) impl)
    | _, _ => (st, .unknown)
  | ["it-close", _who] => ({ st with held := none }, cmpSpec "ok" impl)
  | ["needs-resize", m, u, c] => match nat? m, nat? u, nat? c with
    | some m, some u, some c =>
      -- the code's own f32 arithmetic (`Model/KvF32.lean`); equal to the exact-rational `needsResize`
      -- of the theorems for every map below 64 GiB (run `f32probe`)
      let r := F32.needsResizeF32 m u c
      (st, cmpModel s!"{showBool r.1} {r.2}" impl)
    | _, _, _ => (st, .unknown)
  -- run `f32probe`: the hardware's f32 against the model's
  | ["f32-gt", pct, u, m] => match nat? pct, nat? u, nat? m with
    | some 90, some u, some m => (st, cmpModel (showBool (F32.gt90 u m)) impl)
    | some 65, some u, some m => (st, cmpModel (showBool (F32.gt65 u m)) impl)
    | _, _, _ => (st, .unknown)
  | ["f32-bits", n] => match nat? n with
    | some n => (st, cmpModel (toString (F32.bits (F32.ofNat n))) impl)
    | none => (st, .unknown)
  | ["f32-div", a, b] => match nat? a, nat? b with
    | some a, some b => (st, cmpModel (toString (F32.bits (F32.div (F32.ofNat a) (F32.ofNat b)))) impl)
    | _, _ => (st, .unknown)
  | ["f32-needs", m, u, c] => match nat? m, nat? u, nat? c with
    | some m, some u, some c =>
      let r := F32.needsResizeF32 m u c
      (st, cmpModel s!"{showBool r.1} {r.2}" impl)
    | _, _, _ => (st, .unknown)
  | ["obs"] => (st, cmpSpec (showDump st.m.committed) impl)
  | _ => (st, .unknown)

end GV.Drv.KvD
